import GmQuic.Lemmas.NetDg
/-!
C02, DATAGRAM clause, part 2: the simulation relation between one direction of the abstract stack (`Net`) and a C19
history (`Datagram.Run`), its preservation by every `Net` op (each op is matched by zero or one C19 op), and the
refinement theorem for whole histories.
-/
namespace GmQuic.Net
open GmQuic.RecvBuf (Bytes)
open GmQuic
open GmQuic.Datagram (Pkt Loaded Run Frame Sender Receiver)

theorem map_eraseIdx {α β : Type} (f : α → β) (l : List α) : ∀ k, (l.map f).eraseIdx k = (l.eraseIdx k).map f := by
  induction l with
  | nil => intro k; rfl
  | cons a l ih =>
    intro k
    cases k with
    | zero => rfl
    | succ k => simp only [List.map_cons, List.eraseIdx_cons_succ, ih]

theorem mem_eraseIdx_of_ne {α : Type} (l : List α) : ∀ (k : Nat) (p q : α), l[k]? = some p → q ∈ l → q ≠ p →
    q ∈ l.eraseIdx k := by
  induction l with
  | nil => intro k p q _ hq; simp at hq
  | cons a l ih =>
    intro k p q hk hq hne
    cases k with
    | zero =>
      simp only [List.getElem?_cons_zero, Option.some.injEq] at hk
      subst hk
      simp only [List.eraseIdx_cons_zero]
      rcases List.mem_cons.mp hq with h | h
      · exact absurd h hne
      · exact h
    | succ k =>
      simp only [List.getElem?_cons_succ] at hk
      simp only [List.eraseIdx_cons_succ]
      rcases List.mem_cons.mp hq with h | h
      · subst h; exact List.mem_cons_self ..
      · exact List.mem_cons_of_mem _ (ih k p q hk h hne)

/-- SIMULATION: the C19 history state `r` is direction `v` of the abstract stack; `L` = the `Net` packets behind the
in-flight packets of `r` (every sent, datagram-carrying, not yet dispatched packet is among them). -/
structure Sim (B : Nat) (v : View) (L : List Packet) (r : Run) : Prop where
  pm : r.peerMax = B + 9
  lm : r.rcv.localMax = B + 9
  sc : r.snd.closed = none
  rc : r.rcv.closed = none
  acc : r.accepted = v.dgSent
  arr : r.arrived = v.dgRcvd
  wire : r.wire.flatMap Datagram.Pkt.payloads = dgsOf v.sent
  deliv : r.delivered.flatMap Datagram.Pkt.payloads = dgsOf v.delivered
  queue : dgsOf v.sent ++ r.snd.queue = v.dgSent
  net : r.net = L.map toPkt
  inflight : ∀ q ∈ v.sent, hasDg q = true → q.pn ∉ v.delivered.map (·.pn) → q ∈ L
  qsmall : ∀ x ∈ r.snd.queue, x.length < B
  lsmall : ∀ q ∈ L, ∀ x ∈ dgOf q.frames, x.length < B
  /-- packet numbers of the sent packets increase -/
  sinc : (v.sent.map (·.pn)).Pairwise (· < ·)

theorem sim_init (B : Nat) : Sim B ⟨[], [], [], []⟩ [] (Run.config (B + 9) (B + 9)) := by
  constructor <;> simp [Run.config, dgsOf]

theorem hasDg_false {p : Packet} (h : hasDg p = false) : dgOf p.frames = [] := by
  simp only [hasDg, Bool.not_eq_false'] at h
  exact List.isEmpty_iff.mp h

theorem hasDg_true {p : Packet} (h : hasDg p = true) : dgOf p.frames ≠ [] := by
  intro hn
  simp [hasDg, hn] at h

theorem sim_dgSend {B : Nat} {v : View} {L : List Packet} {r : Run} (h : Sim B v L r)
    (x : Bytes) (hx : x.length < B) :
    Sim B { v with dgSent := v.dgSent ++ [x] } L (r.step (.send x)) := by
  rw [step_send r x h.sc (by rw [h.pm]; omega)]
  refine { pm := h.pm, lm := h.lm, sc := h.sc, rc := h.rc, acc := ?_, arr := h.arr, wire := h.wire, deliv := h.deliv,
           queue := ?_, net := h.net, inflight := h.inflight, qsmall := ?_, lsmall := h.lsmall, sinc := h.sinc }
  · show r.accepted ++ [x] = v.dgSent ++ [x]
    rw [h.acc]
  · show dgsOf v.sent ++ (r.snd.queue ++ [x]) = v.dgSent ++ [x]
    rw [← List.append_assoc, h.queue]
  · intro y hy
    have hy' : y ∈ r.snd.queue ++ [x] := hy
    rcases List.mem_append.mp hy' with h1 | h1
    · exact h.qsmall y h1
    · rw [List.mem_singleton.mp h1]; exact hx

theorem sim_send {B : Nat} (hB : B ≤ 2 ^ 62) {v : View} {L : List Packet} {r : Run} (h : Sim B v L r)
    (p : Packet) (hp : (dgsOf v.sent ++ dgOf p.frames) <+: v.dgSent) (hpn : ∀ q ∈ v.sent, q.pn < p.pn) :
    ∃ dops L', Datagram.SmallOps dops ∧ Sim B { v with sent := v.sent ++ [p] } L' (dops.foldl Run.step r) := by
  obtain ⟨t, ht⟩ := hp
  have hq : r.snd.queue = dgOf p.frames ++ t := by
    have := h.queue
    rw [← ht, List.append_assoc] at this
    exact List.append_cancel_left this
  have hsent : dgsOf (v.sent ++ [p]) = dgsOf v.sent ++ dgOf p.frames := by rw [dgsOf_append, dgsOf_single]
  have hinc : ((v.sent ++ [p]).map (·.pn)).Pairwise (· < ·) := by
    rw [List.map_append, List.pairwise_append]
    refine ⟨h.sinc, List.pairwise_singleton _ _, ?_⟩
    intro a ha b hb
    obtain ⟨q, hq1, rfl⟩ := List.mem_map.mp ha
    simp only [List.map_cons, List.map_nil, List.mem_singleton] at hb
    subst hb
    exact hpn q hq1
  cases hd : hasDg p with
  | false =>
    have hnil := hasDg_false hd
    refine ⟨[], L, fun _ ho => by simp at ho, ?_⟩
    simp only [List.foldl_nil]
    refine { pm := h.pm, lm := h.lm, sc := h.sc, rc := h.rc, acc := h.acc, arr := h.arr, wire := ?_, deliv := h.deliv,
             queue := ?_, net := h.net, inflight := ?_, qsmall := h.qsmall, lsmall := h.lsmall, sinc := hinc }
    · show _ = dgsOf (v.sent ++ [p])
      rw [hsent, hnil, List.append_nil]; exact h.wire
    · show dgsOf (v.sent ++ [p]) ++ _ = v.dgSent
      rw [hsent, hnil, List.append_nil]; exact h.queue
    · intro q hq' hdq hnq
      have hq'' : q ∈ v.sent ++ [p] := hq'
      rcases List.mem_append.mp hq'' with h1 | h1
      · exact h.inflight q h1 hdq hnq
      · rw [List.mem_singleton.mp h1, hd] at hdq; exact absurd hdq (by simp)
  | true =>
    have hne := hasDg_true hd
    have hsm : ∀ x ∈ dgOf p.frames, x.length < B := fun x hx => h.qsmall x (by rw [hq]; exact List.mem_append_left _ hx)
    refine ⟨[.load (need (dgOf p.frames)) (dgOf p.frames).length], L ++ [p], fun _ ho => ?_, ?_⟩
    · simp only [List.mem_singleton] at ho; subst ho; trivial
    · simp only [List.foldl_cons, List.foldl_nil]
      rw [step_load r (dgOf p.frames) t hne h.sc hq (fun x hx => by have := hsm x hx; omega)]
      refine { pm := h.pm, lm := h.lm, sc := h.sc, rc := h.rc, acc := h.acc, arr := h.arr, wire := ?_,
               deliv := h.deliv, queue := ?_, net := ?_, inflight := ?_, qsmall := ?_, lsmall := ?_, sinc := hinc }
      · show (r.wire ++ [toPkt p]).flatMap Datagram.Pkt.payloads = dgsOf (v.sent ++ [p])
        rw [hsent, List.flatMap_append, h.wire]
        simp only [List.flatMap_cons, List.flatMap_nil, List.append_nil, payloads_toPkt]
      · show dgsOf (v.sent ++ [p]) ++ t = v.dgSent
        rw [hsent]; exact ht
      · show r.net ++ [toPkt p] = (L ++ [p]).map toPkt
        rw [h.net, List.map_append]; rfl
      · intro q hq' hdq hnq
        have hq'' : q ∈ v.sent ++ [p] := hq'
        rcases List.mem_append.mp hq'' with h1 | h1
        · exact List.mem_append_left _ (h.inflight q h1 hdq hnq)
        · exact List.mem_append_right _ h1
      · intro x hx
        exact h.qsmall x (by rw [hq]; exact List.mem_append_right _ hx)
      · intro q hq' x hx
        rcases List.mem_append.mp hq' with h1 | h1
        · exact h.lsmall q h1 x hx
        · rw [List.mem_singleton.mp h1] at hx; exact hsm x hx

theorem sim_deliver {B : Nat} (hB : B ≤ 2 ^ 62) {v : View} {L : List Packet} {r : Run} (h : Sim B v L r)
    (p : Packet) (hp : p ∈ v.sent) (hn : p.pn ∉ v.delivered.map (·.pn)) :
    ∃ dops L', Datagram.SmallOps dops ∧
      Sim B { v with delivered := v.delivered ++ [p], dgRcvd := v.dgRcvd ++ dgOf p.frames } L' (dops.foldl Run.step r) := by
  have hdel : dgsOf (v.delivered ++ [p]) = dgsOf v.delivered ++ dgOf p.frames := by rw [dgsOf_append, dgsOf_single]
  have hmono : ∀ q : Packet, q.pn ∉ (v.delivered ++ [p]).map (·.pn) → q.pn ∉ v.delivered.map (·.pn) ∧ q ≠ p := by
    intro q hq
    simp only [List.map_append, List.mem_append, List.map_cons, List.map_nil, List.mem_singleton, not_or] at hq
    exact ⟨hq.1, fun he => hq.2 (by rw [he])⟩
  cases hd : hasDg p with
  | false =>
    have hnil := hasDg_false hd
    refine ⟨[], L, fun _ ho => by simp at ho, ?_⟩
    simp only [List.foldl_nil]
    refine { pm := h.pm, lm := h.lm, sc := h.sc, rc := h.rc, acc := h.acc, arr := ?_, wire := h.wire, deliv := ?_,
             queue := h.queue, net := h.net, inflight := ?_, qsmall := h.qsmall, lsmall := h.lsmall, sinc := h.sinc }
    · show r.arrived = v.dgRcvd ++ dgOf p.frames
      rw [hnil, List.append_nil]; exact h.arr
    · show _ = dgsOf (v.delivered ++ [p])
      rw [hdel, hnil, List.append_nil]; exact h.deliv
    · intro q hq' hdq hnq
      exact h.inflight q hq' hdq (hmono q hnq).1
  | true =>
    have hL : p ∈ L := h.inflight p hp hd hn
    obtain ⟨k, hk⟩ := List.getElem?_of_mem hL
    have hk' : r.net[k]? = some (toPkt p) := by rw [h.net, List.getElem?_map, hk]; rfl
    have hsm : ∀ x ∈ dgOf p.frames, x.length < B := h.lsmall p hL
    obtain ⟨rc', c1, c2, c3⟩ := step_deliver r k (dgOf p.frames) hk' h.rc
      (fun x hx => by have := hsm x hx; rw [h.lm]; omega) (fun x hx => by have := hsm x hx; omega)
    refine ⟨[.deliver k], L.eraseIdx k, fun _ ho => ?_, ?_⟩
    · simp only [List.mem_singleton] at ho; subst ho; trivial
    · simp only [List.foldl_cons, List.foldl_nil]
      rw [c3]
      refine { pm := h.pm, lm := c2.trans h.lm, sc := h.sc, rc := c1, acc := h.acc, arr := ?_, wire := h.wire,
               deliv := ?_, queue := h.queue, net := ?_, inflight := ?_, qsmall := h.qsmall, lsmall := ?_, sinc := h.sinc }
      · show r.arrived ++ dgOf p.frames = v.dgRcvd ++ dgOf p.frames
        rw [h.arr]
      · show (r.delivered ++ [toPkt p]).flatMap Datagram.Pkt.payloads = dgsOf (v.delivered ++ [p])
        rw [hdel, List.flatMap_append, h.deliv]
        simp only [List.flatMap_cons, List.flatMap_nil, List.append_nil, payloads_toPkt]
      · show r.net.eraseIdx k = (L.eraseIdx k).map toPkt
        rw [h.net, map_eraseIdx]
      · intro q hq' hdq hnq
        obtain ⟨m1, m2⟩ := hmono q hnq
        exact mem_eraseIdx_of_ne L k p q hk (h.inflight q hq' hdq m1) m2
      · intro q hq' x hx
        exact h.lsmall q (List.mem_of_mem_eraseIdx hq') x hx

/-- every move of the projected direction is matched by zero or one C19 op -/
theorem sim_step {B : Nat} (hB : B ≤ 2 ^ 62) {v v' : View} {L : List Packet} {r : Run} (h : Sim B v L r)
    (hv : ViewStep B v v') :
    ∃ dops L', Datagram.SmallOps dops ∧ Sim B v' L' (dops.foldl Run.step r) := by
  cases hv with
  | same e => subst e; exact ⟨[], L, fun _ ho => by simp at ho, h⟩
  | dgSend x hx e =>
    subst e
    refine ⟨[.send x], L, fun _ ho => ?_, sim_dgSend h x hx⟩
    simp only [List.mem_singleton] at ho; subst ho
    show x.length < 2 ^ 62
    omega
  | send p hp hpn e => subst e; exact sim_send hB h p hp hpn
  | deliver p hp hn e => subst e; exact sim_deliver hB h p hp hn

theorem sim_run {C : Type} {K : Crypto C} {sw rw : Nat} (ord : Order) (d : Dir) {B : Nat} (hB : B ≤ 2 ^ 62)
    (ops : List (Op C)) : ∀ (σ : Net C) (L : List Packet) (r : Run), Inv K sw rw σ → NoForgery K ord σ ops →
    DgDiscipline K ord d σ ops → DgSmall d B ops → Sim B (view d σ) L r →
    ∃ dops L', Datagram.SmallOps dops ∧ Sim B (view d (run K ord σ ops)) L' (dops.foldl Run.step r) := by
  induction ops with
  | nil => intro σ L r _ _ _ _ h; exact ⟨[], L, fun _ ho => by simp at ho, h⟩
  | cons op rest ih =>
    intro σ L r hi hn hq hs h
    have hv := view_step ord d B hi op hn.1 hq.1 (fun x e => hs x (by rw [e]; exact List.mem_cons_self ..))
    obtain ⟨dops1, L1, s1, h1⟩ := sim_step hB h hv
    obtain ⟨dops2, L2, s2, h2⟩ := ih (step K ord σ op) L1 _ (inv_step ord hi op hn.1) hn.2 hq.2
      (fun x hx => hs x (List.mem_cons_of_mem _ hx)) h1
    refine ⟨dops1 ++ dops2, L2, ?_, ?_⟩
    · intro o ho
      rcases List.mem_append.mp ho with h' | h'
      · exact s1 o h'
      · exact s2 o h'
    · rw [List.foldl_append]
      exact h2

/-! ### the refinement theorem and the transported C19 theorem -/

/-- full simulation for histories from the initial state -/
theorem net_sim {C : Type} (K : Crypto C) (ord : Order) (sw rw : Nat) (ops : List (Op C)) (d : Dir) (B : Nat)
    (hn : NoForgery K ord (Net.init C sw rw) ops) (hq : DgDiscipline K ord d (Net.init C sw rw) ops)
    (hB : B ≤ 2 ^ 62) (hs : DgSmall d B ops) :
    ∃ dops L, Datagram.SmallOps dops ∧
      Sim B (view d (run K ord (Net.init C sw rw) ops)) L (Datagram.run (B + 9) (B + 9) dops) :=
  sim_run ord d hB ops (Net.init C sw rw) [] (Run.config (B + 9) (B + 9)) (inv_init K sw rw) hn hq hs (sim_init B)

/-- REFINEMENT: direction `d` of every history of the abstract stack whose honest sender respects the queue
discipline is a history of the C19 datagram model (limits `B`, `B + 9`; no connection error on either flow). -/
theorem net_refines_c19' {C : Type} (K : Crypto C) (ord : Order) (sw rw : Nat) (ops : List (Op C)) (d : Dir) (B : Nat)
    (hn : NoForgery K ord (Net.init C sw rw) ops) (hq : DgDiscipline K ord d (Net.init C sw rw) ops)
    (hB : B ≤ 2 ^ 62) (hs : DgSmall d B ops) :
    ∃ dops : List Datagram.Op, Datagram.SmallOps dops ∧
      let σ := run K ord (Net.init C sw rw) ops
      let r := Datagram.run (B + 9) (B + 9) dops
      r.snd.closed = none ∧ r.rcv.closed = none ∧
      r.accepted = σ.dgSent d ∧ r.arrived = σ.dgRcvd d ∧
      r.wire.flatMap Datagram.Pkt.payloads = dgsOf (σ.sent d) ∧
      r.delivered.flatMap Datagram.Pkt.payloads = dgsOf (σ.delivered d) := by
  obtain ⟨dops, L, s, h⟩ := net_sim K ord sw rw ops d B hn hq hB hs
  exact ⟨dops, s, h.sc, h.rc, h.acc, h.arr, h.wire, h.deliv⟩

/-- The C19 theorem (`Datagram.Inv.run`: `arr_all`, `snd_prefix`, `net_perm`) TRANSPORTED along the refinement:
what the receiving flow of direction `d` got is exactly the concatenation, over the DISPATCHED packets in dispatch
order, of their datagrams in the order written (unchanged, unmerged, nothing else); what was put into packets is a
prefix of what the application queued; every received datagram was queued by the peer application. -/
theorem net_datagrams_fifo' {C : Type} (K : Crypto C) (ord : Order) (sw rw : Nat) (ops : List (Op C)) (d : Dir) (B : Nat)
    (hn : NoForgery K ord (Net.init C sw rw) ops) (hq : DgDiscipline K ord d (Net.init C sw rw) ops)
    (hB : B ≤ 2 ^ 62) (hs : DgSmall d B ops) :
    let σ := run K ord (Net.init C sw rw) ops
    σ.dgRcvd d = dgsOf (σ.delivered d) ∧
    dgsOf (σ.sent d) <+: σ.dgSent d ∧
    (∀ x ∈ σ.dgRcvd d, x ∈ dgsOf (σ.sent d) ∧ x ∈ σ.dgSent d) := by
  obtain ⟨dops, s, hsc, hrc, hacc, harr, hwire, hdel⟩ := net_refines_c19' K ord sw rw ops d B hn hq hB hs
  have i := Datagram.Inv.run (B + 9) (B + 9) dops s
  have e1 := i.arr_all hrc
  have e2 := i.snd_prefix
  have e3 := i.net_perm
  rw [harr, hdel] at e1
  rw [hwire, hacc] at e2
  refine ⟨e1, e2, ?_⟩
  intro x hx
  have hx' : x ∈ (Datagram.run (B + 9) (B + 9) dops).delivered.flatMap Datagram.Pkt.payloads := by
    rw [hdel, ← e1]; exact hx
  obtain ⟨pk, hpk, hxp⟩ := List.mem_flatMap.mp hx'
  have hw : pk ∈ (Datagram.run (B + 9) (B + 9) dops).wire := e3.subset (List.mem_append_left _ hpk)
  have hxw : x ∈ (Datagram.run (B + 9) (B + 9) dops).wire.flatMap Datagram.Pkt.payloads :=
    List.mem_flatMap.mpr ⟨pk, hw, hxp⟩
  rw [hwire] at hxw
  exact ⟨hxw, e2.subset hxw⟩

theorem sublist_of_pairwise {α : Type} (f : α → Nat) (b : List α) : ∀ (a : List α), (a.map f).Pairwise (· < ·) →
    (b.map f).Pairwise (· < ·) → (∀ x ∈ a, x ∈ b) → a.Sublist b := by
  induction b with
  | nil =>
    intro a _ _ hsub
    cases a with
    | nil => exact List.Sublist.slnil
    | cons x _ => exact absurd (hsub x (List.mem_cons_self ..)) (by simp)
  | cons y b ih =>
    intro a ha hb hsub
    cases a with
    | nil => exact List.nil_sublist _
    | cons x a =>
      simp only [List.map_cons, List.pairwise_cons, List.mem_map, forall_exists_index, and_imp] at ha hb
      have hx := hsub x (List.mem_cons_self ..)
      by_cases hf : f x = f y
      · -- the heads coincide
        have hxy : x = y := by
          rcases List.mem_cons.mp hx with h | h
          · exact h
          · have := hb.1 (f x) x h rfl; omega
        subst hxy
        refine List.Sublist.cons_cons x (ih a ha.2 hb.2 ?_)
        intro z hz
        rcases List.mem_cons.mp (hsub z (List.mem_cons_of_mem _ hz)) with h | h
        · have := ha.1 (f z) z hz rfl; rw [h] at this; omega
        · exact h
      · have hxb : x ∈ b := by
          rcases List.mem_cons.mp hx with h | h
          · rw [h] at hf; exact absurd rfl hf
          · exact h
        have hyx : f y < f x := hb.1 (f x) x hxb rfl
        refine List.Sublist.cons y (ih (x :: a) ?_ hb.2 ?_)
        · simp only [List.map_cons, List.pairwise_cons, List.mem_map, forall_exists_index, and_imp]
          exact ha
        · intro z hz
          rcases List.mem_cons.mp (hsub z hz) with h | h
          · rcases List.mem_cons.mp hz with h' | h'
            · exact absurd (by rw [← h', h]) hf
            · have := ha.1 (f z) z h' rfl; rw [h] at this; omega
          · exact h

/-- If the network only LOSES packets of direction `d` (packets are dispatched in increasing packet-number order), the
datagrams received are a subsequence of the datagrams the peer application queued: order preserved, nothing
duplicated, nothing invented, nothing merged. -/
theorem net_datagrams_in_order' {C : Type} (K : Crypto C) (ord : Order) (sw rw : Nat) (ops : List (Op C)) (d : Dir)
    (B : Nat) (hn : NoForgery K ord (Net.init C sw rw) ops) (hq : DgDiscipline K ord d (Net.init C sw rw) ops)
    (hB : B ≤ 2 ^ 62) (hs : DgSmall d B ops)
    (hio : (((run K ord (Net.init C sw rw) ops).delivered d).map (·.pn)).Pairwise (· < ·)) :
    ((run K ord (Net.init C sw rw) ops).dgRcvd d).Sublist ((run K ord (Net.init C sw rw) ops).dgSent d) := by
  obtain ⟨e1, e2, _⟩ := net_datagrams_fifo' K ord sw rw ops d B hn hq hB hs
  obtain ⟨dops, L, _, h⟩ := net_sim K ord sw rw ops d B hn hq hB hs
  have hi := inv_run ord ops (Net.init C sw rw) (inv_init K sw rw) hn
  have hsub : ((run K ord (Net.init C sw rw) ops).delivered d).Sublist ((run K ord (Net.init C sw rw) ops).sent d) :=
    sublist_of_pairwise (·.pn) _ _ hio h.sinc (hi.deliv_sent d)
  rw [e1]
  have h3 : (dgsOf ((run K ord (Net.init C sw rw) ops).delivered d)).Sublist
      (dgsOf ((run K ord (Net.init C sw rw) ops).sent d)) :=
    Datagram.sublist_flatMap (fun p : Packet => dgOf p.frames) hsub
  exact h3.trans e2.sublist

end GmQuic.Net
