import GmQuic.Model.SendSpec
/-!
C09 — helper lemmas for the specification layer of the send buffer (`Model/SendSpec.lean`):
facts about `least`, the reachable-state invariant `Inv`, its preservation by every legal step, trace
induction, and a concrete legal trace `exTr` used for the non-vacuity examples of `Props/C09/Spec.lean`.
-/
namespace GmQuic.SendSpec

/-! ### `least` -/

theorem least_succ (p : Nat → Bool) (n : Nat) :
    least p (n + 1) = if least p n < n then least p n else if p n then n else n + 1 := rfl

theorem least_le (p : Nat → Bool) : ∀ n, least p n ≤ n
  | 0 => Nat.le_refl 0
  | n + 1 => by
    have := least_le p n
    rw [least_succ]
    split
    · omega
    · split <;> omega

theorem least_spec (p : Nat → Bool) : ∀ n, least p n < n → p (least p n) = true
  | 0 => fun h => absurd h (Nat.not_lt_zero _)
  | n + 1 => by
    have ih := least_spec p n
    rw [least_succ]
    split
    · intro _; exact ih ‹_›
    · split
      · intro _; assumption
      · intro h; omega

theorem least_min (p : Nat → Bool) : ∀ n x, x < least p n → p x = false
  | 0 => fun x h => absurd h (Nat.not_lt_zero _)
  | n + 1 => by
    have ih := least_min p n
    have hle := least_le p n
    rw [least_succ]
    split
    · intro x hx; exact ih x hx
    · have hk : least p n = n := by omega
      rw [hk] at ih
      split
      · intro x hx; exact ih x hx
      · intro x hx
        by_cases hxn : x = n
        · subst hxn; simpa using ‹¬ p x = true›
        · exact ih x (Nat.lt_of_le_of_ne (Nat.le_of_lt_succ hx) hxn)

/-- anything satisfying `p` below `n` bounds `least p n` -/
theorem least_le_of (p : Nat → Bool) (n x : Nat) (hp : p x = true) : least p n ≤ x := by
  apply Nat.le_of_not_lt
  intro h
  have := least_min p n x h
  rw [hp] at this
  cases this

theorem least_eq_of (p : Nat → Bool) (n k : Nat) (hk : k ≤ n) (hlt : ∀ x, x < k → p x = false)
    (hpk : k < n → p k = true) : least p n = k := by
  have hle := least_le p n
  rcases Nat.lt_trichotomy (least p n) k with h | h | h
  · have h1 := least_spec p n (by omega)
    rw [hlt _ h] at h1
    cases h1
  · exact h
  · have h1 := least_min p n k h
    rw [hpk (by omega)] at h1
    cases h1

theorem least_congr (p q : Nat → Bool) (n : Nat) (h : ∀ x, x < n → p x = q x) : least p n = least q n := by
  apply least_eq_of p n (least q n) (least_le q n)
  · intro x hx
    rw [h x (by have := least_le q n; omega)]
    exact least_min q n x hx
  · intro hlt
    rw [h _ hlt]
    exact least_spec q n hlt

/-- `least p n = n` exactly when no offset below `n` satisfies `p` -/
theorem least_eq_self_iff (p : Nat → Bool) (n : Nat) : least p n = n ↔ ∀ x, x < n → p x = false := by
  constructor
  · intro h x hx; exact least_min p n x (by omega)
  · intro h; exact least_eq_of p n n (Nat.le_refl n) h (fun h => absurd h (Nat.lt_irrefl n))

/-! ### colours -/

@[simp] theorem setRange_apply (f : Nat → Colour) (a b : Nat) (g : Colour → Colour) (x : Nat) :
    setRange f a b g x = if a ≤ x ∧ x < b then g (f x) else f x := rfl

theorem lostOf_eq_pending {c : Colour} : lostOf c = .pending ↔ c = .pending := by
  cases c <;> simp [lostOf]

theorem lostOf_eq_recved {c : Colour} : lostOf c = .recved ↔ c = .recved := by
  cases c <;> simp [lostOf]

theorem lostOf_of_lost {c : Colour} (h : c = .lost) : lostOf c = .lost := by
  subst h; rfl

theorem lostOf_of_pending {c : Colour} (h : c = .pending) : lostOf c = .pending := by
  subst h; rfl

theorem lostOf_of_recved {c : Colour} (h : c = .recved) : lostOf c = .recved := by
  subst h; rfl

theorem cand_iff {s : SendSpec} {flow x : Nat} :
    s.cand flow x = true ↔ s.colour x = .lost ∨ (s.colour x = .pending ∧ 0 < flow) := by
  simp [SendSpec.cand]

theorem cand_of_lost {s : SendSpec} {flow x : Nat} (h : s.colour x = .lost) : s.cand flow x = true :=
  cand_iff.2 (Or.inl h)

theorem cand_false_iff {s : SendSpec} {flow x : Nat} :
    s.cand flow x = false ↔ s.colour x ≠ .lost ∧ (s.colour x = .pending → flow = 0) := by
  rw [← Bool.not_eq_true, cand_iff]
  constructor
  · intro h
    exact ⟨fun h1 => h (Or.inl h1), fun h1 => by
      apply Nat.eq_zero_of_not_pos; intro h2; exact h (Or.inr ⟨h1, h2⟩)⟩
  · rintro ⟨h1, h2⟩ (h | ⟨h3, h4⟩)
    · exact h1 h
    · have := h2 h3; omega

/-- what a legal `range` answer tells about the state (independent of reachability) -/
theorem pickOk_range {s : SendSpec} {pred flow a b fresh} (h : pickOk s pred flow (.range a b fresh)) :
    a = s.firstCand flow ∧ a < s.win ∧ a < b ∧ b ≤ s.win ∧ s.cand flow a = true ∧
    (∀ x, a ≤ x → x < b → s.colour x = s.colour a) ∧ fresh = (s.colour a == .pending) := by
  obtain ⟨h1, h2, h3, h4, h5, _, h7, _⟩ := h
  refine ⟨h1, h2, h3, h4, ?_, fun x hax hxb => h5 x hxb hax, h7⟩
  rw [h1]
  exact least_spec _ _ (by rw [h1] at h2; exact h2)

/-- every byte of a legally answered range is `Pending` or `Lost` -/
theorem pickOk_range_colour {s : SendSpec} {pred flow a b fresh} (h : pickOk s pred flow (.range a b fresh))
    (x : Nat) (h1 : a ≤ x) (h2 : x < b) : s.colour x = .pending ∨ s.colour x = .lost := by
  obtain ⟨_, _, _, _, hca, hcol, _⟩ := pickOk_range h
  rw [hcol x h1 h2]
  rcases cand_iff.1 hca with h4 | ⟨h4, _⟩
  · exact Or.inr h4
  · exact Or.inl h4

/-- a legally answered range that is not fresh consists of `Lost` bytes -/
theorem pickOk_range_lost {s : SendSpec} {pred flow a b} (h : pickOk s pred flow (.range a b false))
    (x : Nat) (h1 : a ≤ x) (h2 : x < b) : s.colour x = .lost := by
  obtain ⟨_, _, _, _, hca, hcol, hfr⟩ := pickOk_range h
  rw [hcol x h1 h2]
  rcases cand_iff.1 hca with h4 | ⟨h4, _⟩
  · exact h4
  · rw [h4] at hfr; cases hfr

/-! ### the invariant of reachable states -/

structure Inv (s : SendSpec) : Prop where
  size_eq : s.size = min s.data.length s.maxData
  base_le : s.base ≤ s.size
  below_base : ∀ x, x < s.base → s.colour x = .recved
  base_unrecved : s.base < s.size → s.colour s.base ≠ .recved
  pend_up : ∀ x y, x ≤ y → s.colour x = .pending → s.colour y = .pending
  beyond : ∀ x, s.size ≤ x → s.colour x = .pending

theorem Inv.init (cap : Nat) : Inv (SendSpec.init cap) where
  size_eq := by simp [SendSpec.init]
  base_le := Nat.le_refl 0
  below_base := fun x h => absurd h (Nat.not_lt_zero _)
  base_unrecved := fun h => absurd h (Nat.lt_irrefl _)
  pend_up := fun _ _ _ _ => rfl
  beyond := fun _ _ => rfl

theorem Inv.write {s : SendSpec} (h : Inv s) (bs : List UInt8) : Inv (s.write bs) := by
  unfold SendSpec.write
  split
  · exact h
  · have h1 := h.size_eq
    have h2 := h.base_le
    refine ⟨?_, ?_, h.below_base, ?_, h.pend_up, ?_⟩
    · simp only [List.length_append]
    · show s.base ≤ min _ _; omega
    · intro hlt
      by_cases hb : s.base < s.size
      · exact h.base_unrecved hb
      · show s.colour s.base ≠ .recved
        rw [h.beyond s.base (by omega)]; intro h'; cases h'
    · intro x hx
      exact h.beyond x (by have : min (s.data.length + bs.length) s.maxData ≤ x := hx; omega)

theorem Inv.extend {s : SendSpec} (h : Inv s) (m : Nat) (hm : s.maxData ≤ m) : Inv (s.extend m) := by
  have h1 := h.size_eq
  have h2 := h.base_le
  refine ⟨rfl, ?_, h.below_base, ?_, h.pend_up, ?_⟩
  · show s.base ≤ min _ _; omega
  · intro hlt
    by_cases hb : s.base < s.size
    · exact h.base_unrecved hb
    · show s.colour s.base ≠ .recved
      rw [h.beyond s.base (by omega)]; intro h'; cases h'
  · intro x hx
    exact h.beyond x (by have : min s.data.length m ≤ x := hx; omega)

theorem Inv.picked {s : SendSpec} (h : Inv s) {pred flow o} (hp : pickOk s pred flow o) : Inv (s.picked o) := by
  cases o with
  | unit => exact h
  | none => exact h
  | range a b fresh =>
    obtain ⟨ha, haw, hab, hbw, hca, hcol, _⟩ := pickOk_range hp
    have hbs : b ≤ s.size := by unfold SendSpec.win at hbw; omega
    have hnr : ∀ x, a ≤ x → x < b → s.colour x ≠ .recved := by
      intro x h1 h2 h3
      rw [hcol x h1 h2] at h3
      rcases cand_iff.1 hca with h4 | ⟨h4, _⟩ <;> rw [h3] at h4 <;> cases h4
    refine ⟨h.size_eq, h.base_le, ?_, ?_, ?_, ?_⟩
    · intro x hx
      simp only [SendSpec.picked, setRange_apply]
      split
      · exact absurd (h.below_base x hx) (hnr x ‹_ ∧ _›.1 ‹_ ∧ _›.2)
      · exact h.below_base x hx
    · intro hlt
      simp only [SendSpec.picked, setRange_apply]
      split
      · intro h'; cases h'
      · exact h.base_unrecved hlt
    · intro x y hxy
      simp only [SendSpec.picked, setRange_apply]
      split
      · intro h'; cases h'
      · intro hpx
        have hpy := h.pend_up x y hxy hpx
        split
        · -- `x` is outside `[a, b)`, `y` inside: then `x < a` is a `Pending` candidate below the least one
          exfalso
          have hxa : x < a := by omega
          have hpa := h.pend_up x a (by omega) hpx
          have hflow : 0 < flow := by
            rcases cand_iff.1 hca with h4 | ⟨_, h4⟩
            · rw [hpa] at h4; cases h4
            · exact h4
          have := least_min (s.cand flow) s.win x (by rw [ha] at hxa; exact hxa)
          rw [cand_iff.2 (Or.inr ⟨hpx, hflow⟩)] at this
          cases this
        · exact hpy
    · intro x hx
      have hx' : s.size ≤ x := hx
      simp only [SendSpec.picked, setRange_apply]
      rw [if_neg (by omega)]
      exact h.beyond x hx'

theorem firstUnrecved_le (c : Nat → Colour) (n : Nat) : firstUnrecved c n ≤ n := least_le _ n

theorem firstUnrecved_below {c : Nat → Colour} {n x : Nat} (h : x < firstUnrecved c n) : c x = .recved := by
  have := least_min _ n x h
  simpa using this

theorem firstUnrecved_spec {c : Nat → Colour} {n : Nat} (h : firstUnrecved c n < n) :
    c (firstUnrecved c n) ≠ .recved := by
  have := least_spec _ n h
  simpa [firstUnrecved] using this

theorem Inv.ack {s : SendSpec} (h : Inv s) {a b : Nat} (hd : RangeDom s a b) : Inv (s.ack a b) := by
  obtain ⟨hab, hbs, hnp⟩ := hd
  have hfle := firstUnrecved_le (setRange s.colour a b (fun _ => .recved)) s.size
  have hbase : s.base ≤ firstUnrecved (setRange s.colour a b (fun _ => .recved)) s.size := by
    apply Nat.le_of_not_lt
    intro hlt
    have h1 := firstUnrecved_spec (c := setRange s.colour a b (fun _ => .recved)) (n := s.size)
      (by have := h.base_le; omega)
    apply h1
    simp only [setRange_apply]
    split
    · rfl
    · exact h.below_base _ hlt
  refine ⟨h.size_eq, ?_, ?_, ?_, ?_, ?_⟩
  · show max _ _ ≤ s.size
    have := h.base_le; omega
  · intro x hx
    have hx' : x < max s.base (firstUnrecved (setRange s.colour a b (fun _ => .recved)) s.size) := hx
    exact firstUnrecved_below (c := setRange s.colour a b (fun _ => .recved)) (n := s.size) (by omega)
  · intro hlt
    have hlt' : max s.base (firstUnrecved (setRange s.colour a b (fun _ => .recved)) s.size) < s.size := hlt
    have hmax : max s.base (firstUnrecved (setRange s.colour a b (fun _ => .recved)) s.size)
        = firstUnrecved (setRange s.colour a b (fun _ => .recved)) s.size := by omega
    show setRange s.colour a b (fun _ => .recved) (max _ _) ≠ .recved
    rw [hmax]
    exact firstUnrecved_spec (by omega)
  · intro x y hxy
    simp only [SendSpec.ack, setRange_apply]
    split
    · intro h'; cases h'
    · intro hpx
      have hpy := h.pend_up x y hxy hpx
      split
      · exact absurd hpy (hnp y ‹_ ∧ _›.1 ‹_ ∧ _›.2)
      · exact hpy
  · intro x hx
    have hx' : s.size ≤ x := hx
    simp only [SendSpec.ack, setRange_apply]
    rw [if_neg (by omega)]
    exact h.beyond x hx'

/-- an invariant-preservation helper: a recolouring that keeps `Pending` and `Recved` exactly -/
theorem Inv.recolour {s : SendSpec} (h : Inv s) (c : Nat → Colour)
    (hp : ∀ x, c x = .pending ↔ s.colour x = .pending) (hr : ∀ x, c x = .recved ↔ s.colour x = .recved) :
    Inv { s with colour := c } where
  size_eq := h.size_eq
  base_le := h.base_le
  below_base := fun x hx => (hr x).2 (h.below_base x hx)
  base_unrecved := fun hlt h' => h.base_unrecved hlt ((hr _).1 h')
  pend_up := fun x y hxy hx => (hp y).2 (h.pend_up x y hxy ((hp x).1 hx))
  beyond := fun x hx => (hp x).2 (h.beyond x hx)

theorem Inv.lose {s : SendSpec} (h : Inv s) (a b : Nat) : Inv (s.lose a b) := by
  apply Inv.recolour h
  · intro x; simp only [setRange_apply]; split
    · exact lostOf_eq_pending
    · exact Iff.rfl
  · intro x; simp only [setRange_apply]; split
    · exact lostOf_eq_recved
    · exact Iff.rfl

theorem Inv.resend {s : SendSpec} (h : Inv s) : Inv s.resend :=
  Inv.recolour h _ (fun _ => lostOf_eq_pending) (fun _ => lostOf_eq_recved)

theorem Inv.forget {s : SendSpec} (_h : Inv s) (hb : s.base = 0) : Inv s.forget where
  size_eq := by simp [SendSpec.forget]
  base_le := by show s.base ≤ 0; omega
  below_base := fun x hx => by have : x < s.base := hx; omega
  base_unrecved := fun hlt => absurd hlt (Nat.not_lt_zero _)
  pend_up := fun _ _ _ _ => rfl
  beyond := fun _ _ => rfl

theorem Inv.step {s : SendSpec} {op obs s'} (hs : stepOk s op obs s') (h : Inv s) : Inv s' := by
  cases op <;> cases obs <;> simp only [stepOk] at hs
  case write.unit bs => rw [hs.2]; exact h.write bs
  case extend.unit m => rw [hs.2]; exact h.extend m hs.1
  case pick.unit pred flow => rw [hs.2.2]; exact h.picked hs.2.1
  case pick.none pred flow => rw [hs.2.2]; exact h.picked hs.2.1
  case pick.range pred flow a b fresh => rw [hs.2.2]; exact h.picked hs.2.1
  case ack.unit a b => rw [hs.2]; exact h.ack hs.1
  case lose.unit a b => rw [hs.2]; exact h.lose a b
  case resend.unit => rw [hs]; exact h.resend
  case forget.unit => rw [hs.2]; exact h.forget hs.1

/-- every state reachable from an invariant state satisfies the invariant -/
theorem Inv.trace {s₀ : SendSpec} {tr s} (h : Trace.Ok s₀ tr s) (h0 : Inv s₀) : Inv s := by
  induction h with
  | nil => exact h0
  | snoc _ hs ih => exact Inv.step hs ih

theorem Inv.reachable {cap : Nat} {tr s} (h : Trace.Ok (SendSpec.init cap) tr s) : Inv s :=
  Inv.trace h (Inv.init cap)

/-! ### histories -/

theorem writtenBytes_append (tr₁ tr₂ : List (SendOp × SendObs)) :
    writtenBytes (tr₁ ++ tr₂) = writtenBytes tr₁ ++ writtenBytes tr₂ := by
  induction tr₁ with
  | nil => rfl
  | cons e tr ih =>
    obtain ⟨op, obs⟩ := e
    cases op <;> simp [writtenBytes, ih]

theorem freshRanges_append (tr₁ tr₂ : List (SendOp × SendObs)) :
    freshRanges (tr₁ ++ tr₂) = freshRanges tr₁ ++ freshRanges tr₂ := by
  induction tr₁ with
  | nil => rfl
  | cons e tr ih =>
    obtain ⟨op, obs⟩ := e
    cases obs with
    | range a b fresh => cases fresh <;> simp [freshRanges, ih]
    | _ => simp [freshRanges, ih]

theorem NoForget.append_iff {tr₁ tr₂ : List (SendOp × SendObs)} :
    NoForget (tr₁ ++ tr₂) ↔ NoForget tr₁ ∧ NoForget tr₂ := by
  simp only [NoForget, List.mem_append]
  constructor
  · intro h; exact ⟨fun e he => h e (Or.inl he), fun e he => h e (Or.inr he)⟩
  · rintro ⟨h1, h2⟩ e (he | he)
    · exact h1 e he
    · exact h2 e he

theorem NoForget.snoc {tr : List (SendOp × SendObs)} {op obs} (h : NoForget (tr ++ [(op, obs)])) :
    NoForget tr ∧ op ≠ .forget := by
  obtain ⟨h1, h2⟩ := NoForget.append_iff.1 h
  refine ⟨h1, ?_⟩
  intro hop
  have := h2 (op, obs) (List.mem_singleton.2 rfl)
  rw [hop] at this
  exact this

theorem NoForget.nil : NoForget [] := fun _ he => by cases he

theorem write_colour (s : SendSpec) (bs : List UInt8) : (s.write bs).colour = s.colour := by
  unfold SendSpec.write; split <;> rfl

theorem write_data (s : SendSpec) (bs : List UInt8) : (s.write bs).data = s.data ++ bs := by
  unfold SendSpec.write; split
  · have : bs = [] := by cases bs with
      | nil => rfl
      | cons _ _ => simp at *
    rw [this, List.append_nil]
  · rfl

theorem picked_data (s : SendSpec) (o : SendObs) : (s.picked o).data = s.data := by
  cases o <;> rfl

theorem step_data {s : SendSpec} {op obs s'} (hs : stepOk s op obs s') :
    s'.data = s.data ++ writtenBytes [(op, obs)] := by
  cases op <;> cases obs <;> simp only [stepOk] at hs
  case write.unit bs => rw [hs.2, write_data]; simp [writtenBytes]
  case extend.unit m => rw [hs.2]; simp [writtenBytes, SendSpec.extend]
  case pick.unit pred flow => rw [hs.2.2, picked_data]; simp [writtenBytes]
  case pick.none pred flow => rw [hs.2.2, picked_data]; simp [writtenBytes]
  case pick.range pred flow a b fresh => rw [hs.2.2, picked_data]; simp [writtenBytes]
  case ack.unit a b => rw [hs.2]; simp [writtenBytes, SendSpec.ack]
  case lose.unit a b => rw [hs.2]; simp [writtenBytes, SendSpec.lose]
  case resend.unit => rw [hs]; simp [writtenBytes, SendSpec.resend]
  case forget.unit => rw [hs.2]; simp [writtenBytes, SendSpec.forget]

theorem trace_data {s₀ : SendSpec} {tr s} (h : Trace.Ok s₀ tr s) : s.data = s₀.data ++ writtenBytes tr := by
  induction h with
  | nil => simp [writtenBytes]
  | snoc _ hs ih => rw [step_data hs, ih, writtenBytes_append, List.append_assoc]

/-- the data queue of a reachable state is exactly what the history wrote -/
theorem reachable_data {cap : Nat} {tr s} (h : Trace.Ok (SendSpec.init cap) tr s) : s.data = writtenBytes tr := by
  rw [trace_data h]; rfl

/-- only `forget` makes a byte `Pending` (again) -/
theorem step_pending {s : SendSpec} {op obs s'} (hs : stepOk s op obs s') (hnf : op ≠ .forget) (x : Nat) :
    s'.colour x = .pending → s.colour x = .pending := by
  cases op <;> cases obs <;> simp only [stepOk] at hs
  case write.unit bs => rw [hs.2, write_colour]; exact id
  case extend.unit m => rw [hs.2]; exact id
  case pick.unit pred flow => rw [hs.2.2]; exact id
  case pick.none pred flow => rw [hs.2.2]; exact id
  case pick.range pred flow a b fresh =>
    rw [hs.2.2]; simp only [SendSpec.picked, setRange_apply]
    split
    · intro h; cases h
    · exact id
  case ack.unit a b =>
    rw [hs.2]; simp only [SendSpec.ack, setRange_apply]
    split
    · intro h; cases h
    · exact id
  case lose.unit a b =>
    rw [hs.2]; simp only [SendSpec.lose, setRange_apply]
    split
    · exact lostOf_eq_pending.1
    · exact id
  case resend.unit => rw [hs]; exact lostOf_eq_pending.1
  case forget.unit => exact absurd rfl hnf

/-- only `forget` takes `Recved` away -/
theorem step_recved {s : SendSpec} {op obs s'} (hs : stepOk s op obs s') (hnf : op ≠ .forget) (x : Nat) :
    s.colour x = .recved → s'.colour x = .recved := by
  cases op <;> cases obs <;> simp only [stepOk] at hs
  case write.unit bs => rw [hs.2, write_colour]; exact id
  case extend.unit m => rw [hs.2]; exact id
  case pick.unit pred flow => rw [hs.2.2]; exact id
  case pick.none pred flow => rw [hs.2.2]; exact id
  case pick.range pred flow a b fresh =>
    obtain ⟨_, _, _, _, hca, hcol, _⟩ := pickOk_range hs.2.1
    rw [hs.2.2]; simp only [SendSpec.picked, setRange_apply]
    intro hr
    split
    · exfalso
      rw [hcol x ‹_ ∧ _›.1 ‹_ ∧ _›.2] at hr
      rcases cand_iff.1 hca with h4 | ⟨h4, _⟩ <;> rw [hr] at h4 <;> cases h4
    · exact hr
  case ack.unit a b =>
    rw [hs.2]; simp only [SendSpec.ack, setRange_apply]
    split
    · intro _; rfl
    · exact id
  case lose.unit a b =>
    rw [hs.2]; simp only [SendSpec.lose, setRange_apply]
    split
    · exact lostOf_of_recved
    · exact id
  case resend.unit => rw [hs]; exact lostOf_of_recved
  case forget.unit => exact absurd rfl hnf

theorem trace_not_pending {s : SendSpec} {tr s'} (h : Trace.Ok s tr s') (hnf : NoForget tr) (x : Nat)
    (hx : s.colour x ≠ .pending) : s'.colour x ≠ .pending := by
  induction h with
  | nil => exact hx
  | snoc _ hs ih =>
    obtain ⟨h1, h2⟩ := NoForget.snoc hnf
    exact fun hp => ih h1 (step_pending hs h2 x hp)

theorem trace_recved {s : SendSpec} {tr s'} (h : Trace.Ok s tr s') (hnf : NoForget tr) (x : Nat)
    (hx : s.colour x = .recved) : s'.colour x = .recved := by
  induction h with
  | nil => exact hx
  | snoc _ hs ih =>
    obtain ⟨h1, h2⟩ := NoForget.snoc hnf
    exact step_recved hs h2 x (ih h1)

/-- a step either reports no fresh range and makes no byte `Pending`, or reports the fresh range `[a, b)`, all
of whose bytes were `Pending` and are now `Flighting` (the other bytes keep their colour) -/
theorem step_fresh {s : SendSpec} {op obs s'} (hs : stepOk s op obs s') (hnf : op ≠ .forget) :
    (freshRanges [(op, obs)] = [] ∧ ∀ x, s'.colour x = .pending → s.colour x = .pending) ∨
    (∃ a b, freshRanges [(op, obs)] = [(a, b)] ∧
      (∀ x, a ≤ x → x < b → s.colour x = .pending ∧ s'.colour x = .flighting) ∧
      (∀ x, ¬ (a ≤ x ∧ x < b) → s'.colour x = s.colour x)) := by
  by_cases hobs : ∃ a b, obs = .range a b true
  · obtain ⟨a, b, rfl⟩ := hobs
    right
    refine ⟨a, b, rfl, ?_⟩
    cases op <;> simp only [stepOk] at hs
    case pick pred flow =>
      obtain ⟨_, _, _, _, _, hcol, hfr⟩ := pickOk_range hs.2.1
      have hpa : s.colour a = .pending := by simpa using hfr.symm
      rw [hs.2.2]
      constructor
      · intro x h1 h2
        refine ⟨by rw [hcol x h1 h2]; exact hpa, ?_⟩
        simp only [SendSpec.picked, setRange_apply]
        rw [if_pos ⟨h1, h2⟩]
      · intro x hx
        simp only [SendSpec.picked, setRange_apply]
        rw [if_neg hx]
  · left
    refine ⟨?_, step_pending hs hnf⟩
    cases obs with
    | unit => rfl
    | none => rfl
    | range a b fresh =>
      cases fresh with
      | false => rfl
      | true => exact absurd ⟨a, b, rfl⟩ hobs

/-- number of fresh ranges of a history that contain offset `x` -/
def freshCount (tr : List (SendOp × SendObs)) (x : Nat) : Nat :=
  ((freshRanges tr).filter (fun r => decide (r.1 ≤ x ∧ x < r.2))).length

theorem freshCount_snoc (tr : List (SendOp × SendObs)) (e : SendOp × SendObs) (x : Nat) :
    freshCount (tr ++ [e]) x = freshCount tr x + freshCount [e] x := by
  simp only [freshCount, freshRanges_append, List.filter_append, List.length_append]

theorem trace_fresh {s₀ : SendSpec} {tr s} (h : Trace.Ok s₀ tr s) (hnf : NoForget tr) (x : Nat) :
    freshCount tr x ≤ 1 ∧ (s.colour x = .pending → freshCount tr x = 0) := by
  induction h with
  | nil => exact ⟨Nat.zero_le _, fun _ => rfl⟩
  | @snoc tr s op obs s' _ hs ih =>
    obtain ⟨h1, h2⟩ := NoForget.snoc hnf
    obtain ⟨ih1, ih2⟩ := ih h1
    rw [freshCount_snoc]
    rcases step_fresh hs h2 with ⟨hf, hp⟩ | ⟨a, b, hf, hin, hout⟩
    · have : freshCount [(op, obs)] x = 0 := by simp only [freshCount, hf]; rfl
      rw [this]
      exact ⟨ih1, fun hx => ih2 (hp x hx)⟩
    · by_cases hx : a ≤ x ∧ x < b
      · have : freshCount [(op, obs)] x = 1 := by
          simp only [freshCount, hf, List.filter_cons, decide_eq_true hx]; rfl
        rw [this, ih2 (hin x hx.1 hx.2).1]
        refine ⟨Nat.le_refl _, fun hp => ?_⟩
        rw [(hin x hx.1 hx.2).2] at hp; cases hp
      · have : freshCount [(op, obs)] x = 0 := by
          simp only [freshCount, hf, List.filter_cons, decide_eq_false hx]; rfl
        rw [this, hout x hx]
        exact ⟨ih1, ih2⟩

/-- a `Pending` byte stays `Pending` unless the step reports it inside a fresh range -/
theorem step_pending_keep {s : SendSpec} {op obs s'} (hs : stepOk s op obs s') (x : Nat)
    (hp : s.colour x = .pending) (hnot : ∀ a b, obs = .range a b true → ¬ (a ≤ x ∧ x < b)) :
    s'.colour x = .pending := by
  cases op <;> cases obs <;> simp only [stepOk] at hs
  case write.unit bs => rw [hs.2, write_colour]; exact hp
  case extend.unit m => rw [hs.2]; exact hp
  case pick.unit pred flow => rw [hs.2.2]; exact hp
  case pick.none pred flow => rw [hs.2.2]; exact hp
  case pick.range pred flow a b fresh =>
    obtain ⟨_, _, _, _, _, hcol, hfr⟩ := pickOk_range hs.2.1
    rw [hs.2.2]; simp only [SendSpec.picked, setRange_apply]
    split
    · exfalso
      have hx : a ≤ x ∧ x < b := ‹_›
      rw [← hcol x hx.1 hx.2, hp] at hfr
      exact hnot a b (by rw [hfr]; rfl) hx
    · exact hp
  case ack.unit a b =>
    rw [hs.2]; simp only [SendSpec.ack, setRange_apply]
    split
    · exact absurd hp (hs.1.2.2 x ‹_ ∧ _›.1 ‹_ ∧ _›.2)
    · exact hp
  case lose.unit a b =>
    rw [hs.2]; simp only [SendSpec.lose, setRange_apply]
    split
    · exact lostOf_of_pending hp
    · exact hp
  case resend.unit => rw [hs]; exact lostOf_of_pending hp
  case forget.unit => rw [hs.2]; rfl

/-- from an all-`Pending` start and without `forget`: an offset is `Pending` and was never reported, or it is
not `Pending` and was reported as fresh exactly once -/
theorem trace_fresh_exact {s₀ : SendSpec} {tr s} (h : Trace.Ok s₀ tr s) (h0 : ∀ x, s₀.colour x = .pending)
    (hnf : NoForget tr) (x : Nat) :
    (s.colour x = .pending ∧ freshCount tr x = 0) ∨ (s.colour x ≠ .pending ∧ freshCount tr x = 1) := by
  induction h with
  | nil => exact Or.inl ⟨h0 x, rfl⟩
  | @snoc tr s op obs s' _ hs ih =>
    obtain ⟨h1, h2⟩ := NoForget.snoc hnf
    have ih := ih h1
    rw [freshCount_snoc]
    rcases step_fresh hs h2 with ⟨hf, hp⟩ | ⟨a, b, hf, hin, hout⟩
    · have hc : freshCount [(op, obs)] x = 0 := by simp only [freshCount, hf]; rfl
      have hnot : ∀ a b, obs = .range a b true → ¬ (a ≤ x ∧ x < b) := by
        intro a b ho; subst ho; cases hf
      rw [hc]
      rcases ih with ⟨i1, i2⟩ | ⟨i1, i2⟩
      · exact Or.inl ⟨step_pending_keep hs x i1 hnot, i2⟩
      · exact Or.inr ⟨fun hp' => i1 (hp x hp'), i2⟩
    · by_cases hx : a ≤ x ∧ x < b
      · have hc : freshCount [(op, obs)] x = 1 := by
          simp only [freshCount, hf, List.filter_cons, decide_eq_true hx]; rfl
        rw [hc]
        rcases ih with ⟨_, i2⟩ | ⟨i1, _⟩
        · right
          refine ⟨?_, by rw [i2]⟩
          rw [(hin x hx.1 hx.2).2]; intro h'; cases h'
        · exact absurd (hin x hx.1 hx.2).1 i1
      · have hc : freshCount [(op, obs)] x = 0 := by
          simp only [freshCount, hf, List.filter_cons, decide_eq_false hx]; rfl
        rw [hc, hout x hx]
        exact ih

/-! ### retransmission: `Lost` bytes in the window -/

/-- with a `Lost` byte `x` inside the window, the least offerable offset is `Lost`, not above `x`, and the same
for every flow limit -/
theorem firstCand_of_lost {s : SendSpec} (h : Inv s) {x : Nat} (hx : x < s.win) (hl : s.colour x = .lost)
    (flow : Nat) :
    s.firstCand flow ≤ x ∧ s.colour (s.firstCand flow) = .lost ∧
    ∀ flow', s.firstCand flow' = s.firstCand flow := by
  have hkx : s.firstCand flow ≤ x := least_le_of _ _ x (cand_of_lost hl)
  have hnp : ∀ y, y ≤ x → s.colour y ≠ .pending := by
    intro y hy hp
    have := h.pend_up y x hy hp
    rw [hl] at this; cases this
  have hck : s.cand flow (s.firstCand flow) = true := least_spec _ _ (by unfold SendSpec.firstCand at hkx; omega)
  have hlk : s.colour (s.firstCand flow) = .lost := by
    rcases cand_iff.1 hck with h1 | ⟨h1, _⟩
    · exact h1
    · exact absurd h1 (hnp _ hkx)
  refine ⟨hkx, hlk, fun flow' => ?_⟩
  apply least_eq_of
  · exact least_le _ _
  · intro y hy
    have := cand_false_iff.1 (least_min (s.cand flow) s.win y hy)
    exact cand_false_iff.2 ⟨this.1, fun hp => absurd hp (hnp y (by omega))⟩
  · intro _; exact cand_of_lost hlk

theorem lostCount_flight (c : Nat → Colour) (a b : Nat) (hab : a ≤ b)
    (hl : ∀ y, a ≤ y → y < b → c y = .lost) :
    ∀ n, lostCount (setRange c a b (fun _ => .flighting)) n + (min b n - min a n) = lostCount c n
  | 0 => by simp [lostCount]
  | n + 1 => by
    have ih := lostCount_flight c a b hab hl n
    by_cases h : a ≤ n ∧ n < b
    · have h1 : setRange c a b (fun _ => .flighting) n = .flighting := by
        simp only [setRange_apply, if_pos h]
      simp only [lostCount, h1, hl n h.1 h.2, reduceCtorEq, if_false, if_true]
      omega
    · have h1 : setRange c a b (fun _ => .flighting) n = c n := by
        simp only [setRange_apply, if_neg h]
      simp only [lostCount, h1]
      split <;> omega

theorem lostCount_eq_zero (c : Nat → Colour) : ∀ n, lostCount c n = 0 ↔ ∀ x, x < n → c x ≠ .lost
  | 0 => by simp [lostCount]
  | n + 1 => by
    have ih := lostCount_eq_zero c n
    simp only [lostCount]
    constructor
    · intro h x hx
      by_cases hxn : x = n
      · subst hxn; intro hl; rw [if_pos hl] at h; omega
      · exact ih.1 (by omega) x (by omega)
    · intro h
      rw [if_neg (h n (by omega)), ih.2 (fun x hx => h x (by omega))]

theorem lostCount_le (c : Nat → Colour) : ∀ n, lostCount c n ≤ n
  | 0 => Nat.le_refl 0
  | n + 1 => by
    have := lostCount_le c n
    simp only [lostCount]
    split <;> omega

/-! ### `ack`, `lose` as functions -/

theorem setRange_const_idem (c : Nat → Colour) (a b : Nat) (k : Colour) :
    setRange (setRange c a b (fun _ => k)) a b (fun _ => k) = setRange c a b (fun _ => k) := by
  funext x
  simp only [setRange_apply]
  split <;> rfl

theorem ack_ack (s : SendSpec) (a b : Nat) : (s.ack a b).ack a b = s.ack a b := by
  cases s with
  | mk colour size data maxData base =>
    simp only [SendSpec.ack, setRange_const_idem, SendSpec.mk.injEq, true_and]
    omega

theorem lose_eq_self (s : SendSpec) (a b : Nat) (h : ∀ x, a ≤ x → x < b → s.colour x = .recved) :
    s.lose a b = s := by
  cases s with
  | mk colour size data maxData base =>
    simp only [SendSpec.lose, SendSpec.mk.injEq, and_true]
    funext x
    simp only [setRange_apply]
    split
    · have hx : colour x = .recved := h x ‹_ ∧ _›.1 ‹_ ∧ _›.2
      rw [hx]; rfl
    · rfl

/-! ### composing traces -/

theorem Trace.Ok.append {s₀ : SendSpec} {tr₁ s₁ tr₂ s₂} (h1 : Trace.Ok s₀ tr₁ s₁) (h2 : Trace.Ok s₁ tr₂ s₂) :
    Trace.Ok s₀ (tr₁ ++ tr₂) s₂ := by
  induction h2 with
  | nil => rw [List.append_nil]; exact h1
  | snoc _ hs ih => rw [← List.append_assoc]; exact Trace.Ok.snoc ih hs

theorem Trace.Ok.single {s : SendSpec} {op obs s'} (hs : stepOk s op obs s') : Trace.Ok s [(op, obs)] s' :=
  Trace.Ok.snoc (Trace.Ok.nil s) hs

theorem Trace.Ok.cons {s : SendSpec} {op obs s₁ tr s'} (hs : stepOk s op obs s₁) (h : Trace.Ok s₁ tr s') :
    Trace.Ok s ((op, obs) :: tr) s' :=
  (Trace.Ok.single hs).append h

/-! ### a concrete legal history (non-vacuity of the property theorems)

capacity 10: write 6 bytes, pick `0..4` (fresh), pick `4..6` (fresh), lose `0..4`, ack `2..4` (ack after loss),
pick `0..2` (retransmission, not fresh), write 8 more (window-limited: `size = 10`), ack `0..2`,
lose `2..4` (loss after ack), extend the window to 20, ack `0..2` again. -/

def exPred : Nat → Option Nat := fun _ => some 4

theorem exPred_dom : PredDom exPred := by
  intro x n h
  simp only [exPred, Option.some.injEq] at h
  subst h
  decide

theorem RangeDom.of_dec {s : SendSpec} {a b : Nat}
    (h : a < b ∧ b ≤ s.size ∧ ∀ x, x < b → a ≤ x → s.colour x ≠ .pending) : RangeDom s a b :=
  ⟨h.1, h.2.1, fun x h1 h2 => h.2.2 x h2 h1⟩

def exB1 : List UInt8 := [1, 2, 3, 4, 5, 6]
def exB2 : List UInt8 := [7, 8, 9, 10, 11, 12, 13, 14]

def exS1 : SendSpec := (SendSpec.init 10).write exB1
def exS2 : SendSpec := exS1.picked (.range 0 4 true)
def exS3 : SendSpec := exS2.picked (.range 4 6 true)
def exS4 : SendSpec := exS3.lose 0 4
def exS5 : SendSpec := exS4.ack 2 4
def exS6 : SendSpec := exS5.picked (.range 0 2 false)
def exS7 : SendSpec := exS6.write exB2
def exS8 : SendSpec := exS7.ack 0 2
def exS9 : SendSpec := exS8.lose 2 4
def exS10 : SendSpec := exS9.extend 20
def exS : SendSpec := exS10.ack 0 2

def exE1 : SendOp × SendObs := (.write exB1, .unit)
def exE2 : SendOp × SendObs := (.pick exPred 100, .range 0 4 true)
def exE3 : SendOp × SendObs := (.pick exPred 100, .range 4 6 true)
def exE4 : SendOp × SendObs := (.lose 0 4, .unit)
def exE5 : SendOp × SendObs := (.ack 2 4, .unit)
def exE6 : SendOp × SendObs := (.pick exPred 100, .range 0 2 false)
def exE7 : SendOp × SendObs := (.write exB2, .unit)
def exE8 : SendOp × SendObs := (.ack 0 2, .unit)
def exE9 : SendOp × SendObs := (.lose 2 4, .unit)
def exE10 : SendOp × SendObs := (.extend 20, .unit)
def exE11 : SendOp × SendObs := (.ack 0 2, .unit)

/-- one write -/
def exTr1 : List (SendOp × SendObs) := [exE1]
/-- up to the acknowledgement after the loss: offsets 0, 1 are `Lost` -/
def exTr5 : List (SendOp × SendObs) := [exE1, exE2, exE3, exE4, exE5]
def exTr : List (SendOp × SendObs) := exTr5 ++ [exE6, exE7, exE8, exE9, exE10, exE11]

theorem exStep1 : stepOk (SendSpec.init 10) (.write exB1) .unit exS1 := ⟨by decide, rfl⟩
theorem exStep2 : stepOk exS1 (.pick exPred 100) (.range 0 4 true) exS2 := ⟨exPred_dom, by decide, rfl⟩
theorem exStep3 : stepOk exS2 (.pick exPred 100) (.range 4 6 true) exS3 := ⟨exPred_dom, by decide, rfl⟩
theorem exStep4 : stepOk exS3 (.lose 0 4) .unit exS4 := ⟨RangeDom.of_dec (by decide), rfl⟩
theorem exStep5 : stepOk exS4 (.ack 2 4) .unit exS5 := ⟨RangeDom.of_dec (by decide), rfl⟩
theorem exStep6 : stepOk exS5 (.pick exPred 100) (.range 0 2 false) exS6 := ⟨exPred_dom, by decide, rfl⟩
theorem exStep7 : stepOk exS6 (.write exB2) .unit exS7 := ⟨by decide, rfl⟩
theorem exStep8 : stepOk exS7 (.ack 0 2) .unit exS8 := ⟨RangeDom.of_dec (by decide), rfl⟩
theorem exStep9 : stepOk exS8 (.lose 2 4) .unit exS9 := ⟨RangeDom.of_dec (by decide), rfl⟩
theorem exStep10 : stepOk exS9 (.extend 20) .unit exS10 := ⟨by decide, rfl⟩
theorem exStep11 : stepOk exS10 (.ack 0 2) .unit exS := ⟨RangeDom.of_dec (by decide), rfl⟩

theorem exTr1_ok : Trace.Ok (SendSpec.init 10) exTr1 exS1 := Trace.Ok.single exStep1

theorem exTr5_ok : Trace.Ok (SendSpec.init 10) exTr5 exS5 :=
  .cons exStep1 <| .cons exStep2 <| .cons exStep3 <| .cons exStep4 <| .single exStep5

theorem exTr_ok : Trace.Ok (SendSpec.init 10) exTr exS :=
  exTr5_ok.append <| .cons exStep6 <| .cons exStep7 <| .cons exStep8 <| .cons exStep9 <| .cons exStep10 <|
    .single exStep11

theorem NoForget.cons {op obs} {tr : List (SendOp × SendObs)} (hop : op ≠ .forget) (h : NoForget tr) :
    NoForget ((op, obs) :: tr) := by
  intro e he
  rcases List.mem_cons.1 he with rfl | he
  · cases op <;> first | trivial | exact absurd rfl hop
  · exact h e he

theorem exTr5_noForget : NoForget exTr5 :=
  .cons (by simp) <| .cons (by simp) <| .cons (by simp) <| .cons (by simp) <| .cons (by simp) .nil

theorem exTr_noForget : NoForget exTr :=
  NoForget.append_iff.2 ⟨exTr5_noForget,
    .cons (by simp) <| .cons (by simp) <| .cons (by simp) <| .cons (by simp) <| .cons (by simp) <|
      .cons (by simp) .nil⟩

/-- the retransmission state also allows the answer `none` when the predicate refuses -/
theorem exStepNone : stepOk exS5 (.pick (fun _ => none) 100) .none exS5 :=
  ⟨fun _ _ h => (by cases h), Or.inr rfl, rfl⟩

end GmQuic.SendSpec
