import GmQuic.Lemmas.ProtectErr
/-! C06: a tiny concrete instance (null AEAD restricted to one packet, zero mask) used by the non-vacuity examples
and by the `_fails` witness of Props/C06/Witness.lean. -/
namespace GmQuic.Protect
open GmQuic.Wire GmQuic.Pn

/-! ### a tiny concrete instance -/

def nullAead : Aead Unit where
  tagLen := 16
  aseal _ _ _ p := p ++ List.replicate 16 0xAA
  aopen _ _ _ _ := none

def zeroHp : Hp Unit where
  mask _ _ := [0, 0, 0, 0, 0]

/-- Handshake packet, empty cids, pn 5 in one byte, 8 bytes of payload -/
def t0 : TxPkt := ⟨.handshake, 0xe0, [0, 0, 0, 1, 0, 0], 5, .u8 5, false, List.replicate 8 0x01⟩
/-- 1-RTT packet, 8-byte dcid, pn 9 in two bytes, key phase 1 -/
def t1 : TxPkt := ⟨.oneRtt, 0x40, [1, 2, 3, 4, 5, 6, 7, 8], 9, .u16 9, true, List.replicate 8 0x02⟩

def A0 : Aead Unit := restrict nullAead () t0.pn (aadOf 16 t0) t0.body
def A1 : Aead Unit := restrict nullAead () t1.pn (aadOf 16 t1) t1.body

def pkt0 : Bytes := [0xe0, 0, 0, 0, 1, 0, 0, 0x40, 0x19, 5] ++ List.replicate 8 0x01 ++ List.replicate 16 0xAA
def pkt1 : Bytes := [0x45, 1, 2, 3, 4, 5, 6, 7, 8, 0, 9] ++ List.replicate 8 0x02 ++ List.replicate 16 0xAA

def cfg0 (before : Bool) : RxCfg Unit Unit := ⟨before, fun _ => (), fun _ => (), fun _ => ((), ())⟩
def s0 : OneRtt Unit := ⟨false, 0, some (), none, ()⟩

theorem wf0 : WfHdr t0 := ⟨by decide, by decide⟩
theorem wf1 : WfHdr t1 := ⟨by decide, by decide⟩
theorem hp0 : protect A0 zeroHp () () t0 = .ok pkt0 9 := by decide
theorem hp1 : protect A1 zeroHp () () t1 = .ok pkt1 9 := by decide
theorem ideal0 : IdealFor A0 () t0.pn (aadOf A0.tagLen t0) t0.body := restrict_idealFor nullAead () _ _ _
theorem ideal1 : IdealFor A1 () t1.pn (aadOf A1.tagLen t1) t1.body := restrict_idealFor nullAead () _ _ _

end GmQuic.Protect
