import GmQuic.Model.SentJournal
/-! Helper lemmas for the sent-journal life-cycle model (C07). -/
namespace GmQuic.SentJournal
open GmQuic.Gen GmQuic.Pn

theorem dropCount_le (now : Nat) (rs : List Rec) : (dropCount now rs).1 ≤ rs.length := by
  induction rs with
  | nil => simp [dropCount]
  | cons r rs ih => simp only [dropCount]; split <;> simp <;> omega

/-- the frames drained by `resize` are exactly those of the dropped records -/
theorem dropCount_frames (now : Nat) (rs : List Rec) :
    sumFrames (rs.drop (dropCount now rs).1) + (dropCount now rs).2 = sumFrames rs := by
  induction rs with
  | nil => simp [dropCount, sumFrames]
  | cons r rs ih =>
    simp only [dropCount]; split
    · simp
    · simp only [List.drop_succ_cons]
      simp only [sumFrames, List.map_cons, List.sum_cons] at ih ⊢
      omega

@[simp] theorem resize_built (s : State) : (resize s).built = s.built := by
  unfold resize; simp only []; split <;> rfl
@[simp] theorem resize_emptyBuilds (s : State) : (resize s).emptyBuilds = s.emptyBuilds := by
  unfold resize; simp only []; split <;> rfl
@[simp] theorem resize_guard (s : State) : (resize s).guard = s.guard := by
  unfold resize; simp only []; split <;> rfl
@[simp] theorem resize_la (s : State) : (resize s).j.la = s.j.la := by
  unfold resize; simp only []; split <;> rfl
@[simp] theorem resize_leaked (s : State) : (resize s).leaked = s.leaked := by
  unfold resize; simp only []; split <;> rfl
@[simp] theorem resize_now (s : State) : (resize s).now = s.now := by
  unfold resize; simp only []; split <;> rfl

/-- `resize` slides the window but never changes the next packet number. -/
@[simp] theorem resize_largest (s : State) : (resize s).j.largest = s.j.largest := by
  have h := dropCount_le s.now s.j.recs
  unfold resize; simp only []; split
  · rfl
  · simp only [Journal.largest, List.length_drop]; omega

theorem touch_offset (j : Journal) (pn : Nat) (f : Rec → Rec × Nat) : (touch j pn f).1.offset = j.offset := by
  unfold touch; split
  · split <;> rfl
  · rfl
theorem touch_len (j : Journal) (pn : Nat) (f : Rec → Rec × Nat) : (touch j pn f).1.recs.length = j.recs.length := by
  unfold touch; split
  · split <;> simp
  · rfl
@[simp] theorem touch_la (j : Journal) (pn : Nat) (f : Rec → Rec × Nat) : (touch j pn f).1.la = j.la := by
  unfold touch; split
  · split <;> rfl
  · rfl
@[simp] theorem touch_queueLen (j : Journal) (pn : Nat) (f : Rec → Rec × Nat) : (touch j pn f).1.queueLen = j.queueLen := by
  unfold touch; split
  · split <;> rfl
  · rfl
@[simp] theorem touch_largest (j : Journal) (pn : Nat) (f : Rec → Rec × Nat) : (touch j pn f).1.largest = j.largest := by
  simp [Journal.largest, touch_offset, touch_len]

/-- What one step can do to ⟨next pn, emitted log, empty-build counter⟩. -/
inductive Effect (s s' : State) : Prop
  | none (h1 : s'.j.largest = s.j.largest) (h2 : s'.built = s.built) (h3 : s'.emptyBuilds = s.emptyBuilds)
  | consumed (h1 : s'.j.largest = s.j.largest + 1) (h2 : s'.built = s.built ++ [s.j.largest])
      (h3 : s'.emptyBuilds = s.emptyBuilds) (h4 : s.j.largest ≤ varintMax)
  | empty (h1 : s'.j.largest = s.j.largest) (h2 : s'.built = s.built ++ [s.j.largest])
      (h3 : s'.emptyBuilds = s.emptyBuilds + 1)

theorem pushRec_effect (s : State) (r : Rec) : Effect s (pushRec s r) := by
  unfold pushRec; split
  · exact .none rfl rfl rfl
  · exact .consumed (by simp [Journal.largest]; omega) rfl rfl (by omega)

@[simp] theorem largest_set_la (j : Journal) (x : Nat) : ({ j with la := x } : Journal).largest = j.largest := rfl

theorem build_effect (s : State) (g : Guard) (rt et : Nat) :
    Effect s (if g.trivial = true ∧ s.j.queueLen - g.originLen = 0 then pushRec s Rec.skipped
        else if 0 < s.j.queueLen - g.originLen then
            pushRec s (Rec.flighting (s.j.queueLen - g.originLen) (s.now + rt) (s.now + et))
          else { s with guard := none, built := s.built ++ [s.j.largest], emptyBuilds := s.emptyBuilds + 1 }) := by
  split
  · exact pushRec_effect _ _
  · split
    · exact pushRec_effect _ _
    · exact .empty rfl rfl rfl

theorem step_effect (s : State) (op : Op) : Effect s (step s op) := by
  unfold step
  split
  · exact .none rfl rfl rfl
  · split
    all_goals first
      | exact .none rfl rfl rfl
      | exact pushRec_effect _ _
      | exact build_effect _ _ _ _
      | (split
         · exact .none rfl rfl rfl
         · exact pushRec_effect _ _)
      | (refine .none ?_ ?_ ?_ <;> simp <;> done)
      | (split <;> (refine .none ?_ ?_ ?_ <;> simp <;> done))

/-- operations that end a guard's life: `build_with_time`, `build_trivial`, `drop`. -/
def Op.endsGuard : Op → Bool
  | .build _ _ => true
  | .buildTrivial => true
  | .abandon => true
  | _ => false

/-- What a guard-internal step leaves alone. -/
structure Same (s s' : State) : Prop where
  guard : s'.guard.isSome
  offset : s'.j.offset = s.j.offset
  recs : s'.j.recs = s.j.recs
  la : s'.j.la = s.j.la
  built : s'.built = s.built
  eb : s'.emptyBuilds = s.emptyBuilds
  poisoned : s'.poisoned = s.poisoned

theorem step_same (s : State) (op : Op) (hg : s.guard.isSome) (he : op.endsGuard = false) :
    Same s (step s op) := by
  obtain ⟨g, hg'⟩ := Option.isSome_iff_exists.mp hg
  unfold step
  split
  · exact ⟨hg, rfl, rfl, rfl, rfl, rfl, rfl⟩
  · cases op <;> simp [hg', Op.endsGuard] at he ⊢ <;> exact ⟨by simp [hg'], rfl, rfl, rfl, rfl, rfl, rfl⟩

theorem fold_same (mid : List Op) (s : State) (hg : s.guard.isSome) (hm : ∀ op ∈ mid, op.endsGuard = false) :
    Same s (mid.foldl step s) := by
  induction mid generalizing s with
  | nil => exact ⟨hg, rfl, rfl, rfl, rfl, rfl, rfl⟩
  | cons op ops ih =>
    have h1 := step_same s op hg (hm op (by simp))
    have h2 := ih (step s op) h1.guard (fun o ho => hm o (by simp [ho]))
    simp only [List.foldl_cons]
    exact ⟨h2.guard, h2.offset.trans h1.offset, h2.recs.trans h1.recs, h2.la.trans h1.la, h2.built.trans h1.built,
      h2.eb.trans h1.eb, h2.poisoned.trans h1.poisoned⟩

theorem guardPn_congr (s s' : State) (h1 : s.guard.isSome) (h2 : s'.guard.isSome)
    (ho : s'.j.offset = s.j.offset) (hr : s'.j.recs = s.j.recs) (hl : s'.j.la = s.j.la) :
    guardPn s' = guardPn s := by
  obtain ⟨g, hg⟩ := Option.isSome_iff_exists.mp h1
  obtain ⟨g', hg'⟩ := Option.isSome_iff_exists.mp h2
  simp [guardPn, hg, hg', Journal.largest, ho, hr, hl]

theorem step_abandon_fields (t : State) (g : Guard) (hp : t.poisoned = none) (hg : t.guard = some g) :
    (step t .abandon).j = t.j ∧ (step t .abandon).built = t.built ∧
      (step t .abandon).emptyBuilds = t.emptyBuilds ∧ (step t .abandon).guard = none ∧
      (step t .abandon).poisoned = none := by
  simp [step, hp, hg]

theorem emptyBuilds_mono_step (s : State) (op : Op) : s.emptyBuilds ≤ (step s op).emptyBuilds := by
  cases step_effect s op <;> omega

theorem emptyBuilds_mono (ops : List Op) (s : State) : s.emptyBuilds ≤ (ops.foldl step s).emptyBuilds := by
  induction ops generalizing s with
  | nil => simp
  | cons op ops ih =>
    have := emptyBuilds_mono_step s op
    have := ih (step s op)
    simp only [List.foldl_cons]; omega

/-- emitted numbers are strictly increasing, all below the next number, which never passes 2^62 -/
structure PnInv (s : State) : Prop where
  sorted : s.built.Pairwise (· < ·)
  below : ∀ p ∈ s.built, p < s.j.largest
  bound : s.j.largest ≤ varintMax + 1

theorem step_pnInv (s : State) (op : Op) (h : PnInv s) (he : (step s op).emptyBuilds = s.emptyBuilds) :
    PnInv (step s op) := by
  cases step_effect s op with
  | none h1 h2 h3 => exact ⟨by rw [h2]; exact h.sorted, by rw [h1, h2]; exact h.below, by rw [h1]; exact h.bound⟩
  | consumed h1 h2 h3 h4 =>
    refine ⟨?_, ?_, by omega⟩
    · rw [h2, List.pairwise_append]
      refine ⟨h.sorted, List.pairwise_singleton _ _, ?_⟩
      intro a ha b hb
      simp only [List.mem_singleton] at hb
      subst hb; exact h.below a ha
    · intro p hp
      rw [h2] at hp; rw [h1]
      simp only [List.mem_append, List.mem_singleton] at hp
      rcases hp with hp | hp
      · have := h.below p hp; omega
      · omega
  | empty h1 h2 h3 => omega

theorem fold_pnInv (ops : List Op) (s : State) (h : PnInv s)
    (he : (ops.foldl step s).emptyBuilds = s.emptyBuilds) : PnInv (ops.foldl step s) := by
  induction ops generalizing s with
  | nil => simpa using h
  | cons op ops ih =>
    simp only [List.foldl_cons] at he ⊢
    have m1 := emptyBuilds_mono_step s op
    have m2 := emptyBuilds_mono ops (step s op)
    exact ih (step s op) (step_pnInv s op h (by omega)) (by omega)

theorem init_pnInv : PnInv init := ⟨by simp [init], by simp [init], by simp [init, Journal.largest]⟩

end GmQuic.SentJournal
