import GmQuic.Model.SentJournal
/-! Helper lemmas for the sent-journal life-cycle model (C07). -/
namespace GmQuic.SentJournal
open GmQuic.Gen GmQuic.Pn

theorem dropCount_le (now : Nat) (rs : List Rec) : (dropCount now rs).1 ≤ rs.length := by
  induction rs with
  | nil => simp [dropCount]
  | cons r rs ih => simp only [dropCount]; split <;> simp <;> omega

/-- the frames drained by `resize` are exactly those of the dropped records -/
theorem dropCount_frames (now : Nat) (rs : List Rec) :
    sumFrames (rs.drop (dropCount now rs).1) + (dropCount now rs).2 = sumFrames rs := by
  induction rs with
  | nil => simp [dropCount, sumFrames]
  | cons r rs ih =>
    simp only [dropCount]; split
    · simp
    · simp only [List.drop_succ_cons]
      simp only [sumFrames, List.map_cons, List.sum_cons] at ih ⊢
      omega

@[simp] theorem resize_built (s : State) : (resize s).built = s.built := by
  unfold resize; simp only []; split <;> rfl
@[simp] theorem resize_emptyBuilds (s : State) : (resize s).emptyBuilds = s.emptyBuilds := by
  unfold resize; simp only []; split <;> rfl
@[simp] theorem resize_guard (s : State) : (resize s).guard = s.guard := by
  unfold resize; simp only []; split <;> rfl
@[simp] theorem resize_la (s : State) : (resize s).j.la = s.j.la := by
  unfold resize; simp only []; split <;> rfl
@[simp] theorem resize_leaked (s : State) : (resize s).leaked = s.leaked := by
  unfold resize; simp only []; split <;> rfl
@[simp] theorem resize_now (s : State) : (resize s).now = s.now := by
  unfold resize; simp only []; split <;> rfl

/-- `resize` slides the window but never changes the next packet number. -/
@[simp] theorem resize_largest (s : State) : (resize s).j.largest = s.j.largest := by
  have h := dropCount_le s.now s.j.recs
  unfold resize; simp only []; split
  · rfl
  · simp only [Journal.largest, List.length_drop]; omega

theorem touch_offset (j : Journal) (pn : Nat) (f : Rec → Rec × Nat) : (touch j pn f).1.offset = j.offset := by
  unfold touch; split
  · split <;> rfl
  · rfl
theorem touch_len (j : Journal) (pn : Nat) (f : Rec → Rec × Nat) : (touch j pn f).1.recs.length = j.recs.length := by
  unfold touch; split
  · split <;> simp
  · rfl
@[simp] theorem touch_la (j : Journal) (pn : Nat) (f : Rec → Rec × Nat) : (touch j pn f).1.la = j.la := by
  unfold touch; split
  · split <;> rfl
  · rfl
@[simp] theorem touch_queueLen (j : Journal) (pn : Nat) (f : Rec → Rec × Nat) : (touch j pn f).1.queueLen = j.queueLen := by
  unfold touch; split
  · split <;> rfl
  · rfl
@[simp] theorem touch_largest (j : Journal) (pn : Nat) (f : Rec → Rec × Nat) : (touch j pn f).1.largest = j.largest := by
  simp [Journal.largest, touch_offset, touch_len]

/-- What one step can do to ⟨next pn, emitted log, empty-build counter⟩. -/
inductive Effect (s s' : State) : Prop
  | none (h1 : s'.j.largest = s.j.largest) (h2 : s'.built = s.built) (h3 : s'.emptyBuilds = s.emptyBuilds)
  | consumed (h1 : s'.j.largest = s.j.largest + 1) (h2 : s'.built = s.built ++ [s.j.largest])
      (h3 : s'.emptyBuilds = s.emptyBuilds) (h4 : s.j.largest ≤ varintMax)
  | empty (h1 : s'.j.largest = s.j.largest) (h2 : s'.built = s.built ++ [s.j.largest])
      (h3 : s'.emptyBuilds = s.emptyBuilds + 1)

theorem pushRec_effect (s : State) (r : Rec) : Effect s (pushRec s r) := by
  unfold pushRec; split
  · exact .none rfl rfl rfl
  · exact .consumed (by simp [Journal.largest]; omega) rfl rfl (by omega)

@[simp] theorem largest_set_la (j : Journal) (x : Nat) : ({ j with la := x } : Journal).largest = j.largest := rfl

theorem build_effect (s : State) (g : Guard) (rt et : Nat) :
    Effect s (if g.trivial = true ∧ s.j.queueLen - g.originLen = 0 then pushRec s Rec.skipped
        else if 0 < s.j.queueLen - g.originLen then
            pushRec s (Rec.flighting (s.j.queueLen - g.originLen) (s.now + rt) (s.now + et))
          else { s with guard := none, built := s.built ++ [s.j.largest], emptyBuilds := s.emptyBuilds + 1 }) := by
  split
  · exact pushRec_effect _ _
  · split
    · exact pushRec_effect _ _
    · exact .empty rfl rfl rfl

theorem step_effect (s : State) (op : Op) : Effect s (step s op) := by
  unfold step
  split
  · exact .none rfl rfl rfl
  · split
    all_goals first
      | exact .none rfl rfl rfl
      | exact pushRec_effect _ _
      | exact build_effect _ _ _ _
      | (split
         · exact .none rfl rfl rfl
         · exact pushRec_effect _ _)
      | (refine .none ?_ ?_ ?_ <;> simp <;> done)
      | (split <;> (refine .none ?_ ?_ ?_ <;> simp <;> done))

/-- operations that end a guard's life: `build_with_time`, `build_trivial`, `drop`. -/
def Op.endsGuard : Op → Bool
  | .build _ _ => true
  | .buildTrivial => true
  | .abandon => true
  | _ => false

/-- What a guard-internal step leaves alone. -/
structure Same (s s' : State) : Prop where
  guard : s'.guard.isSome
  offset : s'.j.offset = s.j.offset
  recs : s'.j.recs = s.j.recs
  la : s'.j.la = s.j.la
  built : s'.built = s.built
  eb : s'.emptyBuilds = s.emptyBuilds
  poisoned : s'.poisoned = s.poisoned

theorem step_same (s : State) (op : Op) (hg : s.guard.isSome) (he : op.endsGuard = false) :
    Same s (step s op) := by
  obtain ⟨g, hg'⟩ := Option.isSome_iff_exists.mp hg
  unfold step
  split
  · exact ⟨hg, rfl, rfl, rfl, rfl, rfl, rfl⟩
  · cases op <;> simp [hg', Op.endsGuard] at he ⊢ <;> exact ⟨by simp [hg'], rfl, rfl, rfl, rfl, rfl, rfl⟩

theorem fold_same (mid : List Op) (s : State) (hg : s.guard.isSome) (hm : ∀ op ∈ mid, op.endsGuard = false) :
    Same s (mid.foldl step s) := by
  induction mid generalizing s with
  | nil => exact ⟨hg, rfl, rfl, rfl, rfl, rfl, rfl⟩
  | cons op ops ih =>
    have h1 := step_same s op hg (hm op (by simp))
    have h2 := ih (step s op) h1.guard (fun o ho => hm o (by simp [ho]))
    simp only [List.foldl_cons]
    exact ⟨h2.guard, h2.offset.trans h1.offset, h2.recs.trans h1.recs, h2.la.trans h1.la, h2.built.trans h1.built,
      h2.eb.trans h1.eb, h2.poisoned.trans h1.poisoned⟩

theorem guardPn_congr (s s' : State) (h1 : s.guard.isSome) (h2 : s'.guard.isSome)
    (ho : s'.j.offset = s.j.offset) (hr : s'.j.recs = s.j.recs) (hl : s'.j.la = s.j.la) :
    guardPn s' = guardPn s := by
  obtain ⟨g, hg⟩ := Option.isSome_iff_exists.mp h1
  obtain ⟨g', hg'⟩ := Option.isSome_iff_exists.mp h2
  simp [guardPn, hg, hg', Journal.largest, ho, hr, hl]

theorem step_abandon_fields (t : State) (g : Guard) (hp : t.poisoned = none) (hg : t.guard = some g) :
    (step t .abandon).j = t.j ∧ (step t .abandon).built = t.built ∧
      (step t .abandon).emptyBuilds = t.emptyBuilds ∧ (step t .abandon).guard = none ∧
      (step t .abandon).poisoned = none := by
  simp [step, hp, hg]

theorem emptyBuilds_mono_step (s : State) (op : Op) : s.emptyBuilds ≤ (step s op).emptyBuilds := by
  cases step_effect s op <;> omega

theorem emptyBuilds_mono (ops : List Op) (s : State) : s.emptyBuilds ≤ (ops.foldl step s).emptyBuilds := by
  induction ops generalizing s with
  | nil => simp
  | cons op ops ih =>
    have := emptyBuilds_mono_step s op
    have := ih (step s op)
    simp only [List.foldl_cons]; omega

/-- emitted numbers are strictly increasing, all below the next number, which never passes 2^62 -/
structure PnInv (s : State) : Prop where
  sorted : s.built.Pairwise (· < ·)
  below : ∀ p ∈ s.built, p < s.j.largest
  bound : s.j.largest ≤ varintMax + 1

theorem step_pnInv (s : State) (op : Op) (h : PnInv s) (he : (step s op).emptyBuilds = s.emptyBuilds) :
    PnInv (step s op) := by
  cases step_effect s op with
  | none h1 h2 h3 => exact ⟨by rw [h2]; exact h.sorted, by rw [h1, h2]; exact h.below, by rw [h1]; exact h.bound⟩
  | consumed h1 h2 h3 h4 =>
    refine ⟨?_, ?_, by omega⟩
    · rw [h2, List.pairwise_append]
      refine ⟨h.sorted, List.pairwise_singleton _ _, ?_⟩
      intro a ha b hb
      simp only [List.mem_singleton] at hb
      subst hb; exact h.below a ha
    · intro p hp
      rw [h2] at hp; rw [h1]
      simp only [List.mem_append, List.mem_singleton] at hp
      rcases hp with hp | hp
      · have := h.below p hp; omega
      · omega
  | empty h1 h2 h3 => omega

theorem fold_pnInv (ops : List Op) (s : State) (h : PnInv s)
    (he : (ops.foldl step s).emptyBuilds = s.emptyBuilds) : PnInv (ops.foldl step s) := by
  induction ops generalizing s with
  | nil => simpa using h
  | cons op ops ih =>
    simp only [List.foldl_cons] at he ⊢
    have m1 := emptyBuilds_mono_step s op
    have m2 := emptyBuilds_mono ops (step s op)
    exact ih (step s op) (step_pnInv s op h (by omega)) (by omega)

theorem init_pnInv : PnInv init := ⟨by simp [init], by simp [init], by simp [init, Journal.largest]⟩

@[simp] theorem pushRec_la (s : State) (r : Rec) : (pushRec s r).j.la = s.j.la := by
  unfold pushRec; split <;> rfl

/-- how one step can change `largest_acked_pktno` -/
theorem step_la (s : State) (op : Op) :
    (step s op).j.la = s.j.la ∨ ∃ n, n ≤ s.j.largest ∧ (step s op).j.la = max s.j.la n := by
  by_cases hp : s.poisoned.isSome = true
  · left; simp [step, hp]
  · cases hg : s.guard with
    | some g =>
      left
      cases op <;> simp [step, hp, hg] <;> (repeat' split) <;> simp
    | none =>
      cases op with
      | ackLargest n =>
        by_cases h : updateLargestOk s.j n = true
        · right; exact ⟨n, Nat.le_of_lt (by simpa [updateLargestOk] using h), by simp [step, hp, hg, h]⟩
        · left; simp [step, hp, hg, h]
      | _ => left; simp [step, hp, hg]

/-- hypothesis-free invariant: `largest_acked ≤ next pn ≤ 2^62` -/
structure BaseInv (s : State) : Prop where
  la_le : s.j.la ≤ s.j.largest
  bound : s.j.largest ≤ varintMax + 1

theorem step_baseInv (s : State) (op : Op) (h : BaseInv s) : BaseInv (step s op) := by
  have hl := step_la s op
  cases step_effect s op with
  | none h1 h2 h3 =>
    refine ⟨?_, by rw [h1]; exact h.bound⟩
    rw [h1]; rcases hl with hl | ⟨n, hn, hl⟩ <;> rw [hl]
    · exact h.la_le
    · have := h.la_le; omega
  | consumed h1 h2 h3 h4 =>
    refine ⟨?_, by omega⟩
    rw [h1]; rcases hl with hl | ⟨n, hn, hl⟩ <;> rw [hl]
    · have := h.la_le; omega
    · have := h.la_le; omega
  | empty h1 h2 h3 =>
    refine ⟨?_, by rw [h1]; exact h.bound⟩
    rw [h1]; rcases hl with hl | ⟨n, hn, hl⟩ <;> rw [hl]
    · exact h.la_le
    · have := h.la_le; omega

theorem fold_baseInv (ops : List Op) (s : State) (h : BaseInv s) : BaseInv (ops.foldl step s) := by
  induction ops generalizing s with
  | nil => exact h
  | cons op ops ih => exact ih _ (step_baseInv s op h)

theorem init_baseInv : BaseInv init := ⟨by simp [init, Journal.largest, sjInitLargestAcked], by simp [init, Journal.largest]⟩

theorem sumFrames_append (a b : List Rec) : sumFrames (a ++ b) = sumFrames a + sumFrames b := by
  simp [sumFrames, List.map_append, List.sum_append]

theorem sumFrames_set (rs : List Rec) (i : Nat) (r r' : Rec) (h : rs[i]? = some r) (hn : r'.nframes = r.nframes) :
    sumFrames (rs.set i r') = sumFrames rs := by
  induction rs generalizing i with
  | nil => simp
  | cons x xs ih =>
    cases i with
    | zero =>
      simp only [List.getElem?_cons_zero, Option.some.injEq] at h
      subst h
      simp [sumFrames, hn]
    | succ i =>
      simp only [List.getElem?_cons_succ] at h
      have := ih i h
      simp only [sumFrames, List.set_cons_succ, List.map_cons, List.sum_cons] at this ⊢
      omega

theorem beAcked_nframes (r : Rec) : r.beAcked.1.nframes = r.nframes := by cases r <;> rfl
theorem maybeLost_nframes (r : Rec) : r.maybeLost.1.nframes = r.nframes := by cases r <;> rfl

theorem touch_sumFrames (j : Journal) (pn : Nat) (f : Rec → Rec × Nat) (hf : ∀ r, (f r).1.nframes = r.nframes) :
    sumFrames (touch j pn f).1.recs = sumFrames j.recs := by
  unfold touch; split
  · split
    · rename_i r hr
      exact sumFrames_set _ _ r _ hr (hf r)
    · rfl
  · rfl

/-- queue length when the live guard started (or now, if there is none) -/
def base (s : State) : Nat :=
  match s.guard with
  | some g => g.originLen
  | none => s.j.queueLen

/-- every frame in `queue` is accounted for by a record, a leak, or the live guard -/
structure QInv (s : State) : Prop where
  noDrain : s.poisoned ≠ some .drain
  acct : s.poisoned = none → sumFrames s.j.recs + s.leaked = base s ∧ base s ≤ s.j.queueLen

theorem sumFrames_single (r : Rec) : sumFrames [r] = r.nframes := by simp [sumFrames]

theorem resize_qinv (s : State) (hg : s.guard = none) (hp : s.poisoned = none) (h : QInv s) : QInv (resize s) := by
  have hf := dropCount_frames s.now s.j.recs
  obtain ⟨h1, h2⟩ := h.acct hp
  simp only [base, hg] at h1 h2
  have hn : ¬ s.j.queueLen < (dropCount s.now s.j.recs).2 := by omega
  unfold resize
  simp only [hn, if_false]
  refine ⟨by simp [hp], fun _ => ?_⟩
  simp only [base, hg]
  omega

theorem pushRec_qinv (s : State) (r : Rec) (hp : s.poisoned = none)
    (h : sumFrames s.j.recs + r.nframes + s.leaked = s.j.queueLen) : QInv (pushRec s r) := by
  unfold pushRec; split
  · exact ⟨by simp, by simp⟩
  · refine ⟨by simp [hp], fun _ => ?_⟩
    show sumFrames (s.j.recs ++ [r]) + s.leaked = s.j.queueLen ∧ s.j.queueLen ≤ s.j.queueLen
    rw [sumFrames_append, sumFrames_single]; omega

theorem step_qinv (s : State) (op : Op) (h : QInv s) : QInv (step s op) := by
  by_cases hp : s.poisoned = none
  · obtain ⟨h1, h2⟩ := h.acct hp
    cases hg : s.guard with
    | some g =>
      simp only [base, hg] at h1 h2
      cases op
      case build rt et =>
        have e : step s (.build rt et) =
            (if g.trivial = true ∧ s.j.queueLen - g.originLen = 0 then pushRec s .skipped
             else if s.j.queueLen - g.originLen > 0 then
               pushRec s (.flighting (s.j.queueLen - g.originLen) (s.now + rt) (s.now + et))
             else { s with guard := none, built := s.built ++ [s.j.largest], emptyBuilds := s.emptyBuilds + 1 }) := by
          simp [step, hp, hg]
        rw [e]
        split
        · exact pushRec_qinv s _ hp (by simp only [Rec.nframes]; omega)
        · split
          · exact pushRec_qinv s _ hp (by simp only [Rec.nframes]; omega)
          · refine ⟨by simp [hp], fun _ => ?_⟩
            show sumFrames s.j.recs + s.leaked = s.j.queueLen ∧ s.j.queueLen ≤ s.j.queueLen
            omega
      case buildTrivial =>
        have e : step s .buildTrivial =
            (if s.j.queueLen ≠ g.originLen ∨ g.trivial = false then { s with guard := none, poisoned := some .trivialAssert }
             else pushRec s .skipped) := by
          simp [step, hp, hg]
        rw [e]
        split
        · exact ⟨by simp, by simp⟩
        · exact pushRec_qinv s _ hp (by simp only [Rec.nframes]; omega)
      case abandon =>
        have e : step s .abandon = { s with guard := none, leaked := s.leaked + (s.j.queueLen - g.originLen) } := by
          simp [step, hp, hg]
        rw [e]
        refine ⟨by simp [hp], fun _ => ?_⟩
        show sumFrames s.j.recs + (s.leaked + (s.j.queueLen - g.originLen)) = s.j.queueLen ∧ s.j.queueLen ≤ s.j.queueLen
        omega
      case frame =>
        have e : step s .frame = { s with j := { s.j with queueLen := s.j.queueLen + 1 } } := by
          simp [step, hp, hg]
        rw [e]
        refine ⟨by simp [hp], fun _ => ?_⟩
        simp only [base, hg]
        show sumFrames s.j.recs + s.leaked = g.originLen ∧ g.originLen ≤ s.j.queueLen + 1
        omega
      case trivial =>
        have e : step s .trivial = { s with guard := some { g with trivial := true } } := by
          simp [step, hp, hg]
        rw [e]
        refine ⟨by simp [hp], fun _ => ?_⟩
        show sumFrames s.j.recs + s.leaked = g.originLen ∧ g.originLen ≤ s.j.queueLen
        omega
      case tick ms =>
        have e : step s (.tick ms) = { s with now := s.now + ms } := by simp [step, hp, hg]
        rw [e]
        refine ⟨by simp [hp], fun _ => ?_⟩
        simp only [base, hg]
        exact ⟨h1, h2⟩
      case begin =>
        have e : step s .begin = s := by simp [step, hp, hg]
        rw [e]; exact h
      case pn =>
        have e : step s .pn = s := by simp [step, hp, hg]
        rw [e]; exact h
      case rotate =>
        have e : step s .rotate = s := by simp [step, hp, hg]
        rw [e]; exact h
      case ackLargest n =>
        have e : step s (.ackLargest n) = s := by simp [step, hp, hg]
        rw [e]; exact h
      case acked pn =>
        have e : step s (.acked pn) = s := by simp [step, hp, hg]
        rw [e]; exact h
      case lost pn =>
        have e : step s (.lost pn) = s := by simp [step, hp, hg]
        rw [e]; exact h
    | none =>
      simp only [base, hg] at h1 h2
      cases op
      case begin =>
        have e : step s .begin = { s with guard := some { trivial := false, originLen := s.j.queueLen } } := by
          simp [step, hp, hg]
        rw [e]
        refine ⟨by simp [hp], fun _ => ?_⟩
        show sumFrames s.j.recs + s.leaked = s.j.queueLen ∧ s.j.queueLen ≤ s.j.queueLen
        omega
      case tick ms =>
        have e : step s (.tick ms) = { s with now := s.now + ms } := by simp [step, hp, hg]
        rw [e]
        refine ⟨by simp [hp], fun _ => ?_⟩
        simp only [base, hg]
        exact ⟨h1, h2⟩
      case ackLargest n =>
        have e : step s (.ackLargest n) =
            resize (if updateLargestOk s.j n then { s with j := { s.j with la := max s.j.la n } } else s) := by
          simp [step, hp, hg]
        rw [e]
        split
        · refine resize_qinv { s with j := { s.j with la := max s.j.la n } } hg hp ⟨by simp [hp], fun _ => ?_⟩
          simp only [base, hg]
          exact ⟨h1, h2⟩
        · exact resize_qinv s hg hp h
      case rotate =>
        have e : step s .rotate = resize s := by simp [step, hp, hg]
        rw [e]; exact resize_qinv s hg hp h
      case acked pn =>
        have e : step s (.acked pn) = resize { s with j := (touch s.j pn Rec.beAcked).1 } := by
          simp [step, hp, hg]
        rw [e]
        refine resize_qinv { s with j := (touch s.j pn Rec.beAcked).1 } hg hp ⟨by simp [hp], fun _ => ?_⟩
        simp only [base, hg]
        show sumFrames (touch s.j pn Rec.beAcked).1.recs + s.leaked = (touch s.j pn Rec.beAcked).1.queueLen ∧ _
        rw [touch_sumFrames _ _ _ beAcked_nframes, touch_queueLen]
        exact ⟨h1, Nat.le_refl _⟩
      case lost pn =>
        have e : step s (.lost pn) = resize { s with j := (touch s.j pn Rec.maybeLost).1 } := by
          simp [step, hp, hg]
        rw [e]
        refine resize_qinv { s with j := (touch s.j pn Rec.maybeLost).1 } hg hp ⟨by simp [hp], fun _ => ?_⟩
        simp only [base, hg]
        show sumFrames (touch s.j pn Rec.maybeLost).1.recs + s.leaked = (touch s.j pn Rec.maybeLost).1.queueLen ∧ _
        rw [touch_sumFrames _ _ _ maybeLost_nframes, touch_queueLen]
        exact ⟨h1, Nat.le_refl _⟩
      case pn =>
        have e : step s .pn = s := by simp [step, hp, hg]
        rw [e]; exact h
      case frame =>
        have e : step s .frame = s := by simp [step, hp, hg]
        rw [e]; exact h
      case trivial =>
        have e : step s .trivial = s := by simp [step, hp, hg]
        rw [e]; exact h
      case buildTrivial =>
        have e : step s .buildTrivial = s := by simp [step, hp, hg]
        rw [e]; exact h
      case abandon =>
        have e : step s .abandon = s := by simp [step, hp, hg]
        rw [e]; exact h
      case build rt et =>
        have e : step s (.build rt et) = s := by simp [step, hp, hg]
        rw [e]; exact h
  · have hs : s.poisoned.isSome = true := by
      cases hq : s.poisoned with
      | none => exact absurd hq hp
      | some _ => rfl
    have e : step s op = s := by simp [step, hs]
    rw [e]; exact h

theorem fold_qinv (ops : List Op) (s : State) (h : QInv s) : QInv (ops.foldl step s) := by
  induction ops generalizing s with
  | nil => exact h
  | cons op ops ih => exact ih _ (step_qinv s op h)

theorem init_qinv : QInv init := ⟨by simp [init], fun _ => by simp [init, base, sumFrames]⟩

end GmQuic.SentJournal
