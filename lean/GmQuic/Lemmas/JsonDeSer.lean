import GmQuic.Lemmas.JsonRoundtrip
/-! C20: the generic round-trip theorem, by mutual structural induction on schemas / field lists. -/
namespace GmQuic.Model.Json

theorem nameIdx_nth : ∀ (l : List String) (i k : Nat), l.Nodup → i < l.length → nameIdx (nthName l i) l k = some (k + i)
  | [], _, _, _, h => by simp at h
  | a :: tl, 0, k, _, _ => by simp [nameIdx, nthName]
  | a :: tl, j + 1, k, hn, hi => by
      simp at hn hi
      have hm : ∀ (l : List String) (j : Nat), j < l.length → nthName l j ∈ l := by
        intro l
        induction l with
        | nil => intro j h; simp at h
        | cons b t ih => intro j h; cases j with
          | zero => simp [nthName]
          | succ j' => simp [nthName]; exact Or.inr (ih j' (by simpa using h))
      have hne : ¬ a = nthName tl j := fun e => hn.1 (e ▸ hm tl j hi)
      have := nameIdx_nth tl j (k + 1) hn.2 hi
      simp [nameIdx, nthName, hne, this]; omega

theorem closed_flat {s : Schema} (h : closedStruct s = true) : flattenable s = true := by
  cases s with
  | struct fs rest => cases rest <;> simp_all [closedStruct, flattenable]
  | _ => simp [closedStruct] at h

theorem closed_nodup {s : Schema} (h : closedStruct s = true) (hw : wf s = true) : (namesOf s).Nodup := by
  cases s with
  | struct fs rest => simp [wf] at hw; simpa [namesOf] using hw.2
  | _ => simp [closedStruct] at h

mutual
theorem de_ser : ∀ (s : Schema) (v : Val), wf s = true → hasType s v = true → de s (ser s v) = some v
  | .bool, v, _, ht => by cases v <;> simp_all [hasType, ser, de]
  | .int _ _, v, _, ht => by cases v <;> simp_all [hasType, ser, de]
  | .flt, v, _, ht => by cases v <;> simp_all [hasType, ser, de]
  | .str, v, _, ht => by cases v <;> simp_all [hasType, ser, de]
  | .hex _ _, v, _, ht => by cases v <;> simp_all [hasType, ser, de]
  | .any, v, _, ht => by cases v <;> simp_all [hasType, ser, de]
  | .map, v, _, ht => by cases v <;> simp_all [hasType, ser, de]
  | .opt s, v, hw, ht => by
      simp only [wf, Bool.and_eq_true] at hw
      cases v <;> simp [hasType] at ht
      · simp [ser, de]
      · rename_i x
        have ih := de_ser s x hw.1 ht
        have hnn := nonnull_of_shape (by simpa using hw.2) ht
        simp only [ser]
        cases hj : ser s x <;> simp_all [de, kindOf, optOf]
  | .seq s len, v, hw, ht => by
      simp only [wf] at hw
      cases v <;> simp [hasType] at ht
      rename_i vs
      have hm : (vs.map (ser s)).mapM (de s) = some vs :=
        mapM_de_ser (ser s) (de s) vs (fun x hx => de_ser s x hw (ht.1 x hx))
      simp [ser, de, hm, ht.2]
  | .unitEnum names, v, hw, ht => by
      cases v <;> simp [hasType] at ht
      rename_i i x
      cases x <;> simp at ht
      simp only [wf, decide_eq_true_eq] at hw
      have := nameIdx_nth names i 0 hw ht
      simp [ser, de, this]
  | .struct fs rest, v, hw, ht => by
      simp only [wf, Bool.and_eq_true, decide_eq_true_eq] at hw
      cases v <;> simp only [hasType, Bool.and_eq_true] at ht <;> try (simp at ht)
      rename_i vs r
      obtain ⟨htf, htr⟩ := ht
      have hsub := keys_serFields_sublist fs vs hw.1 htf
      have hr : (keys r).Nodup ∧ (∀ k ∈ keys r, k ∉ allNames fs) ∧ (rest = false → r = []) := by
        cases rest
        · simp at htr; subst htr; simp [keys]
        · simp at htr; exact ⟨htr.1, disjointB_spec htr.2, by simp⟩
      have hO : (keys (serFields fs vs ++ r)).Nodup := by
        rw [keys_append, List.nodup_append]
        refine ⟨hsub.nodup hw.2, hr.1, ?_⟩
        intro a ha b hb e
        exact hr.2.1 b hb (e ▸ hsub.subset ha)
      have hA : Agree (allNames fs) (serFields fs vs ++ r) (serFields fs vs) := by
        intro k hk
        exact lookup_append_left k _ r (fun hin => hr.2.1 k hin hk)
      have hd := deFields_ser fs vs (serFields fs vs ++ r) hw.1 hw.2 htf hA hO
      have hf := filter_rest (serFields fs vs) r (allNames fs) (fun k hk => hsub.subset hk) hr.2.1
      cases rest
      · have := hr.2.2 rfl; subst this
        simp only [ser, de, if_pos hO, hd]; simp
      · simp only [ser, de, if_pos hO, hd, hf]; simp
  | .untagged alts, v, hw, ht => by
      simp only [wf] at hw
      cases v <;> simp [hasType] at ht
      rename_i i x
      have h1 := deAlt_ser alts i x hw ht.1
      have := deUntagged_found alts i x (serAlt alts i x) 0 ht.2 ht.1 (by rw [serAlt_eq' alts i x ht.1]; exact h1)
      simpa [ser, de] using this
  | .adjacent t c alts, v, hw, ht => by
      simp only [wf, Bool.and_eq_true, decide_eq_true_eq] at hw
      cases v <;> simp [hasType] at ht
      rename_i i x
      have h1 := deAlt_ser alts i x hw.1.2 ht
      have := deByName_found alts i x (serAlt alts i x) 0 hw.2 ht (by rw [serAlt_eq' alts i x ht]; exact h1)
      have hne : ¬ t = c := hw.1.1
      simp [ser, de, lookup, hne, this]
  | .internal t alts, v, hw, ht => by
      simp only [wf, Bool.and_eq_true, decide_eq_true_eq] at hw
      cases v <;> simp [hasType] at ht
      rename_i i x
      obtain ⟨hcs, htn⟩ := wfInternal_alt t alts i x hw.1.2 ht
      have hwa := wfAlts_alt alts i x hw.1.1 ht
      have hta := typedAlt_hasType alts i x ht
      have hfl : flattenable (altSchema alts i) = true := closed_flat hcs
      have hsub := keys_ser_sublist (altSchema alts i) x hwa hfl hta
      have hnd : (namesOf (altSchema alts i)).Nodup := closed_nodup hcs hwa
      rw [← serAlt_eq' alts i x ht] at hsub
      have hO : (keys ((t, Json.str (altName alts i)) :: objKvs (serAlt alts i x))).Nodup := by
        simp only [keys, List.map_cons, List.nodup_cons]
        exact ⟨fun hin => htn (hsub.subset hin), hsub.nodup hnd⟩
      have hA : Agree (namesOf (altSchema alts i)) ((t, Json.str (altName alts i)) :: objKvs (serAlt alts i x))
          (objKvs (ser (altSchema alts i) x)) := by
        intro k hk
        have hne : ¬ t = k := fun e => htn (e ▸ hk)
        simp [lookup, hne, serAlt_eq' alts i x ht]
      have h2 := deAltObj_ser alts i x _ hw.1.1 ht hfl hA hO
      have := deByName_found alts i x (.obj ((t, Json.str (altName alts i)) :: objKvs (serAlt alts i x))) 0 hw.2 ht h2
      simp [ser, de, lookup, this]
  | .refine s p, v, hw, ht => by
      simp only [wf] at hw
      simp [hasType] at ht
      simp [ser, de, ht.2, de_ser s v hw ht.1]
/-- a flattened / internally tagged member is read back from ANY object that agrees with what it wrote on its own keys -/
theorem deObj_ser : ∀ (s : Schema) (v : Val) (O : Kvs), wf s = true → hasType s v = true → flattenable s = true →
    Agree (namesOf s) O (objKvs (ser s v)) → (keys O).Nodup → de s (.obj O) = some v
  | .struct fs rest, v, O, hw, ht, hf, ha, ho => by
      cases rest <;> simp [flattenable] at hf
      simp only [wf, Bool.and_eq_true, decide_eq_true_eq] at hw
      cases v <;> simp only [hasType, Bool.and_eq_true] at ht <;> try (simp at ht)
      rename_i vs r
      obtain ⟨htf, htr⟩ := ht
      (try simp at htr); subst htr
      have hd := deFields_ser fs vs O hw.1 hw.2 htf (by simpa [ser, objKvs, namesOf] using ha) ho
      simp [de, ho, hd]
  | .adjacent t c alts, v, O, hw, ht, _, ha, _ => by
      simp only [wf, Bool.and_eq_true, decide_eq_true_eq] at hw
      cases v <;> simp [hasType] at ht
      rename_i i x
      have h1 := deAlt_ser alts i x hw.1.2 ht
      have := deByName_found alts i x (serAlt alts i x) 0 hw.2 ht (by rw [serAlt_eq' alts i x ht]; exact h1)
      have hne : ¬ t = c := hw.1.1
      have ht' := ha t (by simp [namesOf])
      have hc' := ha c (by simp [namesOf])
      simp [ser, objKvs, lookup, hne] at ht' hc'
      simp [de, ht', hc', this]
  | .bool, _, _, _, _, hf, _, _ | .int _ _, _, _, _, _, hf, _, _ | .flt, _, _, _, _, hf, _, _ | .str, _, _, _, _, hf, _, _
  | .hex _ _, _, _, _, _, hf, _, _ | .any, _, _, _, _, hf, _, _ | .opt _, _, _, _, _, hf, _, _ | .seq _ _, _, _, _, _, hf, _, _
  | .map, _, _, _, _, hf, _, _ | .unitEnum _, _, _, _, _, hf, _, _ | .untagged _, _, _, _, _, hf, _, _
  | .internal _ _, _, _, _, _, hf, _, _ | .refine _ _, _, _, _, _, hf, _, _ => by simp [flattenable] at hf
theorem deFields_ser : ∀ (fs : Fields) (vs : List Val) (O : Kvs), wfFields fs = true → (allNames fs).Nodup →
    typedFields fs vs = true → Agree (allNames fs) O (serFields fs vs) → (keys O).Nodup → deFields fs O = some vs
  | .nil, vs, O, _, _, ht, _, _ => by cases vs <;> simp_all [typedFields, deFields]
  | .cons name kind s tl, vs, O, hw, hn, ht, ha, ho => by
      cases vs with
      | nil => simp [typedFields] at ht
      | cons v vs' =>
        simp only [wfFields, Bool.and_eq_true] at hw
        simp only [typedFields, Bool.and_eq_true] at ht
        obtain ⟨⟨hws, hk⟩, hwt⟩ := hw
        obtain ⟨htv, htt⟩ := ht
        have hsub := keys_serFields_sublist tl vs' hwt htt
        cases kind with
        | req =>
            simp only [allNames, serFields] at hn ha
            rw [List.nodup_append] at hn
            have hT := agree_tail ha (by simp [keys]) hn.2.2
            have hH := agree_head ha (fun k hk => hsub.subset hk) hn.2.2
            have ih := deFields_ser tl vs' O hwt hn.2.1 htt hT ho
            have hl : lookup name O = some (ser s v) := by rw [hH name (by simp)]; simp [lookup]
            simp [deFields, hl, de_ser s v hws htv, ih]
        | opt =>
            simp only [allNames, serFields] at hn ha
            rw [List.nodup_append] at hn
            have hnn : (shape s).contains 0 = false := by simpa [kindOk] using hk
            cases v <;> simp at htv
            · have hT := agree_tail (own := []) ha (by simp [keys]) hn.2.2
              have hH := agree_head (own := []) ha (fun k hk => hsub.subset hk) hn.2.2
              have ih := deFields_ser tl vs' O hwt hn.2.1 htt hT ho
              have hl : lookup name O = none := by rw [hH name (by simp)]; simp [lookup]
              simp [deFields, hl, ih]
            · rename_i x
              have hT := agree_tail (own := [(name, ser s x)]) ha (by simp [keys]) hn.2.2
              have hH := agree_head (own := [(name, ser s x)]) ha (fun k hk => hsub.subset hk) hn.2.2
              have ih := deFields_ser tl vs' O hwt hn.2.1 htt hT ho
              have hl : lookup name O = some (ser s x) := by rw [hH name (by simp)]; simp [lookup]
              have hx := de_ser s x hws htv
              have h0 := nonnull_of_shape hnn htv
              simp only [deFields, hl]
              cases hj : ser s x <;> simp_all [kindOf, optOf]
        | optNull =>
            simp only [allNames, serFields] at hn ha
            rw [List.nodup_append] at hn
            have hnn : (shape s).contains 0 = false := by simpa [kindOk] using hk
            cases v <;> simp at htv
            · have hT := agree_tail (own := [(name, Json.null)]) ha (by simp [keys]) hn.2.2
              have hH := agree_head (own := [(name, Json.null)]) ha (fun k hk => hsub.subset hk) hn.2.2
              have ih := deFields_ser tl vs' O hwt hn.2.1 htt hT ho
              have hl : lookup name O = some Json.null := by rw [hH name (by simp)]; simp [lookup]
              simp [deFields, hl, ih]
            · rename_i x
              have hT := agree_tail (own := [(name, ser s x)]) ha (by simp [keys]) hn.2.2
              have hH := agree_head (own := [(name, ser s x)]) ha (fun k hk => hsub.subset hk) hn.2.2
              have ih := deFields_ser tl vs' O hwt hn.2.1 htt hT ho
              have hl : lookup name O = some (ser s x) := by rw [hH name (by simp)]; simp [lookup]
              have hx := de_ser s x hws htv
              have h0 := nonnull_of_shape hnn htv
              simp only [deFields, hl]
              cases hj : ser s x <;> simp_all [kindOf, optOf]
        | skipEmpty d =>
            simp only [allNames, serFields] at hn ha
            rw [List.nodup_append] at hn
            simp only [kindOk, Bool.and_eq_true] at hk
            obtain ⟨hd, hsk⟩ := hk
            subst hd
            by_cases he : isEmptyVal v = true
            · simp only [he, if_true] at ha
              have hT := agree_tail (own := []) ha (by simp [keys]) hn.2.2
              have hH := agree_head (own := []) ha (fun k hk => hsub.subset hk) hn.2.2
              have ih := deFields_ser tl vs' O hwt hn.2.1 htt hT ho
              have hl : lookup name O = none := by rw [hH name (by simp)]; simp [lookup]
              have hv : emptyOf s = v := by
                cases s <;> simp [skippable] at hsk <;> cases v <;> simp [hasType] at htv <;>
                  simp_all [emptyOf]
                all_goals (rename_i l; cases l <;> simp_all [isEmptyVal])
              simp [deFields, hl, ih, hv]
            · simp only [he] at ha
              have hT := agree_tail (own := [(name, ser s v)]) ha (by simp [keys]) hn.2.2
              have hH := agree_head (own := [(name, ser s v)]) ha (fun k hk => hsub.subset hk) hn.2.2
              have ih := deFields_ser tl vs' O hwt hn.2.1 htt hT ho
              have hl : lookup name O = some (ser s v) := by rw [hH name (by simp)]; simp [lookup]
              simp [deFields, hl, de_ser s v hws htv, ih]
        | flat =>
            simp only [allNames, serFields] at hn ha
            rw [List.nodup_append] at hn
            have hfl : flattenable s = true := by simpa [kindOk] using hk
            have hown := keys_ser_sublist s v hws hfl htv
            have hT := agree_tail ha (fun k hk => hown.subset hk) hn.2.2
            have hH := agree_head ha (fun k hk => hsub.subset hk) hn.2.2
            have ih := deFields_ser tl vs' O hwt hn.2.1 htt hT ho
            have hx := deObj_ser s v O hws htv hfl hH ho
            simp [deFields, hx, ih]
theorem deAlt_ser : ∀ (alts : Fields) (i : Nat) (x : Val), wfAlts alts = true → typedAlt alts i x = true →
    de (altSchema alts i) (ser (altSchema alts i) x) = some x
  | .nil, _, _, _, h => by simp [typedAlt] at h
  | .cons _ _ s tl, 0, x, hw, ht => by
      simp [wfAlts] at hw; simp [typedAlt] at ht
      simpa [altSchema] using de_ser s x hw.1 ht
  | .cons _ _ s tl, i + 1, x, hw, ht => by
      simp [wfAlts] at hw; simp [typedAlt] at ht
      simpa [altSchema] using deAlt_ser tl i x hw.2 ht
theorem deAltObj_ser : ∀ (alts : Fields) (i : Nat) (x : Val) (O : Kvs), wfAlts alts = true → typedAlt alts i x = true →
    flattenable (altSchema alts i) = true → Agree (namesOf (altSchema alts i)) O (objKvs (ser (altSchema alts i) x)) →
    (keys O).Nodup → de (altSchema alts i) (.obj O) = some x
  | .nil, _, _, _, _, h, _, _, _ => by simp [typedAlt] at h
  | .cons _ _ s tl, 0, x, O, hw, ht, hf, ha, ho => by
      simp [wfAlts] at hw; simp [typedAlt] at ht
      simp only [altSchema] at hf ha ⊢
      exact deObj_ser s x O hw.1 ht hf ha ho
  | .cons _ _ s tl, i + 1, x, O, hw, ht, hf, ha, ho => by
      simp [wfAlts] at hw; simp [typedAlt] at ht
      simp only [altSchema] at hf ha ⊢
      exact deAltObj_ser tl i x O hw.2 ht hf ha ho
end

end GmQuic.Model.Json
