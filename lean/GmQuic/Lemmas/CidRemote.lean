import GmQuic.Model.Cid
/-! Lemmas about `RemoteCids` / `CidCell` (models `GmQuic.Cid.Remote`, `GmQuic.Cid.Cell`). -/
namespace GmQuic.Cid

/-- a path holds at most one id unless a borrowed one is still in use; a retired path holds none -/
def CellOk (c : Cell) : Prop := (c.inUse = false → c.alloc.length ≤ 1) ∧ (c.retired = true → c.alloc = [])

namespace Cell

theorem shrink_length (a : List (Nat × Cid)) : (shrink a).1.length ≤ 1 := by
  cases a <;> simp [shrink]

theorem shrink_nil : (shrink []).1 = [] := rfl

theorem ok_fresh : CellOk fresh := by simp [CellOk, fresh]

theorem ok_assign (c : Cell) (seq : Nat) (cid : Cid) (h : CellOk c) (hr : c.retired = false) :
    CellOk (c.assign seq cid).1 := by
  unfold assign
  split
  · rename_i hu; simp [CellOk, hu, hr]
  · refine ⟨fun _ => ?_, fun h' => ?_⟩
    · simp [shrink]
    · simp [hr] at h'

theorem assign_retired (c : Cell) (seq : Nat) (cid : Cid) : (c.assign seq cid).1.retired = c.retired := by
  unfold assign; split <;> rfl

theorem ok_borrow (c : Cell) (h : CellOk c) : CellOk c.borrow.1 := by
  unfold borrow
  split
  · exact h
  · split
    · exact h
    · unfold CellOk at *; simp_all

theorem borrow_retired (c : Cell) : c.borrow.1.retired = c.retired := by
  unfold borrow; split; · rfl
  split <;> rfl

theorem ok_renew (c c' : Cell) (fr : List Nat) (h : CellOk c) (hr : c.renew = some (c', fr)) : CellOk c' := by
  unfold renew at hr
  split at hr
  · simp at hr
    obtain ⟨rfl, _⟩ := hr
    refine ⟨fun _ => shrink_length _, fun h' => ?_⟩
    have := h.2 h'
    simp [this, shrink]
  · cases hr

theorem renew_retired (c c' : Cell) (fr : List Nat) (hr : c.renew = some (c', fr)) : c'.retired = c.retired := by
  unfold renew at hr
  split at hr
  · simp at hr; obtain ⟨rfl, _⟩ := hr; rfl
  · cases hr

theorem ok_retire (c : Cell) (h : CellOk c) : CellOk c.retire.1 := by
  unfold retire
  split
  · exact h
  · simp [CellOk]

end Cell

namespace Remote

theorem cell_setCell (s : Remote) (i j : Nat) (c : Cell) :
    (s.setCell i c).cell j = if i = j ∧ i < s.cells.length then c else s.cell j := by
  unfold setCell cell
  simp only [List.getD_eq_getElem?_getD, List.getElem?_set]
  by_cases h : i = j
  · subst h
    by_cases h2 : i < s.cells.length
    · simp [h2]
    · simp [h2]
  · simp [h]

theorem mem_cells_setCell (s : Remote) (i : Nat) (c x : Cell) (h : x ∈ (s.setCell i c).cells) :
    x ∈ s.cells ∨ x = c := by
  unfold setCell at h
  exact (List.mem_or_eq_of_mem_set h)

theorem cell_ok_of_all (s : Remote) (h : ∀ c ∈ s.cells, CellOk c) (i : Nat) : CellOk (s.cell i) := by
  unfold cell
  rw [List.getD_eq_getElem?_getD]
  cases hg : s.cells[i]? with
  | none => exact Cell.ok_fresh
  | some c => exact h c (List.mem_of_getElem? hg)

/-! ### what `arrange_idle_cid` keeps -/

/-- state facts preserved by `arrangeGo`, bundled so that one induction serves all -/
structure ArrKeeps (s s' : Remote) : Prop where
  limit : s'.limit = s.limit
  coff : s'.coff = s.coff
  cdq : s'.cdq = s.cdq
  roff : s'.roff = s.roff
  ncells : s'.cells.length = s.cells.length
  retired : ∀ i, (s'.cell i).retired = (s.cell i).retired
  ok : (∀ c ∈ s.cells, CellOk c) → ∀ c ∈ s'.cells, CellOk c
  i1 : s.roff + s.ready.length = s.cursor → s'.roff + s'.ready.length = s'.cursor
  rr : s'.retiredReady = s.retiredReady

theorem ArrKeeps.rfl' (s : Remote) (p : List Nat) : ArrKeeps s { s with pending := p } :=
  ⟨rfl, rfl, rfl, rfl, rfl, fun _ => rfl, fun h => h, fun h => h, rfl⟩

theorem ArrKeeps.trans {a b c : Remote} (h1 : ArrKeeps a b) (h2 : ArrKeeps b c) : ArrKeeps a c :=
  ⟨h2.limit.trans h1.limit, h2.coff.trans h1.coff, h2.cdq.trans h1.cdq, h2.roff.trans h1.roff,
   h2.ncells.trans h1.ncells, fun i => (h2.retired i).trans (h1.retired i), fun h => h2.ok (h1.ok h),
   fun h => h2.i1 (h1.i1 h), h2.rr.trans h1.rr⟩

theorem filter_retired_congr (s s' : Remote) (h : ∀ i, (s'.cell i).retired = (s.cell i).retired) (l : List Nat) :
    l.filter (fun c => (s'.cell c).retired) = l.filter (fun c => (s.cell c).retired) := by
  congr 1; funext c; rw [h]

/-- one assignment step of `arrange_idle_cid` -/
theorem arrKeeps_assign (s : Remote) (c : Nat) (cid : Cid) (hr : (s.cell c).retired = false) :
    ArrKeeps s
      { s.setCell c ((s.cell c).assign s.cursor cid).1 with
        ready := s.ready ++ [c], cursor := s.cursor + 1,
        frames := s.frames ++ ((s.cell c).assign s.cursor cid).2 } := by
  have hret : ∀ i, (Remote.cell { s.setCell c ((s.cell c).assign s.cursor cid).1 with
        ready := s.ready ++ [c], cursor := s.cursor + 1,
        frames := s.frames ++ ((s.cell c).assign s.cursor cid).2 } i).retired = (s.cell i).retired := by
    intro i
    show ((s.setCell c ((s.cell c).assign s.cursor cid).1).cell i).retired = _
    rw [cell_setCell]
    split
    · rename_i h; rw [Cell.assign_retired, h.1]
    · rfl
  refine ⟨rfl, rfl, rfl, rfl, by simp [setCell], hret, ?_, ?_, ?_⟩
  · intro h x hx
    rcases mem_cells_setCell s c _ x hx with h1 | h1
    · exact h x h1
    · subst h1; exact Cell.ok_assign _ _ _ (cell_ok_of_all s h c) hr
  · intro h
    show s.roff + (s.ready ++ [c]).length = s.cursor + 1
    simp; omega
  · unfold retiredReady
    rw [filter_retired_congr s _ hret]
    show ((s.ready ++ [c]).filter _).length = _
    simp [List.filter_append, hr]

theorem arrangeGo_keeps (p : List Nat) : ∀ s : Remote, ArrKeeps s (arrangeGo s p) := by
  induction p with
  | nil => intro s; exact ArrKeeps.rfl' s []
  | cons c rest ih =>
    intro s
    unfold arrangeGo
    split
    · exact ih s
    · rename_i hr
      split
      · rename_i cid _
        exact (arrKeeps_assign s c cid (by simpa using hr)).trans (ih _)
      · exact ArrKeeps.rfl' s _

theorem arrange_keeps (s : Remote) : ArrKeeps s s.arrange := arrangeGo_keeps _ s

theorem activeCount_arrange (s : Remote) : s.arrange.activeCount = s.activeCount := by
  have h := arrange_keeps s
  unfold activeCount
  rw [h.cdq, h.rr]

/-! ### `retire_prior_to` -/

theorem popReady_spec (n : Nat) : ∀ s : Remote, n ≤ s.ready.length →
    (popReady s n).ready = s.ready.drop n ∧ (popReady s n).roff = s.roff + n ∧
    (popReady s n).cells = s.cells ∧ (popReady s n).cdq = s.cdq ∧ (popReady s n).coff = s.coff ∧
    (popReady s n).cursor = s.cursor ∧ (popReady s n).limit = s.limit ∧ (popReady s n).frames = s.frames := by
  induction n with
  | zero => intro s _; simp [popReady]
  | succ n ih =>
    intro s hn
    unfold popReady
    cases hr : s.ready with
    | nil => simp [hr] at hn
    | cons c rest =>
      simp only
      have hn' : n ≤ rest.length := by simp [hr] at hn; omega
      split
      · have := ih { s with ready := rest, roff := s.roff + 1 } hn'
        simp only at this
        obtain ⟨h1, h2, h3, h4, h5, h6, h7, h8⟩ := this
        exact ⟨by simp [h1], by omega, h3, h4, h5, h6, h7, h8⟩
      · have := ih { s with ready := rest, roff := s.roff + 1, pending := s.pending ++ [c] } hn'
        simp only at this
        obtain ⟨h1, h2, h3, h4, h5, h6, h7, h8⟩ := this
        exact ⟨by simp [h1], by omega, h3, h4, h5, h6, h7, h8⟩

/-- structural invariant: `ready_cells.largest() == cursor`, both deques share their offset, and (pinned tree) the
table of peer ids never holds more than `limit + 1` entries -/
structure RInv (s : Remote) : Prop where
  i1 : s.roff + s.ready.length = s.cursor
  i2 : s.coff = s.roff
  ok : ∀ c ∈ s.cells, CellOk c

theorem retirePriorTo_spec {s s' : Remote} {t : Nat} (hi : RInv s) (h : s.retirePriorTo t = .ok s') :
    RInv s' ∧ s'.cells = s.cells ∧ s'.limit = s.limit ∧
    ((t ≤ s.roff ∧ s' = s) ∨
     (s.roff < t ∧ t ≤ s.coff + s.cdq.length ∧ s'.cdq = s.cdq.drop (t - s.coff) ∧ s'.coff = t)) := by
  unfold retirePriorTo at h
  split at h
  · rename_i ht; cases h; exact ⟨hi, rfl, rfl, Or.inl ⟨ht, rfl⟩⟩
  · rename_i ht
    split at h; · cases h
    rename_i hb
    have hb : s.coff ≤ t ∧ t ≤ s.coff + s.cdq.length := by simpa using hb
    have hi1 := hi.i1
    have hi2 := hi.i2
    simp only at h
    split at h
    · rename_i he
      cases h
      have he : s.ready = [] := by simpa using he
      refine ⟨⟨?_, rfl, hi.ok⟩, rfl, rfl, Or.inr ⟨by omega, hb.2, rfl, rfl⟩⟩
      show t + s.ready.length = max s.cursor t
      rw [he] at hi1 ⊢; simp at hi1 ⊢; omega
    · have hp := popReady_spec (min (s.roff + s.ready.length) t - s.roff)
        { s with cdq := s.cdq.drop (t - s.coff), coff := t, cursor := max s.cursor t } (by simp only; omega)
      simp only at hp
      obtain ⟨h1, h2, h3, h4, h5, h6, h7, h8⟩ := hp
      split at h
      · rename_i hlt
        cases h
        refine ⟨⟨?_, h5, by rw [h3]; exact hi.ok⟩, h3, h7, Or.inr ⟨by omega, hb.2, h4, h5⟩⟩
        simp only [h1, h6, List.length_drop]
        omega
      · rename_i hlt
        cases h
        refine ⟨⟨?_, by rw [h5, h2]; omega, by rw [h3]; exact hi.ok⟩, h3, h7, Or.inr ⟨by omega, hb.2, h4, h5⟩⟩
        rw [h1, h2, h6, List.length_drop]
        omega

theorem insertCid_spec (s : Remote) (seq : Nat) (cid : Cid) (h : s.coff ≤ seq) :
    (s.insertCid seq cid).1.cdq.length = max s.cdq.length (seq - s.coff + 1) ∧
    (s.insertCid seq cid).1.coff = s.coff ∧ (s.insertCid seq cid).1.roff = s.roff ∧
    (s.insertCid seq cid).1.ready = s.ready ∧ (s.insertCid seq cid).1.cursor = s.cursor ∧
    (s.insertCid seq cid).1.cells = s.cells ∧ (s.insertCid seq cid).1.limit = s.limit := by
  unfold insertCid
  simp only
  split
  · simp; omega
  · simp; omega

theorem rinv_insertCid (s : Remote) (seq : Nat) (cid : Cid) (hi : RInv s) : RInv (s.insertCid seq cid).1 := by
  unfold insertCid
  simp only
  split
  · exact ⟨hi.i1, hi.i2, hi.ok⟩
  · exact ⟨hi.i1, hi.i2, hi.ok⟩

theorem rinv_arrange (s : Remote) (hi : RInv s) : RInv s.arrange := by
  have h := arrange_keeps s
  exact ⟨h.i1 hi.i1, by rw [h.coff, h.roff]; exact hi.i2, h.ok hi.ok⟩

theorem rinv_init (limit : Nat) : RInv (init limit) := ⟨rfl, rfl, by simp [init]⟩

theorem rinv_apply (s : Remote) (hi : RInv s) : RInv s.apply.1 := by
  unfold apply
  apply rinv_arrange
  refine ⟨hi.i1, hi.i2, ?_⟩
  intro c hc
  simp only [List.mem_append, List.mem_singleton] at hc
  rcases hc with h | h
  · exact hi.ok c h
  · subst h; exact Cell.ok_fresh

theorem rinv_setCell (s : Remote) (i : Nat) (c : Cell) (hi : RInv s) (hc : CellOk c) : RInv (s.setCell i c) := by
  refine ⟨hi.i1, hi.i2, ?_⟩
  intro x hx
  rcases mem_cells_setCell s i c x hx with h | h
  · exact hi.ok x h
  · subst h; exact hc

end Remote


/-! ### `recv_new_cid_frame` -/

namespace Remote

theorem activeCount_le_len (s : Remote) : s.activeCount ≤ s.cdq.length := by
  unfold activeCount
  have := List.length_filterMap_le id s.cdq
  omega

/-- everything an accepted / limit-rejected NEW_CONNECTION_ID frame leaves behind -/
theorem recvNewCid_spec {fixed : Tree} {s : Remote} {seq rpt : Nat} {cid : Cid} (hi : RInv s) :
    (∀ s', s.recvNewCid fixed seq rpt cid = .accepted s' →
        RInv s' ∧ s'.limit = s.limit ∧ (fixed.count = true → s'.activeCount ≤ s'.limit)) ∧
    (∀ s', s.recvNewCid fixed seq rpt cid = .errLimit s' → RInv s' ∧ s'.limit = s.limit) := by
  unfold recvNewCid
  split
  · exact ⟨fun s' h => (by cases h), fun s' h => by cases h; exact ⟨hi, rfl⟩⟩
  split
  · exact ⟨fun s' h => (by cases h), fun s' h => by cases h⟩
  rename_i hoff
  have hs := insertCid_spec s seq cid (by omega)
  have hi1 := rinv_insertCid s seq cid hi
  generalize hq : s.insertCid seq cid = q at hs hi1
  obtain ⟨s1, n1⟩ := q
  simp only at hs hi1 ⊢
  obtain ⟨hl1, hc1, hr1, _, _, _, hlim1⟩ := hs
  cases hrp : s1.retirePriorTo rpt with
  | panic site => simp only; exact ⟨fun s' h => (by cases h), fun s' h => by cases h⟩
  | ok s2 =>
    simp only
    obtain ⟨hi2, _, hlim2, hcase⟩ := retirePriorTo_spec hi1 hrp
    split
    · exact ⟨fun s' h => (by cases h), fun s' h => by cases h; exact ⟨hi2, by omega⟩⟩
    · rename_i hfix
      have hk := arrange_keeps s2
      refine ⟨fun s' h => ?_, fun s' h => by cases h⟩
      cases h
      refine ⟨rinv_arrange s2 hi2, by rw [hk.limit]; omega, ?_⟩
      intro hf
      rw [activeCount_arrange, hk.limit]
      simpa [hf] using hfix

/-- with the pre-test on the frame's two fields the table of peer ids never has more than `limit + 1` cells -/
theorem recvNewCid_len {fixed : Tree} {s : Remote} {seq rpt : Nat} {cid : Cid} (hpre : fixed.pre = true)
    (hi : RInv s) (hlen : s.cdq.length ≤ s.limit + 1) :
    (∀ s', s.recvNewCid fixed seq rpt cid = .accepted s' → s'.cdq.length ≤ s'.limit + 1) ∧
    (∀ s', s.recvNewCid fixed seq rpt cid = .errLimit s' → s'.cdq.length ≤ s'.limit + 1) := by
  unfold recvNewCid
  split
  · exact ⟨fun s' h => (by cases h), fun s' h => by cases h; exact hlen⟩
  rename_i hlim
  have hlim : ¬ seq - rpt > s.limit := by
    have := hlim; simp [hpre] at this; omega
  split
  · exact ⟨fun s' h => (by cases h), fun s' h => by cases h⟩
  rename_i hoff
  have hs := insertCid_spec s seq cid (by omega)
  have hi1 := rinv_insertCid s seq cid hi
  generalize hq : s.insertCid seq cid = q at hs hi1
  obtain ⟨s1, n1⟩ := q
  simp only at hs hi1 ⊢
  obtain ⟨hl1, hc1, hr1, _, _, _, hlim1⟩ := hs
  cases hrp : s1.retirePriorTo rpt with
  | panic site => simp only; exact ⟨fun s' h => (by cases h), fun s' h => by cases h⟩
  | ok s2 =>
    simp only
    obtain ⟨hi2, _, hlim2, hcase⟩ := retirePriorTo_spec hi1 hrp
    have hi1' := hi1.i2
    have hlen2 : s2.cdq.length ≤ s2.limit + 1 := by
      rcases hcase with ⟨h1, h2⟩ | ⟨h1, h2, h3, h4⟩
      · subst h2; omega
      · rw [h3, List.length_drop]; omega
    have hk := arrange_keeps s2
    split
    · exact ⟨fun s' h => (by cases h), fun s' h => by cases h; exact hlen2⟩
    · refine ⟨fun s' h => ?_, fun s' h => by cases h⟩
      cases h
      rw [hk.cdq, hk.limit]; exact hlen2

theorem applyInitial_ok {s s' : Remote} {cid : Cid} {c : Nat} (hi : RInv s) (h : s.applyInitial cid c = .ok s') :
    RInv s' ∧ s'.cdq.length = 1 ∧ s'.limit = s.limit := by
  unfold applyInitial at h
  split at h; · cases h
  split at h; · cases h
  simp only [InitRes.ok.injEq] at h
  subst h
  have hk := arrange_keeps { s with cdq := [some cid], pending := c :: s.pending.erase c }
  exact ⟨rinv_arrange _ ⟨hi.i1, hi.i2, hi.ok⟩, by rw [hk.cdq]; rfl, hk.limit⟩

theorem release_some {s s' : Remote} {c : Nat} (hi : RInv s) (h : s.release c = some s') :
    RInv s' ∧ s'.cdq = s.cdq ∧ s'.limit = s.limit := by
  unfold release at h
  split at h
  · rename_i cl fr heq
    simp only [Option.some.injEq] at h
    subst h
    have := rinv_setCell s c cl hi (Cell.ok_renew _ _ _ (cell_ok_of_all _ hi.ok c) heq)
    exact ⟨⟨this.i1, this.i2, this.ok⟩, rfl, rfl⟩
  · cases h

end Remote

/-! ### histories -/

structure RunInv (fixed : Remote.Tree) (limit : Nat) (r : RRun) : Prop where
  inv : Remote.RInv r.s
  len : fixed.pre = true → r.s.cdq.length ≤ r.s.limit + 1
  lim : r.s.limit = limit

namespace RRun

theorem runInv_step (fixed : Remote.Tree) (limit : Nat) (r : RRun) (o : ROp) (h : RunInv fixed limit r) :
    RunInv fixed limit (r.step fixed o) := by
  unfold step
  split
  · exact h
  cases o with
  | apply =>
    simp only
    have hk := Remote.arrange_keeps { r.s with cells := r.s.cells ++ [Cell.fresh], pending := r.s.pending ++ [r.s.cells.length] }
    exact ⟨Remote.rinv_apply r.s h.inv, fun hp => by unfold Remote.apply; simp only; rw [hk.cdq, hk.limit]; exact h.len hp,
      by unfold Remote.apply; simp only; rw [hk.limit]; exact h.lim⟩
  | initial cid c =>
    simp only
    cases hres : r.s.applyInitial cid c with
    | panic site => exact ⟨h.inv, h.len, h.lim⟩
    | ok s' =>
      obtain ⟨h1, h2, h3⟩ := Remote.applyInitial_ok h.inv hres
      exact ⟨h1, fun _ => by show s'.cdq.length ≤ s'.limit + 1; omega, h3.trans h.lim⟩
  | newcid seq rpt cid =>
    simp only
    have hs := Remote.recvNewCid_spec (fixed := fixed) (seq := seq) (rpt := rpt) (cid := cid) h.inv
    cases hres : r.s.recvNewCid fixed seq rpt cid with
    | errLimit s' =>
      have := hs.2 s' hres
      exact ⟨this.1, fun hp => (Remote.recvNewCid_len hp h.inv (h.len hp)).2 s' hres, this.2.trans h.lim⟩
    | discarded => exact h
    | accepted s' =>
      have := hs.1 s' hres
      exact ⟨this.1, fun hp => (Remote.recvNewCid_len hp h.inv (h.len hp)).1 s' hres, this.2.1.trans h.lim⟩
    | panic site => exact ⟨h.inv, h.len, h.lim⟩
  | borrow c =>
    simp only
    unfold Remote.borrow
    exact ⟨Remote.rinv_setCell _ _ _ h.inv (Cell.ok_borrow _ (Remote.cell_ok_of_all _ h.inv.ok c)), h.len, h.lim⟩
  | release c =>
    simp only
    cases hres : r.s.release c with
    | none => exact ⟨h.inv, h.len, h.lim⟩
    | some s' =>
      obtain ⟨h1, h2, h3⟩ := Remote.release_some h.inv hres
      exact ⟨h1, fun hp => by show s'.cdq.length ≤ s'.limit + 1; rw [h2, h3]; exact h.len hp, h3.trans h.lim⟩
  | retireCell c =>
    simp only
    unfold Remote.retireCell
    have := Remote.rinv_setCell r.s c (r.s.cell c).retire.1 h.inv (Cell.ok_retire _ (Remote.cell_ok_of_all _ h.inv.ok c))
    exact ⟨⟨this.i1, this.i2, this.ok⟩, h.len, h.lim⟩

theorem runInv_foldl (fixed : Remote.Tree) (limit : Nat) (ops : List ROp) :
    ∀ r : RRun, RunInv fixed limit r → RunInv fixed limit (ops.foldl (step fixed) r) := by
  induction ops with
  | nil => intro r h; exact h
  | cons o rest ih => intro r h; exact ih _ (runInv_step fixed limit r o h)

theorem runInv_run (fixed : Remote.Tree) (limit : Nat) (ops : List ROp) : RunInv fixed limit (run fixed limit ops) :=
  runInv_foldl fixed limit ops _ ⟨Remote.rinv_init limit, fun _ => by simp [Remote.init], rfl⟩

end RRun

end GmQuic.Cid
