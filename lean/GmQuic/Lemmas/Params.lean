import GmQuic.Model.Params
import GmQuic.Spec.Rfc9000Params
/-! Helper lemmas for C18: the generated table against the RFC table, `parse_from_bytes`, the state machine. -/
namespace GmQuic.Params
open GmQuic.Gen.Params GmQuic.Wire
open GmQuic.Spec.Rfc9000Params (SRow rowLegal roleOk inRange legal)

/-! ## the generated table seen as RFC-style rows -/

/-- What the code's table + `belong_to` say about one id, in the shape of an RFC row. -/
def viewOf (r : Row) : SRow := ⟨r.id, r.ty, r.bound, serverOnly.contains r.id, clientOnly.contains r.id⟩

theorem row?_id {id : Nat} {row : Row} (h : row? id = some row) : row.id = id := by
  have := List.find?_some h
  simpa using this

theorem rowAccept_eq (row : Row) (r : Role) (v : PVal) :
    (belongTo row.id r && v.ty == row.ty && (validate row v).isNone) = rowLegal (viewOf row) r v := by
  unfold rowLegal roleOk belongTo validate viewOf
  by_cases hty : v.ty = row.ty
  · cases hb : row.bound with
    | none => cases hs : serverOnly.contains row.id <;> cases hc : clientOnly.contains row.id <;> cases r <;> simp [hty, inRange]
    | some b =>
      cases v <;> cases hs : serverOnly.contains row.id <;> cases hc : clientOnly.contains row.id <;> cases r <;>
        simp [hty, inRange, inBound] <;> (try split) <;> simp_all
  · have : (v.ty == row.ty) = false := by simpa using hty
    simp [this]

theorem accepts_eq (r : Role) (id : Nat) (v : PVal) :
    accepts r id v =
      match (table.map viewOf).find? (fun x => x.id == id) with
      | none => false
      | some x => rowLegal x r v := by
  unfold accepts row?
  rw [List.find?_map]
  have : ((fun x : SRow => x.id == id) ∘ viewOf) = (fun r : Row => r.id == id) := rfl
  rw [this]
  cases h : table.find? (fun r => r.id == id) with
  | none => rfl
  | some row => simp only [Option.map_some]; exact rowAccept_eq row r v

/-- Pointwise relation of two row lists. -/
def listRel (R : SRow → SRow → Bool) : List SRow → List SRow → Bool
  | [], [] => true
  | a :: as, b :: bs => R a b && listRel R as bs
  | _, _ => false

theorem find_rel {R : SRow → SRow → Bool} (hid : ∀ a b, R a b = true → a.id = b.id) :
    ∀ (l1 l2 : List SRow), listRel R l1 l2 = true → ∀ id : Nat,
      match l1.find? (fun x => x.id == id), l2.find? (fun x => x.id == id) with
      | none, none => True
      | some a, some b => R a b = true
      | _, _ => False := by
  intro l1
  induction l1 with
  | nil => intro l2 h id; cases l2 with
    | nil => simp
    | cons b bs => simp [listRel] at h
  | cons a as ih =>
    intro l2 h id
    cases l2 with
    | nil => simp [listRel] at h
    | cons b bs =>
      simp only [listRel, Bool.and_eq_true] at h
      have hab := hid a b h.1
      simp only [List.find?_cons]
      by_cases hh : a.id = id
      · have : b.id = id := hab ▸ hh
        simp [hh, this, h.1]
      · have hb : ¬ b.id = id := hab ▸ hh
        have e1 : (a.id == id) = false := by simpa using hh
        have e2 : (b.id == id) = false := by simpa using hb
        rw [e1, e2]
        exact ih bs h.2 id

/-- range `a` ⊆ range `b`. -/
def rangeSub : Option (Nat × Nat) → Option (Nat × Nat) → Bool
  | _, none => true
  | none, some _ => false
  | some x, some y => y.1 ≤ x.1 && x.2 ≤ y.2

theorem rangeSub_sound {a b : Option (Nat × Nat)} (h : rangeSub a b = true) (v : PVal) :
    inRange a v = true → inRange b v = true := by
  cases a <;> cases b <;> cases v <;> simp_all [rangeSub, inRange] <;> omega

def sameShape (a b : SRow) : Bool :=
  a.id == b.id && a.ty == b.ty && a.serverOnly == b.serverOnly && a.clientOnly == b.clientOnly

/-- impl row `a` accepts no more than the RFC row `b`. -/
def rowSub (a b : SRow) : Bool := sameShape a b && rangeSub a.range b.range

theorem sameShape_id {a b : SRow} (h : sameShape a b = true) : a.id = b.id := by
  simp [sameShape] at h; exact h.1.1.1

theorem rowSub_sound {a b : SRow} (h : rowSub a b = true) (r : Role) (v : PVal) :
    rowLegal a r v = true → rowLegal b r v = true := by
  simp only [rowSub, sameShape, Bool.and_eq_true, beq_iff_eq] at h
  obtain ⟨⟨⟨⟨_, hty⟩, hs⟩, hc⟩, hr⟩ := h
  unfold rowLegal roleOk
  rw [← hty, ← hs, ← hc]
  simp only [Bool.and_eq_true]
  intro ⟨h1, h2⟩
  exact ⟨h1, rangeSub_sound hr v h2⟩

/-- the RFC's range with the value `2^60` removed from the top (what `MAX_STREAMS_LIMIT = 2^60 - 1` gives). -/
def shrink : Option (Nat × Nat) → Option (Nat × Nat)
  | none => none
  | some b => if b.2 == 2 ^ 60 then some (b.1, 2 ^ 60 - 1) else some b

theorem shrink_sound (b : Option (Nat × Nat)) (v : PVal) (hv : v ≠ .varint (2 ^ 60)) (hd : v ≠ .dur (2 ^ 60)) :
    inRange b v = true → inRange (shrink b) v = true := by
  cases b with
  | none => simp [shrink]
  | some b =>
    by_cases h2 : b.2 = 2 ^ 60
    · have e : shrink (some b) = some (b.1, 2 ^ 60 - 1) := by simp [shrink, h2]
      rw [e]
      cases v <;> simp_all [inRange] <;> omega
    · have e : shrink (some b) = some b := by simp [shrink, h2]
      rw [e]; exact fun h => h

/-- impl row `a` accepts everything the RFC row `b` allows, except possibly the number `2^60`. -/
def rowSup (a b : SRow) : Bool := sameShape a b && rangeSub (shrink b.range) a.range

theorem rowSup_sound {a b : SRow} (h : rowSup a b = true) (r : Role) (v : PVal)
    (hv : v ≠ .varint (2 ^ 60)) (hd : v ≠ .dur (2 ^ 60)) :
    rowLegal b r v = true → rowLegal a r v = true := by
  simp only [rowSup, sameShape, Bool.and_eq_true, beq_iff_eq] at h
  obtain ⟨⟨⟨⟨_, hty⟩, hs⟩, hc⟩, hr⟩ := h
  unfold rowLegal roleOk
  rw [← hty, ← hs, ← hc]
  simp only [Bool.and_eq_true]
  intro ⟨h1, h2⟩
  exact ⟨h1, rangeSub_sound hr v (shrink_sound _ v hv hd h2)⟩

end GmQuic.Params
