import GmQuic.Model.Stream
/-!
C01 helper lemmas, part 6: `DataRcvd` is entered exactly when every written byte and the FIN are acknowledged.
-/
namespace GmQuic.Stream
open GmQuic.RecvBuf (Bytes)

/-- `DataRcvd` ⇒ everything acknowledged; `DataSent` ⇒ not yet everything acknowledged. -/
def Done (s : Sender) : Prop :=
  (s.st = .dataRcvd → s.allAcked ∧ s.fin = .rcvd) ∧ (s.st = .dataSent → ¬ (s.allAcked ∧ s.fin = .rcvd))

theorem done_init (sw rw : Nat) : Done (Stream.init sw rw).snd := by
  simp [Done, Stream.init]

theorem done_write (s : Sender) (bs : Bytes) (h : Done s) : Done (s.write bs).1 := by
  unfold Sender.write
  cases s.err <;> cases hst : s.st <;> cases s.shutdown <;> simp_all [Done]

theorem done_shutdown (s : Sender) (h : Done s) : Done s.pollShutdown.1 := by
  unfold Sender.pollShutdown
  cases s.err <;> cases hst : s.st <;> simp_all [Done, Sender.allAcked]

theorem done_touch (s : Sender) (h : Done s) : Done s.touch := by
  unfold Sender.touch
  cases s.err <;> cases hst : s.st <;> simp_all [Done, Sender.allAcked]

theorem done_window (s : Sender) (m : Nat) (h : Done s) : Done (s.updateWindow m) := by
  unfold Sender.updateWindow
  cases s.err <;> cases hst : s.st <;> simp only [Bool.false_eq_true, if_false, if_true] <;>
    (try split) <;> simp_all [Done, Sender.allAcked]

theorem done_cancel (s : Sender) (h : Done s) : Done s.cancel.1 := by
  unfold Sender.cancel
  cases s.err <;> cases hst : s.st <;> simp_all [Done, Sender.allAcked]

theorem done_stopped (s : Sender) (h : Done s) : Done s.beStopped.1 := by
  unfold Sender.beStopped
  cases s.err <;> cases hst : s.st <;> simp_all [Done, Sender.allAcked]

theorem done_resetAcked (s : Sender) (h : Done s) : Done s.resetAcked := by
  unfold Sender.resetAcked
  cases s.closed <;> cases s.err <;> cases hst : s.st <;> simp_all [Done, Sender.allAcked]

theorem done_connError (s : Sender) (h : Done s) : Done s.connError := by
  unfold Sender.connError
  cases s.err <;> cases hst : s.st <;> simp_all [Done, Sender.allAcked]

theorem done_finish (s1 : Sender) (h1 : s1.st = .dataSent) :
    Done (if s1.allAcked ∧ s1.fin = .rcvd then { s1 with st := .dataRcvd } else s1) := by
  split
  · rename_i hc; exact ⟨fun _ => hc, fun x => by simp at x⟩
  · rename_i hc; exact ⟨fun x => by simp [h1] at x, fun _ => hc⟩

theorem done_ack (s : Sender) (f : Frame) (h : Done s) : Done (s.ack f) := by
  unfold Sender.ack
  cases s.err <;> cases hst : s.st <;> simp only [Bool.false_eq_true, if_false, if_true]
  all_goals first
    | exact h
    | skip
  all_goals first
    | (simp_all [Done, Sender.allAcked]; done)
    | skip
  -- DataSent
  exact done_finish _ rfl

theorem lostOf_acked {c : BSt} (h : lostOf c = .acked) : c = .acked := by
  cases c <;> simp [lostOf] at h ⊢

theorem done_lose (s : Sender) (f : Frame) (h : Done s) : Done (s.lose f) := by
  unfold Sender.lose
  cases s.err <;> cases hst : s.st <;> simp only [Bool.false_eq_true, if_false, if_true]
  all_goals first
    | exact h
    | skip
  all_goals first
    | (simp_all [Done, Sender.allAcked]; done)
    | skip
  -- DataSent
  refine ⟨fun x => by simp [hst] at x, fun _ hc => ?_⟩
  have h2 := h.2 hst
  apply h2
  obtain ⟨hall, hfin⟩ := hc
  constructor
  · intro x hx
    have := hall x hx
    simp only [setRange] at this
    split at this
    · exact lostOf_acked this
    · exact this
  · simp only at hfin
    split at hfin
    · cases hfin
    · exact hfin

theorem done_pick (s : Sender) (off len : Nat) (hok : s.pickOk off len) (h : Done s) : Done (s.pick off len).1 := by
  obtain ⟨hlive, hrest⟩ := hok
  unfold Sender.live at hlive
  unfold Sender.pick
  by_cases hd : s.st = .dataSent
  · simp only [hd, if_true]
    refine ⟨fun x => by simp at x, fun _ hc => ?_⟩
    obtain ⟨hall, hfin⟩ := hc
    by_cases hl : len = 0
    · simp [hl] at hfin
      -- the FIN-only frame repeated although the FIN is acknowledged: colours and `fin_state` are unchanged
      apply h.2 hd
      refine ⟨fun x hx => ?_, hfin⟩
      have := hall x hx
      subst hl
      simp only [setRange] at this
      rw [if_neg (by omega)] at this
      exact this
    · simp only [hl, if_false] at hrest
      have hx : off < s.written.length := by omega
      have := hall off hx
      simp only [setRange] at this
      rw [if_pos ⟨Nat.le_refl _, by omega⟩] at this
      cases this
  · simp only [hd, if_false]
    refine ⟨fun x => ?_, fun _ hc => by simp at hc⟩
    simp only at x
    split at x <;> simp at x

theorem done_step (s : Stream) (op : Op) (h : Done s.snd) : Done (s.step op).snd := by
  cases op <;> simp only [Stream.step]
  case write bs => exact done_write _ _ h
  case shutdown => exact done_shutdown _ h
  case pick off len =>
    split
    · rename_i hok; exact done_pick _ _ _ hok h
    · exact h
  case touch => exact done_touch _ h
  case deliver i => split <;> exact h
  case ack i =>
    split
    · exact done_ack _ _ h
    · exact h
  case lose i =>
    split
    · exact done_lose _ _ h
    · exact h
  case read cap => split <;> exact h
  case cancel => exact done_cancel _ h
  case stop => exact h
  case deliverStop =>
    split
    · exact h
    · exact done_stopped _ h
  case deliverReset i => split <;> exact h
  case ackReset =>
    split
    · exact h
    · exact done_resetAcked _ h
  case deliverMsd i =>
    split
    · exact done_window _ _ h
    · exact h
  case connErrorSnd => exact done_connError _ h
  case connErrorRcv => exact h

theorem done_run (s : Stream) (ops : List Op) (h : Done s.snd) : Done (s.run ops).snd := by
  induction ops generalizing s with
  | nil => exact h
  | cons op ops ih => exact ih (s.step op) (done_step s op h)

end GmQuic.Stream
