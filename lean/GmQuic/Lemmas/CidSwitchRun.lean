import GmQuic.Lemmas.CidSwitchOps
/-! C14 — `Good` over whole histories (`RRun`). -/
namespace GmQuic.Cid
namespace Remote

theorem cell_append (s : Remote) (x : Cell) (i : Nat) (h : i < s.cells.length) :
    ({ s with cells := s.cells ++ [x] } : Remote).cell i = s.cell i := by
  simp [cell, List.getElem?_append_left h]

theorem apply_good (s : Remote) (h : Good s s.pending) :
    Good s.apply.1 s.apply.1.pending ∧ Leaves s s.apply.1 ∧ Settled s.apply.1 := by
  unfold apply
  simp only
  generalize hs0 : ({ s with cells := s.cells ++ [Cell.fresh], pending := s.pending ++ [s.cells.length] } : Remote) = s0
  have hcells : s0.cells = s.cells ++ [Cell.fresh] := by subst hs0; rfl
  have hcell : ∀ i, i < s.cells.length → s0.cell i = s.cell i := by
    intro i hi; subst hs0; exact cell_append s Cell.fresh i hi
  have hg : Good s0 s0.pending := by
    have hp : s0.pending = s.pending ++ [s.cells.length] := by subst hs0; rfl
    have hlen : s0.cells.length = s.cells.length + 1 := by rw [hcells]; simp
    refine ⟨?_, ?_, ?_, ?_, ?_, ?_⟩
    · subst hs0
      refine ⟨h.rinv.i1, h.rinv.i2, ?_⟩
      intro c hc
      simp only [List.mem_append, List.mem_singleton] at hc
      rcases hc with hc | hc
      · exact h.rinv.ok c hc
      · subst hc; exact Cell.ok_fresh
    · intro q
      have : s0.acct q = s.acct q := by
        subst hs0
        simp [acct, held, List.flatMap_append, Cell.seqs, Cell.fresh]
      rw [this, h.acct q]; subst hs0; rfl
    · intro c hc
      rw [hp] at hc
      simp only [List.mem_append, List.mem_singleton] at hc
      rcases hc with hc | hc
      · have := h.pend c hc; omega
      · omega
    · intro c hc
      have : c ∈ s.ready := by subst hs0; exact hc
      have := h.rdy c this; omega
    · intro c hc
      rcases Nat.lt_or_ge c s.cells.length with hl | hl
      · rw [hcell c hl, hp]
        rcases h.cover c hl with h1 | h1 | h1
        · left; simp [h1]
        · right; left; subst hs0; exact h1
        · exact Or.inr (Or.inr h1)
      · left; rw [hp]; simp; omega
    · intro j c hc
      have hc' : s.ready[j]? = some c := by subst hs0; exact hc
      have hl := h.rdy c (List.mem_of_getElem? hc')
      rw [hcell c hl]
      have : s0.roff = s.roff := by subst hs0; rfl
      rw [this]
      exact h.heads j c hc'
  have := arrange_good s0 hg
  refine ⟨this.1, Leaves.trans ?_ this.2.1, this.2.2⟩
  refine ⟨⟨[], by subst hs0; simp⟩, fun c q hq => Or.inl ?_⟩
  rcases Nat.lt_or_ge c s.cells.length with hl | hl
  · rw [hcell c hl]; exact hq
  · rw [cell_ge s c hl] at hq; simp [Cell.seqs, Cell.fresh] at hq

theorem applyInitial_good {s s' : Remote} {cid : Cid} {c : Nat} (h : Good s s.pending) (hr : s.applyInitial cid c = .ok s') :
    Good s' s'.pending ∧ Leaves s s' ∧ Settled s' := by
  unfold applyInitial at hr
  split at hr; · cases hr
  split at hr; · cases hr
  rename_i hcont
  simp only [InitRes.ok.injEq] at hr
  subst hr
  have hmem : c ∈ s.pending := by simpa using hcont
  have hg : Good { s with cdq := [some cid], pending := c :: s.pending.erase c } (c :: s.pending.erase c) := by
    refine ⟨⟨h.rinv.i1, h.rinv.i2, h.rinv.ok⟩, h.acct, ?_, h.rdy, ?_, h.heads⟩
    · intro x hx
      simp only [List.mem_cons] at hx
      rcases hx with hx | hx
      · subst hx; exact h.pend x hmem
      · exact h.pend x (List.mem_of_mem_erase hx)
    · intro x hx
      rcases h.cover x hx with h1 | h1 | h1
      · left
        by_cases e : x = c
        · simp [e]
        · simp [e, List.mem_erase_of_ne, h1]
      · exact Or.inr (Or.inl h1)
      · exact Or.inr (Or.inr h1)
  have hl0 : Leaves s { s with cdq := [some cid], pending := c :: s.pending.erase c } :=
    Leaves.of_cells_eq rfl ⟨[], by simp⟩
  have := arrange_good _ hg
  exact ⟨this.1, hl0.trans this.2.1, this.2.2⟩

theorem insertCid_good (s : Remote) (seq : Nat) (cid : Cid) (h : Good s s.pending) :
    Good (s.insertCid seq cid).1 (s.insertCid seq cid).1.pending ∧ Leaves s (s.insertCid seq cid).1 ∧
    (s.insertCid seq cid).1.roff = s.roff := by
  unfold insertCid
  simp only
  split
  · exact ⟨⟨⟨h.rinv.i1, h.rinv.i2, h.rinv.ok⟩, h.acct, h.pend, h.rdy, h.cover, h.heads⟩,
      Leaves.of_cells_eq rfl ⟨[], by simp⟩, rfl⟩
  · exact ⟨⟨⟨h.rinv.i1, h.rinv.i2, h.rinv.ok⟩, h.acct, h.pend, h.rdy, h.cover, h.heads⟩,
      Leaves.of_cells_eq rfl ⟨[], by simp⟩, rfl⟩

theorem retirePriorTo_roff {s s' : Remote} {t : Nat} (hi : RInv s) (h : s.retirePriorTo t = .ok s') :
    s'.roff = max s.roff t := by
  obtain ⟨_, _, _, hcase⟩ := retirePriorTo_spec hi h
  rcases hcase with ⟨h1, rfl⟩ | ⟨ht, _⟩
  · omega
  · have := (retirePriorTo_shape hi ht h).2.2.1
    omega

/-- NEW_CONNECTION_ID: accepted → the offset is the largest retire-prior-to seen, ids are handed out again
(`Settled`); rejected → the accounting still holds for the frames already emitted -/
theorem recvNewCid_good {fixed : Tree} {s : Remote} {seq rpt : Nat} {cid : Cid} (h : Good s s.pending) :
    (∀ s', s.recvNewCid fixed seq rpt cid = .accepted s' →
        Good s' s'.pending ∧ Leaves s s' ∧ Settled s' ∧ s'.roff = max s.roff rpt) ∧
    (∀ s', s.recvNewCid fixed seq rpt cid = .errLimit s' → Good s' s'.pending ∧ Leaves s s') := by
  unfold recvNewCid
  split
  · exact ⟨fun s' h' => (by cases h'), fun s' h' => by cases h'; exact ⟨h, Leaves.refl _⟩⟩
  split
  · exact ⟨fun s' h' => (by cases h'), fun s' h' => by cases h'⟩
  have hs := insertCid_good s seq cid h
  generalize hq : s.insertCid seq cid = q at hs
  obtain ⟨s1, n1⟩ := q
  simp only at hs ⊢
  obtain ⟨hg1, hl1, hr1⟩ := hs
  cases hrp : s1.retirePriorTo rpt with
  | panic site => simp only; exact ⟨fun s' h' => (by cases h'), fun s' h' => by cases h'⟩
  | ok s2 =>
    simp only
    obtain ⟨hg2, hl2⟩ := retirePriorTo_good hg1 hrp
    have hr2 := retirePriorTo_roff hg1.rinv hrp
    split
    · exact ⟨fun s' h' => (by cases h'), fun s' h' => by cases h'; exact ⟨hg2, hl1.trans hl2⟩⟩
    · refine ⟨fun s' h' => ?_, fun s' h' => by cases h'⟩
      cases h'
      have ha := arrange_good s2 hg2
      exact ⟨ha.1, (hl1.trans hl2).trans ha.2.1, ha.2.2, by rw [(arrange_keeps s2).roff, hr2, hr1]⟩

end Remote

/-! ### histories -/

structure RunGood (r : RRun) : Prop where
  good : Remote.Good r.s r.s.pending
  settled : r.closed = true ∨ Remote.Settled r.s

namespace RRun

theorem runGood_step (fixed : Remote.Tree) (r : RRun) (o : ROp) (h : RunGood r) :
    RunGood (r.step fixed o) ∧ Remote.Leaves r.s (r.step fixed o).s := by
  unfold step
  split
  · exact ⟨h, Remote.Leaves.refl _⟩
  rename_i hlive
  have hcl : r.closed = false := by
    cases hc : r.closed with
    | true => simp [hc] at hlive
    | false => rfl
  have hset : Remote.Settled r.s := by
    rcases h.settled with h1 | h1
    · rw [hcl] at h1; cases h1
    · exact h1
  cases o with
  | apply =>
    simp only
    have := Remote.apply_good r.s h.good
    exact ⟨⟨this.1, Or.inr this.2.2⟩, this.2.1⟩
  | initial cid c =>
    simp only
    cases hres : r.s.applyInitial cid c with
    | panic site => exact ⟨⟨h.good, h.settled⟩, Remote.Leaves.refl _⟩
    | ok s' =>
      have := Remote.applyInitial_good h.good hres
      exact ⟨⟨this.1, Or.inr this.2.2⟩, this.2.1⟩
  | newcid seq rpt cid =>
    simp only
    have hs := Remote.recvNewCid_good (fixed := fixed) (seq := seq) (rpt := rpt) (cid := cid) h.good
    cases hres : r.s.recvNewCid fixed seq rpt cid with
    | errLimit s' => have := hs.2 s' hres; exact ⟨⟨this.1, Or.inl rfl⟩, this.2⟩
    | discarded => exact ⟨h, Remote.Leaves.refl _⟩
    | accepted s' => have := hs.1 s' hres; exact ⟨⟨this.1, Or.inr this.2.2.1⟩, this.2.1⟩
    | panic site => exact ⟨⟨h.good, h.settled⟩, Remote.Leaves.refl _⟩
  | borrow c =>
    simp only
    have := Remote.borrow_good r.s c h.good
    exact ⟨⟨this.1, Or.inr hset⟩, this.2⟩
  | release c =>
    simp only
    cases hres : r.s.release c with
    | none => exact ⟨⟨h.good, h.settled⟩, Remote.Leaves.refl _⟩
    | some s' =>
      have := Remote.release_good h.good hres
      refine ⟨⟨this.1, Or.inr ?_⟩, this.2⟩
      unfold Remote.release at hres
      split at hres
      · simp only [Option.some.injEq] at hres; subst hres; exact hset
      · cases hres
  | retireCell c =>
    simp only
    have := Remote.retireCell_good r.s c h.good
    exact ⟨⟨this.1, Or.inr hset⟩, this.2⟩

theorem runGood_foldl (fixed : Remote.Tree) (ops : List ROp) :
    ∀ r : RRun, RunGood r → RunGood (ops.foldl (step fixed) r) ∧ Remote.Leaves r.s (ops.foldl (step fixed) r).s := by
  induction ops with
  | nil => intro r h; exact ⟨h, Remote.Leaves.refl _⟩
  | cons o rest ih =>
    intro r h
    have h1 := runGood_step fixed r o h
    have h2 := ih _ h1.1
    exact ⟨h2.1, h1.2.trans h2.2⟩

theorem runGood_init (limit : Nat) : RunGood { s := Remote.init limit } := by
  refine ⟨⟨Remote.rinv_init limit, ?_, ?_, ?_, ?_, ?_⟩, Or.inr (Or.inl rfl)⟩
  · intro q; simp [Remote.acct, Remote.held, Remote.init]
  · intro c hc; simp [Remote.init] at hc
  · intro c hc; simp [Remote.init] at hc
  · intro c hc; simp [Remote.init] at hc
  · intro j c hc; simp [Remote.init] at hc

theorem runGood_run (fixed : Remote.Tree) (limit : Nat) (ops : List ROp) : RunGood (run fixed limit ops) :=
  (runGood_foldl fixed ops _ (runGood_init limit)).1

/-- a later point of a history, seen from an earlier one -/
theorem leaves_take (fixed : Remote.Tree) (limit : Nat) (ops : List ROp) (n : Nat) :
    Remote.Leaves (run fixed limit (ops.take n)).s (run fixed limit ops).s := by
  have : run fixed limit ops = (ops.drop n).foldl (step fixed) (run fixed limit (ops.take n)) := by
    unfold run
    rw [← List.foldl_append, List.take_append_drop]
  rw [this]
  exact (runGood_foldl fixed (ops.drop n) _ (runGood_run fixed limit (ops.take n))).2

end RRun
end GmQuic.Cid
