import GmQuic.Model.Span
import GmQuic.Lemmas.JsonKeys
/-! C20: lemmas about the span-field map and the `event!` loads. -/
namespace GmQuic.Model.Span
open GmQuic.Model.Json

theorem lookup_filter_ne (k k' : String) (m : SFields) :
    lookup k (m.filter (fun kv => kv.1 ≠ k')) = if k = k' then none else lookup k m := by
  induction m with
  | nil => simp [lookup]
  | cons hd tl ih =>
      obtain ⟨a, j⟩ := hd
      by_cases h1 : a = k' <;> by_cases h2 : a = k <;> by_cases h3 : k = k' <;>
        simp_all [List.filter, lookup]

theorem lookup_insert (k k' : String) (v : Json) (m : SFields) :
    lookup k (insert k' v m) = if k' = k then some v else lookup k m := by
  simp only [insert, lookup]
  by_cases h : k' = k
  · simp [h]
  · have h' : ¬ k = k' := fun e => h e.symm
    rw [if_neg h, if_neg h, lookup_filter_ne, if_neg h']

def okKnown (m : SFields) : List (String × Schema) → Bool
  | [] => true
  | (n, sch) :: tl => (match lookup n m with | none => true | some j => (de sch j).isSome) && okKnown m tl

theorem loadKnown_panic_iff_ok (m : SFields) : ∀ (ks : List (String × Schema)),
    (loadKnown m ks = .panic) ↔ okKnown m ks = false
  | [] => by simp [loadKnown, okKnown]
  | (n, sch) :: tl => by
      have ih := loadKnown_panic_iff_ok m tl
      simp only [loadKnown, tryLoadCurrent, okKnown]
      cases hl : lookup n m with
      | none =>
          cases hk : loadKnown m tl with
          | panic => simp [ih.mp hk]
          | ok rs =>
              have : ¬ okKnown m tl = false := fun e => by simp [ih.mpr e] at hk
              simp at this; simp [this]
      | some j =>
          cases hd : de sch j with
          | none => simp [hd]
          | some v =>
              cases hk : loadKnown m tl with
              | panic => simp [hd, ih.mp hk]
              | ok rs =>
                  have : ¬ okKnown m tl = false := fun e => by simp [ih.mpr e] at hk
                  simp at this; simp [hd, this]

theorem okKnown_iff (m : SFields) : ∀ (ks : List (String × Schema)), okKnown m ks = true ↔ contextWellTyped ks m
  | [] => by simp [okKnown, contextWellTyped]
  | (n, sch) :: tl => by
      have ih := okKnown_iff m tl
      unfold contextWellTyped at *
      rw [List.forall_mem_cons, ← ih]
      simp only [okKnown, Bool.and_eq_true]
      cases hl : lookup n m with
      | none => simp
      | some j => simp

theorem loadKnown_panic_iff (m : SFields) (ks : List (String × Schema)) :
    (loadKnown m ks = .panic) ↔ ¬ contextWellTyped ks m := by
  rw [loadKnown_panic_iff_ok, ← okKnown_iff]; simp

theorem loadKnown_length (m : SFields) : ∀ (ks : List (String × Schema)) (rs : List Val), loadKnown m ks = .ok rs → rs.length = ks.length
  | [], rs, h => by simp [loadKnown] at h; subst h; rfl
  | (n, sch) :: tl, rs, h => by
      simp only [loadKnown] at h
      cases h1 : tryLoadCurrent sch m n with
      | panic => simp [h1] at h
      | ok r =>
          cases h2 : loadKnown m tl with
          | panic => simp [h1, h2] at h
          | ok rs' =>
              simp [h1, h2] at h; subst h
              simp [loadKnown_length m tl rs' h2]

end GmQuic.Model.Span
