import GmQuic.Lemmas.StreamLiveR
/-!
C01 liveness, part 4 (receiver side): `InvR` along every history; a delivered frame has reached the receiver;
one large read in `DataRcvd` drains the buffer (`DataRead`), the next read reports end of stream.
-/
namespace GmQuic.Stream
open GmQuic.RecvBuf (Bytes covered)

theorem invR_read {s : Stream} (h : Inv s) (k : InvR s) (cap : Nat) : InvR (s.step (.read cap)) := by
  have hI := inv_step h (.read cap)
  obtain ⟨hb, hfs, hg, he, hst⟩ := read_shape s.rcv cap
  have hrcv : (s.step (.read cap)).rcv = (s.rcv.read cap).1 := by
    simp only [Stream.step]; split <;> rfl
  refine ⟨fun hs => ?_, fun h1 h2 => ?_⟩
  · rw [hrcv] at hs ⊢
    have hst0 : s.rcv.st = .sizeKnown := by
      rcases hst with e | e | e | e
      · rw [← e]; exact hs
      · rw [hs] at e; cases e
      · rw [hs] at e; cases e
      · rw [hs] at e; cases e.1
    have hold := k.n3 hst0
    obtain ⟨_, hfin⟩ := h.b3 (Or.inl hst0)
    have hl := h.b1.largest_le
    have hI1 : RecvBuf.Inv s.snd.written (s.rcv.read cap).1.buf := by
      have := hI.b1; rw [hrcv] at this
      have hw : (s.step (.read cap)).snd.written = s.snd.written := by
        simp only [Stream.step]; split <;> rfl
      rw [hw] at this; exact this
    have hl1 := hI1.largest_le
    cases hnew : (s.rcv.read cap).1.allRcvd
    · rfl
    · exfalso
      have a1 := (allRcvd_iff hI1 (by rw [hfs]; omega)).mp hnew
      have a2 : s.rcv.allRcvd = true :=
        (allRcvd_iff h.b1 (by omega)).mpr (fun y hy => (have_read' h cap y).mp (a1 y (by rw [hfs]; exact hy)))
      rw [hold] at a2; cases a2
  · rw [hrcv] at h1 h2 ⊢
    rw [hg] at h1; rw [he] at h2
    obtain ⟨n1, n2⟩ := k.n4 h1 h2
    rcases hst with e | e | e | e
    · rw [e]; exact ⟨n1, n2⟩
    · rw [e]; exact ⟨by simp, by simp⟩
    · rw [e]; exact ⟨by simp, by simp⟩
    · rw [e.1]; exact ⟨by simp, by simp⟩

theorem invR_deliverReset {s : Stream} (h : Inv s) (k : InvR s) (i : Nat) : InvR (s.step (.deliverReset i)) := by
  have hI := inv_step h (.deliverReset i)
  have hb8 := hI.b8
  have h8 := h.b8
  revert hb8
  simp only [Stream.step]
  split
  case h_2 => intro _; exact k
  rename_i v hv
  unfold Recver.rxReset
  by_cases hg : s.rcv.gone = true
  · simp only [hg, if_true]; intro _; exact k
  simp only [hg, Bool.false_eq_true, if_false]
  by_cases he : s.rcv.err = true
  · simp only [he, if_true]; intro _
    exact ⟨k.n3, fun _ x => by simp [he] at x⟩
  simp only [he, Bool.false_eq_true, if_false]
  cases hst : s.rcv.st <;> simp only
  · split
    · rw [h8]; intro x; simp [noteErr] at x
    · split
      · rw [h8]; intro x; simp [noteErr] at x
      · intro _; exact ⟨fun x => by simp at x, fun _ _ => by simp⟩
  · split
    · rw [h8]; intro x; simp [noteErr] at x
    · intro _; exact ⟨fun x => by simp at x, fun _ _ => by simp⟩
  all_goals
    intro _
    exact ⟨fun x => by simp [hst] at x, fun _ _ => by simp [hst]⟩

theorem invR_step {s : Stream} (h : Inv s) (k : InvR s) (op : Op) : InvR (s.step op) := by
  cases op with
  | deliver i =>
    simp only [Stream.step]; split
    · rename_i f _
      have := rx_invR s.rcv f k.n3 k.n4
      exact ⟨this.1, this.2⟩
    · exact k
  | read cap => exact invR_read h k cap
  | deliverReset i => exact invR_deliverReset h k i
  | stop =>
    simp only [Stream.step, Recver.stop]
    refine ⟨fun hs => ?_, fun h1 h2 => ?_⟩
    · have := k.n3; revert hs; repeat' split
      all_goals simp_all [Recver.allRcvd]
    · have := k.n4; revert h1 h2; repeat' split
      all_goals simp_all
  | connErrorRcv =>
    simp only [Stream.step, Recver.connError]
    refine ⟨fun hs => ?_, fun h1 h2 => ?_⟩
    · have := k.n3; revert hs; repeat' split
      all_goals simp_all [Recver.allRcvd]
    · have := k.n4; revert h1 h2; repeat' split
      all_goals simp_all
  | write bs => exact ⟨k.n3, k.n4⟩
  | shutdown => exact ⟨k.n3, k.n4⟩
  | pick off len => simp only [Stream.step]; split <;> exact ⟨k.n3, k.n4⟩
  | touch => exact ⟨k.n3, k.n4⟩
  | ack i => simp only [Stream.step]; split <;> exact ⟨k.n3, k.n4⟩
  | lose i => simp only [Stream.step]; split <;> exact ⟨k.n3, k.n4⟩
  | cancel => exact ⟨k.n3, k.n4⟩
  | deliverStop => simp only [Stream.step]; split <;> exact ⟨k.n3, k.n4⟩
  | ackReset => simp only [Stream.step]; split <;> exact ⟨k.n3, k.n4⟩
  | deliverMsd i => simp only [Stream.step]; split <;> exact ⟨k.n3, k.n4⟩
  | connErrorSnd => exact ⟨k.n3, k.n4⟩

theorem invR_run {s : Stream} (h : Inv s) (k : InvR s) (ops : List Op) : InvR (s.run ops) := by
  induction ops generalizing s with
  | nil => exact k
  | cons op rest ih => exact ih (inv_step h op) (invR_step h k op)

/-! ### what a delivery contributes -/

/-- when the receiver is past `Recv` / `SizeKnown` without a reset, everything has reached it -/
theorem have_of_gone {s : Stream} (h : Inv s) (k : InvR s) (ok : RcvOk s.rcv) (hg : s.rcv.gone = true) :
    Sized s.rcv ∧ ∀ y, y < s.snd.written.length → Have s.rcv y := by
  obtain ⟨he, r1, r2⟩ := ok
  obtain ⟨n1, n2⟩ := k.n4 hg he
  have hst : s.rcv.st = .dataRcvd ∨ s.rcv.st = .dataRead := by
    cases hx : s.rcv.st <;> simp_all
  have hsz : Sized s.rcv := by rcases hst with e | e; exact Or.inr (Or.inl e); exact Or.inr (Or.inr e)
  obtain ⟨_, hfs⟩ := h.b3 hsz
  refine ⟨hsz, fun y hy => ?_⟩
  rcases hst with e | e
  · exact h.b4.1 e y (by omega)
  · have := h.b4.2 e; exact Or.inl (by omega)

theorem deliver_have {s : Stream} (h : Inv s) (k : InvR s) (ok : RcvOk s.rcv) {i : Nat} {f : Frame}
    (hf : s.emitted[i]? = some f) :
    (∀ x, f.off ≤ x → x < f.stop → Have (s.step (.deliver i)).rcv x) ∧
    (f.fin = true → Sized (s.step (.deliver i)).rcv) := by
  have hI := inv_step h (.deliver i)
  have hb8 := hI.b8
  have hm := getElem?_mem' hf
  obtain ⟨f1, _, _⟩ := h.a1 f hm
  revert hb8
  simp only [Stream.step, hf]
  intro hb8
  cases hg : s.rcv.gone
  · have hst := h.b7.1 hg
    rcases rx_ok_buf s.rcv f hg ok.1 hst with ⟨kk, e⟩ | ⟨e1, e2⟩
    · rw [e, h.b8] at hb8; simp [noteErr] at hb8
    · refine ⟨fun x x1 x2 => ?_, e2⟩
      unfold Have; rw [e1]
      exact (RecvBuf.recv_covered s.rcv.buf f.off f.data x).mpr (Or.inr ⟨x1, x2⟩)
  · obtain ⟨a, b⟩ := have_of_gone h k ok hg
    have hsame : (s.rcv.rx f).1 = s.rcv := by unfold Recver.rx; simp [hg]
    simp only [hsame]
    exact ⟨fun x _ x2 => b x (by omega), fun _ => a⟩

/-! ### the final reads -/

theorem wf_empty_of_le {lo hi : Nat} {segs : List RecvBuf.Seg} (hw : RecvBuf.Wf lo hi segs) (h : hi ≤ lo) : segs = [] := by
  cases segs with
  | nil => rfl
  | cons a l =>
    obtain ⟨w1, w2, w3, _⟩ := hw
    have := RecvBuf.Seg.off_lt_stop w2
    omega

/-- Everything has arrived and the final size is known: one read with room for more than the whole stream leaves
the receiver in `DataRead`. -/
theorem read_all {s : Stream} (h : Inv s) (k : InvR s) (ok : RcvOk s.rcv) (hs : Sized s.rcv)
    (hall : ∀ y, y < s.snd.written.length → Have s.rcv y) {cap : Nat} (hc : s.snd.written.length < cap) :
    (s.step (.read cap)).rcv.st = .dataRead := by
  obtain ⟨_, hfs⟩ := h.b3 hs
  have hl := h.b1.largest_le
  have hallr : s.rcv.allRcvd = true := (allRcvd_iff h.b1 (by omega)).mpr (fun y hy => hall y (by omega))
  have hrcv : (s.step (.read cap)).rcv = (s.rcv.read cap).1 := by
    simp only [Stream.step]; split <;> rfl
  rw [hrcv]
  unfold Recver.read
  simp only [ok.1, Bool.false_eq_true, if_false]
  rcases hs with e | e | e
  · have := k.n3 e; rw [hallr] at this; cases this
  · simp only [e]
    have hsi := ((RecvBuf.inv_iff' _ _).mp h.b1).1
    have hsi' := RecvBuf.read_struct hsi cap
    obtain ⟨l1, l2⟩ := RecvBuf.read_len hsi cap
    have hlg : (RecvBuf.tryRead s.rcv.buf cap).1.largest = s.rcv.buf.largest := by rw [RecvBuf.tryRead_fst]
    have hav : s.rcv.buf.nread + RecvBuf.available s.rcv.buf = s.rcv.finalSize := by
      simpa [Recver.allRcvd] using hallr
    have hemp : (RecvBuf.tryRead s.rcv.buf cap).1.segs = [] :=
      wf_empty_of_le hsi'.1 (by rw [hlg, l2, l1]; omega)
    simp [hemp]
  · simp only [e]

/-- a read in `DataRead` reports end of stream -/
theorem read_eof {s : Stream} (ok : RcvOk s.rcv) (hst : s.rcv.st = .dataRead) {cap : Nat} (hc : 0 < cap) :
    (s.step (.read cap)).eof = true ∧ (s.step (.read cap)).rcv.st = .dataRead := by
  simp only [Stream.step, Recver.read, ok.1, hst, Bool.false_eq_true, if_false]
  simp [hc, hst]

end GmQuic.Stream
