import GmQuic.Lemmas.FlowStream
import GmQuic.Lemmas.RecvBuf
/-!
Helper lemmas for C11, the whole receiving / sending state machines (`Rcvr`, `Sndr` of
`GmQuic/Model/StreamWindow.lean`): accounting invariant of a receiving half (what it hands to the
connection-level controller is its largest received offset, never more than its own advertised
limit), preserved by every peer frame and every application action.
-/
namespace GmQuic.StreamWindow
open GmQuic.Flow GmQuic.RecvBuf

theorem notSome {α : Type} {o : Option α} (h : ¬ o.isSome = true) : o = none := by
  cases o with
  | none => rfl
  | some v => exact absurd rfl h

/-! ### `RecvBuf.recv` with a body of `len` zero bytes -/

theorem zeros_length (n : Nat) : (zeros n).length = n := by simp [zeros]

theorem zeros_isEmpty (n : Nat) : (zeros n).isEmpty = (n == 0) := by
  cases n <;> simp [zeros, List.replicate]

theorem recvZ_largest {b : RecvBuf.State} (hs : StructInv b) (off len : Nat) :
    (RecvBuf.recv b off (zeros len)).1.largest = if len = 0 then b.largest else max b.largest (off + len) := by
  rw [recv_largest hs, zeros_isEmpty, zeros_length]
  by_cases h : len = 0 <;> simp [h]

theorem recvZ_fresh {b : RecvBuf.State} (hs : StructInv b) (off len : Nat) :
    (RecvBuf.recv b off (zeros len)).1.largest = b.largest + (RecvBuf.recv b off (zeros len)).2 := by
  rw [recv_snd]
  have := recvZ_largest hs off len
  split at this <;> omega

/-! ### accounting bound of `RecvHalf` -/

/-- Per phase: the reassembly buffer's largest offset is within what the stream limit allows. -/
def RecvHalf.Bnd (h : RecvHalf) : Prop :=
  StructInv h.buf ∧
  match h.phase with
  | .recv => h.buf.largest ≤ h.largest ∧ h.largest ≤ h.msd
  | .sizeKnown fs => h.buf.largest ≤ fs ∧ fs ≤ h.msd
  | .done => h.buf.largest ≤ h.msd

theorem RecvHalf.bnd_mk0 (w : Nat) : (RecvHalf.mk0 w).Bnd := by
  refine ⟨⟨trivial, Nat.le_refl _⟩, ?_⟩
  simp [RecvHalf.mk0]

theorem RecvHalf.Bnd.le_msd {h : RecvHalf} (hb : h.Bnd) : h.buf.largest ≤ h.msd := by
  obtain ⟨_, hb⟩ := hb
  cases hph : h.phase <;> simp only [hph] at hb <;> omega

/-- One peer frame (tree with the FIN-limit fix): the bound is kept, an accepted frame returns exactly
the growth of the largest offset, a refused one changes nothing. -/
theorem RecvHalf.rx_bnd (h : RecvHalf) (off len : Nat) (fin : Bool) (hb : h.Bnd) :
    (h.rx true off len fin).1.Bnd ∧
    (∀ n, (h.rx true off len fin).2 = .fresh n →
        (h.rx true off len fin).1.buf.largest = h.buf.largest + n) ∧
    ((∀ n, (h.rx true off len fin).2 ≠ .fresh n) → (h.rx true off len fin).1 = h) := by
  obtain ⟨hs, hb⟩ := hb
  have hst := recv_struct hs off (zeros len)
  have hlg := recvZ_largest hs off len
  have hfr := recvZ_fresh hs off len
  unfold RecvHalf.rx
  cases hph : h.phase with
  | recv =>
    simp only [hph] at hb
    cases fin
    · simp only [Bool.false_eq_true, ↓reduceIte]
      split
      · refine ⟨⟨hs, by simp only [hph]; exact hb⟩, by simp, fun _ => rfl⟩
      · refine ⟨⟨hst, ?_⟩, ?_, ?_⟩
        · simp only [hph]; split at hlg <;> omega
        · intro n hn; simp only [RxObs.fresh.injEq] at hn; subst hn; exact hfr
        · intro hn; exact absurd rfl (hn _)
    · simp only [↓reduceIte]
      split
      · refine ⟨⟨hs, by simp only [hph]; exact hb⟩, by simp, fun _ => rfl⟩
      · split
        · refine ⟨⟨hs, by simp only [hph]; exact hb⟩, by simp, fun _ => rfl⟩
        · rename_i h1 h2
          simp only [true_and, Nat.not_lt] at h2
          split
          · refine ⟨⟨hst, ?_⟩, ?_, ?_⟩
            · simp only; split at hlg <;> omega
            · intro n hn; simp only [RxObs.fresh.injEq] at hn; subst hn; exact hfr
            · intro hn; exact absurd rfl (hn _)
          · refine ⟨⟨hst, ?_⟩, ?_, ?_⟩
            · simp only; split at hlg <;> omega
            · intro n hn; simp only [RxObs.fresh.injEq] at hn; subst hn; exact hfr
            · intro hn; exact absurd rfl (hn _)
  | sizeKnown fs =>
    simp only [hph] at hb
    simp only
    split
    · refine ⟨⟨hs, by simp only [hph]; exact hb⟩, by simp, fun _ => rfl⟩
    · split
      · refine ⟨⟨hs, by simp only [hph]; exact hb⟩, by simp, fun _ => rfl⟩
      · split
        · refine ⟨⟨hst, ?_⟩, ?_, ?_⟩
          · simp only; split at hlg <;> omega
          · intro n hn; simp only [RxObs.fresh.injEq] at hn; subst hn; exact hfr
          · intro hn; exact absurd rfl (hn _)
        · refine ⟨⟨hst, ?_⟩, ?_, ?_⟩
          · simp only [hph]; split at hlg <;> omega
          · intro n hn; simp only [RxObs.fresh.injEq] at hn; subst hn; exact hfr
          · intro hn; exact absurd rfl (hn _)
  | done =>
    simp only [hph] at hb
    refine ⟨⟨hs, by simp only [hph]; exact hb⟩, ?_, fun _ => rfl⟩
    intro n hn; simp only [RxObs.fresh.injEq] at hn; subst hn; rfl

theorem RecvHalf.read_bnd (h : RecvHalf) (cap : Nat) (hb : h.Bnd) :
    (h.read cap).1.Bnd ∧ (h.read cap).1.buf.largest = h.buf.largest := by
  obtain ⟨hs, hb⟩ := hb
  have hst := read_struct hs cap
  have hlg : (tryRead h.buf cap).1.largest = h.buf.largest := by rw [tryRead_fst]
  have hg := growWindow_spec h.msd (tryRead h.buf cap).1.nread
  unfold RecvHalf.read
  cases hph : h.phase with
  | recv =>
    simp only [hph] at hb
    simp only
    split
    · exact ⟨⟨hs, by simp only [hph]; exact hb⟩, rfl⟩
    · unfold RecvHalf.grow
      refine ⟨⟨hst, ?_⟩, hlg⟩
      simp only [hph]
      rw [hlg]
      rcases hg with ⟨_, h1⟩ | ⟨_, h1⟩ <;> omega
  | sizeKnown fs =>
    simp only [hph] at hb
    simp only
    split
    · exact ⟨⟨hs, by simp only [hph]; exact hb⟩, rfl⟩
    · refine ⟨⟨hst, ?_⟩, hlg⟩
      simp only [hph]; rw [hlg]; exact hb
  | done =>
    simp only [hph] at hb
    refine ⟨⟨hst, ?_⟩, hlg⟩
    simp only [hph]; rw [hlg]; exact hb

end GmQuic.StreamWindow
