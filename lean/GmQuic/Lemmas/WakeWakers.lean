import GmQuic.Model.WakeWakers
namespace GmQuic.Wake.Wks

structure Inv (s : State) : Prop where
  i1 : ∀ t, s.pc t = .mid → t ∈ s.list ∨ s.woken t = true
  i2 : ∀ t, s.pc t = .asleep → s.woken t = false → t ∈ s.list ∧ s.resW = true ∧ s.ready = false

theorem inv_init : Inv init := by constructor <;> simp [init]

theorem inv_step (s : State) (op : Op) (h : Inv s) : Inv (step true s op) := by
  obtain ⟨h1, h2⟩ := h
  cases op with
  | start t =>
    simp only [step]
    split
    · exact ⟨h1, h2⟩
    · simp only [if_true, register]
      constructor
      · intro u hu
        by_cases hut : u = t
        · subst hut; left; by_cases hl : u ∈ s.list <;> simp [hl]
        · have hu' : s.pc u = .mid := by simpa [set, hut] using hu
          rcases h1 u hu' with h | h
          · left; by_cases hl : t ∈ s.list <;> simp [hl, h]
          · right; simpa [set, hut] using h
      · intro u hu hw
        by_cases hut : u = t
        · subst hut; simp [set] at hu
        · have hu' : s.pc u = .asleep := by simpa [set, hut] using hu
          have hw' : s.woken u = false := by simpa [set, hut] using hw
          have := h2 u hu' hw'
          refine ⟨?_, this.2⟩
          by_cases hl : t ∈ s.list <;> simp [hl, this.1]
  | finish t =>
    simp only [step]
    split
    · rename_i hm
      simp only [if_true, inner]
      split
      · rename_i hr
        constructor
        · intro u hu
          simp only [set] at hu
          by_cases hut : u = t
          · subst hut; simp at hu
          · simp only [hut, if_false] at hu; exact h1 u hu
        · intro u hu hw
          simp only [set] at hu
          by_cases hut : u = t
          · subst hut; simp at hu
          · simp only [hut, if_false] at hu
            have := h2 u hu hw
            simp_all
      · rename_i hr
        constructor
        · intro u hu
          simp only [set] at hu
          by_cases hut : u = t
          · subst hut; simp at hu
          · simp only [hut, if_false] at hu; exact h1 u hu
        · intro u hu hw
          simp only [set] at hu
          by_cases hut : u = t
          · subst hut
            rcases h1 u hm with h | h
            · exact ⟨h, rfl, by simpa using hr⟩
            · simp_all
          · simp only [hut, if_false] at hu
            have := h2 u hu hw
            exact ⟨this.1, rfl, this.2.2⟩
    · exact ⟨h1, h2⟩
  | notify =>
    simp only [step]
    split
    · constructor
      · intro u hu
        simp only [wakeAll] at hu ⊢
        rcases h1 u hu with h | h
        · right; simp [h]
        · right; simp [h]
      · intro u hu hw
        simp only [wakeAll] at hu hw
        by_cases hl : u ∈ s.list
        · simp [hl] at hw
        · simp only [hl, if_false] at hw
          exact absurd (h2 u hu hw).1 hl
    · rename_i hr
      constructor
      · exact h1
      · intro u hu hw
        have := h2 u hu hw
        simp_all
  | dropAll =>
    simp only [step]
    constructor
    · intro u hu
      simp only [wakeAll] at hu ⊢
      rcases h1 u hu with h | h <;> (right; simp [h])
    · intro u hu hw
      simp only [wakeAll] at hu hw
      by_cases hl : u ∈ s.list
      · simp [hl] at hw
      · simp only [hl, if_false] at hw
        exact absurd (h2 u hu hw).1 hl

theorem run_inv (sched : List Op) : Inv (run true sched) := by
  have : ∀ s, Inv s → Inv (sched.foldl (step true) s) := by
    induction sched with
    | nil => intro s h; exact h
    | cons op rest ih => intro s h; exact ih _ (inv_step s op h)
  exact this init inv_init

end GmQuic.Wake.Wks
