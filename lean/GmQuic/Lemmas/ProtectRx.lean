import GmQuic.Lemmas.ProtectFirst
/-! C06: list-level facts (`xorPn`, `split`) and the inversion of `receive … = accepted …`. -/
namespace GmQuic.Protect
open GmQuic.Wire GmQuic.Pn

theorem xorPn_length (n : Nat) (m pn : Bytes) : (xorPn n m pn).length = pn.length := by
  induction n generalizing m pn with
  | zero => rfl
  | succ n ih => cases pn with
    | nil => rfl
    | cons b pn => simp [xorPn, ih]

theorem xorPn_invol (n : Nat) (m pn : Bytes) : xorPn n m (xorPn n m pn) = pn := by
  induction n generalizing m pn with
  | zero => rfl
  | succ n ih => cases pn with
    | nil => rfl
    | cons b pn => simp [xorPn, ih, xor_cancel]

theorem xorPn_append (n : Nat) (m a b : Bytes) (h : a.length = n) : xorPn n m (a ++ b) = xorPn n m a ++ b := by
  induction n generalizing m a with
  | zero => cases a with
    | nil => rfl
    | cons x a => simp at h
  | succ n ih => cases a with
    | nil => simp at h
    | cons x a => simp only [List.cons_append, xorPn]; rw [ih _ _ (by simpa using h)]

theorem xorPn_inj (n : Nat) (m a b : Bytes) (h : xorPn n m a = xorPn n m b) : a = b := by
  rw [← xorPn_invol n m a, h, xorPn_invol]

theorem split_some {buf : Bytes} {off : Nat} {sp : Split} (h : split buf off = some sp) :
    sp.join = buf ∧ sp.mid.length + 1 = off ∧ sp.pn4.length = 4 ∧ 16 ≤ sp.tail.length := by
  unfold split at h
  cases buf with
  | nil => simp at h
  | cons f r =>
    simp only at h
    split at h
    · simp at h
    · rename_i hc
      have hc' : off ≠ 0 ∧ off + 20 ≤ r.length + 1 := by omega
      injection h with h; subst h
      refine ⟨?_, ?_, ?_, ?_⟩
      · simp only [Split.join]
        congr 1
        rw [List.append_assoc, ← List.drop_drop, List.take_append_drop, List.take_append_drop]
      · simp; omega
      · simp; omega
      · simp; omega

theorem split_join (sp : Split) (h4 : sp.pn4.length = 4) (ht : 16 ≤ sp.tail.length) :
    split sp.join (sp.mid.length + 1) = some sp := by
  unfold split Split.join
  simp only
  rw [if_neg (by simp; omega)]
  congr 1
  cases sp with
  | mk f mid pn4 tail =>
    simp only [Nat.add_sub_cancel, Split.mk.injEq, true_and]
    refine ⟨?_, ?_, ?_⟩
    · rw [List.append_assoc, List.take_left']; rfl
    · rw [List.append_assoc, List.drop_left' rfl, List.take_left' h4]
    · rw [← List.drop_drop, List.append_assoc, List.drop_left' rfl, List.drop_left' h4]

end GmQuic.Protect
