import GmQuic.Model.Sid
namespace GmQuic.Sid

theorem LIMIT_eq : LIMIT = 2^60 - 1 := by decide
theorem sid_eq (r : Role) (d : Dir) (i : Nat) : sid r d i = 4 * i + 2 * d.bit + r.bit := by
  simp only [sid, Gen.sidDirShift, Gen.sidRoleShift]; omega
theorem Dir.bit_bi : Dir.bit .bi = 0 := rfl
theorem Dir.bit_uni : Dir.bit .uni = 1 := rfl
theorem Dir.bit_lt (d : Dir) : d.bit < 2 := by cases d <;> decide
theorem Role.bit_lt (r : Role) : r.bit < 2 := by cases r <;> decide

theorem sidRole_sid (r : Role) (d : Dir) (i : Nat) : sidRole (sid r d i) = r := by
  have hd := Dir.bit_lt d
  cases r <;> simp only [sidRole, sid_eq, Role.bit, Gen.sidRoleMask] <;> (split <;> first | rfl | omega)
theorem sidDir_sid (r : Role) (d : Dir) (i : Nat) : sidDir (sid r d i) = d := by
  have hr := Role.bit_lt r
  cases d <;> simp only [sidDir, sid_eq, Dir.bit_bi, Dir.bit_uni, Gen.sidDirMask] <;> (split <;> first | rfl | omega)
theorem sidIdx_sid (r : Role) (d : Dir) (i : Nat) : sidIdx (sid r d i) = i := by
  have hr := Role.bit_lt r
  have hd := Dir.bit_lt d
  simp only [sidIdx, sid_eq, Gen.sidIdShift]; omega
theorem sid_inj {r : Role} {d : Dir} {i j : Nat} (h : sid r d i = sid r d j) : i = j := by
  simp only [sid_eq] at h; omega
/-- every stream id is `sid` of its three components -/
theorem sid_decomp (s : Nat) : sid (sidRole s) (sidDir s) (sidIdx s) = s := by
  simp only [sid_eq, sidRole, sidDir, sidIdx, Gen.sidRoleMask, Gen.sidDirMask, Gen.sidIdShift]
  by_cases h1 : s % (2 * 2) / 2 = 0 <;> by_cases h2 : s % (2 * 1) / 1 = 0 <;>
    simp only [h1, h2, if_true, if_false, Role.bit, Dir.bit_bi, Dir.bit_uni] <;> omega


/-! ## `Per` -/
@[simp] theorem Per.get_set_same (p : Per) (d : Dir) (v : Nat) : (p.set d v).get d = v := by
  cases d <;> rfl
theorem Per.get_set_ne (p : Per) {d d' : Dir} (v : Nat) (h : d' ≠ d) : (p.set d v).get d' = p.get d' := by
  cases d <;> cases d' <;> first | rfl | exact absurd rfl h
theorem Per.get_set (p : Per) (d d' : Dir) (v : Nat) :
    (p.set d v).get d' = if d' = d then v else p.get d' := by
  by_cases h : d' = d
  · subst h; simp
  · simp [h, Per.get_set_ne p v h]

/-! ## `idsFrom` (the `NeedCreate` iterator) -/
theorem mem_idsFrom {r : Role} {d : Dir} {a n s : Nat} :
    s ∈ idsFrom r d a n ↔ ∃ k, k < n ∧ s = sid r d (a + k) := by
  simp only [idsFrom, List.mem_map, List.mem_range]
  constructor
  · rintro ⟨k, hk, rfl⟩; exact ⟨k, hk, rfl⟩
  · rintro ⟨k, hk, rfl⟩; exact ⟨k, hk, rfl⟩

theorem idsFrom_append (r : Role) (d : Dir) (a n m : Nat) :
    idsFrom r d a n ++ idsFrom r d (a + n) m = idsFrom r d a (n + m) := by
  simp only [idsFrom, List.range_add, List.map_append, List.map_map]
  congr 1
  apply List.map_congr_left
  intro k _
  simp only [Function.comp]
  rw [Nat.add_assoc]

theorem idsFrom_nodup (r : Role) (d : Dir) (a n : Nat) : (idsFrom r d a n).Nodup := by
  rw [idsFrom, List.Nodup, List.pairwise_map]
  exact (List.nodup_range (n := n)).imp (fun h h' => h (by have := sid_inj h'; omega))

theorem filter_idsFrom_same (r : Role) (d : Dir) (a n : Nat) :
    (idsFrom r d a n).filter (fun s => sidDir s = d) = idsFrom r d a n := by
  apply List.filter_eq_self.2
  intro s hs
  obtain ⟨k, _, rfl⟩ := mem_idsFrom.1 hs
  simp [sidDir_sid]

theorem filter_idsFrom_other (r : Role) {d d' : Dir} (a n : Nat) (h : d' ≠ d) :
    (idsFrom r d a n).filter (fun s => sidDir s = d') = [] := by
  apply List.filter_eq_nil_iff.2
  intro s hs
  obtain ⟨k, _, rfl⟩ := mem_idsFrom.1 hs
  simp [sidDir_sid, h.symm]

/-- The ids of kind `d` in a list of stream ids. -/
def ofDir (l : List Nat) (d : Dir) : List Nat := l.filter (fun s => sidDir s = d)

end GmQuic.Sid
