import GmQuic.Drv.C02
/-! What "the C02 trace checker accepts a transcript" MEANS, proved (`checker_sound`, at the end of the file).

`Drv/C02.lean` `step` consumes one transcript line and answers `none` (allowed) or `some msg` (DIFF).  Here:
* `parse` : the same token parsing as `step`, into a typed line `PLine`; `pstep` : `step` on parsed lines;
  `step_pstep` connects them (every accepted raw line parses, and `pstep` gives the same next state).
* transcript-level observables, defined on the (parsed) transcript ALONE, never on the checker state:
  `wrote`, `readN`, `sdSeen`, `eofSeen`, `keyOf` for a stream direction `k = (sid, writer)`; an `open` line that
  creates `k` resets them (statement relative to the LAST open of `k`).
* `Agree ps s` : invariant linking the checker state after the prefix `ps` with those observables.
* `checker_sound` : reads are prefixes of what the peer wrote EARLIER, with the canonical checksums; EOF only after
  shutdown and when everything written was read; no write after shutdown; only allowed terminations; accept only
  after the peer's open. -/
namespace GmQuic.Drv.C02
open GmQuic.Drv GmQuic.Net

abbrev Line := List String × List String
/-- stream direction: (stream id, WRITER endpoint) -/
abbrev Key := Nat × String

/-- a transcript line with its numbers parsed -/
inductive PLine where
  | skip
  | opn (ep : String) (sid key : Nat)
  | acc (ep : String) (sid : Nat)
  | w (ep : String) (sid n : Nat)
  | sd (ep : String) (sid : Nat)
  | fin (ep : String) (sid : Nat)
  | r (ep : String) (sid n a s : Nat)
  | eof (ep : String) (sid : Nat)
  | term (ep kind : String)

/-- the token parsing of `step`, alone -/
def parse (l : Line) : Option PLine :=
  match l.1 with
  | ["cfg", _, _] => some .skip
  | "wire" :: _ => some .skip
  | ["end"] => some .skip
  | ["close", _] => some .skip
  | "serr" :: _ => some .skip
  | ["open", ep, sid, key] =>
    match sid.toNat?, key.toNat? with
    | some sid, some key => some (.opn ep sid key)
    | _, _ => none
  | ["accept", ep, sid] =>
    match sid.toNat? with
    | some sid => some (.acc ep sid)
    | none => none
  | ["w", ep, sid, n] =>
    match sid.toNat?, n.toNat? with
    | some sid, some n => some (.w ep sid n)
    | _, _ => none
  | ["sd", ep, sid] =>
    match sid.toNat? with
    | some sid => some (.sd ep sid)
    | none => none
  | ["fin", ep, sid] =>
    match sid.toNat? with
    | some sid => some (.fin ep sid)
    | none => none
  | ["r", ep, sid, n] =>
    match sid.toNat?, n.toNat?, kvNat l.2 "a", kvNat l.2 "s" with
    | some sid, some n, some a, some sm => some (.r ep sid n a sm)
    | _, _, _, _ => none
  | ["eof", ep, sid] =>
    match sid.toNat? with
    | some sid => some (.eof ep sid)
    | none => none
  | ["term", ep] =>
    match l.2 with
    | [k] => some (.term ep k)
    | _ => none
  | _ => none

/-- `step` on a parsed line: `some s'` = allowed with next state `s'`, `none` = DIFF -/
def pstep (s : St) : PLine → Option St
  | .skip => some s
  | .opn ep sid key =>
    if opener sid != ep then none else
    let d : AppDir := { key := key, opened := true }
    let s1 := put s (sid, ep) d
    some (if isBidi sid then put s1 (sid, peer ep) d else s1)
  | .acc ep sid =>
    match get s (sid, peer ep) with
    | some d => if d.opened && opener sid == peer ep then some s else none
    | none => none
  | .w ep sid n =>
    match get s (sid, ep) with
    | some d => if d.fin then none else some (put s (sid, ep) { d with written := d.written + n })
    | none => none
  | .sd ep sid =>
    match get s (sid, ep) with
    | some d => some (put s (sid, ep) { d with fin := true })
    | none => none
  | .fin ep sid =>
    match get s (sid, ep) with
    | some d => if d.fin then some s else none
    | none => none
  | .r ep sid n a sm =>
    match get s (sid, peer ep) with
    | some d => if d.readOk n a sm then some (put s (sid, peer ep) { d with nread := d.nread + n, a := a, s := sm }) else none
    | none => none
  | .eof ep sid =>
    match get s (sid, peer ep) with
    | some d => if d.eofOk then some (put s (sid, peer ep) { d with eof := true }) else none
    | none => none
  | .term _ k => if allowedTerm k then some s else none

/-- every raw line the checker allows parses, and `pstep` on the parsed line gives the checker's next state -/
theorem step_pstep {s s' : St} {l : Line} (h : step s l.1 l.2 = (s', none)) :
    ∃ p, parse l = some p ∧ pstep s p = some s' := by
  obtain ⟨op, obs⟩ := l
  simp only [step] at h
  split at h
  case h_14 => simp at h
  all_goals simp only [parse]
  all_goals (repeat' split at h)
  all_goals first | (simp at h; done) | skip
  all_goals simp only [Prod.mk.injEq, and_true] at h
  all_goals subst h
  all_goals simp_all [pstep]

/-- conversely, a line that parses and whose parsed form `pstep` allows is allowed by the checker, same next state
(so `step` allows a line iff it parses and `pstep` allows it) -/
theorem pstep_step {s s' : St} {l : Line} {p : PLine} (hp : parse l = some p) (hps : pstep s p = some s') :
    step s l.1 l.2 = (s', none) := by
  obtain ⟨op, obs⟩ := l
  simp only [parse] at hp
  split at hp
  case h_14 => cases hp
  all_goals simp only [step]
  all_goals (repeat' split at hp)
  all_goals first | (cases hp; done) | skip
  all_goals simp only [Option.some.injEq] at hp
  all_goals subst hp
  all_goals simp only [pstep] at hps
  all_goals (repeat' split at hps)
  all_goals first | (cases hps; done) | skip
  all_goals simp only [Option.some.injEq] at hps
  all_goals subst hps
  all_goals simp_all

/-- `parse` is literally the token parsing of `step` (two instances; all by `rfl`) -/
theorem parse_w (ep sid n : String) (obs : List String) :
    parse (["w", ep, sid, n], obs) =
      match sid.toNat?, n.toNat? with
      | some sid, some n => some (.w ep sid n)
      | _, _ => none := rfl
theorem parse_r (ep sid n : String) (obs : List String) :
    parse (["r", ep, sid, n], obs) =
      match sid.toNat?, n.toNat?, kvNat obs "a", kvNat obs "s" with
      | some sid, some n, some a, some sm => some (.r ep sid n a sm)
      | _, _, _, _ => none := rfl

/-! ### association-list lemmas -/

theorem find_filter_ne (s : St) {k k' : Key} (h : k' ≠ k) :
    (s.filter (fun e => e.1 != k)).find? (fun e => e.1 == k') = s.find? (fun e => e.1 == k') := by
  induction s with
  | nil => rfl
  | cons e s ih =>
    by_cases h1 : e.1 = k
    · have h3 : (k == k') = false := beq_eq_false_iff_ne.mpr (Ne.symm h)
      simp [h1, h3, ih]
    · simp [h1, ih, List.find?_cons]

theorem get_put (s : St) (k k' : Key) (v : AppDir) :
    get (put s k v) k' = if k' = k then some v else get s k' := by
  by_cases h : k' = k
  · subst h; simp [get, put]
  · have h3 : (k == k') = false := beq_eq_false_iff_ne.mpr (Ne.symm h)
    simp only [get, put, List.find?_cons, h3, if_neg h, find_filter_ne s h]

theorem get_nil (k : Key) : get [] k = none := rfl

/-! ### the model's predicates, unpacked -/

theorem sumsFrom_zero (key off : Nat) (as : Nat × Nat) : sumsFrom key off 0 as = as := by
  simp [sumsFrom]

theorem sumsFrom_add (key : Nat) (m n : Nat) : ∀ (off : Nat) (as : Nat × Nat),
    sumsFrom key off (m + n) as = sumsFrom key (off + m) n (sumsFrom key off m as) := by
  induction m with
  | zero => intro off as; simp [sumsFrom_zero]
  | succ m ih =>
    intro off as
    obtain ⟨a, s⟩ := as
    have e1 : m + 1 + n = (m + n) + 1 := by omega
    have e2 : off + (m + 1) = off + 1 + m := by omega
    rw [e1, e2]
    simp only [sumsFrom]
    exact ih _ _

theorem readOk_iff (d : AppDir) (n a s : Nat) :
    d.readOk n a s = true ↔
      d.opened = true ∧ d.eof = false ∧ d.nread + n ≤ d.written ∧ sumsFrom d.key d.nread n (d.a, d.s) = (a, s) := by
  simp [AppDir.readOk, and_assoc]

theorem eofOk_iff (d : AppDir) : d.eofOk = true ↔ d.opened = true ∧ d.fin = true ∧ d.nread = d.written := by
  simp [AppDir.eofOk, and_assoc]

theorem peer_ne (ep : String) : peer ep ≠ ep := by
  unfold peer
  by_cases h : ep = "c"
  · subst h; decide
  · simp only [beq_iff_eq, h, if_false]; exact Ne.symm h

end GmQuic.Drv.C02
