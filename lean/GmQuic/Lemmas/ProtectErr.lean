import GmQuic.Lemmas.ProtectOpen
/-! C06: inversion of `receive = connError`. -/
namespace GmQuic.Protect
open GmQuic.Wire GmQuic.Pn

theorem connError_inv {K H : Type} (A : Aead K) (P : Hp H) (c : RxCfg K H) (dec : PacketNumber → DecodePn)
    (s : OneRtt K) (buf : Bytes) (off : Nat)
    (h : (receive A P c dec s buf off).1 = .connError) :
    ∃ sp ty, split buf off = some sp ∧ typeOfFirst sp.first = some ty ∧
      (unmask (P.mask (c.hpKey ty) (sp.tail.take 16)) sp).first &&& reservedMask ty ≠ 0 ∧
      (c.reservedBeforeOpen = true ∨
        ∃ k pn, A.aopen k pn ((unmask (P.mask (c.hpKey ty) (sp.tail.take 16)) sp).aad sp)
          ((unmask (P.mask (c.hpKey ty) (sp.tail.take 16)) sp).ct sp) ≠ none) := by
  unfold receive at h
  split at h
  · simp at h
  · rename_i sp hsp
    split at h
    · simp at h
    · rename_i ty' hty
      simp only at h
      split at h
      · simp at h
      · split at h
        · rename_i hr1
          exact ⟨sp, ty', hsp, hty, hr1.2, Or.inl hr1.1⟩
        · split at h
          · simp at h
          · simp at h
          · simp at h
          · simp at h
          · split at h
            · simp at h
            · rename_i s' k hk
              split at h
              · simp at h
              · rename_i body' hopen
                split at h
                · rename_i hr2
                  exact ⟨sp, ty', hsp, hty, hr2.2, Or.inr ⟨k, _, by rw [hopen]; simp⟩⟩
                · simp at h

end GmQuic.Protect
