import GmQuic.Lemmas.StreamWinB
/-!
C01 liveness with flow control, part 3: the cooperative ROUND *(shutdown; every frame in flight lost or
delivered+acknowledged; pick until nothing is left inside the window; deliver+acknowledge the new frames; read
everything available; deliver the last MAX_STREAM_DATA)*, schedules of rounds, and the outer termination measure:
every round from a state with the flow-control hypothesis strictly raises the sender's window until it covers the
whole stream.
-/
namespace GmQuic.Stream
open GmQuic.RecvBuf (Bytes covered)

/-- the choices of one round: which frames in flight are lost, and the ranges the implementation picks -/
abbrev Choice := (Nat → Bool) × List (Nat × Nat)

/-- one cooperative round -/
def wround (cap : Nat) (s : Stream) (c : Choice) : Stream :=
  let s2 := s.run (.shutdown :: settleOps c.1 (List.range s.emitted.length))
  let s3 := s2.run (pickOps c.2)
  let s5 := s3.run (settleOps (fun _ => true) (List.range' s.emitted.length (s3.emitted.length - s.emitted.length)) ++
                     [.read cap])
  s5.step (.deliverMsd (s5.msds.length - 1))

/-- the picks of the round are legal, non-repeating, and continued until the sender has nothing it must send -/
def RoundOk (s : Stream) (c : Choice) : Prop :=
  let s2 := s.run (.shutdown :: settleOps c.1 (List.range s.emitted.length))
  PickSeq s2 c.2 ∧ (s2.run (pickOps c.2)).snd.somePick = none

/-- a schedule of rounds, every one of them played to the end -/
def Sched (cap : Nat) : Stream → List Choice → Prop
  | _, [] => True
  | s, c :: cs => RoundOk s c ∧ Sched cap (wround cap s c) cs

/-- the whole stream fits the window the sender has, or the flow-control hypothesis holds -/
def WinOk (s : Stream) : Prop := s.snd.written.length ≤ s.snd.maxData ∨ Flow s

theorem fair_settle (keep : Nat → Bool) (is : List Nat) {s : Stream} (h : Fair s) :
    Fair (s.run (settleOps keep is)) := by
  induction is generalizing s with
  | nil => exact h
  | cons i is ih =>
    simp only [settleOps]; rw [run_append]
    cases hk : keep i
    · simp only [Bool.false_eq_true, if_false]; exact ih (fair_step h (.lose i))
    · simp only [if_true]; exact ih (fair_step h (.deliverAck i))

theorem fair_picks (ps : List (Nat × Nat)) {s : Stream} (h : Fair s) : Fair (s.run (pickOps ps)) := by
  induction ps generalizing s with
  | nil => exact h
  | cons p ps ih => exact ih (fair_step h (.pick p.1 p.2))

theorem fair_wround (cap : Nat) {s : Stream} (h : Fair s) (c : Choice) : Fair (wround cap s c) := by
  unfold wround
  dsimp only
  have h1 : Fair (s.step .shutdown) := fair_step h .shutdown
  have h2 := fair_settle c.1 (List.range s.emitted.length) h1
  have h3 := fair_picks c.2 h2
  have h4 := fair_settle (fun _ => true) (List.range' s.emitted.length
    (((s.run (.shutdown :: settleOps c.1 (List.range s.emitted.length))).run (pickOps c.2)).emitted.length - s.emitted.length)) h3
  have h5 := fair_step h4 (.read cap)
  rw [run_append]
  exact fair_step h5 (.deliverMsd _)

theorem step_msd_fields (s : Stream) (i : Nat) :
    (s.step (.deliverMsd i)).snd.written = s.snd.written ∧ s.snd.maxData ≤ (s.step (.deliverMsd i)).snd.maxData := by
  simp only [Stream.step]; split
  · rename_i m _
    exact ⟨(window_fields s.snd m).1, uw_ge s.snd m⟩
  · exact ⟨rfl, Nat.le_refl _⟩

/-- ONE ROUND: `Fair` and `WinOk` are preserved, nothing is written, the window never shrinks, and — the outer
termination measure — unless the window covers the whole stream afterwards it is strictly larger than before. -/
theorem wround_spec (cap : Nat) {s : Stream} (hf : Fair s) (hw : WinOk s) (hlen : s.snd.written.length < varintMax)
    (hcap : s.snd.written.length < cap) (c : Choice) (hok : RoundOk s c) :
    Fair (wround cap s c) ∧ WinOk (wround cap s c) ∧ (wround cap s c).snd.written = s.snd.written ∧
      s.snd.maxData ≤ (wround cap s c).snd.maxData ∧
      ((wround cap s c).snd.written.length ≤ (wround cap s c).snd.maxData ∨
        s.snd.maxData < (wround cap s c).snd.maxData) := by
  have hfair := fair_wround cap hf c
  obtain ⟨hps, hidle⟩ := hok
  obtain ⟨r2, ok2, so2, w2, m2, k2⟩ := phaseB hf.reach hf.hon hf.snd hf.rcv c.1
  have hnet2 : ∀ op ∈ (Op.shutdown :: settleOps c.1 (List.range s.emitted.length)), op.net = true := by
    intro op h
    rcases List.mem_cons.mp h with e | e
    · subst e; rfl
    · exact settle_net _ _ op e
  have sw2 := sameW_run s _ hnet2
  generalize hs2 : s.run (.shutdown :: settleOps c.1 (List.range s.emitted.length)) = s2 at *
  have k3 := k_picks hps k2
  have r3 : Reach (s2.run (pickOps c.2)) := reach_run r2 _
  have m23 : Mono s2 (s2.run (pickOps c.2)) := mono_run r2 _ (pickOps_coop c.2)
  have sw3 := sameW_run s2 _ (pickOps_net c.2)
  generalize hs3 : s2.run (pickOps c.2) = s3 at *
  have hw3 : s3.snd.written = s.snd.written := m23.wr.trans w2
  have hm3 : s3.snd.maxData = s.snd.maxData := m23.md.trans m2
  -- the tail of the round
  have hcoop : ∀ op ∈ (settleOps (fun _ => true) (List.range' s.emitted.length (s3.emitted.length - s.emitted.length)) ++
      [Op.read cap]), op.coop = true := by
    intro op hm
    rcases List.mem_append.mp hm with e | e
    · exact settle_coop _ _ op e
    · simp at e; subst e; rfl
  have m35 := mono_run r3 _ hcoop
  have hwr : (wround cap s c).snd.written = s.snd.written := by
    unfold wround; dsimp only; rw [hs2, hs3]
    rw [(step_msd_fields _ _).1, m35.wr, hw3]
  have hmd : s.snd.maxData ≤ (wround cap s c).snd.maxData := by
    unfold wround; dsimp only; rw [hs2, hs3]
    have := (step_msd_fields (s3.run (settleOps (fun _ => true)
      (List.range' s.emitted.length (s3.emitted.length - s.emitted.length)) ++ [Op.read cap]))
      ((s3.run (settleOps (fun _ => true)
      (List.range' s.emitted.length (s3.emitted.length - s.emitted.length)) ++ [Op.read cap])).msds.length - 1)).2
    rw [m35.md, hm3] at this
    exact this
  by_cases hfit : s.snd.written.length ≤ s.snd.maxData
  · have : (wround cap s c).snd.written.length ≤ (wround cap s c).snd.maxData := by rw [hwr]; omega
    exact ⟨hfair, Or.inl this, hwr, hmd, Or.inl this⟩
  · have hflow : Flow s := by
      rcases hw with h | h
      · exact absurd h hfit
      · exact h
    have hflow3 : Flow s3 := flow_of_sameW sw3 (flow_of_sameW sw2 hflow)
    have hblk : s3.snd.maxData < s3.snd.written.length := by rw [hm3, hw3]; omega
    have hW := phaseW r3 (m23.ok ok2) (m23.so so2) k3 hblk hidle hflow3 (by rw [hw3]; exact hlen)
      (cap := cap) (by rw [hw3]; exact hcap)
    have heq : wround cap s c = (s3.run (settleOps (fun _ => true)
        (List.range' s.emitted.length (s3.emitted.length - s.emitted.length)) ++ [Op.read cap])).step
        (.deliverMsd ((s3.run (settleOps (fun _ => true)
        (List.range' s.emitted.length (s3.emitted.length - s.emitted.length)) ++ [Op.read cap])).msds.length - 1)) := by
      unfold wround; dsimp only; rw [hs2, hs3]
    dsimp only at hW
    rw [← heq] at hW
    obtain ⟨hW1, hW2⟩ := hW
    rw [hm3] at hW2
    exact ⟨hfair, Or.inr hW1, hwr, hmd, Or.inr hW2⟩

/-- A SCHEDULE of rounds: after `n` rounds the window covers the whole stream or has grown by at least `n`. -/
theorem sched_spec (cap : Nat) (cs : List Choice) : ∀ {s : Stream}, Fair s → WinOk s →
    s.snd.written.length < varintMax → s.snd.written.length < cap → Sched cap s cs →
    Fair (cs.foldl (wround cap) s) ∧ WinOk (cs.foldl (wround cap) s) ∧
      (cs.foldl (wround cap) s).snd.written = s.snd.written ∧
      s.snd.maxData ≤ (cs.foldl (wround cap) s).snd.maxData ∧
      ((cs.foldl (wround cap) s).snd.written.length ≤ (cs.foldl (wround cap) s).snd.maxData ∨
        s.snd.maxData + cs.length ≤ (cs.foldl (wround cap) s).snd.maxData) := by
  induction cs with
  | nil => intro s hf hw _ _ _; exact ⟨hf, hw, rfl, Nat.le_refl _, Or.inr (Nat.le_refl _)⟩
  | cons c cs ih =>
    intro s hf hw hlen hcap hs
    obtain ⟨hok, hrest⟩ := hs
    obtain ⟨a1, a2, a3, a4, a5⟩ := wround_spec cap hf hw hlen hcap c hok
    obtain ⟨b1, b2, b3, b4, b5⟩ := ih a1 a2 (by rw [a3]; exact hlen) (by rw [a3]; exact hcap) hrest
    simp only [List.foldl_cons, List.length_cons]
    refine ⟨b1, b2, b3.trans a3, Nat.le_trans a4 b4, ?_⟩
    rcases b5 with h | h
    · exact Or.inl h
    · rcases a5 with g | g
      · left; rw [b3]; omega
      · right; omega

/-- a schedule of any length exists from every `Fair` state (the rounds can always be played) -/
theorem sched_exists (cap : Nat) (n : Nat) : ∀ {s : Stream}, Fair s → ∃ cs, cs.length = n ∧ Sched cap s cs := by
  induction n with
  | zero => intro s _; exact ⟨[], rfl, trivial⟩
  | succ n ih =>
    intro s hf
    have r2 : Reach (s.run (.shutdown :: settleOps (fun _ => true) (List.range s.emitted.length))) := reach_run hf.reach _
    obtain ⟨ps, p1, p2⟩ := exists_drain _ (Nat.le_refl _) r2
    have hok : RoundOk s (fun _ => true, ps) := ⟨p1, p2⟩
    obtain ⟨cs, h1, h2⟩ := ih (fair_wround cap hf (fun _ => true, ps))
    exact ⟨(fun _ => true, ps) :: cs, by simp [h1], hok, h2⟩

end GmQuic.Stream
