import GmQuic.Model.Json
/-! C20: a finer static check for `#[serde(untagged)]` enums whose alternatives have the same JSON kind: do their string
LANGUAGES overlap (a unit-variant name that another alternative also accepts)?  Used on the generated table only
(no theorem depends on its precision; `hasType` is the exact criterion). -/
namespace GmQuic.Model.Json

def reqNames : Fields → List String
  | .nil => []
  | .cons name kind _ tl => (match kind with | .req => [name] | _ => []) ++ reqNames tl

/-- may the EARLIER alternative (first argument) accept a JSON value the later one writes? (conservative: `true` when
unsure; two structs: no, when the earlier one requires a key the later one never writes) -/
def mayOverlap : Schema → Schema → Bool
  | .struct fa _, .struct fb restb => restb || (reqNames fa).all fun n => (allNames fb).contains n
  | .unitEnum a, .unitEnum b => a.any fun x => b.contains x
  | .unitEnum a, .hex pfx len => a.any fun x => isHex pfx x len
  | .hex pfx len, .unitEnum a => a.any fun x => isHex pfx x len
  | .unitEnum _, .str => true
  | .str, .unitEnum _ => true
  | a, b => !(disjointN (shape a) (shape b))

def altsFine : Fields → Bool
  | .nil => true
  | .cons _ _ s tl =>
      let rec later : Fields → Bool
        | .nil => true
        | .cons _ _ s' tl' => !(mayOverlap s s') && later tl'
      later tl && altsFine tl

mutual
def fine : Schema → Bool
  | .opt s => fine s
  | .seq s _ => fine s
  | .struct fs _ => fineFields fs
  | .untagged alts => fineFields alts && altsFine alts
  | .adjacent _ _ alts => fineFields alts
  | .internal _ alts => fineFields alts
  | .refine s _ => fine s
  | _ => true
def fineFields : Fields → Bool
  | .nil => true
  | .cons _ _ s tl => fine s && fineFields tl
end

end GmQuic.Model.Json

namespace GmQuic.Model.Json

/-- identification of an `untagged` node for an exemption list: its alternatives' names followed by the variant names of
the first alternative when that is a unit enum -/
def untaggedKey (alts : Fields) : List String :=
  altNames alts ++ (match alts with | .cons _ _ (.unitEnum ns) _ => ns | _ => [])

/- `fine`, except that the untagged nodes whose key is listed in `ex` are not examined (their alternatives still are) -/
mutual
def fineEx (ex : List (List String)) : Schema → Bool
  | .opt s => fineEx ex s
  | .seq s _ => fineEx ex s
  | .struct fs _ => fineExFields ex fs
  | .untagged alts => fineExFields ex alts && (ex.contains (untaggedKey alts) || altsFine alts)
  | .adjacent _ _ alts => fineExFields ex alts
  | .internal _ alts => fineExFields ex alts
  | .refine s _ => fineEx ex s
  | _ => true
def fineExFields (ex : List (List String)) : Fields → Bool
  | .nil => true
  | .cons _ _ s tl => fineEx ex s && fineExFields ex tl
end

end GmQuic.Model.Json
