import GmQuic.Model.Json
/-! C20: a finer static check for `#[serde(untagged)]` enums whose alternatives have the same JSON kind: do their string
LANGUAGES overlap (a unit-variant name that another alternative also accepts)?  Used on the generated table only
(no theorem depends on its precision; `hasType` is the exact criterion). -/
namespace GmQuic.Model.Json

/-- may the two schemas accept a common JSON value? (conservative: `true` when unsure) -/
def mayOverlap : Schema → Schema → Bool
  | .unitEnum a, .unitEnum b => a.any fun x => b.contains x
  | .unitEnum a, .hex pfx len => a.any fun x => isHex pfx x len
  | .hex pfx len, .unitEnum a => a.any fun x => isHex pfx x len
  | .unitEnum _, .str => true
  | .str, .unitEnum _ => true
  | a, b => !(disjointN (shape a) (shape b))

def altsFine : Fields → Bool
  | .nil => true
  | .cons _ _ s tl =>
      let rec later : Fields → Bool
        | .nil => true
        | .cons _ _ s' tl' => !(mayOverlap s s') && later tl'
      later tl && altsFine tl

mutual
def fine : Schema → Bool
  | .opt s => fine s
  | .seq s _ => fine s
  | .struct fs _ => fineFields fs
  | .untagged alts => fineFields alts && altsFine alts
  | .adjacent _ _ alts => fineFields alts
  | .internal _ alts => fineFields alts
  | _ => true
def fineFields : Fields → Bool
  | .nil => true
  | .cons _ _ s tl => fine s && fineFields tl
end

end GmQuic.Model.Json
