import GmQuic.Model.RcvdJournal
/-! Lemmas about `foldRanges` / `genFrame` (C10): capacity accounting and the "cover is a prefix" invariant. -/
namespace GmQuic.RcvdJournal
open GmQuic.Wire

/-- what a frame's first range + ranges say about the numbers `largest, largest-1, …` (true = acknowledged) -/
def coverRanges : List (Nat × Nat) → List Bool
  | [] => []
  | (g, a) :: rs => List.replicate (g + 1) false ++ List.replicate (a + 1) true ++ coverRanges rs

def cover (first : Nat) (rs : List (Nat × Nat)) : List Bool := List.replicate (first + 1) true ++ coverRanges rs

theorem coverRanges_append (a b : List (Nat × Nat)) : coverRanges (a ++ b) = coverRanges a ++ coverRanges b := by
  induction a with
  | nil => rfl
  | cons x xs ih => obtain ⟨g, r⟩ := x; simp [coverRanges, ih]

theorem rangesSize_append (a b : List (Nat × Nat)) : rangesSize (a ++ b) = rangesSize a + rangesSize b := by
  simp [rangesSize]

theorem varintSize_succ (n : Nat) : varintSize (n + 1) = varintSize n + rangeCountIncr n := by
  unfold varintSize rangeCountIncr
  simp only [GmQuic.Gen.ackIncrAt1, GmQuic.Gen.ackIncrBy1, GmQuic.Gen.ackIncrAt2, GmQuic.Gen.ackIncrBy2,
    GmQuic.Gen.ackIncrAt3, GmQuic.Gen.ackIncrBy3, GmQuic.Gen.ackIncrDefault]
  by_cases h1 : n = 63 <;> by_cases h2 : n = 16383 <;> by_cases h3 : n = 1073741823 <;> simp only [h1, h2, h3, if_true, if_false] <;>
    (repeat' split) <;> omega

/-! ### capacity accounting -/

theorem foldRanges_account (bs : List Bool) (gap ack : Nat) (last : Bool) (cap : Nat) (rs : List (Nat × Nat)) :
    let r := foldRanges gap ack last cap rs bs
    r.cap + rangesSize r.ranges + varintSize r.ranges.length = cap + rangesSize rs + varintSize rs.length := by
  induction bs generalizing gap ack last cap rs with
  | nil => simp [foldRanges]
  | cons b bs ih =>
    cases last <;> cases b <;> simp only [foldRanges]
    · exact ih ..
    · exact ih ..
    · split
      · simp
      · rename_i hc
        have := ih 1 0 false (cap - (rangeCountIncr rs.length + varintSize (gap - 1) + varintSize (ack - 1))) (rs ++ [(gap - 1, ack - 1)])
        simp only [rangesSize_append, List.length_append, List.length_cons, List.length_nil, varintSize_succ] at this
        simp only [rangesSize, List.map_cons, List.map_nil, List.sum_cons, List.sum_nil] at this ⊢
        omega
    · exact ih ..

/-- `ack_fits` at the level of the frame computation. -/
theorem genFrame_fits (largest delay cap : Nat) (bs : List Bool) (f : AckFrame) (v : Nat)
    (h : genFrame largest delay cap bs = (.ok f, v)) : f.size ≤ cap := by
  unfold genFrame at h
  simp only at h
  split at h
  · simp at h
  · rename_i hc
    simp only [Prod.mk.injEq, GenOut.ok.injEq] at h
    obtain ⟨h, -⟩ := h
    have acc := foldRanges_account (bs.drop (min (leadTrue bs + 1) bs.length)) 1 0 false
      (cap - (1 + varintSize largest + varintSize delay + varintSize (leadTrue bs - 1) + 1)) []
    simp only [rangesSize, List.map_nil, List.sum_nil, List.length_nil] at acc
    have v0 : varintSize 0 = 1 := by simp [varintSize]
    rw [v0] at acc
    subst h
    simp only [AckFrame.size]
    split
    · split
      · rename_i hgt
        simp only [rangesSize_append, List.length_append, List.length_cons, List.length_nil, varintSize_succ]
        simp only [rangesSize, List.map_cons, List.map_nil, List.sum_cons, List.sum_nil] at acc ⊢
        omega
      · simp only [rangesSize] at acc ⊢; omega
    · simp only [rangesSize] at acc ⊢; omega

/-! ### the frame describes a prefix of the scanned cells -/

/-- pending (not yet pushed) part of the scan state -/
def pend (gap ack : Nat) : List Bool := List.replicate gap false ++ List.replicate ack true

/-- scan-state invariant -/
def SInv (gap ack : Nat) (last : Bool) : Prop := 1 ≤ gap ∧ (last = true → 1 ≤ ack) ∧ (last = false → ack = 0)

theorem replicate_snoc {α : Type} (n : Nat) (a : α) : List.replicate n a ++ [a] = List.replicate (n + 1) a := by
  rw [List.replicate_succ']

theorem foldRanges_prefix (bs : List Bool) (gap ack : Nat) (last : Bool) (cap : Nat) (rs : List (Nat × Nat))
    (hi : SInv gap ack last) :
    let r := foldRanges gap ack last cap rs bs
    ∃ rs2 tail, r.ranges = rs ++ rs2 ∧ pend gap ack ++ bs = coverRanges rs2 ++ tail ∧
      (r.last = true → tail = pend r.gap r.ack ∧ 1 ≤ r.gap ∧ 1 ≤ r.ack) ∧
      (r.broke = false → r.last = false → ∀ b ∈ tail, b = false) := by
  induction bs generalizing gap ack last cap rs with
  | nil =>
    refine ⟨[], pend gap ack, by simp [foldRanges], by simp [coverRanges], ?_, ?_⟩
    · intro hl; simp only [foldRanges] at hl ⊢; exact ⟨trivial, hi.1, hi.2.1 hl⟩
    · intro _ hl b hb
      simp only [foldRanges] at hl
      have := hi.2.2 hl
      subst this
      simp [pend] at hb; exact hb.2
  | cons b bs ih =>
    obtain ⟨hg, ha1, ha0⟩ := hi
    cases last <;> cases b <;> simp only [foldRanges]
    · -- (false, false): gap + 1
      have h0 := ha0 rfl; subst h0
      obtain ⟨rs2, tail, h1, h2, h3, h4⟩ := ih (gap + 1) 0 false cap rs ⟨by omega, by simp, by simp⟩
      refine ⟨rs2, tail, h1, ?_, h3, h4⟩
      rw [← h2]; simp [pend, List.replicate_succ']
    · -- (false, true): ack + 1
      have h0 := ha0 rfl; subst h0
      obtain ⟨rs2, tail, h1, h2, h3, h4⟩ := ih gap 1 true cap rs ⟨hg, by simp, by simp⟩
      refine ⟨rs2, tail, h1, ?_, h3, h4⟩
      rw [← h2]; simp [pend]
    · -- (true, false): the range ends
      have h1a := ha1 rfl
      split
      · -- Break
        exact ⟨[], pend gap ack ++ false :: bs, by simp, by simp [coverRanges], by simp, by simp⟩
      · obtain ⟨rs2, tail, h1, h2, h3, h4⟩ := ih 1 0 false
          (cap - (rangeCountIncr rs.length + varintSize (gap - 1) + varintSize (ack - 1))) (rs ++ [(gap - 1, ack - 1)])
          ⟨by omega, by simp, by simp⟩
        refine ⟨(gap - 1, ack - 1) :: rs2, tail, by simp [h1], ?_, h3, h4⟩
        simp only [pend, List.replicate_zero, List.append_nil] at h2
        have e1 : gap - 1 + 1 = gap := by omega
        have e2 : ack - 1 + 1 = ack := by omega
        simp only [coverRanges, e1, e2, pend, List.append_assoc]
        rw [← h2]; simp
    · -- (true, true): ack + 1
      have h1a := ha1 rfl
      obtain ⟨rs2, tail, h1, h2, h3, h4⟩ := ih gap (ack + 1) true cap rs ⟨hg, by simp, by simp⟩
      refine ⟨rs2, tail, h1, ?_, h3, h4⟩
      rw [← h2]; simp [pend, List.replicate_succ']

end GmQuic.RcvdJournal
