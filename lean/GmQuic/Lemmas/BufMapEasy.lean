import GmQuic.Lemmas.BufMapAbs
/-!
C09 — refinement relation between the transliterated `SendBuf` and the spec state, and the refinement of the
operations without index juggling: `extend_to` (hence `write`, `extend`), `resend_flighting`, `forget_sent_state`,
and the chunk-queue loop of `on_data_acked`.
-/
namespace GmQuic.BufMap
open GmQuic.SendSpec

/-- the transliterated buffer `b` represents the spec state `s` -/
structure Rel (b : SendBuf) (s : SendSpec) : Prop where
  wf : WF b.state
  size : s.size = b.state.size
  maxData : s.maxData = b.maxData
  base : s.base = b.offset
  written : s.data.length = b.written
  colour : ∀ x, s.colour x = b.state.abs x
  chunks_pos : ∀ c ∈ b.chunks, 0 < c
  size_eq : s.size = min s.data.length s.maxData
  base_le : s.base ≤ s.size
  lt62 : s.data.length < 2 ^ 62

theorem rel_init (cap : Nat) : Rel (SendBuf.withCapacity cap) (SendSpec.init cap) := by
  refine ⟨⟨List.Pairwise.nil, by simp [SendBuf.withCapacity]⟩, rfl, rfl, rfl, ?_, ?_, ?_, ?_, ?_, ?_⟩
  · simp [SendBuf.withCapacity, SendBuf.written, SendSpec.init]
  · intro x; simp [SendSpec.init, SendBuf.withCapacity, BufMap.abs]
  · simp [SendBuf.withCapacity]
  · simp [SendSpec.init]
  · simp [SendSpec.init]
  · simp [SendSpec.init]

/-! ### `extend_to` -/

theorem lastCol_eq_of_getLast? {l : List Run} {r : Run} (p : Colour) (h : l.getLast? = some r) :
    lastCol l p = r.2 := by
  simp [lastCol, h]

theorem colourAt_all_le (l : List Run) (p : Colour) (x : Nat) (h : ∀ r ∈ l, r.1 ≤ x) :
    colourAt l p x = lastCol l p := by
  have := colourAt_append_le l [] p x h
  simpa [colourAt] using this

theorem extendTo_refines (m : BufMap) (pos : Nat) (hwf : WF m) (h1 : m.size ≤ pos) (h2 : pos < 2 ^ 62) :
    ∃ m', extendTo m pos = .ok m' ∧ WF m' ∧ m'.size = pos ∧ ∀ x, m'.abs x = m.abs x := by
  unfold extendTo
  have hn1 : ¬ ¬ pos < 2 ^ 62 := by omega
  have hn2 : ¬ pos < m.size := by omega
  simp only [hn1, hn2, if_false]
  by_cases hgt : pos > m.size
  · simp only [hgt, if_true]
    -- is the last run Pending?
    cases hl : m.runs.getLast? with
    | none =>
      have hnil : m.runs = [] := List.getLast?_eq_none_iff.mp hl
      refine ⟨_, rfl, ⟨?_, ?_⟩, rfl, ?_⟩
      · simp [hnil, Sorted]
      · intro r hr; simp [hnil] at hr; subst hr; exact hgt
      · intro x
        simp only [BufMap.abs, hnil, List.nil_append, colourAt]
        by_cases hx : x < m.size
        · have : x < pos := by omega
          simp [hx, this]
        · by_cases hx2 : x < pos
          · have : ¬ x < m.size := hx
            simp [hx2, this]
          · simp [hx, hx2]
    | some r =>
      obtain ⟨o, c⟩ := r
      have hmem : (o, c) ∈ m.runs := List.mem_of_getLast? hl
      by_cases hc : c = .pending
      · subst hc
        refine ⟨{ runs := m.runs, size := pos }, rfl, ⟨hwf.sorted, ?_⟩, rfl, ?_⟩
        · intro r hr; have := hwf.lt_size r hr; simp only; omega
        · intro x
          simp only [BufMap.abs]
          by_cases hx : x < m.size
          · have : x < pos := by omega
            simp [hx, this]
          · by_cases hx2 : x < pos
            · simp only [hx, hx2, if_true, if_false]
              rw [colourAt_all_le m.runs .recved x (fun r hr => by have := hwf.lt_size r hr; omega)]
              exact lastCol_eq_of_getLast? _ hl
            · simp [hx, hx2]
      · refine ⟨{ runs := m.runs ++ [(m.size, .pending)], size := pos }, ?_, ⟨?_, ?_⟩, rfl, ?_⟩
        · cases c <;> first | exact absurd rfl hc | rfl
        · simp only [Sorted]
          rw [List.pairwise_append]
          refine ⟨hwf.sorted, by simp, ?_⟩
          intro r hr r' hr'
          simp at hr'; subst hr'
          exact hwf.lt_size r hr
        · intro r hr
          simp only [List.mem_append, List.mem_singleton] at hr
          rcases hr with hr | hr
          · have := hwf.lt_size r hr; simp only; omega
          · subst hr; exact hgt
        · intro x
          simp only [BufMap.abs]
          by_cases hx : x < m.size
          · have : x < pos := by omega
            simp only [hx, this, if_true]
            exact colourAt_append_gt m.runs [(m.size, .pending)] .recved x (by intro r hr; simp at hr; subst hr; exact hx)
          · by_cases hx2 : x < pos
            · simp only [hx, hx2, if_true, if_false]
              rw [colourAt_append_le m.runs _ .recved x (fun r hr => by have := hwf.lt_size r hr; omega)]
              have : ¬ x < m.size := hx
              simp [colourAt, this]
            · simp [hx, hx2]
  · have : pos = m.size := by omega
    simp only [hgt, if_false]
    exact ⟨m, rfl, hwf, this.symm, fun _ => rfl⟩

/-! ### `resend_flighting` -/

theorem colourAt_map_lostOf (f : Run → Run) (hf : ∀ r, f r = (r.1, lostOf r.2)) (l : List Run) (p : Colour) (x : Nat) :
    colourAt (l.map f) (lostOf p) x = lostOf (colourAt l p x) := by
  induction l generalizing p with
  | nil => rfl
  | cons r l ih =>
    obtain ⟨o, c⟩ := r
    simp only [List.map_cons, hf, colourAt]
    split
    · rfl
    · exact ih c

theorem resend_fn (r : Run) :
    (fun (x : Run) => match x with | (o, c) => if c = Colour.flighting then (o, Colour.lost) else (o, c)) r
      = (r.1, lostOf r.2) := by
  obtain ⟨o, c⟩ := r
  cases c <;> simp [lostOf]

theorem resend_refines (m : BufMap) (hwf : WF m) :
    WF m.resend ∧ m.resend.size = m.size ∧ ∀ x, m.resend.abs x = lostOf (m.abs x) := by
  have hruns : m.resend.runs = m.runs.map (fun r => (r.1, lostOf r.2)) := by
    simp only [BufMap.resend]
    apply List.map_congr_left
    intro r _
    exact resend_fn r
  refine ⟨⟨?_, ?_⟩, rfl, ?_⟩
  · simp only [Sorted, hruns]
    rw [List.pairwise_map]
    exact hwf.sorted
  · intro r hr
    rw [hruns, List.mem_map] at hr
    obtain ⟨q, hq, rfl⟩ := hr
    exact hwf.lt_size q hq
  · intro x
    have hs : m.resend.size = m.size := rfl
    simp only [BufMap.abs, hs, hruns]
    by_cases hx : x < m.size
    · simp only [hx, if_true]
      exact colourAt_map_lostOf _ (fun _ => rfl) m.runs .recved x
    · simp only [hx, if_false]; rfl

/-! ### chunk queue -/

theorem dropChunks_sum (l : List Nat) (n : Nat) (hn : n ≤ l.sum) (hpos : ∀ c ∈ l, 0 < c) :
    (dropChunks l n).sum + n = l.sum ∧ ∀ c ∈ dropChunks l n, 0 < c := by
  induction l generalizing n with
  | nil => simp [dropChunks] at *; omega
  | cons c rest ih =>
    simp only [dropChunks]
    by_cases h0 : n = 0
    · subst h0; simp only [if_true]; exact ⟨by omega, hpos⟩
    · simp only [h0, if_false]
      by_cases hge : n ≥ c
      · simp only [hge, if_true]
        have hs : n - c ≤ rest.sum := by simp [List.sum_cons] at hn; omega
        obtain ⟨h1, h2⟩ := ih (n - c) hs (fun c hc => hpos c (by simp [hc]))
        refine ⟨?_, h2⟩
        simp only [List.sum_cons]; omega
      · simp only [hge, if_false]
        refine ⟨by simp only [List.sum_cons]; omega, ?_⟩
        intro d hd
        simp only [List.mem_cons] at hd
        rcases hd with hd | hd
        · omega
        · exact hpos d (by simp [hd])

/-- `is_all_rcvd()` = `data.is_empty()` ⇔ `offset = written` -/
theorem isAllRcvd_iff (b : SendBuf) (s : SendSpec) (h : Rel b s) : b.isAllRcvd = true ↔ s.allRcvd := by
  simp only [SendBuf.isAllRcvd, SendSpec.allRcvd, h.base, h.written, SendBuf.written]
  constructor
  · intro he
    have : b.chunks = [] := by simpa using he
    simp [this]
  · intro he
    cases hc : b.chunks with
    | nil => rfl
    | cons c rest =>
      have := h.chunks_pos c (by simp [hc])
      simp [hc, List.sum_cons] at he
      omega

end GmQuic.BufMap
