import GmQuic.Lemmas.ProtectBits
/-! C06: facts about the first byte `encode_*_first_byte` produces from a well-formed header byte. -/
namespace GmQuic.Protect
open GmQuic.Pn

theorem typeOfFirst_long_ne (f : UInt8) (h : f &&& 0x80 = 0x80) : typeOfFirst f ≠ some .oneRtt := by
  unfold typeOfFirst
  rw [if_neg (by rw [h]; decide)]
  split
  · simp
  · split
    · simp
    · split
      · simp
      · split <;> simp

theorem wf_short {t : TxPkt} (w : WfHdr t) : t.ptype = .oneRtt ↔ t.hdr0 &&& 0x80 = 0 := by
  constructor
  · intro hs
    rcases and80_cases t.hdr0 with h | h
    · exact h
    · exact absurd (hs ▸ w.ty) (typeOfFirst_long_ne _ h)
  · intro h
    have := typeOfFirst_short _ h
    rw [w.ty] at this; exact Option.some.inj this

theorem wf_hpBits_short {t : TxPkt} (w : WfHdr t) (hs : t.ptype = .oneRtt) : hpBits t.hdr0 = 0x1f := by
  unfold hpBits; rw [(wf_short w).mp hs]; decide

theorem wf_hpBits_long {t : TxPkt} (w : WfHdr t) (hl : t.ptype ≠ .oneRtt) : hpBits t.hdr0 = 0x0f := by
  unfold hpBits
  rcases and80_cases t.hdr0 with h | h
  · exact absurd ((wf_short w).mpr h) hl
  · rw [h]; decide

theorem lowBits_and_80 (t : TxPkt) : lowBits t &&& 0x80 = 0 := by
  rw [← and_sub (lowBits t) 0xe0 0x80 (by decide), lowBits_and_e0]; decide

theorem first_and_80 (t : TxPkt) : encodeFirst t &&& 0x80 = t.hdr0 &&& 0x80 := by
  rw [encodeFirst_eq]; exact or_high _ _ _ (lowBits_and_80 t)

theorem first_hpBits (t : TxPkt) : hpBits (encodeFirst t) = hpBits t.hdr0 :=
  hpBits_congr _ _ (first_and_80 t)

theorem first_low {t : TxPkt} (w : WfHdr t) (C : UInt8) (hC : hpBits t.hdr0 &&& C = C) :
    encodeFirst t &&& C = lowBits t &&& C := by
  rw [encodeFirst_eq]; exact or_low _ _ _ _ w.low hC

theorem first_pnLen {t : TxPkt} (w : WfHdr t) : (encodeFirst t &&& 3).toNat + 1 = size t.enc := by
  rw [first_low w 3 (by rcases hpBits_cases t.hdr0 with h | h <;> rw [h] <;> decide)]
  exact lowBits_and_3 t

theorem first_type {t : TxPkt} (w : WfHdr t) : typeOfFirst (encodeFirst t) = some t.ptype := by
  rcases and80_cases t.hdr0 with h | h
  · rw [typeOfFirst_short _ (by rw [first_and_80, h]), (wf_short w).mpr h]
  · have hl : t.ptype ≠ .oneRtt := fun hs => by
      have := (wf_short w).mp hs; rw [h] at this; exact absurd this (by decide)
    rw [typeOfFirst_hi, encodeFirst_eq, or_high _ _ _ (lowBits_long_f0 t hl), ← typeOfFirst_hi, w.ty]

theorem first_reserved {t : TxPkt} (w : WfHdr t) : encodeFirst t &&& reservedMask t.ptype = 0 := by
  unfold reservedMask
  by_cases hs : t.ptype = .oneRtt
  · rw [if_pos hs, first_low w _ (by rw [wf_hpBits_short w hs]; decide)]; exact lowBits_short_18 t hs
  · rw [if_neg hs, first_low w _ (by rw [wf_hpBits_long w hs]; decide)]; exact lowBits_long_0c t hs

theorem first_keyPhase {t : TxPkt} (w : WfHdr t) :
    (encodeFirst t &&& 0x04 ≠ 0) ↔ (t.ptype = .oneRtt ∧ t.keyPhase = true) := by
  rw [first_low w 4 (by rcases hpBits_cases t.hdr0 with h | h <;> rw [h] <;> decide)]
  by_cases hs : t.ptype = .oneRtt
  · rw [lowBits_short_04 t hs]; simp [hs]
  · have : lowBits t &&& 0x04 = 0 := by
      rw [← and_sub (lowBits t) 0x0c 0x04 (by decide), lowBits_long_0c t hs]; decide
    simp [this, hs]

end GmQuic.Protect
