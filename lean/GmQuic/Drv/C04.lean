import GmQuic.Drv.Core
import GmQuic.Model.Cost
/-! Line driver for C04 (`C04a`, `C04p`, `C04c` share one op grammar): the model's outcome of every operation is
compared exactly with what the real objects answered in the worker process; a model cost above `costCap` maps to
`TIMEOUT | OOM` (either is accepted; for packet-number arrival — unfixed, known finding — the model's own `ok pn` too).  For a refused ACK the `untouched=` flag is checked for FRAME_ENCODING_ERROR
(the frame must not have reached any consumer) and taken from the implementation for PROTOCOL_VIOLATION (the
received-packet journal may have rotated before `update_largest` runs — documented, not a property clause). -/
namespace GmQuic.Drv.C04
open GmQuic.Drv GmQuic.Cost

/-- model cost (iterations + cells) above which the real code is expected to hit the 10 s / 3 GB caps -/
def costCap : Nat := 4 * 10 ^ 6

structure DSt where
  ack : AckSt := {}
  rcid : Cid.Remote := Cid.Remote.init 2
  lcid : Cid.Local := (Cid.Local.new (.ext 0) (.gen 0)).1
  nextc : Nat := 1
  fid : Nat := 0

def ekName : EK → String
  | .frameEncoding => "FrameEncoding"
  | .protocolViolation => "ProtocolViolation"
  | .streamLimit => "StreamLimit"
  | .streamState => "StreamState"
  | .finalSize => "FinalSize"
  | .flowControl => "FlowControl"
  | .connectionIdLimit => "ConnectionIdLimit"
  | .transportParameter => "TransportParameter"

def natsStr (xs : List Nat) : String := if xs.isEmpty then "-" else ",".intercalate (xs.map toString)

def parsePairs (s : String) : Option (List (Nat × Nat)) :=
  if s == "-" then some [] else
  (s.splitOn ",").mapM fun w =>
    match w.splitOn ":" with
    | [a, b] => match a.toNat?, b.toNat? with
      | some x, some y => some (x, y)
      | _, _ => none
    | _ => none

def sentN : Nat → DSt → DSt
  | 0, s => s
  | n + 1, s =>
    let fid := s.fid + 1
    let pn := s.ack.sj.largest
    let sj := (SentFrames.step s.ack.sj (.pkt [fid] false 1000000 1000000)).1
    sentN n { s with fid := fid, ack := { s.ack with sj := sj, cc := s.ack.cc ++ [⟨pn, false⟩] } }

def overCap (c : Cost) : Bool := c.total > costCap

/-- (new state, model observation, relational?) — `none` observation = accept `TIMEOUT` / `OOM` -/
def stepOp (s : DSt) (op : List String) (impl : List String) : DSt × Option String :=
  match op with
  | ["reset"] => ({}, some "ok")
  | ["consts"] => (s, some s!"validate=1 pn_gap=absent seq_gap={maxSeqGap} issued={maxIssuedCids}")
  | ["sent", k] =>
    let s' := sentN k.toNat! s
    (s', some s!"ok next={s'.ack.sj.largest}")
  | ["rcvd", pn] =>
    match RcvdJournal.onRcvdPn s.ack.rj pn.toNat! true 100000 with
    | some rj => ({ s with ack := { s.ack with rj := rj } }, some "ok")
    | none => (s, some "PANIC")
  | ["ack", l, d, f, rs] =>
    match parsePairs rs with
    | none => (s, some "BAD ranges")
    | some ranges =>
      let fr : RcvdJournal.AckFrame := ⟨l.toNat!, d.toNat!, f.toNat!, ranges⟩
      let r := handleAck s.ack fr
      if overCap r.2 then (s, none) else
      match r.1 with
      | .err .frameEncoding => (s, some "err FrameEncoding untouched=1")
      | .err .protocolViolation =>
        -- relational: the journals may or may not have changed before `update_largest`
        let u := match impl with | [_, _, u] => u | _ => "untouched=?"
        (s, some s!"err ProtocolViolation {u}")
      | .err k => (s, some s!"err {ekName k}")
      | .ok (a, .frames _ fs) => ({ s with ack := a }, some s!"ok frames={natsStr fs}")
      | .drop => (s, some "drop")
      | .panic => (s, some "PANIC")
  | ["arrive", bits, t] =>
    let tr := t.toNat!
    let e : Pn.PacketNumber := match bits.toNat! with | 8 => .u8 tr | 16 => .u16 tr | 24 => .u24 tr | _ => .u32 tr
    let rj := s.ack.rj
    -- a jump above the cap is not replayed on the model state (`List.replicate` of up to 2^31 cells): the harness ends
    -- the case after such an operation; `pn_old_gap_fill` gives the model's cost = jump + 1
    let big : Bool := match Pn.decode e rj.largest with | .ok pn => decide (pn - rj.largest > costCap) | .panic _ => false
    if big then
      let theirs := " ".intercalate impl
      let pn := match Pn.decode e rj.largest with | .ok pn => pn | .panic _ => 0
      (s, some (if theirs == "TIMEOUT" || theirs == "OOM" then theirs else s!"ok {pn}"))
    else
    -- the code as it is (`experimental-C04-pn-gap.diff` is not in the fix set): `handlePn false`
    let r := handlePn false rj e true 100000
    let theirs := " ".intercalate impl
    let capped := overCap r.2 && (theirs == "TIMEOUT" || theirs == "OOM")
    match r.1 with
    | .ok rj' =>
      match Pn.decode e rj.largest with
      | .ok pn => ({ s with ack := { s.ack with rj := rj' } }, some (if capped then theirs else s!"ok {pn}"))
      | .panic _ => (s, some "PANIC")
    | .drop =>
      match Pn.decode e rj.largest with
      | .ok pn => (s, some (if pn < rj.offset then "TooOld" else "Dup"))
      | .panic _ => (s, some "PANIC")
    | .err k => (s, some s!"err {ekName k}")
    | .panic => (s, some "PANIC")
  | ["rinit", limit] => ({ s with rcid := Cid.Remote.init limit.toNat! }, some "ok")
  | ["newcid", seq, rpt] =>
    let sq := seq.toNat!
    let r := handleNewCid true s.rcid sq rpt.toNat! (.ext sq)
    if overCap r.2 then (s, none) else
    match r.1 with
    | .ok rc =>
      if sq < s.rcid.coff then (s, some "none retire=0")
      else ({ s with rcid := rc }, some s!"ok retire={rc.frames.length - s.rcid.frames.length}")
    | .err k => (s, some s!"err {ekName k}")
    | .drop => (s, some "drop")
    | .panic => (s, some "PANIC")
  | ["setlimit", n] =>
    let r := handleSetLimit true s.lcid s.nextc n.toNat!
    if overCap r.2 then (s, none) else
    match r.1 with
    | .ok l => ({ s with lcid := l, nextc := s.nextc + (l.largest - s.lcid.largest) },
                some s!"ok issued={l.largest - s.lcid.largest}")
    | .err k => (s, some s!"err {ekName k}")
    | .drop => (s, some "drop")
    | .panic => (s, some "PANIC")
  | ["retire", seq] =>
    let r := handleRetireCid s.lcid seq.toNat! (.gen s.nextc)
    match r.1 with
    | .ok l => ({ s with lcid := l, nextc := s.nextc + 1 }, some s!"ok issued={l.largest - s.lcid.largest}")
    | .err k => (s, some s!"err {ekName k}")
    | .drop => (s, some "drop")
    | .panic => (s, some "PANIC")
  | _ => (s, some "BAD op")

def model : Model DSt where
  init := {}
  step s op obs :=
    let (s', mine) := stepOp s op obs
    let theirs := " ".intercalate obs
    match mine with
    | none => if theirs == "TIMEOUT" || theirs == "OOM" then (s', none) else (s', some "TIMEOUT|OOM (model cost above the cap)")
    | some m => if m == theirs then (s', none) else (s', some m)

def entries : List (String × IO UInt32) :=
  [("C04a", runModel model), ("C04p", runModel model), ("C04c", runModel model)]

end GmQuic.Drv.C04
