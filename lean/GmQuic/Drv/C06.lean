import GmQuic.Drv.Core
import GmQuic.Model.Protect
/-! Line driver for C06 (`Model/Protect.lean` with the toy cipher): `cfg` (relational: which order the tree has),
`tx` (exact bytes), `rx` (exact outcome), `rxparse` (the real parser refused the bytes: nothing to compare). -/
namespace GmQuic.Drv.C06
open GmQuic.Drv GmQuic.Protect GmQuic.Pn GmQuic.Wire

structure St where
  before : Bool := true
  /-- C06keys: the persistent receiver (`OneRttPacketKeys`) and its keys -/
  one : OneRtt Nat := { cur := false, gen := 0, remote0 := none, remote1 := none, localK := 0 }
  hk : Nat := 0
  nx : List Nat := []

def parseTy : String → Option PType
  | "initial" => some .initial
  | "zerortt" => some .zeroRtt
  | "handshake" => some .handshake
  | "onertt" => some .oneRtt
  | _ => none

def doTx (ws : List String) : String :=
  match (kv ws "ty").bind parseTy, kvNat ws "k", kvNat ws "hk", (kv ws "hdr").bind parseHex,
        kvNat ws "pn", kvNat ws "la", kvNat ws "kp", (kv ws "body").bind parseHex with
  | some ty, some k, some hk, some (h0 :: hrest), some pn, some la, some kp, some body =>
    let enc : Res PacketNumber :=
      match kv ws "enc" with
      | none => encode pn la
      | some s =>
        match s.splitOn ":" with
        | ["u8", x] => .ok (.u8 (x.toNat?.getD 0))
        | ["u16", x] => .ok (.u16 (x.toNat?.getD 0))
        | ["u24", x] => .ok (.u24 (x.toNat?.getD 0))
        | ["u32", x] => .ok (.u32 (x.toNat?.getD 0))
        | _ => .panic .unreachable
    match enc with
    | .panic _ => "PANIC"
    | .ok e =>
      let body := if kvNat ws "pad" == some 1 then padTo20 toyAead.tagLen (size e) body else body
      match protect toyAead toyHp k hk ⟨ty, h0, hrest, pn, e, kp == 1, body⟩ with
      | .panic => "PANIC"
      | .ok pkt off => s!"pkt={toHex pkt} off={off}"
  | _, _, _, _, _, _, _, _ => "BAD tx args"

def nextList (ws : List String) : List Nat :=
  match kv ws "next" with
  | none => []
  | some s => (s.splitOn ",").filterMap String.toNat?

def doRx (st : St) (ws : List String) : String :=
  match (kv ws "ty").bind parseTy, kvNat ws "k", kvNat ws "hk", kvNat ws "off", kvNat ws "exp",
        (kv ws "buf").bind parseHex with
  | some ty, some k, some hk, some off, some exp, some buf =>
    let nx := nextList ws
    let cfg : RxCfg Nat Nat :=
      { reservedBeforeOpen := st.before, hpKey := fun _ => hk, longKey := fun _ => k,
        next := fun g => (nx.getD g 0, 0) }
    let dec : PacketNumber → DecodePn := fun e =>
      match decode e exp with
      | .ok pn => .ok pn
      | .panic p => .panic p
    let s0 : OneRtt Nat := { cur := false, gen := 0, remote0 := some k, remote1 := none, localK := 0 }
    if typeOfFirst (buf.headD 0) ≠ some ty then s!"TYPE-MISMATCH model={repr (typeOfFirst (buf.headD 0))}"
    else
      let (o, s') := receive toyAead toyHp cfg dec s0 buf off
      let cur := if s'.cur then 1 else 0
      match o with
      | .accepted _ pn kp _ body => s!"acc pn={pn} kp={if kp then 1 else 0} body={toHex body} cur={cur}"
      | .dropped _ => s!"drop cur={cur}"
      | .connError => s!"connerr cur={cur}"
      | .panic => "PANIC"
  | _, _, _, _, _, _ => "BAD rx args"

def curStr (s : OneRtt Nat) : String := s!"cur={if s.cur then 1 else 0}"

/-- C06keys: one packet received on the persistent key state -/
def doKrx (st : St) (ws : List String) : St × String :=
  match kvNat ws "off", kvNat ws "exp", (kv ws "buf").bind parseHex with
  | some off, some exp, some buf =>
    let nx := st.nx
    let cfg : RxCfg Nat Nat :=
      { reservedBeforeOpen := st.before, hpKey := fun _ => st.hk, longKey := fun _ => 0,
        next := fun g => (nx.getD g 0, 0) }
    let dec : PacketNumber → DecodePn := fun e =>
      match decode e exp with
      | .ok pn => .ok pn
      | .panic p => .panic p
    if typeOfFirst (buf.headD 0) ≠ some .oneRtt then (st, "TYPE-MISMATCH")
    else
      let (o, s') := receive toyAead toyHp cfg dec st.one buf off
      let st' := { st with one := s' }
      match o with
      | .accepted _ pn kp _ body => (st', s!"acc pn={pn} kp={if kp then 1 else 0} body={toHex body} {curStr s'}")
      | .dropped _ => (st', s!"drop {curStr s'}")
      | .connError => (st', s!"connerr {curStr s'}")
      | .panic => (st', "PANIC")
  | _, _, _ => (st, "BAD krx args")

def stepKeys (st : St) (op : List String) : St × String :=
  match op with
  | "kinit" :: ws =>
    match kvNat ws "k", kvNat ws "hk" with
    | some k, some hk =>
      ({ st with hk := hk, nx := nextList ws,
                 one := { cur := false, gen := 0, remote0 := some k, remote1 := none, localK := 0 } }, "ok")
    | _, _ => (st, "BAD kinit args")
  | "krx" :: ws => doKrx st ws
  | ["kphaseout"] => let s' := st.one.phaseOut; ({ st with one := s' }, curStr s')
  | ["kupdate"] =>
    let cfg : RxCfg Nat Nat := { reservedBeforeOpen := st.before, hpKey := fun _ => st.hk, longKey := fun _ => 0,
                                 next := fun g => (st.nx.getD g 0, 0) }
    let s' := st.one.update cfg; ({ st with one := s' }, curStr s')
  | _ => (st, "BAD op")

def step (st : St) (op obs : List String) : St × Option String :=
  match op with
  | "kinit" :: _ | "krx" :: _ | "kphaseout" :: _ | "kupdate" :: _ => exact stepKeys st op obs
  | "cfg" :: _ =>
    match kv obs "order" with
    | some "before" => ({ st with before := true }, none)
    | some "after" => ({ st with before := false }, none)
    | _ => (st, some "BAD cfg obs")
  | "tx" :: ws => exact (fun s w => (s, doTx w)) st ws obs
  | "rx" :: ws => exact (fun s w => (s, doRx s w)) st ws obs
  | "rxparse" :: _ => (st, none)
  | _ => (st, some "BAD op")

def model : Model St := { init := {}, step := step }

/-- `C06ring` has nothing to compare (real ring keys: the model has no ring): monitor-only run. -/
def ringModel : Model Unit := { init := (), step := fun s op _ => match op with
  | "ring" :: _ => (s, none)
  | _ => (s, some "BAD op") }

def entries : List (String × IO UInt32) := [("C06toy", runModel model), ("C06keys", runModel model), ("C06ring", runModel ringModel)]

end GmQuic.Drv.C06
