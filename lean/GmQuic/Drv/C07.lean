import GmQuic.Drv.Core
import GmQuic.Model.Pn
import GmQuic.Model.SentJournal
/-! Line driver for C07: `C07pn` (packet-number codec, exact), `C07j` (sent journal, exact), `C07r` (receiver `decode_pn`). -/
namespace GmQuic.Drv.C07
open GmQuic.Drv GmQuic.Pn

def siteStr : PanicSite → String
  | .subOverflow => "PANIC:sub"
  | .mulOverflow => "PANIC:mul"
  | .addOverflow => "PANIC:add"
  | .tooLarge => "PANIC:toolarge"
  | .unreachable => "PANIC:unreachable"

def showPn : PacketNumber → String
  | .u8 x => s!"u8:{x}"
  | .u16 x => s!"u16:{x}"
  | .u24 x => s!"u24:{x}"
  | .u32 x => s!"u32:{x}"

def decStr (e : PacketNumber) (exp : Nat) : String :=
  match decode e exp with
  | .ok n => toString n
  | .panic s => siteStr s

/-- in-memory value from the harness: variant tag + payload (payload already within the Rust type). -/
def mkPn (v : String) (x : Nat) : Option PacketNumber :=
  match v with
  | "u8" => some (.u8 x)
  | "u16" => some (.u16 x)
  | "u24" => some (.u24 x)
  | "u32" => some (.u32 x)
  | _ => none

def stepPn (s : Unit) (op : List String) : Unit × String :=
  match op with
  | ["pn", a, b, c] =>
    match a.toNat?, b.toNat?, c.toNat? with
    | some pn, some la, some exp =>
      match encode pn la with
      | .panic st => (s, siteStr st)
      | .ok e =>
        let wire := put e
        let (takeS, decS) :=
          match take (size e) wire with
          | .ok e' [] => (showPn e', decStr e' exp)
          | .ok e' rest => (s!"{showPn e'}+rest{rest.length}", decStr e' exp)
          | .err => ("err", "-")
          | .panic => ("PANIC:unreachable", "-")
        (s, s!"enc={showPn e} size={size e} wire={toHex wire} take={takeS} dec={decS} mem={decStr e exp}")
    | _, _, _ => (s, "BAD pn args")
  | ["dec", v, x, c] =>
    match x.toNat?, c.toNat? with
    | some x, some exp =>
      match mkPn v x with
      | some e => (s, s!"dec={decStr e exp}")
      | none => (s, "BAD dec variant")
    | _, _ => (s, "BAD dec args")
  | ["take", l, h] =>
    match l.toNat?, parseHex h with
    | some len, some input =>
      match take len input with
      | .ok e rest => (s, s!"ok {showPn e} rest={toHex rest}")
      | .err => (s, "err")
      | .panic => (s, "PANIC:unreachable")
    | _, _ => (s, "BAD take args")
  | _ => (s, "BAD op")

def modelPn : Model Unit := { init := (), step := exact stepPn }

/-! ### C07j: sent-journal life-cycle (exact, state dump included) -/
section J
open GmQuic.SentJournal

def recStr : Rec → String
  | .skipped => "S"
  | .flighting n _ _ => s!"F{n}"
  | .retrans n _ => s!"R{n}"
  | .acked n => s!"A{n}"

def dumpJ (s : State) : String :=
  let recs := if s.j.recs.isEmpty then "-" else ",".intercalate (s.j.recs.map recStr)
  let p := if s.poisoned.isSome then "POISONED " else ""
  s!"{p}off={s.j.offset} recs={recs} q={s.j.queueLen} la={s.j.la}"

def pnObs (s : State) : String :=
  match guardPn s with
  | some (pn, .ok e) => s!"pn={pn} enc={showPn e}"
  | some (_, .panic st) => siteStr st
  | none => "NOGUARD"

def poisonStr : Poison → String
  | .pnOverflow => "PANIC:pnoverflow"
  | .trivialAssert => "PANIC:assert"
  | .drain => "PANIC:drain"

/-- observation of a build-like op: `built <dump>` or the panic. -/
def builtObs (s' : State) (withDump : Bool) : String :=
  match s'.poisoned with
  | some p => if withDump then s!"{poisonStr p} {dumpJ s'}" else poisonStr p
  | none => s!"built {dumpJ s'}"

def stepJ (s : State) (op : List String) : State × String :=
  match op with
  | ["begin"] => let s' := step s .begin; (s', pnObs s')
  | ["pn"] => (step s .pn, pnObs s)
  | ["frame"] => (step s .frame, "ok")
  | ["trivial"] => (step s .trivial, "ok")
  | ["build", a, b] =>
    match a.toNat?, b.toNat? with
    | some rt, some et => let s' := step s (.build rt et); (s', builtObs s' false)
    | _, _ => (s, "BAD build args")
  | ["build_trivial"] => let s' := step s .buildTrivial; (s', builtObs s' true)
  | ["abandon"] => let s' := step s .abandon; (s', s!"dropped {dumpJ s'}")
  | ["acklargest", a] =>
    match a.toNat? with
    | some n =>
      let s' := step s (.ackLargest n)
      (s', s!"{if updateLargestOk s.j n then "ok" else "err"} {dumpJ s'}")
    | none => (s, "BAD acklargest args")
  | ["rotate"] => let s' := step s .rotate; (s', dumpJ s')
  | ["acked", a] =>
    match a.toNat? with
    | some pn => let s' := step s (.acked pn); (s', s!"n={(touch s.j pn Rec.beAcked).2} {dumpJ s'}")
    | none => (s, "BAD acked args")
  | ["lost", a] =>
    match a.toNat? with
    | some pn => let s' := step s (.lost pn); (s', s!"n={(touch s.j pn Rec.maybeLost).2} {dumpJ s'}")
    | none => (s, "BAD lost args")
  | ["tick", a] =>
    match a.toNat? with
    | some ms => (step s (.tick ms), "ok")
    | none => (s, "BAD tick args")
  | _ => (s, "BAD op")

def modelJ : Model State := { init := SentJournal.init, step := exact stepJ }
end J

/-! ### C07r: receiver `decode_pn` (exact) + rotation (relational: the implementation chooses how far) -/
def decPnStr : DecodePn → String
  | .ok n => s!"ok {n}"
  | .tooOld => "TooOld"
  | .duplicate => "Dup"
  | .panic st => siteStr st

def stepR (r : Rcvd) (op obs : List String) : Rcvd × Option String :=
  match op with
  | ["decpn", v, x] =>
    match x.toNat? with
    | some x =>
      match mkPn v x with
      | some e =>
        let mine := decPnStr (r.decodePn e)
        (r, if mine == " ".intercalate obs then none else some mine)
      | none => (r, some "BAD decpn variant")
    | none => (r, some "BAD decpn args")
  | ["rcvd", a] =>
    match a.toNat? with
    | some pn => (r.onRcvd pn, if obs == ["ok"] then none else some "ok")
    | none => (r, some "BAD rcvd args")
  | ["slide"] =>
    match kvNat obs "off" with
    | some off =>
      if r.offset ≤ off ∧ off ≤ r.largest then (r.slide (off - r.offset), none)
      else (r, some s!"illegal rotation: offset {r.offset} largest {r.largest}")
    | none => (r, some "BAD slide obs")
  | _ => (r, some "BAD op")

def modelR : Model Rcvd := { init := {}, step := stepR }

def entries : List (String × IO UInt32) :=
  [("C07pn", runModel modelPn), ("C07j", runModel modelJ), ("C07r", runModel modelR)]

end GmQuic.Drv.C07
