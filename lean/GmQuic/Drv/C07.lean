import GmQuic.Drv.Core
import GmQuic.Model.Pn
/-! Line driver for C07: `C07pn` (packet-number codec, exact), `C07r` (receiver `decode_pn`). -/
namespace GmQuic.Drv.C07
open GmQuic.Drv GmQuic.Pn

def siteStr : PanicSite → String
  | .subOverflow => "PANIC:sub"
  | .mulOverflow => "PANIC:mul"
  | .addOverflow => "PANIC:add"
  | .tooLarge => "PANIC:toolarge"
  | .unreachable => "PANIC:unreachable"

def showPn : PacketNumber → String
  | .u8 x => s!"u8:{x}"
  | .u16 x => s!"u16:{x}"
  | .u24 x => s!"u24:{x}"
  | .u32 x => s!"u32:{x}"

def decStr (e : PacketNumber) (exp : Nat) : String :=
  match decode e exp with
  | .ok n => toString n
  | .panic s => siteStr s

/-- in-memory value from the harness: variant tag + payload (payload already within the Rust type). -/
def mkPn (v : String) (x : Nat) : Option PacketNumber :=
  match v with
  | "u8" => some (.u8 x)
  | "u16" => some (.u16 x)
  | "u24" => some (.u24 x)
  | "u32" => some (.u32 x)
  | _ => none

def stepPn (s : Unit) (op : List String) : Unit × String :=
  match op with
  | ["pn", a, b, c] =>
    match a.toNat?, b.toNat?, c.toNat? with
    | some pn, some la, some exp =>
      match encode pn la with
      | .panic st => (s, siteStr st)
      | .ok e =>
        let wire := put e
        let (takeS, decS) :=
          match take (size e) wire with
          | .ok e' [] => (showPn e', decStr e' exp)
          | .ok e' rest => (s!"{showPn e'}+rest{rest.length}", decStr e' exp)
          | .err => ("err", "-")
          | .panic => ("PANIC:unreachable", "-")
        (s, s!"enc={showPn e} size={size e} wire={toHex wire} take={takeS} dec={decS} mem={decStr e exp}")
    | _, _, _ => (s, "BAD pn args")
  | ["dec", v, x, c] =>
    match x.toNat?, c.toNat? with
    | some x, some exp =>
      match mkPn v x with
      | some e => (s, s!"dec={decStr e exp}")
      | none => (s, "BAD dec variant")
    | _, _ => (s, "BAD dec args")
  | ["take", l, h] =>
    match l.toNat?, parseHex h with
    | some len, some input =>
      match take len input with
      | .ok e rest => (s, s!"ok {showPn e} rest={toHex rest}")
      | .err => (s, "err")
      | .panic => (s, "PANIC:unreachable")
    | _, _ => (s, "BAD take args")
  | _ => (s, "BAD op")

def modelPn : Model Unit := { init := (), step := exact stepPn }

def entries : List (String × IO UInt32) := [("C07pn", runModel modelPn)]

end GmQuic.Drv.C07
