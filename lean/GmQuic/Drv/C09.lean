import GmQuic.Drv.Core
import GmQuic.Model.SendSpec
import GmQuic.Model.BufMap
/-!
Line driver for C09.  Every line is checked twice:
* **XLIT** (exact): the transliteration `Model/BufMap.lean` must produce the same run list, size, offset, window,
  `written`, `sent`, `is_all_rcvd`, pick answer and signal bits as the real `SendBuf` (or panic exactly when it does);
* **SPEC** (relational): the implementation's own `pick_up` answer must satisfy `pickOk` in the current spec
  state, the spec state is advanced *with the implementation's choice*, and afterwards the abstraction of the
  implementation's dumped run list (expand runs to per-byte colours) must equal the spec state
  (colours on `[0,size)`, `size`, `base`, `maxData`, `sent`, `allRcvd`).
-/
namespace GmQuic.Drv.C09
open GmQuic.Drv GmQuic.SendSpec GmQuic.BufMap

structure St where
  x : SendBuf := {}
  s : SendSpec := {}
  /-- the history left the spec's domain (out-of-domain range, forget after release): only XLIT is checked -/
  specDead : Bool := false

def colChar : Colour → String
  | .pending => "P" | .flighting => "F" | .lost => "L" | .recved => "R"

def parseCol : String → Option Colour
  | "P" => some .pending | "F" => some .flighting | "L" => some .lost | "R" => some .recved | _ => none

def runsStr (l : List Run) : String :=
  if l.isEmpty then "-" else ",".intercalate (l.map fun (o, c) => s!"{o}:{colChar c}")

def parseRuns (s : String) : Option (List Run) :=
  if s == "-" then some [] else
  (s.splitOn ",").mapM fun w =>
    match w.splitOn ":" with
    | [o, c] => do let o ← o.toNat?; let c ← parseCol c; pure (o, c)
    | _ => none

def stateStr (b : SendBuf) : String :=
  s!"written={b.written} sent={b.sent} allrcvd={if b.isAllRcvd then 1 else 0} off={b.offset} max={b.maxData} size={b.state.size} runs={runsStr b.state.runs}"

/-- flatten the closure chain of the spec's colour function -/
def flatten (s : SendSpec) : SendSpec :=
  let arr := ((List.range s.size).map s.colour).toArray
  { s with colour := fun x => arr.getD x .pending }

def byteAt (p : Nat) : UInt8 := UInt8.ofNat ((p * 31 + 7) % 251)

/-- compare the abstraction of the implementation's dump with the spec state -/
def absCheck (s : SendSpec) (obs : List String) : Option String :=
  match kvNat obs "written", kvNat obs "sent", kvNat obs "allrcvd", kvNat obs "off", kvNat obs "max",
        kvNat obs "size", (kv obs "runs").bind parseRuns with
  | some w, some sent, some ar, some off, some mx, some size, some runs =>
    if w ≠ s.written then some s!"SPEC written={s.written}"
    else if size ≠ s.size then some s!"SPEC size={s.size}"
    else if mx ≠ s.maxData then some s!"SPEC max={s.maxData}"
    else if off ≠ s.base then some s!"SPEC base={s.base}"
    else if sent ≠ s.sent then some s!"SPEC sent={s.sent}"
    else if (ar == 1) ≠ decide s.allRcvd then some s!"SPEC allRcvd={decide s.allRcvd}"
    else
      match (List.range size).find? (fun x => colourAt runs .recved x ≠ s.colour x) with
      | some x => some s!"SPEC colour[{x}]={colChar (s.colour x)} impl={colChar (colourAt runs .recved x)}"
      | none => none
  | _, _, _, _, _, _, _ => some "BAD state tokens"

def predK (cap cut : Nat) : Nat → Option Nat :=
  fun off => if off ≥ cut then none else some (if off % 2 == 1 && cap > 1 then cap - 1 else cap)

/-- which clause of `pickOk` fails (diagnostics only; the verdict is `decide (pickOk ..)`) -/
def pickWhy (s : SendSpec) (_pred : Nat → Option Nat) (flow : Nat) : SendObs → String
  | .range a b fresh =>
    if a ≠ s.firstCand flow then s!"start≠least-offerable({s.firstCand flow})"
    else if ¬ (a < b) then "empty-range"
    else if ¬ (b ≤ s.win) then s!"beyond-window({s.win})"
    else if (List.range (b - a)).any (fun k => s.colour (a + k) ≠ s.colour a) then "not-uniform"
    else if fresh ≠ (s.colour a == .pending) then "fresh-flag"
    else "length>allowance"
  | .none => s!"silent-but-offerable({s.firstCand flow})"
  | .unit => "?"

def specPick (st : St) (pred : Nat → Option Nat) (flow : Nat) (o : SendObs) : St × Option String :=
  if st.specDead then (st, none) else
  if decide (pickOk st.s pred flow o) then ({ st with s := flatten (st.s.picked o) }, none)
  else (st, some s!"SPEC notok:{pickWhy st.s pred flow o}")

def parseRange (w : String) : Option (Nat × Nat) :=
  match w.splitOn ".." with
  | [a, b] => do let a ← a.toNat?; let b ← b.toNat?; pure (a, b)
  | _ => none

/-- ack/lose domain of the spec (decidable form of `RangeDom`) -/
def rangeDomB (s : SendSpec) (a b : Nat) : Bool :=
  decide (a < b) && decide (b ≤ s.size) && (List.range (b - a)).all (fun k => s.colour (a + k) ≠ .pending)

/-- finish a line: exact comparison of the transliteration's text with the implementation's, then the abstraction check -/
def finish (st : St) (mine : String) (obs : List String) : St × Option String :=
  let theirs := " ".intercalate obs
  if mine ≠ theirs then (st, some s!"XLIT {mine}")
  else if st.specDead then (st, none)
  else match absCheck st.s obs with
    | some m => (st, some m)
    | none => (st, none)

def xlitRes (st : St) (r : Res SendBuf) (obs : List String) (specStep : SendSpec → Option SendSpec) : St × Option String :=
  match r with
  | .error e =>
    if obs == ["PANIC"] then ({ st with specDead := true }, none) else (st, some s!"XLIT {e}")
  | .ok x' =>
    if obs == ["PANIC"] then (st, some s!"XLIT {stateStr x'}") else
    let st' : St := match (if st.specDead then none else specStep st.s) with
      | some s' => { st with x := x', s := flatten s' }
      | none => { st with x := x', specDead := true }
    finish st' (stateStr x') obs

def step (st : St) (op obs : List String) : St × Option String :=
  match op with
  | ["init", cap] =>
    match cap.toNat? with
    | some c =>
      let st' : St := { x := SendBuf.withCapacity c, s := SendSpec.init c }
      finish st' (stateStr st'.x) obs
    | none => (st, some "BAD init")
  | ["write", n] =>
    match n.toNat? with
    | some n =>
      let bs := (List.range n).map fun k => byteAt (st.s.written + k)
      xlitRes st (st.x.write n) obs (fun s => if s.data.length + n < 2 ^ 62 then some (s.write bs) else none)
    | none => (st, some "BAD write")
  | ["extend", m] =>
    match m.toNat? with
    | some m => xlitRes st (st.x.extend m) obs (fun s => if s.maxData ≤ m then some (s.extend m) else none)
    | none => (st, some "BAD extend")
  | ["ack", a, b] =>
    match a.toNat?, b.toNat? with
    | some a, some b => xlitRes st (st.x.onDataAcked a b) obs (fun s => if rangeDomB s a b then some (s.ack a b) else none)
    | _, _ => (st, some "BAD ack")
  | ["lose", a, b] =>
    match a.toNat?, b.toNat? with
    | some a, some b => xlitRes st (st.x.mayLossData a b) obs (fun s => if rangeDomB s a b then some (s.lose a b) else none)
    | _, _ => (st, some "BAD lose")
  | ["resend"] => xlitRes st (.ok st.x.resendFlighting) obs (fun s => some s.resend)
  | ["forget"] => xlitRes st (.ok st.x.forget) obs (fun s => if s.base = 0 then some s.forget else none)
  | ["pick", "k", cap, cut, flow] =>
    match cap.toNat?, cut.toNat?, flow.toNat? with
    | some cap, some cut, some flow =>
      let pred := predK cap cut
      match st.x.pickUp pred flow with
      | .error e => if obs == ["PANIC"] then ({ st with specDead := true }, none) else (st, some s!"XLIT {e}")
      | .ok (x', r) =>
        -- the implementation's own answer, parsed for the relational check
        let implObs : Option SendObs :=
          match obs with
          | "none" :: _ => some .none
          | rg :: fr :: _ =>
            match (kv [rg] "range").bind parseRange, kvNat [fr] "fresh" with
            | some (a, b), some f => some (.range a b (f == 1))
            | _, _ => none
          | _ => none
        match implObs with
        | none => (st, some "BAD pick observation")
        | some io =>
          if !st.specDead && (kv obs "dataok") == some "0" then (st, some "SPEC notok:data") else
          let dok := if st.specDead then (kv obs "dataok").getD "1" else "1"
          let (st1, bad) := specPick st pred flow io
          match bad with
          | some m => (st1, some m)
          | none =>
            let mine := match r with
              | .none sg => s!"none sig={sg.bits} {stateStr x'}"
              | .range a b f => s!"range={a}..{b} fresh={if f then 1 else 0} dataok={dok} {stateStr x'}"
            finish { st1 with x := x' } mine obs
    | _, _, _ => (st, some "BAD pick")
  | ["load", cap, force] =>
    match cap.toNat?, force.toNat? with
    | some cap, some force =>
      match loadCrypto st.x cap (force == 1) with
      | .error e => if obs == ["PANIC"] then ({ st with specDead := true }, none) else (st, some s!"XLIT {e}")
      | .ok (x', frames, ok, sig) =>
        let fs := if frames.isEmpty then "-" else ",".intercalate (frames.map fun (a, b) => s!"{a}..{b}")
        let mine := s!"frames={fs} ok={if ok then 1 else 0} sig={sig} dataok=1 {stateStr x'}"
        -- relational replay of the implementation's frames on the spec
        let implFrames : Option (List (Nat × Nat)) :=
          match kv obs "frames" with
          | some "-" => some []
          | some w => (w.splitOn ",").mapM parseRange
          | none => none
        match implFrames with
        | none => (st, some "BAD load observation")
        | some ifs =>
          let st0 : St := if force == 1 && !st.specDead then { st with s := flatten st.s.resend } else st
          let rec replay : List (Nat × Nat) → St → Nat → St × Option String
            | [], st, cap =>
              let pred := fun off => match cryptoCapacity cap off with | some r => r | none => none
              specPick st pred (2 ^ 64 - 1) .none
            | (a, b) :: rest, st, cap =>
              let pred := fun off => match cryptoCapacity cap off with | some r => r | none => none
              let (st1, bad) := specPick st pred (2 ^ 64 - 1) (.range a b (st.s.colour a == .pending))
              match bad with
              | some m => (st1, some m)
              | none => replay rest st1 (cap - (1 + varintSize a + varintSize (b - a) + (b - a)))
          let (st1, bad) := replay ifs st0 cap
          match bad with
          | some m => (st1, some m)
          | none => finish { st1 with x := x' } mine obs
    | _, _ => (st, some "BAD load")
  | _ => (st, some "BAD op")

def model : Model St := { init := {}, step := step }

def entries : List (String × IO UInt32) :=
  [("C09", runModel model), ("C09x", runModel model), ("C09s", runModel model)]

end GmQuic.Drv.C09
