import GmQuic.Drv.Core
import GmQuic.Model.Stream
/-!
Line driver for C01.  State = one `Stream` model per stream direction, keyed `<sid><c|s>` (`c`: the client
endpoint is the sender).  `load` lines are checked relationally (the range is the implementation's choice and
must satisfy `Sender.pickOk`; payload, FIN flag and state change are the model's); every other line exactly.
-/
namespace GmQuic.Drv.C01
open GmQuic.Drv GmQuic.Stream

abbrev St := List (String × Stream)

def get (m : St) (k : String) : Option Stream := (m.find? (·.1 == k)).map (·.2)
def put (m : St) (k : String) (s : Stream) : St :=
  if m.any (·.1 == k) then m.map (fun p => if p.1 == k then (k, s) else p) else m ++ [(k, s)]

def sName (s : Sender) : String :=
  if s.err then "Err" else
  match s.st with
  | .ready => "Ready" | .sending => "Sending" | .dataSent => "DataSent" | .dataRcvd => "DataRcvd"
  | .resetSent => "ResetSent" | .resetRcvd => "ResetRcvd"

def rName (r : Recver) : String :=
  if r.err then "Err" else
  match r.st with
  | .recv => "Recv" | .sizeKnown => "SizeKnown" | .dataRcvd => "DataRcvd" | .dataRead => "DataRead"
  | .resetRcvd => "ResetRcvd" | .resetRead => "ResetRead"

def exc : Except String Nat → String
  | .ok n => s!"fresh={n}"
  | .error k => s!"err={k}"

def keySuffix (k : String) : String := String.ofList (k.toList.drop (k.length - 1))
def keySid (k : String) : String := String.ofList (k.toList.take (k.length - 1))

/-- exact-mode ops on one stream: returns the new stream and the model's observation -/
def stepOne (s : Stream) (op : String) (args : List String) : Option (Stream × String) :=
  match op, args with
  | "write", [hex] =>
    (parseHex hex).map fun bs =>
      let r := s.snd.write bs
      (s.step (.write bs), s!"{r.2} s={sName r.1}")
  | "ready", [] => some (s, s!"{s.snd.pollReady} s={sName s.snd}")
  | "shutdown", [] =>
    let r := s.snd.pollShutdown
    some (s.step .shutdown, s!"{r.2} s={sName r.1}")
  | "flush", [] => some (s, s!"{s.snd.pollFlush} s={sName s.snd}")
  | "deliver", [i] =>
    i.toNat?.bind fun i =>
      match s.emitted[i]? with
      | some f =>
        let r := s.rcv.rx f
        some (s.step (.deliver i), s!"{exc r.2} r={rName r.1}")
      | none => none
  | "ack", [i] =>
    i.toNat?.bind fun i =>
      if i < s.emitted.length then
        let s' := s.step (.ack i)
        some (s', s!"ok s={sName s'.snd}{if s'.snd.panicked then " PANIC" else ""}")
      else none
  | "lose", [i] =>
    i.toNat?.bind fun i =>
      if i < s.emitted.length then
        let s' := s.step (.lose i)
        some (s', s!"ok s={sName s'.snd}{if s'.snd.panicked then " PANIC" else ""}")
      else none
  | "read", [cap] =>
    cap.toNat?.map fun cap =>
      let (r, res, m) := s.rcv.read cap
      let ms := match m with | some v => s!" msd={v}" | none => ""
      let rs := match res with
        | .pending => "pending"
        | .data bs => s!"data={toHex bs}"
        | .err k => s!"err:{k}"
      (s.step (.read cap), s!"{rs}{ms} r={rName r}")
  | "cancel", [] =>
    let r := s.snd.cancel
    some (s.step .cancel, s!"{match r.2 with | some v => s!"rst={v}" | none => "none"} s={sName r.1}")
  | "stop", [] =>
    let r := s.rcv.stop
    some (s.step .stop, s!"{if r.2 then "stop" else "none"} r={rName r.1}")
  | "rxstop", [] =>
    if s.stops = 0 then none else
    let r := s.snd.beStopped
    some (s.step .deliverStop, s!"{match r.2 with | some v => s!"rst={v}" | none => "none"} s={sName r.1}")
  | "rxreset", [i] =>
    i.toNat?.bind fun i =>
      match s.resets[i]? with
      | some v =>
        let r := s.rcv.rxReset v
        some (s.step (.deliverReset i),
          s!"{match r.2 with | .ok n => s!"sync={n}" | .error k => s!"err={k}"} r={rName r.1}{if r.1.panicked then " PANIC" else ""}")
      | none => none
  | "rxresetforged", [v] =>
    -- a RESET_STREAM frame NOT emitted by this stream's sender (non-conformant peer): any final size
    v.toNat?.bind fun v =>
      let r := s.rcv.rxReset v
      some ({ s with rcv := r.1 },
        s!"{match r.2 with | .ok n => s!"sync={n}" | .error k => s!"err={k}"} r={rName r.1}{if r.1.panicked then " PANIC" else ""}")
  | "ackreset", [] =>
    if s.resets.isEmpty then none else
    let s' := s.step .ackReset
    some (s', s!"ok s={sName s'.snd}")
  | "rxmsd", [i] =>
    i.toNat?.bind fun i =>
      match s.msds[i]? with
      | some _ =>
        let s' := s.step (.deliverMsd i)
        some (s', s!"win={if s'.snd.live then toString s'.snd.maxData else "-"}")
      | none => none
  | _, _ => none

/-- parse `sid:Name,sid:Name` -/
def parseStates (w : String) : List (String × String) :=
  if w == "-" then [] else
  (w.splitOn ",").filterMap fun p =>
    match p.splitOn ":" with
    | [a, b] => some (a, b)
    | _ => none

/-- after a load attempt: `Ready → Sending` for the streams the implementation touched, then exact compare -/
def settleStates (m : St) (ep : String) (obs : List (String × String)) : St × Option String :=
  let m1 := obs.foldl (fun m (p : String × String) =>
    match get m (p.1 ++ ep) with
    | some s => if sName s.snd == "Ready" && p.2 == "Sending" then put m (p.1 ++ ep) (s.step .touch) else m
    | none => m) m
  let mine := m1.filter (fun p => keySuffix p.1 == ep)
  let bad := mine.filter fun p => !(obs.any fun o => o.1 ++ ep == p.1 && o.2 == sName p.2.snd)
  if bad.isEmpty && mine.length == obs.length then (m1, none)
  else (m1, some s!"sender states differ: model {",".intercalate (mine.map fun p => keySid p.1 ++ ":" ++ sName p.2.snd)}")

def step (m : St) (op obs : List String) : St × Option String :=
  let theirs := " ".intercalate obs
  match op with
  | ["open", k, sw, rw] =>
    match sw.toNat?, rw.toNat? with
    | some sw, some rw => (put m k (Stream.init sw rw), if theirs == "ok" then none else some "ok")
    | _, _ => (m, some "BAD open args")
  | ["load", ep, cap] =>
    match cap.toNat? with
    | none => (m, some "BAD load args")
    | some cap =>
      let states := parseStates ((kv obs "st").getD "-")
      match kv obs "frame" with
      | some fr =>
        match fr.splitOn ":" with
        | [sid, off, hex, fin] =>
          match get m (sid ++ ep), off.toNat?, parseHex hex with
          | some s, some off, some data =>
            let len := data.length
            if s.snd.pickOk off len then
              let (_, f) := s.snd.pick off len
              if f.data != data then (m, some s!"notok: payload differs, model {toHex f.data}")
              else if f.fin != (fin == "1") then (m, some s!"notok: fin flag, model {if f.fin then 1 else 0}")
              else settleStates (put m (sid ++ ep) (s.step (.pick off len))) ep states
            else (m, some s!"notok: range {off}+{len} is not pickable (model: st={sName s.snd} written={s.snd.written.length} sentHi={s.snd.sentHi} win={s.snd.maxData} shutdown={s.snd.shutdown})")
          | none, _, _ => (m, some "notok: frame on a stream the model does not know")
          | _, _, _ => (m, some "BAD load frame fields")
        | _ => (m, some "BAD load frame")
      | none =>
        if obs.head? != some "none" then (m, some "BAD load obs") else
        let mine := m.filter (fun p => keySuffix p.1 == ep)
        match (if cap ≥ 25 then mine.find? (fun p => p.2.snd.somePick.isSome) else none) with
        | some p => (m, some s!"notok: nothing loaded although stream {p.1} has a legal pick {p.2.snd.somePick.getD (0,0)}")
        | none => settleStates m ep states
  | ["connerr", ep] =>
    let other := if ep == "c" then "s" else "c"
    let m' := m.map fun p =>
      if keySuffix p.1 == ep then (p.1, p.2.step .connErrorSnd)
      else if keySuffix p.1 == other then (p.1, p.2.step .connErrorRcv) else p
    (m', if theirs == "ok" then none else some "ok")
  | o :: k :: args =>
    match get m k with
    | none => (m, some s!"BAD unknown stream {k}")
    | some s =>
      match stepOne s o args with
      | some (s', mine) => (put m k s', if mine == theirs then none else some mine)
      | none => (m, some s!"BAD op {o} {args}")
  | _ => (m, some "BAD line")

def model : Model St := { init := [], step := step }

def entries : List (String × IO UInt32) := [("C01", runModel model)]

end GmQuic.Drv.C01
