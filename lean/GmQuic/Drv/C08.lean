import GmQuic.Drv.Core
import GmQuic.Model.RecvBuf
/-! Line driver for C08 (`RecvBuf`), exact comparison of every observable + segment boundaries. -/
namespace GmQuic.Drv.C08
open GmQuic.Drv GmQuic.RecvBuf

def segsStr (segs : List Seg) : String :=
  if segs.isEmpty then "-" else
  ",".intercalate (segs.map fun s => s!"{s.off}+{s.data.length}")

def tail (s : State) : String :=
  s!"nread={s.nread} lg={s.largest} av={available s} rd={if isReadable s then 1 else 0} segs={segsStr s.segs}"

def step (s : State) (op : List String) : State × String :=
  match op with
  | ["recv", off, hex] =>
    match off.toNat?, parseHex hex with
    | some o, some d =>
      let (s', n) := recv s o d
      (s', s!"ret={n} {tail s'}")
    | _, _ => (s, "BAD recv args")
  | ["read", cap] =>
    match cap.toNat? with
    | some c =>
      let (s', out) := tryRead s c
      (s', s!"out={toHex out} {tail s'}")
    | none => (s, "BAD read args")
  | ["next"] =>
    match tryNext s with
    | (s', some o) => (s', s!"out={toHex o} {tail s'}")
    | (s', none) => (s', s!"out=none {tail s'}")
  | _ => (s, "BAD op")

def model : Model State := { init := init, step := exact step }

def entries : List (String × IO UInt32) := [("C08", runModel model)]

end GmQuic.Drv.C08
