import GmQuic.Drv.Core
import GmQuic.Model.RecvBuf
/-! Line driver for C08 (`RecvBuf`), exact comparison of every observable + segment boundaries. -/
namespace GmQuic.Drv.C08
open GmQuic.Drv GmQuic.RecvBuf

def segsStr (segs : List Seg) : String :=
  if segs.isEmpty then "-" else
  ",".intercalate (segs.map fun s => s!"{s.off}+{s.data.length}")

def tail (s : State) : String :=
  s!"nread={s.nread} lg={s.largest} av={available s} rd={if isReadable s then 1 else 0} segs={segsStr s.segs}"

/-- `recv` through the single-pass `ins` AND through the loop transliteration `recvLoop`; the observation
printed (and compared with the real code) is the one of `ins`; a disagreement of the transliteration is
appended so that the line differs from the implementation's and is reported. -/
def recvBoth (s : State) (o : Nat) (d : List UInt8) : State × String :=
  let (s', n) := recv s o d
  let base := s!"ret={n} {tail s'}"
  match recvViaLoop s o d with
  | .ok s2 n2 =>
    if n2 == n && s2.nread == s'.nread && s2.largest == s'.largest && s2.segs == s'.segs then (s', base)
    else (s', s!"{base} LOOP-DISAGREES ret={n2} {tail s2}")
  | .panic site => (s', s!"{base} LOOP-PANIC {site}")
  | .fuel => (s', s!"{base} LOOP-OUT-OF-FUEL")

/-- `recv` through the loop transliteration only. -/
def recvLoopOnly (s : State) (o : Nat) (d : List UInt8) : State × String :=
  match recvViaLoop s o d with
  | .ok s2 n2 => (s2, s!"ret={n2} {tail s2}")
  | .panic site => (s, s!"PANIC {site}")
  | .fuel => (s, "OUT-OF-FUEL")

def stepWith (rcv : State → Nat → List UInt8 → State × String) (s : State) (op : List String) : State × String :=
  match op with
  | ["recv", off, hex] =>
    match off.toNat?, parseHex hex with
    | some o, some d => rcv s o d
    | _, _ => (s, "BAD recv args")
  | ["read", cap] =>
    match cap.toNat? with
    | some c =>
      let (s', out) := tryRead s c
      (s', s!"out={toHex out} {tail s'}")
    | none => (s, "BAD read args")
  | ["next"] =>
    match tryNext s with
    | (s', some o) => (s', s!"out={toHex o} {tail s'}")
    | (s', none) => (s', s!"out=none {tail s'}")
  | _ => (s, "BAD op")

/-- `recv` through the single-pass `ins` only (the model the theorems are about). -/
def recvIns (s : State) (o : Nat) (d : List UInt8) : State × String :=
  let (s', n) := recv s o d
  (s', s!"ret={n} {tail s'}")

def model : Model State := { init := init, step := exact (stepWith recvIns) }
def modelBoth : Model State := { init := init, step := exact (stepWith recvBoth) }
def modelLoop : Model State := { init := init, step := exact (stepWith recvLoopOnly) }

/-- `C08`: single pass vs real code (large random run).  `C08x` (exhaustive small scope) and `C08loop`
(random) run BOTH the single pass and the loop transliteration against the real code.
`C08looponly`: the transliteration alone (manual use). -/
def entries : List (String × IO UInt32) :=
  [("C08", runModel model), ("C08x", runModel modelBoth), ("C08loop", runModel modelBoth),
   ("C08looponly", runModel modelLoop)]

end GmQuic.Drv.C08
