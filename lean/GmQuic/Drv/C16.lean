import GmQuic.Drv.Core
import GmQuic.Model.Wake
import GmQuic.Model.Wake2
import GmQuic.Model.WakeAA
import GmQuic.Model.Wake3
import GmQuic.Model.Wake4
import GmQuic.Model.Wake5
import GmQuic.Model.WakeCid
import GmQuic.Model.WakeFlow
/-! Line driver for C16: one entry per waiter/notifier protocol; exact comparison of the poll result and of
the (sorted) list of wakers woken by every operation.  The models of `Receiving` and `OpenStream` are the
ones of the FIXED code (repo_patches/fix-C16-*.diff); `C16rx0` / `C16open0` replay against the pinned code. -/
namespace GmQuic.Drv.C16
open GmQuic.Drv GmQuic.Wake

def fmtRes : Res → String
  | .none => "-"
  | .pending => "pending"
  | .ready v => s!"ready:{v}"
  | .done => "done"
  | .err => "err"
  | .panic => "PANIC"

def insertSorted (x : Nat) : List Nat → List Nat
  | [] => [x]
  | y :: ys => if x ≤ y then x :: y :: ys else y :: insertSorted x ys

def sortNat (l : List Nat) : List Nat := l.foldr insertSorted []

def fmtWakes (l : List Nat) : String :=
  if l.isEmpty then "-" else ",".intercalate ((sortNat l).map toString)

def mk (P : WaitProto) (parse : List String → Option P.Op) : Model P.σ where
  init := P.init
  step := exact fun s op =>
    match parse op with
    | none => (s, "BAD op")
    | some o =>
      let r := P.step s o
      (r.1, s!"{fmtRes r.2.res} wakes={fmtWakes r.2.wakes}")

/-- like `mk`, with extra observation tokens computed from the state before/after the op -/
def mkX (P : WaitProto) (parse : List String → Option P.Op) (extra : P.σ → P.Op → P.σ → String) : Model P.σ where
  init := P.init
  step := exact fun s op =>
    match parse op with
    | none => (s, "BAD op")
    | some o =>
      let r := P.step s o
      (r.1, s!"{fmtRes r.2.res}{extra s o r.1} wakes={fmtWakes r.2.wakes}")

def nat? (s : String) : Option Nat := s.toNat?

def parseDeque : List String → Option Deque.Op
  | ["poll", t, w] => do some (.poll (← nat? t) (← nat? w))
  | ["push_back", v] => do some (.pushBack (← nat? v))
  | ["push_front", v] => do some (.pushFront (← nat? v))
  | ["extend", a, b] => do some (.extend [← nat? a, ← nat? b])
  | ["close"] => some .close
  | ["dropfut", t] => do some (.dropfut (← nat? t))
  | _ => none

def parseRecv : List String → Option Receiving.Op
  | ["poll", t, w] => do some (.poll (← nat? t) (← nat? w))
  | ["recv", v] => do some (.recv (← nat? v))
  | ["reset"] => some .reset
  | ["dropfut", t] => do some (.dropfut (← nat? t))
  | _ => none

def parseSendWaker : List String → Option SendWaker.Op
  | ["poll", t, w, m] => do some (.poll (← nat? t) (← nat? w) (BitVec.ofNat 16 (← nat? m)))
  | ["wake_by", m] => do some (.wakeBy (BitVec.ofNat 16 (← nat? m)))
  | ["dropfut", t] => do some (.dropfut (← nat? t))
  | _ => none

def parseOpen : List String → Option LocalSid.Op
  | ["poll", t, w, d] => do some (.poll (← nat? t) (← nat? w) ((← nat? d) != 0))
  | ["max_streams", d, v] => do some (.maxStreams ((← nat? d) != 0) (← nat? v))
  | ["conn_error"] => some .connError
  | ["dropfut", t] => do some (.dropfut (← nat? t))
  | _ => none

def parseParams : List String → Option Params.Op
  | ["poll", t, w] => do some (.poll (← nat? t) (← nat? w))
  | ["recv_params"] => some .recvParams
  | ["scid"] => some .scid
  | ["conn_error"] => some .connError
  | ["dropfut", t] => do some (.dropfut (← nat? t))
  | _ => none

def parseKeys : List String → Option Keys.Op
  | ["poll", t, w] => do some (.poll (← nat? t) (← nat? w))
  | ["set"] => some .set
  | ["invalid"] => some .invalid
  | ["dropfut", t] => do some (.dropfut (← nat? t))
  | _ => none

def parseDgram : List String → Option Dgram.Op
  | ["poll", t, w] => do some (.poll (← nat? t) (← nat? w))
  | ["recv", v] => do some (.recv (← nat? v))
  | ["conn_error"] => some .connError
  | ["dropfut", t] => do some (.dropfut (← nat? t))
  | _ => none

def parseSnd : List String → Option Snd.Op
  | ["poll", t, w, "write", n] => do some (.poll (← nat? t) (← nat? w) (.write (← nat? n)))
  | ["poll", t, w, "flush"] => do some (.poll (← nat? t) (← nat? w) .flush)
  | ["poll", t, w, "shutdown"] => do some (.poll (← nat? t) (← nat? w) .shutdown)
  | ["window", v] => do some (.window (← nat? v))
  | ["load"] => some .load
  | ["ack"] => some .ack
  | ["stop"] => some .stop
  | ["cancel"] => some .cancel
  | ["conn_error"] => some .connError
  | ["dropfut", t] => do some (.dropfut (← nat? t))
  | _ => none

def sndExtra (s : Snd.State) (o : Snd.Op) (s' : Snd.State) : String :=
  match o with
  | .load =>
    if s'.unacked.length > s.unacked.length then
      match s'.unacked.getLast? with
      | some (a, b, fin) => s!" emitted={a}..{b}:{if fin then 1 else 0}"
      | none => " emitted=-"
    else " emitted=-"
  | _ => ""

def parseRcv : List String → Option Rcv.Op
  | ["poll", t, w, c] => do some (.poll (← nat? t) (← nat? w) (← nat? c))
  | ["data", o, l, f] => do some (.data (← nat? o) (← nat? l) ((← nat? f) != 0))
  | ["reset", f] => do some (.reset (← nat? f))
  | ["conn_error"] => some .connError
  | ["dropfut", t] => do some (.dropfut (← nat? t))
  | _ => none

def parseListen : List String → Option Listen.Op
  | ["poll", t, w, d] => do some (.poll (← nat? t) (← nat? w) ((← nat? d) != 0))
  | ["arrive", d, k] => do some (.arrive ((← nat? d) != 0) (← nat? k))
  | ["conn_error"] => some .connError
  | ["dropfut", t] => do some (.dropfut (← nat? t))
  | _ => none

def parseFan : List String → Option Fan.Op
  | ["poll", t, w, m] => do some (.poll (← nat? t) (← nat? w) (BitVec.ofNat 16 (← nat? m)))
  | ["wake_all", m] => do some (.wakeAll (BitVec.ofNat 16 (← nat? m)))
  | ["insert", i] => do some (.insert ((← nat? i) != 0))
  | ["remove", i] => do some (.remove ((← nat? i) != 0))
  | ["dropfut", t] => do some (.dropfut (← nat? t))
  | _ => none

def parseCrW : List String → Option CrW.Op
  | ["poll", t, w, "write", n] => do some (.poll (← nat? t) (← nat? w) (some (← nat? n)))
  | ["poll", t, w, "flush"] => do some (.poll (← nat? t) (← nat? w) none)
  | ["load"] => some .load
  | ["ack"] => some .ack
  | ["dropfut", t] => do some (.dropfut (← nat? t))
  | _ => none

def crwExtra (s : CrW.State) (o : CrW.Op) (s' : CrW.State) : String :=
  match o with
  | .load =>
    if s'.unacked.length > s.unacked.length then
      match s'.unacked.getLast? with
      | some (a, b) => s!" emitted={a}..{b}"
      | none => " emitted=-"
    else " emitted=-"
  | _ => ""

def parseCrR : List String → Option CrR.Op
  | ["poll", t, w, c] => do some (.poll (← nat? t) (← nat? w) (← nat? c))
  | ["recv", o, l] => do some (.recv (← nat? o) (← nat? l))
  | ["dropfut", t] => do some (.dropfut (← nat? t))
  | _ => none

/-! `AntiAmplifier`: the harness calls whole methods one after the other; each is the model's atomic steps in
program order (`AA.step`), so the sequential run validates the effect of every atomic step. The model tracks only
*whether* the waiter's waker is stored; the driver remembers which one. -/
structure AaSeq where
  s : AA.State
  slot : Option Nat

/-- `wake_by(CREDIT)` happens in the step `op`: which waker does it wake? -/
def aaWakes (a : AaSeq) : List Nat :=
  if !a.s.bit && a.s.registered then (match a.slot with | some w => [w] | none => []) else []

/-- run `balance()` from the start: restart; s0; s1; s2 (no interleaving: the re-check sees what s0 saw) -/
def aaBalance (a : AaSeq) : AaSeq × String :=
  let s0 := AA.step a.s .restart
  if s0.st = 1 then (⟨s0, a.slot⟩, "ready:max")
  else if s0.st = 2 then (⟨s0, a.slot⟩, "done")
  else
    let s1 := AA.step s0 .waiter        -- load state (NORMAL)
    if s1.credit > 0 then (⟨AA.step s1 .waiter, a.slot⟩, s!"ready:{s1.credit}")
    else
      let s2 := AA.step s1 .waiter      -- load credit (= 0)
      let s3 := AA.step s2 .waiter      -- load state again
      (⟨s3, a.slot⟩, "blocked")

def aaStep (a : AaSeq) (op : List String) : AaSeq × String :=
  match op with
  | ["balance"] =>
    let (a', r) := aaBalance a
    (a', s!"{r} wakes=-")
  | ["poll", _, w] =>
    match nat? w with
    | none => (a, "BAD op")
    | some w =>
      let (a', r) := aaBalance a
      if r == "blocked" then
        let hadBit := a'.s.bit
        let s' := AA.step a'.s .waiter   -- poll_wait_for(CREDIT)
        if hadBit then (⟨s', a'.slot⟩, "ready:0 wakes=-") else (⟨s', some w⟩, "pending wakes=-")
      else if r == "done" then (a', "done wakes=-")
      else (a', "ready:1 wakes=-")
  | ["on_rcvd", n] =>
    match nat? n with
    | none => (a, "BAD op")
    | some n =>
      if a.s.st != 0 then (a, "- wakes=-")
      else
        let s1 := AA.step (AA.step a.s .rcvdLoad) (.rcvdAdd (n * 3))
        let wk := aaWakes ⟨s1, a.slot⟩
        (⟨AA.step s1 .rcvdWake, a.slot⟩, s!"- wakes={fmtWakes wk}")
  | ["on_sent", k] =>
    match nat? k with
    | none => (a, "BAD op")
    | some k =>
      -- harness: `if let Ok(Some(n)) = balance() { if n != MAX { on_sent(min k n) } }`
      let (a', r) := aaBalance a
      if r.startsWith "ready:" && r != "ready:max" then
        let s0 := AA.step a'.s .restart
        (⟨AA.step s0 (.onSent (min k s0.credit) true), a'.slot⟩, "- wakes=-")
      else (a', "- wakes=-")
  | ["grant"] =>
    if a.s.st != 0 then (a, "- wakes=-")
    else
      let s1 := AA.step a.s (.cas false)
      let wk := aaWakes ⟨s1, a.slot⟩
      (⟨AA.step s1 .casWake, a.slot⟩, s!"- wakes={fmtWakes wk}")
  | ["abort"] =>
    if a.s.st != 0 then (a, "- wakes=-")
    else
      let s1 := AA.step a.s (.cas true)
      let wk := aaWakes ⟨s1, a.slot⟩
      (⟨AA.step s1 .casWake, a.slot⟩, s!"- wakes={fmtWakes wk}")
  | _ => (a, "BAD op")

/-! `CidCell`: sequential composition of the critical sections of Model/WakeCid.lean; the driver remembers which waker
the SendWaker holds and whether the first NEW_CONNECTION_ID (the one that reaches the waiting cell) has arrived. -/
structure CidSeq where
  s : Cid.State
  slot : Option Nat
  assigned : Bool

def cidWakes (c : CidSeq) : List Nat :=
  if c.s.cellWaker && !c.s.bit && c.s.registered then (match c.slot with | some w => [w] | none => []) else []

def cidBorrow (c : CidSeq) : CidSeq × String :=
  let s0 := Cid.step c.s .restart
  let s1 := Cid.step s0 .waiter
  if s0.retired then (⟨s1, c.slot, c.assigned⟩, "done")
  else if !s0.hasCid then (⟨s1, c.slot, c.assigned⟩, "blocked")
  else (⟨s1, c.slot, c.assigned⟩, "ready:1")

def cidStep (c : CidSeq) (op : List String) : CidSeq × String :=
  match op with
  | ["borrow"] => let (c', r) := cidBorrow c; (c', s!"{r} wakes=-")
  | ["poll", _, w] =>
    match nat? w with
    | none => (c, "BAD op")
    | some w =>
      let (c', r) := cidBorrow c
      if r == "blocked" then
        let hadBit := c'.s.bit
        let s' := Cid.step c'.s .waiter
        if hadBit then (⟨s', c'.slot, c'.assigned⟩, "ready:0 wakes=-") else (⟨s', some w, c'.assigned⟩, "pending wakes=-")
      else (c', s!"{r} wakes=-")
  | ["newcid"] =>
    if c.assigned || c.s.retired then (c, "- wakes=-")
    else
      let c1 : CidSeq := ⟨{ c.s with hasCid := true }, c.slot, true⟩
      (⟨Cid.step c.s .assign, c.slot, true⟩, s!"- wakes={fmtWakes (cidWakes c1)}")
  | ["retire"] =>
    if c.s.retired then (c, "- wakes=-")
    else (⟨Cid.step c.s .retire, c.slot, c.assigned⟩, s!"- wakes={fmtWakes (cidWakes c)}")
  | ["dropfut", _] => (c, "- wakes=-")
  | _ => (c, "BAD op")

def cidModel : Model CidSeq := { init := ⟨Cid.init, none, false⟩, step := exact cidStep }

/-! flow-control credit: sequential composition of the critical sections of Model/WakeFlow.lean -/
structure FlowSeq where
  s : Flow.State
  slot : Option Nat
  held : List Nat

/-- wakers woken by one atomic step (only `wakeAll` sets the bit) -/
def flowWk (slot : Option Nat) (a b : Flow.State) : List Nat :=
  if !a.bit && a.registered && b.bit then (match slot with | some w => [w] | none => []) else []

def flowDo (f : FlowSeq) (op : Flow.Op) : FlowSeq × List Nat :=
  let s' := Flow.step f.s op
  (⟨s', f.slot, f.held⟩, flowWk f.slot f.s s')

def flowStep (f : FlowSeq) (op : List String) : FlowSeq × String :=
  match op with
  | ["poll", _, w, q] =>
    match nat? w, nat? q with
    | some w, some q =>
      let (f0, _) := flowDo f .restart
      let (f1, w1) := flowDo f0 (.waiter (q - 1) 0)            -- credit(q)
      match f1.s.wpc with
      | .wd a =>
        let (f2, w2) := flowDo f1 (.waiter 0 a)                 -- post_sent(a); drop
        if a > 0 then (f2, s!"ready:{a} wakes={fmtWakes (w1 ++ w2)}")
        else
          let hadBit := f2.s.bit
          let (f3, w3) := flowDo f2 (.waiter 0 0)               -- poll_wait_for(FLOW_CONTROL)
          if hadBit then (f3, s!"ready:0 wakes={fmtWakes (w1 ++ w2 ++ w3)}")
          else (⟨f3.s, some w, f3.held⟩, s!"pending wakes={fmtWakes (w1 ++ w2 ++ w3)}")
      | _ =>                                                     -- credit() = Err
        let hadBit := f1.s.bit
        let (f3, w3) := flowDo f1 (.waiter 0 0)
        if hadBit then (f3, s!"ready:0 wakes={fmtWakes (w1 ++ w3)}")
        else (⟨f3.s, some w, f3.held⟩, s!"pending wakes={fmtWakes (w1 ++ w3)}")
    | _, _ => (f, "BAD op")
  | ["max_data", v] =>
    match nat? v with
    | some v => let (f', wk) := flowDo f (.maxData v); (f', s!"- wakes={fmtWakes wk}")
    | none => (f, "BAD op")
  | ["revise", r, v] =>
    match nat? r, nat? v with
    | some r, some v => let (f', wk) := flowDo f (.revise (r != 0) v); (f', s!"- wakes={fmtWakes wk}")
    | _, _ => (f, "BAD op")
  | ["other_take", k] =>
    match nat? k with
    | some k =>
      if f.s.closed then (f, "- wakes=-")
      else
        let a := min (Flow.avail f.s) k
        let (f', wk) := flowDo f (.otherTake k)
        (⟨f'.s, f'.slot, f.held ++ [a]⟩, s!"- wakes={fmtWakes wk}")
    | none => (f, "BAD op")
  | ["other_return"] =>
    match f.held with
    | [] => (f, "- wakes=-")
    | k :: rest =>
      let (f', wk) := flowDo f (.otherReturn k)
      (⟨f'.s, f'.slot, rest⟩, s!"- wakes={fmtWakes wk}")
  | ["error"] => let (f', _) := flowDo f .error; (f', "- wakes=-")
  | ["dropfut", _] => (f, "- wakes=-")
  | _ => (f, "BAD op")

def flowModel : Model FlowSeq := { init := ⟨Flow.init 5, none, []⟩, step := exact flowStep }

/-! `Wakers::combine_with` at call granularity (the harness's inner closure may notify right after its check) -/
structure WksSeq where
  list : List Nat
  resW : Bool
  ready : Bool

def wksNotify (s : WksSeq) : WksSeq × List Nat :=
  if s.resW then (⟨[], false, true⟩, s.list) else (⟨s.list, false, true⟩, [])

def wksStep (s : WksSeq) (op : List String) : WksSeq × String :=
  match op with
  | ["poll", _, w, m] =>
    match nat? w, nat? m with
    | some w, some m =>
      let l := if s.list.contains w then s.list else s.list ++ [w]      -- register (de-duplicated by will_wake)
      if s.ready then (⟨l, s.resW, false⟩, "ready:1 wakes=-")
      else if m != 0 then
        let (s', wk) := wksNotify ⟨l, true, false⟩
        (s', s!"pending wakes={fmtWakes wk}")
      else (⟨l, true, false⟩, "pending wakes=-")
    | _, _ => (s, "BAD op")
  | ["notify"] => let (s', wk) := wksNotify s; (s', s!"- wakes={fmtWakes wk}")
  | ["dropfut", _] => (s, "- wakes=-")
  | _ => (s, "BAD op")

def wksModel : Model WksSeq := { init := ⟨[], false, false⟩, step := exact wksStep }

def aaModel : Model AaSeq := { init := ⟨AA.init, none⟩, step := exact aaStep }

def entries : List (String × IO UInt32) :=
  [("C16dq", runModel (mk Deque.proto parseDeque)),
   ("C16rx", runModel (mk (Receiving.proto true) parseRecv)),
   ("C16rx0", runModel (mk (Receiving.proto false) parseRecv)),
   ("C16sw", runModel (mk SendWaker.proto parseSendWaker)),
   ("C16open", runModel (mk (LocalSid.proto true) parseOpen)),
   ("C16open0", runModel (mk (LocalSid.proto false) parseOpen)),
   ("C16par", runModel (mk Params.proto parseParams)),
   ("C16keys", runModel (mk (Keys.proto false) parseKeys)),
   ("C16keys1", runModel (mk (Keys.proto true) parseKeys)),
   ("C16dg", runModel (mk Dgram.proto parseDgram)),
   ("C16aa", runModel aaModel),
   ("C16snd", runModel (mkX (Snd.proto 6) parseSnd sndExtra)),
   ("C16rcv", runModel (mk (Rcv.proto true 100) parseRcv)),
   ("C16lsn", runModel (mk (Listen.proto 8) parseListen)),
   ("C16fan", runModel (mk Fan.proto parseFan)),
   ("C16crw", runModel (mkX (CrW.proto true) parseCrW crwExtra)),
   ("C16crw0", runModel (mkX (CrW.proto false) parseCrW crwExtra)),
   ("C16crr", runModel (mk CrR.proto parseCrR)),
   ("C16cid", runModel cidModel),
   ("C16flow", runModel flowModel),
   ("C16wks", runModel wksModel),
   ("C16rcv0", runModel (mk (Rcv.proto false 100) parseRcv))]

end GmQuic.Drv.C16
