import GmQuic.Drv.Core
import GmQuic.Model.Wake
/-! Line driver for C16: one entry per waiter/notifier protocol; exact comparison of the poll result and of
the (sorted) list of wakers woken by every operation.  The models of `Receiving` and `OpenStream` are the
ones of the FIXED code (repo_patches/fix-C16-*.diff); `C16rx0` / `C16open0` replay against the pinned code. -/
namespace GmQuic.Drv.C16
open GmQuic.Drv GmQuic.Wake

def fmtRes : Res → String
  | .none => "-"
  | .pending => "pending"
  | .ready v => s!"ready:{v}"
  | .done => "done"
  | .err => "err"
  | .panic => "PANIC"

def insertSorted (x : Nat) : List Nat → List Nat
  | [] => [x]
  | y :: ys => if x ≤ y then x :: y :: ys else y :: insertSorted x ys

def sortNat (l : List Nat) : List Nat := l.foldr insertSorted []

def fmtWakes (l : List Nat) : String :=
  if l.isEmpty then "-" else ",".intercalate ((sortNat l).map toString)

def mk (P : WaitProto) (parse : List String → Option P.Op) : Model P.σ where
  init := P.init
  step := exact fun s op =>
    match parse op with
    | none => (s, "BAD op")
    | some o =>
      let r := P.step s o
      (r.1, s!"{fmtRes r.2.res} wakes={fmtWakes r.2.wakes}")

def nat? (s : String) : Option Nat := s.toNat?

def parseDeque : List String → Option Deque.Op
  | ["poll", t, w] => do some (.poll (← nat? t) (← nat? w))
  | ["push_back", v] => do some (.pushBack (← nat? v))
  | ["push_front", v] => do some (.pushFront (← nat? v))
  | ["extend", a, b] => do some (.extend [← nat? a, ← nat? b])
  | ["close"] => some .close
  | ["dropfut", t] => do some (.dropfut (← nat? t))
  | _ => none

def parseRecv : List String → Option Receiving.Op
  | ["poll", t, w] => do some (.poll (← nat? t) (← nat? w))
  | ["recv", v] => do some (.recv (← nat? v))
  | ["reset"] => some .reset
  | ["dropfut", t] => do some (.dropfut (← nat? t))
  | _ => none

def parseSendWaker : List String → Option SendWaker.Op
  | ["poll", t, w, m] => do some (.poll (← nat? t) (← nat? w) (BitVec.ofNat 16 (← nat? m)))
  | ["wake_by", m] => do some (.wakeBy (BitVec.ofNat 16 (← nat? m)))
  | ["dropfut", t] => do some (.dropfut (← nat? t))
  | _ => none

def parseOpen : List String → Option LocalSid.Op
  | ["poll", t, w, d] => do some (.poll (← nat? t) (← nat? w) ((← nat? d) != 0))
  | ["max_streams", d, v] => do some (.maxStreams ((← nat? d) != 0) (← nat? v))
  | ["conn_error"] => some .connError
  | ["dropfut", t] => do some (.dropfut (← nat? t))
  | _ => none

def entries : List (String × IO UInt32) :=
  [("C16dq", runModel (mk Deque.proto parseDeque)),
   ("C16rx", runModel (mk (Receiving.proto true) parseRecv)),
   ("C16rx0", runModel (mk (Receiving.proto false) parseRecv)),
   ("C16sw", runModel (mk SendWaker.proto parseSendWaker)),
   ("C16open", runModel (mk (LocalSid.proto true) parseOpen)),
   ("C16open0", runModel (mk (LocalSid.proto false) parseOpen))]

end GmQuic.Drv.C16
