/-
Generic line-protocol runner shared by every per-property model driver.

Transcript grammar (written by the Rust harness, one line per operation):

    case <id>                 -- reset the model to `init`
    <op tokens> => <obs tokens>   -- the operation and what the REAL code answered
    # anything                -- comment, ignored

The driver folds the model's `step` over the op lines of a case.  `step` receives the op tokens
and the implementation's observation tokens and answers `none` (model agrees / the step is
inside the specification relation) or `some msg` (disagreement; `msg` shows the model's view).
After the first disagreement in a case the rest of that case is skipped (the states diverged).

Output: one `DIFF case=<id> line=<n> | <line> | model: <msg>` per disagreeing case, then
`SUMMARY cases=<n> lines=<n> diffs=<n> bad=<n>`.  `bad` counts lines the driver could not
parse (a harness/driver bug, reported as a correspondence break, never ignored).
No Mathlib / Std imports: this file is linked into the native `gmq_model` executable.
-/

namespace GmQuic.Drv

structure Model (σ : Type) where
  init : σ
  /-- op tokens → implementation observation tokens → (new state, disagreement?) -/
  step : σ → List String → List String → σ × Option String

/-- Build an exact-comparison step from a function that prints the model's own observation. -/
def exact {σ : Type} (f : σ → List String → σ × String) :
    σ → List String → List String → σ × Option String :=
  fun s op obs =>
    let (s', mine) := f s op
    let theirs := " ".intercalate obs
    if mine == theirs then (s', none) else (s', some mine)

def words (s : String) : List String :=
  (s.splitOn " ").filter (· ≠ "")

def splitArrow (ws : List String) : List String × List String :=
  let rec go (acc : List String) : List String → List String × List String
    | [] => (acc.reverse, [])
    | "=>" :: rest => (acc.reverse, rest)
    | w :: rest => go (w :: acc) rest
  go [] ws

structure Loop (σ : Type) where
  st : σ
  caseId : String := "?"
  skipping : Bool := false
  cases : Nat := 0
  lines : Nat := 0
  diffs : Nat := 0
  bad : Nat := 0
  lineNo : Nat := 0

partial def runLoop {σ : Type} (m : Model σ) (h : IO.FS.Stream) (l : Loop σ) : IO (Loop σ) := do
  let line ← h.getLine
  if line.isEmpty then return l
  let line := String.ofList (line.toList.filter (fun c => c != '\n' && c != '\r'))
  let l := { l with lineNo := l.lineNo + 1 }
  let ws := words line
  match ws with
  | [] => runLoop m h l
  | "#" :: _ => runLoop m h l
  | ["case", id] =>
      runLoop m h { l with st := m.init, caseId := id, skipping := false, cases := l.cases + 1 }
  | _ =>
    if l.skipping then runLoop m h l
    else
      let (op, obs) := splitArrow ws
      let (s', r) := m.step l.st op obs
      match r with
      | none => runLoop m h { l with st := s', lines := l.lines + 1 }
      | some msg =>
        let isBad := msg.startsWith "BAD"
        IO.println s!"DIFF case={l.caseId} line={l.lineNo} | {line} | model: {msg}"
        runLoop m h { l with st := s', lines := l.lines + 1, diffs := l.diffs + 1,
                              bad := l.bad + (if isBad then 1 else 0), skipping := true }

def runModel {σ : Type} (m : Model σ) : IO UInt32 := do
  let h ← IO.getStdin
  let l ← runLoop m h { st := m.init }
  IO.println s!"SUMMARY cases={l.cases} lines={l.lines} diffs={l.diffs} bad={l.bad}"
  return 0

/-! small parsing helpers -/

def hexVal (c : Char) : Option Nat :=
  if '0' ≤ c ∧ c ≤ '9' then some (c.toNat - '0'.toNat)
  else if 'a' ≤ c ∧ c ≤ 'f' then some (c.toNat - 'a'.toNat + 10)
  else if 'A' ≤ c ∧ c ≤ 'F' then some (c.toNat - 'A'.toNat + 10)
  else none

/-- `"-"` is the empty byte string; otherwise an even number of hex digits. -/
def parseHex (s : String) : Option (List UInt8) :=
  if s == "-" then some [] else
  let rec go : List Char → List UInt8 → Option (List UInt8)
    | [], acc => some acc.reverse
    | [_], _ => none
    | a :: b :: rest, acc =>
      match hexVal a, hexVal b with
      | some x, some y => go rest (UInt8.ofNat (x * 16 + y) :: acc)
      | _, _ => none
  go s.toList []

def hexDigit (n : Nat) : Char :=
  if n < 10 then Char.ofNat ('0'.toNat + n) else Char.ofNat ('a'.toNat + n - 10)

def toHex (bs : List UInt8) : String :=
  if bs.isEmpty then "-" else
  String.ofList (bs.foldr (fun b acc => hexDigit (b.toNat / 16) :: hexDigit (b.toNat % 16) :: acc) [])

/-- `key=value` lookup in a token list. -/
def kv (ws : List String) (k : String) : Option String :=
  ws.findSome? fun w =>
    match w.splitOn "=" with
    | [a, b] => if a == k then some b else none
    | _ => none

def kvNat (ws : List String) (k : String) : Option Nat := (kv ws k).bind String.toNat?

end GmQuic.Drv
