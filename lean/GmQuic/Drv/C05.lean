import GmQuic.Drv.Core
import GmQuic.Model.Frame
import GmQuic.Model.FrameWF
/-!
Line driver for C05 (`C05` enc ops, `C05dec` decode-only ops, `C05ft` frame-type table), exact comparison.
The canonical rendering of a frame value is the one of `harness/src/c05.rs` (`show`).
-/
namespace GmQuic.Drv.C05
open GmQuic.Drv GmQuic.Wire GmQuic.Codec GmQuic.Gen

def b01 (b : Bool) : String := if b then "1" else "0"

def ftName : FrameType → String
  | .padding => "Padding" | .ping => "Ping"
  | .ack e => if e then "Ack(Exist)" else "Ack(None)"
  | .resetStream => "ResetStream" | .stopSending => "StopSending" | .crypto => "Crypto" | .newToken => "NewToken"
  | .stream o l f => s!"Stream({if o then "NonZero" else "Zero"},{if l then "Explicit" else "Omit"},{if f then "Yes" else "No"})"
  | .maxData => "MaxData" | .maxStreamData => "MaxStreamData"
  | .maxStreams u => if u then "MaxStreams(Uni)" else "MaxStreams(Bi)"
  | .dataBlocked => "DataBlocked" | .streamDataBlocked => "StreamDataBlocked"
  | .streamsBlocked u => if u then "StreamsBlocked(Uni)" else "StreamsBlocked(Bi)"
  | .newConnectionId => "NewConnectionId" | .retireConnectionId => "RetireConnectionId"
  | .pathChallenge => "PathChallenge" | .pathResponse => "PathResponse"
  | .connectionClose a => if a then "ConnectionClose(App)" else "ConnectionClose(Quic)"
  | .handshakeDone => "HandshakeDone"
  | .datagram w => if w then "Datagram(1)" else "Datagram(0)"
  | .addAddress v6 => if v6 then "AddAddress(V6)" else "AddAddress(V4)"
  | .removeAddress => "RemoveAddress"
  | .punchMeNow v6 => if v6 then "PunchMeNow(V6)" else "PunchMeNow(V4)"
  | .punchHello => "PunchHello" | .punchDone => "PunchDone"

def allTypes : List FrameType :=
  [.padding, .ping, .ack false, .ack true, .resetStream, .stopSending, .crypto, .newToken,
   .stream false false false, .stream false false true, .stream false true false, .stream false true true,
   .stream true false false, .stream true false true, .stream true true false, .stream true true true,
   .maxData, .maxStreamData, .maxStreams false, .maxStreams true, .dataBlocked, .streamDataBlocked,
   .streamsBlocked false, .streamsBlocked true, .newConnectionId, .retireConnectionId, .pathChallenge,
   .pathResponse, .connectionClose false, .connectionClose true, .handshakeDone, .datagram false, .datagram true,
   .addAddress false, .addAddress true, .removeAddress, .punchMeNow false, .punchMeNow true, .punchHello, .punchDone]

def ftOfName (s : String) : Option FrameType := allTypes.find? fun t => ftName t == s

def kindName : EKind → String
  | .named i => errKindNames.getD i "?"
  | .crypto x => s!"Crypto:{x}"

def kindOfName (s : String) : Option EKind :=
  match s.splitOn ":" with
  | ["Crypto", x] => x.toNat?.map .crypto
  | [n] => (errKindNames.idxOf? n).map .named
  | _ => none

def containsFFFD : Bytes → Bool
  | a :: b :: c :: rest => (a == 0xEF && b == 0xBF && c == 0xBD) || containsFFFD (b :: c :: rest)
  | _ => false

def showReason (r : Bytes) : String := if containsFFFD r then "LOSSY" else toHex r

def showAddr (a : SockAddr) : String := s!"{if a.v6 then 6 else 4}:{a.ip}:{a.port}"

def parseAddr (s : String) : Option SockAddr :=
  match s.splitOn ":" with
  | [f, ip, port] =>
    match ip.toNat?, port.toNat? with
    | some ip, some port => if f == "6" then some ⟨true, ip, port⟩ else if f == "4" then some ⟨false, ip, port⟩ else none
    | _, _ => none
  | _ => none

def showFty : ErrFty → String
  | .v1 t => s!"V1:{ftName t}"
  | .ext v => s!"EXT:{v}"

def parseFty (s : String) : Option ErrFty :=
  match s.splitOn ":" with
  | ["V1", n] => (ftOfName n).map .v1
  | ["EXT", v] => v.toNat?.map .ext
  | _ => none

def showRanges (rs : List (Nat × Nat)) : String :=
  if rs.isEmpty then "-" else ",".intercalate (rs.map fun (g, a) => s!"{g}:{a}")

def parseRanges (s : String) : Option (List (Nat × Nat)) :=
  if s == "-" then some [] else
  (s.splitOn ",").mapM fun p =>
    match p.splitOn ":" with
    | [g, a] => match g.toNat?, a.toNat? with | some g, some a => some (g, a) | _, _ => none
    | _ => none

def showFrame : Frame → String
  | .padding => "PADDING" | .ping => "PING" | .handshakeDone => "HANDSHAKE_DONE"
  | .ack l d f rs ecn =>
    let e := match ecn with | none => "-" | some (a, b, c) => s!"{a}:{b}:{c}"
    s!"ACK {l} {d} {f} {showRanges rs} {e}"
  | .closeApp code r => s!"CLOSE_APP {code} {showReason r}"
  | .closeQuic k t r => s!"CLOSE_QUIC {kindName k} {showFty t} {showReason r}"
  | .newToken t => s!"NEW_TOKEN {toHex t}"
  | .maxData n => s!"MAX_DATA {n}"
  | .dataBlocked n => s!"DATA_BLOCKED {n}"
  | .newConnectionId s r c t => s!"NEW_CID {s} {r} {toHex c} {toHex t}"
  | .retireConnectionId n => s!"RETIRE_CID {n}"
  | .pathChallenge d => s!"PATH_CHALLENGE {toHex d}"
  | .pathResponse d => s!"PATH_RESPONSE {toHex d}"
  | .streamCtl (.resetStream s c f) => s!"RESET_STREAM {s} {c} {f}"
  | .streamCtl (.stopSending s c) => s!"STOP_SENDING {s} {c}"
  | .streamCtl (.maxStreamData s n) => s!"MAX_STREAM_DATA {s} {n}"
  | .streamCtl (.maxStreams u n) => s!"MAX_STREAMS {b01 u} {n}"
  | .streamCtl (.streamDataBlocked s n) => s!"STREAM_DATA_BLOCKED {s} {n}"
  | .streamCtl (.streamsBlocked u n) => s!"STREAMS_BLOCKED {b01 u} {n}"
  | .stream s o l lb fin d => s!"STREAM {s} {o} {l} {b01 lb} {b01 fin} {toHex d}"
  | .crypto o l d => s!"CRYPTO {o} {l} {toHex d}"
  | .datagram w l d => s!"DATAGRAM {b01 w} {l} {toHex d}"
  | .addAddress s a t n => s!"ADD_ADDRESS {s} {showAddr a} {t} {n}"
  | .removeAddress n => s!"REMOVE_ADDRESS {n}"
  | .punchMeNow l r a t n => s!"PUNCH_ME_NOW {l} {r} {showAddr a} {t} {n}"
  | .punchHello a b c => s!"PUNCH_HELLO {a} {b} {c}"
  | .punchDone a b c => s!"PUNCH_DONE {a} {b} {c}"

def pb (s : String) : Option Bool := if s == "1" then some true else if s == "0" then some false else none

def parseFrame (ws : List String) : Option Frame :=
  match ws with
  | ["PADDING"] => some .padding
  | ["PING"] => some .ping
  | ["HANDSHAKE_DONE"] => some .handshakeDone
  | ["ACK", l, d, f, rs, e] => do
    let l ← l.toNat?; let d ← d.toNat?; let f ← f.toNat?; let rs ← parseRanges rs
    let ecn ← if e == "-" then some none else
      match e.splitOn ":" with
      | [a, b, c] => do some (some (← a.toNat?, ← b.toNat?, ← c.toNat?))
      | _ => none
    some (.ack l d f rs ecn)
  | ["CLOSE_APP", c, r] => do some (.closeApp (← c.toNat?) (← parseHex r))
  | ["CLOSE_QUIC", k, t, r] => do some (.closeQuic (← kindOfName k) (← parseFty t) (← parseHex r))
  | ["NEW_TOKEN", t] => do some (.newToken (← parseHex t))
  | ["MAX_DATA", n] => do some (.maxData (← n.toNat?))
  | ["DATA_BLOCKED", n] => do some (.dataBlocked (← n.toNat?))
  | ["NEW_CID", s, r, c, t] => do some (.newConnectionId (← s.toNat?) (← r.toNat?) (← parseHex c) (← parseHex t))
  | ["RETIRE_CID", n] => do some (.retireConnectionId (← n.toNat?))
  | ["PATH_CHALLENGE", d] => do some (.pathChallenge (← parseHex d))
  | ["PATH_RESPONSE", d] => do some (.pathResponse (← parseHex d))
  | ["RESET_STREAM", s, c, f] => do some (.streamCtl (.resetStream (← s.toNat?) (← c.toNat?) (← f.toNat?)))
  | ["STOP_SENDING", s, c] => do some (.streamCtl (.stopSending (← s.toNat?) (← c.toNat?)))
  | ["MAX_STREAM_DATA", s, n] => do some (.streamCtl (.maxStreamData (← s.toNat?) (← n.toNat?)))
  | ["MAX_STREAMS", u, n] => do some (.streamCtl (.maxStreams (← pb u) (← n.toNat?)))
  | ["STREAM_DATA_BLOCKED", s, n] => do some (.streamCtl (.streamDataBlocked (← s.toNat?) (← n.toNat?)))
  | ["STREAMS_BLOCKED", u, n] => do some (.streamCtl (.streamsBlocked (← pb u) (← n.toNat?)))
  | ["STREAM", s, o, l, lb, fin, d] => do
    some (.stream (← s.toNat?) (← o.toNat?) (← l.toNat?) (← pb lb) (← pb fin) (← parseHex d))
  | ["CRYPTO", o, l, d] => do some (.crypto (← o.toNat?) (← l.toNat?) (← parseHex d))
  | ["DATAGRAM", w, l, d] => do some (.datagram (← pb w) (← l.toNat?) (← parseHex d))
  | ["ADD_ADDRESS", s, a, t, n] => do some (.addAddress (← s.toNat?) (← parseAddr a) (← t.toNat?) (← n.toNat?))
  | ["REMOVE_ADDRESS", n] => do some (.removeAddress (← n.toNat?))
  | ["PUNCH_ME_NOW", l, r, a, t, n] => do
    some (.punchMeNow (← l.toNat?) (← r.toNat?) (← parseAddr a) (← t.toNat?) (← n.toNat?))
  | ["PUNCH_HELLO", a, b, c] => do some (.punchHello (← a.toNat?) (← b.toNat?) (← c.toNat?))
  | ["PUNCH_DONE", a, b, c] => do some (.punchDone (← a.toNat?) (← b.toNat?) (← c.toNat?))
  | _ => none

def parsePt : String → Option PktType
  | "I" => some .initial | "H" => some .handshake | "0" => some .zeroRtt | "1" => some .oneRtt
  | "R" => some .retry | "V" => some .versionNegotiation | _ => none

def codeName : NomCode → String
  | .eof => "Eof" | .tooLarge => "TooLarge" | .verify => "Verify" | .alt => "Alt"

def showDec (inputLen : Nat) : Res Frame → String
  | .ok f rest => s!"ok used={inputLen - rest.length} {showFrame f}"
  | .err .incompleteType => "err IncompleteType"
  | .err (.invalidType v) => s!"err InvalidType:{v}"
  | .err .wrongType => "err WrongType"
  | .err .incompleteFrame => "err IncompleteFrame"
  | .err (.parseError c) => s!"err ParseError:{codeName c}"
  | .err .incomplete => "err ?incomplete"
  | .err (.nom c) => s!"err ?nom:{codeName c}"
  | .panic _ => "PANIC"

def allPts : List PktType := [.initial, .handshake, .zeroRtt, .oneRtt, .retry, .versionNegotiation]

def step (_ : Unit) (op : List String) : Unit × String :=
  match op with
  | "enc" :: pt :: tail :: fr =>
    match parsePt pt, parseHex tail, parseFrame fr with
    | some pt, some tail, some f =>
      match enc f with
      | .ok _ bytes =>
        let input := bytes ++ tail
        -- `wf=` ties the theorems' hypothesis to the generator's notion of a well-formed frame (the
        -- frames on which the harness evaluates its monitors)
        ((), s!"wf={b01 (wf f)} bytes={toHex bytes} size={Codec.sizeOf f} max={Codec.maxSizeOf f} {showDec input.length (decFrame pt input)}")
      | _ => ((), "PANIC")
    | _, _, _ => ((), "BAD enc args")
  | ["dec", pt, h] =>
    match parsePt pt, parseHex h with
    | some pt, some bs => ((), showDec bs.length (decFrame pt bs))
    | _, _ => ((), "BAD dec args")
  | ["ftype", n] =>
    match n.toNat? with
    | some n =>
      match frameTypeOfNat n with
      | none => ((), "none")
      | some t =>
        let bits := String.ofList (allPts.map fun p => if belongsTo t p then '1' else '0')
        ((), s!"{ftName t} num={natOfFrameType t} in={bits} specs={specs t}")
    | none => ((), "BAD ftype arg")
  | _ => ((), "BAD op")

def model : Model Unit := { init := (), step := exact step }

def entries : List (String × IO UInt32) :=
  [("C05", runModel model), ("C05dec", runModel model), ("C05ft", runModel model)]

end GmQuic.Drv.C05
