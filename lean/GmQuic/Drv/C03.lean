import GmQuic.Drv.Core
import GmQuic.Model.PacketDec
import GmQuic.Model.FrameRd
import GmQuic.Model.ParamsDec
import GmQuic.Drv.C05
/-!
Line driver for C03 (`C03pkt`, `C03mux`, `C03x`): outcome-class comparison, exact.
Rendering = the one of `harness/src/c03.rs`.
-/
namespace GmQuic.Drv.C03
open GmQuic.Drv GmQuic.Wire GmQuic.Codec GmQuic.PacketDec GmQuic.FrameRd GmQuic.ParamsDec GmQuic.Gen.C03

def tyName : PTy → String
  | .long .vn => "vn" | .long .initial => "initial" | .long .zeroRtt => "0rtt"
  | .long .handshake => "handshake" | .long .retry => "retry"
  | .short s => if s then "short1" else "short0"

def errName : PErr → String
  | .unsupportedVersion v => s!"UnsupportedVersion:{v}"
  | .invalidFixedBit => "InvalidFixedBit"
  | .incompleteType => "IncompleteType"
  | .incompleteHeader t => s!"IncompleteHeader:{tyName t}"
  | .underSampling t n => s!"UnderSampling:{tyName t}:{n}"

def showHdr : Hdr → String
  | .vn d s vs => s!"vn,{toHex d},{toHex s},{if vs.isEmpty then "-" else "+".intercalate (vs.map toString)}"
  | .retry d s t i => s!"retry,{toHex d},{toHex s},{toHex t},{toHex i}"
  | .initial d s t => s!"initial,{toHex d},{toHex s},{toHex t}"
  | .zeroRtt d s => s!"0rtt,{toHex d},{toHex s}"
  | .handshake d s => s!"handshake,{toHex d},{toHex s}"
  | .oneRtt sp d => s!"short{if sp then 1 else 0},{toHex d}"

def showPkt : Packet → String
  | .ctl h => showHdr h
  | .data h b off => s!"{showHdr h},blen={b.length},off={off}"

def pktObs (d : Nat) (bs : Bytes) : String :=
  match bePacket bs d with
  | .ok p rest => s!"ok {showPkt p} rest={rest.length}"
  | .err e => s!"err {errName e}"
  | .panic _ => "PANIC"

def showItem : Item → String
  | .pkt p => s!"P:{showPkt p}"
  | .err e => s!"E:{errName e}"
  | .panic _ => "PANIC"
  | .outOfFuel => "HANG"

def allObs (d : Nat) (bs : Bytes) : String :=
  let items := PacketReader.all bs d
  if items.any (fun i => match i with | .panic _ => true | _ => false) then "PANIC"
  else if items.isEmpty then "-" else ";".intercalate (items.map showItem)

def showAddr (a : SockAddr) : String := s!"{if a.v6 then 6 else 4}:{a.ip}:{a.port}"

def showEp : Endpoint → String
  | .direct a => s!"D({showAddr a})"
  | .agent a o => s!"A({showAddr a},{showAddr o})"

def muxObs (bs : Bytes) : String :=
  match demux bs with
  | .quic _ => "quic"
  | .stun v body =>
    let m := match stunMsg body with | .ok .. => "ok" | .err _ => "err" | .panic _ => "PANIC"
    s!"stun v={v} body={body.length} msg={m}"
  | .forward src dst hdr inner => s!"fwd src={showEp src} dst={showEp dst} hdr={hdr} strip={bs.length - inner.length}"
  | .panic _ => "PANIC"

/-- the `read_plain_packet` loop, rendered item by item -/
def framesObs (pt : PktType) : Nat → Bytes → List String → List String
  | 0, _, acc => ("HANG" :: acc).reverse
  | fuel + 1, bs, acc =>
    match FrameReader.next pt bs with
    | .eof => ("end" :: acc).reverse
    | .frame f rest => framesObs pt fuel rest (s!"ok used={bs.length - rest.length} {GmQuic.Drv.C05.showFrame f}" :: acc)
    | .err k =>
      let kind := match ferrOf k with | some e => frameErrKind e | none => "?"
      (s!"{GmQuic.Drv.C05.showDec 0 (.err k)} kind={kind}" :: acc).reverse
    | .panic _ => ["PANIC"]

def tpObs (r : TRes GmQuic.Params.PMap) (c18 : Option Bool) : String :=
  let mine := match r with
    | .ok _ => "ok"
    | .err w => s!"err {errKind w}"
    | .panic _ => "PANIC"
  -- cross-check with C18's abstract parse model (same code, modelled independently)
  match r, c18 with
  | .ok _, some false => "MODELS-DISAGREE c18=err c03=ok"
  | .err _, some true => "MODELS-DISAGREE c18=ok c03=err"
  | _, _ => mine

def stepC03 (_ : Unit) (op : List String) : Unit × String :=
  match op with
  | ["pkt", d, h] =>
    match d.toNat?, parseHex h with
    | some d, some bs => ((), pktObs d bs)
    | _, _ => ((), "BAD pkt")
  | ["all", d, h] =>
    match d.toNat?, parseHex h with
    | some d, some bs => ((), allObs d bs)
    | _, _ => ((), "BAD all")
  | ["frames", pt, h] =>
    match GmQuic.Drv.C05.parsePt pt, parseHex h with
    | some pt, some bs =>
      let items := framesObs pt (bs.length + 1) bs []
      -- the obs of the whole loop must also be what `readPlain` says (the theorems are about `readPlain`)
      let agree := match readPlain pt bs, items.getLast? with
        | .ok fs, some "end" => fs.length + 1 == items.length
        | .err fs _, some l => l.startsWith "err" && fs.length + 1 == items.length
        | _, _ => false
      ((), if agree || (bs.isEmpty && readPlainRejectsEmpty) then " | ".intercalate items else "MODEL-INCONSISTENT")
    | _, _ => ((), "BAD frames")
  | ["emptypayload"] =>
    ((), match readPlain .oneRtt [] with | .ok [] => "accepted" | _ => "rejected")
  | ["tpc", h] =>
    match parseHex h with
    | some bs => ((), tpObs (parseFromBytes .client bs) (some (GmQuic.Params.parse .client bs).isSome))
    | none => ((), "BAD tp")
  | ["tps", h] =>
    match parseHex h with
    | some bs => ((), tpObs (parseFromBytes .server bs) (some (GmQuic.Params.parse .server bs).isSome))
    | none => ((), "BAD tp")
  | ["tpr", h] =>
    match parseHex h with
    | some bs => ((), tpObs (rememberedFromBytes bs) none)
    | none => ((), "BAD tp")
  | ["mux", h] =>
    match parseHex h with
    | some bs => ((), muxObs bs)
    | none => ((), "BAD mux")
  | _ => ((), "BAD op")

def model : Model Unit := { init := (), step := exact stepC03 }

/-- monitor-only run (`C03misc`: decoders that are not modelled): the driver only checks the shape of the
observation (`ok used=n` with `n ≤ len` | `err`); PANIC is a disagreement. -/
def stepMisc (_ : Unit) (op obs : List String) : Unit × Option String :=
  match op, obs with
  | ["misc", _, _], ["err"] => ((), none)
  | ["misc", _, h], ["ok", u] =>
    match parseHex h, (u.splitOn "=").getLast?.bind String.toNat? with
    | some bs, some n => ((), if n ≤ bs.length then none else some "consumed more than the input")
    | _, _ => ((), some "BAD misc obs")
  | ["misc", _, _], _ => ((), some "decoder must answer ok | err")
  | _, _ => ((), some "BAD op")

def miscModel : Model Unit := { init := (), step := stepMisc }

def entries : List (String × IO UInt32) :=
  [("C03pkt", runModel model), ("C03mux", runModel model), ("C03frm", runModel model), ("C03par", runModel model),
   ("C03x", runModel model), ("C03misc", runModel miscModel)]

end GmQuic.Drv.C03
