import GmQuic.Drv.Core
import GmQuic.Model.PacketDec
/-!
Line driver for C03 (`C03pkt`, `C03mux`, `C03x`): outcome-class comparison, exact.
Rendering = the one of `harness/src/c03.rs`.
-/
namespace GmQuic.Drv.C03
open GmQuic.Drv GmQuic.Wire GmQuic.Codec GmQuic.PacketDec

def tyName : PTy → String
  | .long .vn => "vn" | .long .initial => "initial" | .long .zeroRtt => "0rtt"
  | .long .handshake => "handshake" | .long .retry => "retry"
  | .short s => if s then "short1" else "short0"

def errName : PErr → String
  | .unsupportedVersion v => s!"UnsupportedVersion:{v}"
  | .invalidFixedBit => "InvalidFixedBit"
  | .incompleteType => "IncompleteType"
  | .incompleteHeader t => s!"IncompleteHeader:{tyName t}"
  | .underSampling t n => s!"UnderSampling:{tyName t}:{n}"

def showHdr : Hdr → String
  | .vn d s vs => s!"vn,{toHex d},{toHex s},{if vs.isEmpty then "-" else "+".intercalate (vs.map toString)}"
  | .retry d s t i => s!"retry,{toHex d},{toHex s},{toHex t},{toHex i}"
  | .initial d s t => s!"initial,{toHex d},{toHex s},{toHex t}"
  | .zeroRtt d s => s!"0rtt,{toHex d},{toHex s}"
  | .handshake d s => s!"handshake,{toHex d},{toHex s}"
  | .oneRtt sp d => s!"short{if sp then 1 else 0},{toHex d}"

def showPkt : Packet → String
  | .ctl h => showHdr h
  | .data h b off => s!"{showHdr h},blen={b.length},off={off}"

def pktObs (d : Nat) (bs : Bytes) : String :=
  match bePacket bs d with
  | .ok p rest => s!"ok {showPkt p} rest={rest.length}"
  | .err e => s!"err {errName e}"
  | .panic _ => "PANIC"

def showItem : Item → String
  | .pkt p => s!"P:{showPkt p}"
  | .err e => s!"E:{errName e}"
  | .panic _ => "PANIC"
  | .outOfFuel => "HANG"

def allObs (d : Nat) (bs : Bytes) : String :=
  let items := PacketReader.all bs d
  if items.any (fun i => match i with | .panic _ => true | _ => false) then "PANIC"
  else if items.isEmpty then "-" else ";".intercalate (items.map showItem)

def showAddr (a : SockAddr) : String := s!"{if a.v6 then 6 else 4}:{a.ip}:{a.port}"

def showEp : Endpoint → String
  | .direct a => s!"D({showAddr a})"
  | .agent a o => s!"A({showAddr a},{showAddr o})"

def muxObs (bs : Bytes) : String :=
  match demux bs with
  | .quic _ => "quic"
  | .stun v body => s!"stun v={v} body={body.length}"
  | .forward src dst hdr inner => s!"fwd src={showEp src} dst={showEp dst} hdr={hdr} strip={bs.length - inner.length}"
  | .panic _ => "PANIC"

def stepC03 (_ : Unit) (op : List String) : Unit × String :=
  match op with
  | ["pkt", d, h] =>
    match d.toNat?, parseHex h with
    | some d, some bs => ((), pktObs d bs)
    | _, _ => ((), "BAD pkt")
  | ["all", d, h] =>
    match d.toNat?, parseHex h with
    | some d, some bs => ((), allObs d bs)
    | _, _ => ((), "BAD all")
  | ["mux", h] =>
    match parseHex h with
    | some bs => ((), muxObs bs)
    | none => ((), "BAD mux")
  | _ => ((), "BAD op")

def model : Model Unit := { init := (), step := exact stepC03 }

def entries : List (String × IO UInt32) :=
  [("C03pkt", runModel model), ("C03mux", runModel model), ("C03x", runModel model)]

end GmQuic.Drv.C03
