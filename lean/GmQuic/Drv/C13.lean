import GmQuic.Drv.Core
import GmQuic.Model.Recovery
/-! Line driver for C13 (`qcongestion` loss detection + NewReno).  Exact comparison of the whole integer state
after every operation; the float-derived values (`in=ld0,ld1,srtt0,rttvar0,srtt1,rttvar1`, read from the
implementation) are inputs of the model step. -/
namespace GmQuic.Drv.C13
open GmQuic.Drv GmQuic.Recovery

def optStr : Option Nat → String
  | some n => toString n
  | none => "-"

def pstStr : PSt → String
  | .I => "I" | .A => "A" | .R => "R"

def b01 (b : Bool) : String := if b then "1" else "0"

def pktStr (p : Pkt) : String :=
  s!"{p.pn}/{p.ts}/{b01 p.elic}/{b01 p.cc}/{p.size}/{pstStr p.st}"

def spStr (sp : Space) : String :=
  let l := if sp.sent.isEmpty then "-" else ",".intercalate (sp.sent.map pktStr)
  s!"{optStr sp.la};{optStr sp.tl};{optStr sp.lt};{l}"

def snap (s : St) : String :=
  s!"cwnd={s.cwnd} ssth={s.ssth} bif={s.bytes} rs={optStr s.rs} ce={s.s0.ce},{s.s1.ce},{s.s2.ce} mds={s.mds} pto={s.pto} timer={optStr s.timer} need={s.s0.need},{s.s1.need},{s.s2.need} mad={s.mad} sp0={spStr s.s0} sp1={spStr s.s1} sp2={spStr s.s2}"

def lostStr (l : List (Nat × List Nat)) : String :=
  if l.isEmpty then "-" else
  ";".intercalate (l.map fun (e, pns) => s!"{e}:" ++ ".".intercalate (pns.map toString))

def parseNats (s : String) (sep : String) : Option (List Nat) :=
  (s.splitOn sep).mapM String.toNat?

def parseRanges (s : String) : Option (List (Nat × Nat)) :=
  if s == "-" then some [] else
  (s.splitOn ",").mapM fun r =>
    match r.splitOn "-" with
    | [a, b] => do let x ← a.toNat?; let y ← b.toNat?; pure (x, y)
    | _ => none

def parseInp (obs : List String) : Option Inp :=
  match kv obs "in" with
  | some v =>
    match parseNats v "," with
    | some [a, b, c, d, e, f] => some { ld0 := a, ld1 := b, srtt0 := c, rttvar0 := d, srtt1 := e, rttvar1 := f }
    | _ => none
  | none => none

def parseOp (op : List String) : Option Op :=
  match op with
  | ["sent", e, pn, el, inf, sz] => do
    pure (.sent (← e.toNat?) (← pn.toNat?) (el == "1") (inf == "1") (← sz.toNat?))
  | ["ack", e, lg, ce, rs, _delay] => do
    let ce ← if ce == "-" then some none else ce.toNat?.map some
    pure (.ack (← e.toNat?) { largest := ← lg.toNat?, ranges := ← parseRanges rs, ce := ce })
  | ["tick", dt] => do pure (.tick (← dt.toNat?))
  | ["rcvd"] => some .rcvd
  | ["discard", e] => do pure (.discard (← e.toNat?))
  | ["hskey"] => some .hskey
  | ["hsack"] => some .hsack
  | ["confirmed"] => some .confirmed
  | ["grant"] => some .grant
  | ["limit"] => some .limit
  | _ => none

/-- panic sites are compared by class (`sub`, `shl`, `unwrap`, `assert`, `mul`) -/
def siteClass (site : String) : String := (site.splitOn ":").headD site

def outStr (o : Out) : String :=
  let r := match o.tooMany with | some n => s!"toomany:{n}" | none => "ok"
  s!"r={r} lost={lostStr o.lost}"

/-- state: `none` = not initialised / dead (mutex poisoned after a panic) -/
def stepStr (st : Option St) (op obs : List String) : Option St × String :=
  match op with
  | ["init", srv, mtu, mad] =>
    match mtu.toNat?, mad.toNat? with
    | some m, some d =>
      match initSt (srv == "1") m d with
      | .ok s => (some s, s!"r=ok lost=- {snap s}")
      | .error site => (none, s!"r=PANIC:{siteClass site}")
    | _, _ => (st, "BAD init args")
  | ["quota"] =>
    match st with
    | some s => (st, s!"r=ok lost=- {snap s}")
    | none => (st, "BAD quota before init")
  | _ =>
    match st, parseOp op, parseInp obs with
    | some s, some o, some i =>
      match step s i o with
      | .ok (s', out) => (some s', s!"{outStr out} {snap s'}")
      | .error site => (none, s!"r=PANIC:{siteClass site}")
    | none, _, _ => (st, "BAD op on dead/uninitialised controller")
    | _, none, _ => (st, "BAD op")
    | _, _, none => (st, "BAD in= token")

def stepFn (st : Option St) (op obs : List String) : Option St × Option String :=
  let (st', mine) := stepStr st op obs
  -- the implementation's observation minus its input tokens (`in=…`, `q=…`)
  let theirs := " ".intercalate (obs.filter fun w => !(w.startsWith "in=") && !(w.startsWith "q="))
  if mine == theirs then (st', none) else (st', some mine)

def model : Model (Option St) := { init := none, step := stepFn }

def entries : List (String × IO UInt32) := [("C13", runModel model)]

end GmQuic.Drv.C13
