import GmQuic.Drv.Core
import GmQuic.Model.Datagram
/-!
Line driver for C19 (`DatagramFlow` pair + network), exact comparison.

Payloads are not transmitted in the transcript: `send n tag` / `inject … n tag` name the
deterministic pattern `pat tag n` that both sides generate; written bytes and delivered payloads are
compared through their length and 64-bit FNV-1a digest (plus the structured fields).
-/
namespace GmQuic.Drv.C19
open GmQuic.Drv GmQuic.Wire GmQuic.Datagram

/-- payload pattern shared with `harness/src/c19.rs` (`pat`): even tags sprinkle the bytes that
look like frame types (0x31, 0x00, 0x30) through the payload. -/
def patByte (tag i : Nat) : UInt8 :=
  if tag % 2 == 0 then
    match (tag / 2 + i) % 4 with
    | 0 => 0x31
    | 1 => 0x00
    | 2 => 0x30
    | _ => UInt8.ofNat ((i * 131 + tag * 29) % 256)
  else UInt8.ofNat ((i * 131 + tag * 29 + i / 251) % 256)

def pat (tag n : Nat) : Bytes := (List.range n).map (patByte tag)

def fnv (bs : Bytes) : UInt64 :=
  bs.foldl (fun h b => (h ^^^ b.toUInt64) * 0x100000001b3) 0xcbf29ce484222325

def hex64 (v : UInt64) : String :=
  let n := v.toNat
  String.ofList ((List.range 16).map fun i => hexDigit (n / 16 ^ (15 - i) % 16))

structure DState where
  run : Run := {}
  hasW : Bool := false
  hasR : Bool := false

def errStr : ConnErr → String
  | .protocolViolation => "PV"
  | .other => "OTHER"

def parseErr : String → Option ConnErr
  | "PV" => some .protocolViolation
  | "OTHER" => some .other
  | _ => none

def loadEnd : Option LoadRes → String
  | none => "ok"
  | some .closed => "closed"
  | some .empty => "empty"
  | some .noRoom => "noroom"
  | some (.panic _) => "PANIC"
  | some (.wrote ..) => "ok"

def loadedStr (l : Loaded) : String :=
  s!"{l.pad}.{if l.withLen then 1 else 0}.{l.payload.length}"

def pktStr (p : Pkt) : String :=
  if p.isEmpty then "-" else ",".intercalate (p.map loadedStr)

def recvResStr : Option RecvRes → String
  | none => "?"
  | some (.ok w) => if w then "ok1" else "ok0"
  | some .protocolViolation => "pv"
  | some (.closed e) => s!"closed:{errStr e}"

/-- frames as dispatched: runs of PADDING compressed to `P<count>` -/
def outStr (out : List (Frame × Option RecvRes)) : String :=
  let rec go (pads : Nat) (acc : List String) : List (Frame × Option RecvRes) → List String
    | [] => (if pads > 0 then s!"P{pads}" :: acc else acc).reverse
    | (.padding, _) :: rest => go (pads + 1) acc rest
    | (.datagram wl d, res) :: rest =>
      let acc := if pads > 0 then s!"P{pads}" :: acc else acc
      go 0 (s!"D{if wl then 1 else 0}:{d.length}:{hex64 (fnv d)}:{recvResStr res}" :: acc) rest
  let l := go 0 [] out
  if l.isEmpty then "-" else ",".intercalate l

def derrStr : Option DecErr → String
  | none => "none"
  | some .incompleteType => "IT"
  | some .incompleteFrame => "IF"
  | some (.otherType t) => s!"OT{t}"

def b01 (b : Bool) : String := if b then "1" else "0"

def step (s : DState) (op : List String) : DState × String :=
  match op with
  | ["cfg", pm, lm] =>
    match pm.toNat?, lm.toNat? with
    | some pm, some lm =>
      let r := Run.config pm lm
      let w := newWriter r.snd pm
      let rd := newReader r.rcv
      ({ run := r, hasW := w == .ok, hasR := rd == .ok },
       s!"writer={if w == .ok then "ok" else "unsupported"} reader={if rd == .ok then "ok" else "unsupported"}")
    | _, _ => (s, "BAD cfg args")
  | ["getw"] =>
    match newWriter s.run.snd s.run.peerMax with
    | .ok => ({ s with hasW := true }, "ok")
    | .unsupported => (s, "unsupported")
    | .closed e => (s, s!"closed:{errStr e}")
  | ["getr"] =>
    match newReader s.run.rcv with
    | .ok => ({ s with hasR := true }, "ok")
    | .unsupported => (s, "unsupported")
    | .closed e => (s, s!"closed:{errStr e}")
  | ["send", n, tag] =>
    match n.toNat?, tag.toNat? with
    | some n, some tag =>
      if !s.hasW then (s, "nowriter") else
      match s.run.stepObs (.send (pat tag n)) with
      | (r, .send .queued) => ({ s with run := r }, "queued")
      | (r, .send .refused) => ({ s with run := r }, "refused")
      | (r, .send (.closed e)) => ({ s with run := r }, s!"closed:{errStr e}")
      | (r, _) => ({ s with run := r }, "BAD obs")
    | _, _ => (s, "BAD send args")
  | ["load", rem, calls] =>
    match rem.toNat?, calls.toNat? with
    | some rem, some calls =>
      let calls := if calls == 0 then rem + 1 else calls
      match s.run.stepObs (.load rem calls) with
      | (r, .load p e) =>
        let bytes := encPkt p
        ({ s with run := r }, s!"frames={pktStr p} end={loadEnd e} w={bytes.length} h={hex64 (fnv bytes)}")
      | (r, _) => ({ s with run := r }, "BAD obs")
    | _, _ => (s, "BAD load args")
  | ["inject", pad, wl, n, tag] =>
    match pad.toNat?, wl.toNat?, n.toNat?, tag.toNat? with
    | some pad, some wl, some n, some tag =>
      let p : Pkt := [⟨pad, wl == 1, pat tag n⟩]
      let bytes := encPkt p
      ({ s with run := { s.run with net := s.run.net ++ [p] } }, s!"w={bytes.length} h={hex64 (fnv bytes)}")
    | _, _, _, _ => (s, "BAD inject args")
  | ["deliver", k] =>
    match k.toNat? with
    | some k =>
      match s.run.stepObs (.deliver k) with
      | (r, .noPacket) => ({ s with run := r }, "nopkt")
      | (r, .deliver out derr wake) =>
        ({ s with run := r }, s!"frames={outStr out} derr={derrStr derr} wake={b01 wake}")
      | (r, _) => ({ s with run := r }, "BAD obs")
    | none => (s, "BAD deliver args")
  | ["drop", k] =>
    match k.toNat? with
    | some k =>
      match s.run.stepObs (.drop k) with
      | (r, .noPacket) => ({ s with run := r }, "nopkt")
      | (r, _) => ({ s with run := r }, "dropped")
    | none => (s, "BAD drop args")
  | ["read"] =>
    if !s.hasR then (s, "noreader") else
    match s.run.stepObs .read with
    | (r, .read (.dgram d)) => ({ s with run := r }, s!"dgram={d.length}:{hex64 (fnv d)}")
    | (r, .read .pending) => ({ s with run := r }, "pending")
    | (r, .read (.closed e)) => ({ s with run := r }, s!"closed:{errStr e}")
    | (r, _) => ({ s with run := r }, "BAD obs")
  | ["connerr", side, k] =>
    match parseErr k with
    | some e =>
      if side == "a" then
        match s.run.stepObs (.errSnd e) with
        | (r, _) => ({ s with run := r }, "wake=0")
      else if side == "b" then
        match s.run.stepObs (.errRcv e) with
        | (r, .err w) => ({ s with run := r }, s!"wake={b01 w}")
        | (r, _) => ({ s with run := r }, "BAD obs")
      else (s, "BAD connerr side")
    | none => (s, "BAD connerr kind")
  | _ => (s, "BAD op")

def model : Model DState := { init := {}, step := exact step }

/-- `C19pkg`: the source-level call-graph probe, exact on the two facts the model states about
`Components::packages()`: the 1-RTT source tuple names the datagram flow iff `oneRttSources` contains
`.datagrams`, the 0-RTT tuple iff `zeroRttSources` does (the remaining fields are informative). -/
def pkgStep (_ : Unit) (op obs : List String) : Unit × Option String :=
  match op, kvNat obs "found", kvNat obs "onertt", kvNat obs "zerortt" with
  | ["packages"], some _, some o, some z =>
    let mo := if GmQuic.Datagram.oneRttSources.contains .datagrams then 1 else 0
    let mz := if GmQuic.Datagram.zeroRttSources.contains .datagrams then 1 else 0
    if o = mo ∧ z = mz then ((), none) else ((), some s!"onertt={mo} zerortt={mz}")
  | _, _, _, _ => ((), some "BAD packages line")

def pkgModel : Model Unit := { init := (), step := pkgStep }

def entries : List (String × IO UInt32) := [("C19", runModel model), ("C19pkg", runModel pkgModel)]

end GmQuic.Drv.C19
