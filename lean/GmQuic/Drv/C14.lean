import GmQuic.Drv.Core
import GmQuic.Model.Cid
import GmQuic.Model.Router
/-!
Line drivers for C14.

`C14l` — connections with real `ArcLocalCids` on one shared real `QuicRouter` (exact; at the single branch
"RETIRE_CONNECTION_ID of an unissued number" either error kind is accepted — which one the code shows is judged by
the harness monitor against RFC 9000 §19.16).

`C14r` — real `ArcRemoteCids` + `ArcCidCell`s (exact; `newcid` is first replayed on the model of the pinned tree and,
if that disagrees, on the model of the tree with `fix-C14-remote-limit.diff`; the driver follows the implementation).
-/
namespace GmQuic.Drv.C14
open GmQuic.Drv GmQuic.Cid

def cidStr : Cid → String
  | .gen n => s!"g{n}"
  | .ext n => s!"x{n}"

def parseCid (s : String) : Option Cid :=
  match s.toList with
  | 'g' :: r => (String.ofList r).toNat?.map .gen
  | 'x' :: r => (String.ofList r).toNat?.map .ext
  | _ => none

def listStr (xs : List String) : String := if xs.isEmpty then "-" else ",".intercalate xs
def framesStr (fs : List NewCid) : String := listStr (fs.map fun f => s!"{f.seq}:{f.rpt}:{cidStr f.cid}")
def cidsStr (cs : List Cid) : String := listStr (cs.map cidStr)
def natsStr (ns : List Nat) : String := listStr (ns.map toString)

/-! ### C14l -/

def obsStr : Obs → String
  | .created k scid fs => s!"k={k} scid={cidStr scid} frames={framesStr fs}"
  | .ok fs gone => s!"ok frames={framesStr fs} gone={cidsStr gone}"
  | .errTransportParameter => "err TP"
  | .errUnissued => "err UNISSUED"
  | .panic => "PANIC"
  | .routed (some k) => s!"conn={k}"
  | .routed none => "none"
  | .bad => "BAD op not applicable"

def parseOpL : List String → Option Op
  | ["conn", "-"] => some (.conn none)
  | ["conn", c] => (parseCid c).map fun c => .conn (some c)
  | ["setlimit", k, n] => do some (.setLimit (← k.toNat?) (← n.toNat?))
  | ["retire", k, q] => do some (.retire (← k.toNat?) (← q.toNat?))
  | ["clear", k] => do some (.clear (← k.toNat?))
  | ["drop", k] => do some (.drop (← k.toNat?))
  | ["dropodcid", k] => do some (.dropOdcid (← k.toNat?))
  | ["relq", k] => do some (.relQueue (← k.toNat?))
  | ["route", c] => (parseCid c).map .route
  | _ => none

def stepL (s : Sys) (op obs : List String) : Sys × Option String :=
  match parseOpL op with
  | none => (s, some "BAD op")
  | some o =>
    let (s', r) := s.step o
    let mine := obsStr r
    let theirs := " ".intercalate obs
    match r with
    | .errUnissued =>
      -- either kind is a faithful "rejected"; the monitor decides whether it is the RFC's kind
      let tok (k : Local.ErrKind) : String := match k with
        | .connectionIdLimit => "err CIL" | .protocolViolation => "err PV" | .transportParameter => "err TP"
      if theirs == tok (Local.unissuedKind false) || theirs == tok (Local.unissuedKind true) then (s', none)
      else (s', some s!"{tok (Local.unissuedKind false)} | fixed: {tok (Local.unissuedKind true)}")
    | _ => if mine == theirs then (s', none) else (s', some mine)

def modelL : Model Sys := { init := Sys.init, step := stepL }

/-! ### C14r -/

structure RState where
  s : Remote
  seen : Nat      -- RETIRE frames already reported

def rtail (old : RState) (s : Remote) : String :=
  s!"frames={natsStr (s.frames.drop old.seen)} cur={s.cursor} coff={s.coff} ncid={s.cdq.length} roff={s.roff} nready={s.ready.length} npend={s.pending.length} latest={match s.latest with | some c => cidStr c | none => "-"}"

def adv (old : RState) (s : Remote) (head : String) : RState × String :=
  ({ s := s, seen := s.frames.length }, s!"{head} {rtail old s}")

def newcidStr (st : RState) (fixed : Remote.Tree) (seq rpt : Nat) (cid : Cid) : RState × String :=
  match st.s.recvNewCid fixed seq rpt cid with
  | .errLimit s => adv st s "err CIL"
  | .discarded => adv st st.s "none"
  | .accepted s => adv st s "ok"
  | .panic site => (st, s!"PANIC {site}")

def stepR (st : RState) (op obs : List String) : RState × Option String :=
  let theirs := " ".intercalate obs
  let cmp (r : RState × String) : RState × Option String := if r.2 == theirs then (r.1, none) else (r.1, some r.2)
  match op with
  | ["init", n] =>
    match n.toNat? with
    | some n => cmp ({ s := Remote.init n, seen := 0 }, "ok")
    | none => (st, some "BAD init")
  | ["apply"] =>
    let (s, i) := st.s.apply
    cmp (adv st s s!"cell={i}")
  | ["initial", c, i] =>
    match parseCid c, i.toNat? with
    | some c, some i =>
      match st.s.applyInitial c i with
      | .ok s => cmp (adv st s "ok")
      | .panic site => cmp (st, s!"PANIC {site}")
    | _, _ => (st, some "BAD initial")
  | ["newcid", q, r, c] =>
    match q.toNat?, r.toNat?, parseCid c with
    | some q, some r, some c =>
      -- the three `recv_new_cid_frame`s (pinned / + active-id count / count only): follow the one the implementation shows;
      -- which behaviour is right is judged by the monitors, which know only the RFC
      let a := newcidStr st .pinned q r c
      if a.2 == theirs then (a.1, none)
      else
        let b := newcidStr st .counted q r c
        if b.2 == theirs then (b.1, none)
        else
          let e := newcidStr st .exact q r c
          if e.2 == theirs then (e.1, none) else (b.1, some s!"{a.2} | counted: {b.2} | exact: {e.2}")
    | _, _, _ => (st, some "BAD newcid")
  | ["borrow", i] =>
    match i.toNat? with
    | some i =>
      let (s, r) := st.s.borrow i
      cmp (adv st s (match r with | .gone => "gone" | .wait => "wait" | .cid c => s!"cid={cidStr c}"))
    | none => (st, some "BAD borrow")
  | ["release", i] =>
    match i.toNat? with
    | some i =>
      match st.s.release i with
      | some s => cmp (adv st s "ok")
      | none => cmp (st, "PANIC renew")
    | none => (st, some "BAD release")
  | ["retirecell", i] =>
    match i.toNat? with
    | some i => cmp (adv st (st.s.retireCell i) "ok")
    | none => (st, some "BAD retirecell")
  | _ => (st, some "BAD op")

def modelR : Model RState := { init := { s := Remote.init 2, seen := 0 }, step := stepR }

def entries : List (String × IO UInt32) :=
  [("C14l", runModel modelL), ("C14r", runModel modelR), ("C14x", runModel modelR)]

end GmQuic.Drv.C14
