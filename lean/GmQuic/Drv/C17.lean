import GmQuic.Drv.Core
import GmQuic.Model.ConnState
import GmQuic.Model.Poison
import GmQuic.Model.Idle
/-! Line drivers for C17: `C17st` (ArcConnState, sequential calls), `C17p` (poison graph), `C17i` (IdleTimer). All exact. -/
namespace GmQuic.Drv.C17
open GmQuic.Drv

/-! ## C17st -/
section St
open GmQuic.ConnState

def optStr (o : Option Nat) (pre : String) : String :=
  match o with | some e => s!"{pre}{e}" | none => "-"

/-- one whole call, alone.  `terminate` is the bare `update(Closed)`: the enabledness gate of the concurrent
model is a scheduling fact (the event is emitted late), not code, so the sequential run starts after it. -/
def callSeq (c : Closer) (sh : Shared) : Shared × Pc :=
  match c with
  | .terminate => runPc c 4 sh (.loaded sh.code)
  | _ => call c sh

def oldOf (sh sh' : Shared) (pc : Pc) : String :=
  match pc with
  | .done true => if sh'.code = sh.code then "?" else (if sh.code = 0 then "1" else toString sh.code)
  | _ => "-"

def stStep (sh : Shared) (op : List String) : Shared × String :=
  let go (c : Closer) : Shared × String :=
    let (sh', pc) := callSeq c sh
    if sh'.expectFailed then (sh', "PANIC") else
    if ¬ pc.isDone then (sh', "STUCK") else
    -- `decode(old).unwrap_or(Attempted)`: old code 0 is reported as Attempted (1)
    (sh', s!"ret={oldOf sh sh' pc} code={sh'.code} term={optStr sh'.terminated "err:"} hs={if sh'.handshaked then 1 else 0}")
  match op with
  | ["hs"] => go .handshaked
  | ["closing", e] => match e.toNat? with | some e => go (.closing e) | none => (sh, "BAD e")
  | ["draining", e] => match e.toNat? with | some e => go (.draining e) | none => (sh, "BAD e")
  | ["terminate"] => go .terminate
  | ["race", _] => (sh, "bad=0")
  | _ => (sh, "BAD op")

def modelSt : Model Shared := { init := {}, step := exact stStep }
end St

/-! ## C17p -/
section P
open GmQuic.Poison

def labStr : Lab → String
  | .w i => s!"w{i}" | .f i => s!"f{i}" | .s i => s!"s{i}" | .r i => s!"r{i}"
  | .ab => "ab" | .au => "au" | .ob => "ob" | .ou => "ou" | .dg => "dg" | .pr => "pr"

def insertSorted (x : String) : List String → List String
  | [] => [x]
  | y :: ys => if x < y then x :: y :: ys else y :: insertSorted x ys

def wokenStr (l : List Lab) : String :=
  let ss := (l.map labStr).foldl (fun acc x => insertSorted x acc) []
  if ss.isEmpty then "-" else ",".intercalate ss

def errStr (o : Option Nat) : String := match o with | some e => s!"err:{e}" | none => "ok"

def resStr : Res → String
  | .pending => "pending" | .ok => "ok" | .data => "data" | .eof => "eof" | .es => "es"
  | .err e => s!"err:{e}" | .fail => "fail" | .skip => "skip" | .already => "already"
  | .two a b => s!"{errStr a} {errStr b}"

def sstOf : String → Option SSt
  | "ready" => some .ready | "sending" => some .sending | "datasent" => some .dataSent
  | "datarcvd" => some .dataRcvd | "resetsent" => some .resetSent | "resetrcvd" => some .resetRcvd | _ => none
def rstOf : String → Option RSt
  | "recv" => some .recv | "sizeknown" => some .sizeKnown | "datarcvd" => some .dataRcvd
  | "dataread" => some .dataRead | "resetrcvd" => some .resetRcvd | "resetread" => some .resetRead | _ => none
def sstName : SSt → String
  | .ready => "Ready" | .sending => "Sending" | .dataSent => "DataSent" | .dataRcvd => "DataRcvd"
  | .resetSent => "ResetSent" | .resetRcvd => "ResetRcvd"
def rstName : RSt → String
  | .recv => "Recv" | .sizeKnown => "SizeKnown" | .dataRcvd => "DataRcvd" | .dataRead => "DataRead"
  | .resetRcvd => "ResetRcvd" | .resetRead => "ResetRead"

def parseOp : List String → Option Op
  | ["mk", "snd", st, full] => (sstOf st).map fun s => .mkSnd s (full == "1")
  | ["mk", "rcv", st] => (rstOf st).map .mkRcv
  | ["queue", d] => some (.queue (d == "bi"))
  | ["exhaust"] => some .exhaust
  | ["params"] => some .params
  | ["write", i] => i.toNat?.map .write
  | ["flush", i] => i.toNat?.map .flush
  | ["shutdown", i] => i.toNat?.map .shutdown
  | ["read", i] => i.toNat?.map .read
  | ["acceptbi"] => some .acceptBi | ["acceptuni"] => some .acceptUni
  | ["openbi"] => some .openBi | ["openuni"] => some .openUni
  | ["ready"] => some .ready | ["dgrecv"] => some .dgRecv | ["dgsend"] => some .dgSend
  | ["dgnew"] => some .dgNew | ["dgin"] => some .dgIn
  | ["errds", e] => e.toNat?.map .errDs
  | ["errdg", e] => e.toNat?.map .errDg
  | ["errpr", e] => e.toNat?.map .errPr
  | _ => none

def pStep (g : G) (toks : List String) : G × String :=
  match toks with
  | ["env", _, w] => ({ g with ready := w == "ready" }, "ok")
  | _ =>
    match parseOp toks with
    | none => (g, "BAD op")
    | some op =>
      let (g', o) := step g op
      let w := wokenStr o.woken
      let obs := match op, o.res with
        | .mkSnd st _, .ok => s!"ok st={sstName st} woken={w}"
        | .mkRcv st, .ok =>
          let st' := match st with | .dataRead => RSt.dataRead | .resetRead => .resetRead | s => s
          s!"ok st={rstName st'} woken={w}"
        | .queue _, r => s!"{resStr r} woken={w}"
        | .params, .ok => s!"ok woken={w}"
        | .dgIn, r => s!"{resStr r} woken={w}"
        | .errDs _, _ => s!"woken={w}"
        | .errDg _, _ => s!"woken={w}"
        | .errPr _, _ => s!"woken={w}"
        | _, r => resStr r
      (g', obs)

def modelP : Model G := { init := {}, step := exact pStep }
end P

/-! ## C17i -/
section I
open GmQuic.Idle

def iStep (t : Timer) (toks : List String) : Timer × String :=
  let b (s : String) : Bool := s == "1"
  match toks with
  | ["new", m, d] =>
    match m.toNat?, d.toNat? with
    | some m, some d => ({ cfg := Cfg.new (1000 * m) (1000 * d) }, "ok")
    | _, _ => (t, "BAD new")
  | ["sent", e, now] => match now.toNat? with | some n => ((step t (.sent (b e) (1000 * n))).1, "none") | none => (t, "BAD")
  | ["rcvd", e, now] => match now.toNat? with | some n => ((step t (.rcvd (b e) (1000 * n))).1, "none") | none => (t, "BAD")
  | ["negotiate", r] => match r.toNat? with | some r => ((step t (.negotiate (1000 * r))).1, "none") | none => (t, "BAD")
  | ["health", now] =>
    match now.toNat? with
    | some n =>
      let (t', o) := step t (.health (1000 * n))
      (t', match o with | .none => "none" | .ping => "ping" | .timeout => "timeout")
    | none => (t, "BAD")
  | _ => (t, "BAD op")

def modelI : Model Timer := { init := { cfg := Cfg.new 0 0 }, step := exact iStep }
end I

def entries : List (String × IO UInt32) :=
  [("C17st", runModel modelSt), ("C17p", runModel modelP), ("C17i", runModel modelI)]

end GmQuic.Drv.C17
