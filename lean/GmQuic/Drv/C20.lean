import GmQuic.Drv.Core
import GmQuic.Model.Json
import GmQuic.Model.Span
import GmQuic.Gen.QEvent
import GmQuic.Gen.QSpans
/-! Line drivers for C20: `C20ser` (serde-derive model vs real serde_json), `C20span` (span / `event!` model),
`C20pure` (purity leg: the only acceptable observation is `same`). -/
namespace GmQuic.Drv.C20
open GmQuic.Drv GmQuic.Model.Json GmQuic.Model.Span GmQuic.Gen.QEvent GmQuic.Gen.QSpans

def asciiOf (bs : List UInt8) : String := String.ofList (bs.map fun b => Char.ofNat b.toNat)
def bytesOf (s : String) : List UInt8 := s.toList.map fun c => UInt8.ofNat c.toNat

/-- compact JSON text exactly as `serde_json::to_string` prints it (ASCII strings; `"` and `\` escaped) -/
def escape (s : String) : String :=
  String.ofList (s.toList.foldr (fun c acc => if c == '"' then '\\' :: '"' :: acc else if c == '\\' then '\\' :: '\\' :: acc else c :: acc) [])

partial def printJson : Json → String
  | .null => "null"
  | .bool b => if b then "true" else "false"
  | .int n => toString n
  | .flt t => t
  | .str s => "\"" ++ escape s ++ "\""
  | .arr xs => "[" ++ ",".intercalate (xs.map printJson) ++ "]"
  | .obj kvs => "{" ++ ",".intercalate (kvs.map fun kv => "\"" ++ escape kv.1 ++ "\":" ++ printJson kv.2) ++ "}"

partial def jsonBeq : Json → Json → Bool
  | .null, .null => true
  | .bool a, .bool b => a == b
  | .int a, .int b => a == b
  | .flt a, .flt b => a == b
  | .str a, .str b => a == b
  | .arr a, .arr b => a.length == b.length && (a.zip b).all fun p => jsonBeq p.1 p.2
  | .obj a, .obj b => a.length == b.length && (a.zip b).all fun p => p.1.1 == p.2.1 && jsonBeq p.1.2 p.2.2
  | _, _ => false

def kvsBeq (a b : Kvs) : Bool := a.length == b.length && (a.zip b).all fun p => p.1.1 == p.2.1 && jsonBeq p.1.2 p.2.2

partial def valBeq : Val → Val → Bool
  | .bool a, .bool b => a == b
  | .int a, .int b => a == b
  | .flt a, .flt b => a == b
  | .str a, .str b => a == b
  | .json a, .json b => jsonBeq a b
  | .none, .none => true
  | .some a, .some b => valBeq a b
  | .list a, .list b => a.length == b.length && (a.zip b).all fun p => valBeq p.1 p.2
  | .map a, .map b => kvsBeq a b
  | .rcd a r, .rcd b s => a.length == b.length && ((a.zip b).all fun p => valBeq p.1 p.2) && kvsBeq r s
  | .var i a, .var j b => i == j && valBeq a b
  | _, _ => false

def hexStr (t : String) : Option String := (parseHex t).map asciiOf

def parseJsonTok (t : String) : Option Json :=
  if t.startsWith "js" then (hexStr (t.drop 2).toString).map Json.str
  else if t.startsWith "ji" then ((t.drop 2).toString.toInt?).map Json.int
  else if t == "jb0" then some (.bool false) else if t == "jb1" then some (.bool true) else none

partial def parseKvs : Nat → List String → Option (Kvs × List String)
  | 0, ts => some ([], ts)
  | n + 1, k :: j :: ts =>
      match hexStr k, parseJsonTok j, parseKvs n ts with
      | some k', some j', some (r, ts') => some ((k', j') :: r, ts')
      | _, _, _ => none
  | _, _ => none

mutual
partial def parseVal : List String → Option (Val × List String)
  | [] => none
  | t :: ts =>
    if t == "b0" then some (.bool false, ts) else if t == "b1" then some (.bool true, ts)
    else if t == "n" then some (.none, ts)
    else if t == "S" then (parseVal ts).map fun (v, r) => (.some v, r)
    else if t.startsWith "j" then (parseJsonTok t).map fun j => (.json j, ts)
    else if t.startsWith "i" then ((t.drop 1).toString.toInt?).map fun n => (.int n, ts)
    else if t.startsWith "f" then some (.flt (t.drop 1).toString, ts)
    else if t.startsWith "s" then (hexStr (t.drop 1).toString).map fun s => (.str s, ts)
    else if t.startsWith "l" then
      match (t.drop 1).toString.toNat? with
      | some n => (parseVals n ts).map fun (vs, r) => (.list vs, r)
      | none => none
    else if t.startsWith "m" then
      match (t.drop 1).toString.toNat? with
      | some n => (parseKvs n ts).map fun (kvs, r) => (.map kvs, r)
      | none => none
    else if t.startsWith "r" then
      match (t.drop 1).toString.splitOn "," with
      | [a, b] =>
        match a.toNat?, b.toNat? with
        | some n, some k =>
          match parseVals n ts with
          | some (vs, r) => (parseKvs k r).map fun (kvs, r') => (.rcd vs kvs, r')
          | none => none
        | _, _ => none
      | _ => none
    else if t.startsWith "v" then
      match (t.drop 1).toString.toNat? with
      | some i => (parseVal ts).map fun (v, r) => (.var i v, r)
      | none => none
    else none
partial def parseVals : Nat → List String → Option (List Val × List String)
  | 0, ts => some ([], ts)
  | n + 1, ts =>
    match parseVal ts with
    | some (v, r) => (parseVals n r).map fun (vs, r') => (v :: vs, r')
    | none => none
end

def rtOf (s : Schema) (v : Val) : Bool :=
  match de s (ser s v) with
  | some v' => valBeq v' v
  | none => false

def serStep (_ : Unit) (op : List String) : Unit × String :=
  match op with
  | "ser" :: ty :: toks =>
    match covered.find? (fun p => p.1 == ty), parseVal toks with
    | some (_, s), some (v, []) =>
        ((), s!"{toHex (bytesOf (printJson (ser s v)))} rt={if rtOf s v then 1 else 0}")
    | none, _ => ((), "BAD unknown type " ++ ty)
    | _, _ => ((), "BAD value tokens")
  | _ => ((), "BAD op")

def serModel : Model Unit := { init := (), step := exact serStep }

/-- `C20amb`: hand-built non-canonical values (same comparison) + the float search, whose outcome the model does not
predict (float tokens are opaque): both answers are inside the relation, the monitor reports `inexact`. -/
def ambStep (u : Unit) (op obs : List String) : Unit × Option String :=
  match op with
  | "time-search" :: _ => (u, if obs == ["exact"] || obs == ["inexact"] then none else some "exact|inexact")
  | _ => exact serStep u op obs

def ambModel : Model Unit := { init := (), step := ambStep }

/-! ### span probes -/
structure SpanSt where
  cfgCapture : Bool := true
  fields : SFields := []

def kindJson : String → Option Json
  | "s" => some (.str "v") | "n" => some (.int 7) | "b" => some (.bool true)
  | "as" => some (.arr [.str "QUIC", .str "x"]) | "an" => some (.arr [.int 1, .int 2])
  | _ => none

def tySchema : String → Option Schema
  | "String" => some .str | "u64" => some (.int 0 18446744073709551615) | "bool" => some .bool
  | "VecString" => some (.seq .str none)
  | "PathID" => some T_PathID | "GroupID" => some T_GroupID | "ProtocolTypeList" => some T_ProtocolTypeList
  | _ => none

def customOf : String → Option Kvs
  | "plain" => some [] | "custom_foo" => some [("foo", .int 1)] | "custom_time" => some [("time", .int 5)]
  | "custom_name" => some [("name", .str "x")] | "custom_data" => some [("data", .int 1)]
  | "custom_path" => some [("path", .str "p")] | "custom_group_id" => some [("group_id", .str "g")]
  | _ => none

def serverListening : Val := .rcd [.some (.str "127.0.0.1"), .none, .some (.int 443), .none, .none] []

def spanStep (st : SpanSt) (op : List String) : SpanSt × String :=
  match op with
  | ["cfg", c] => ({ st with cfgCapture := c != "filter" }, "ok")
  | ["span", spec] =>
      if spec == "-" then (st, "ok") else
      let adds := (spec.splitOn ",").filterMap fun a =>
        match a.splitOn "=" with
        | [n, k] => (kindJson k).map fun j => (n, j)
        | _ => none
      if adds.length != (spec.splitOn ",").length then (st, "BAD span spec")
      else ({ st with fields := enter st.fields adds }, "ok")
  | ["load", name, ty] =>
      match tySchema ty with
      | some sch => (st, match load sch st.fields name with | .ok _ => "ok" | .panic => "PANIC")
      | none => (st, "BAD ty")
  | ["tryload", name, ty] =>
      match tySchema ty with
      | some sch => (st, match tryLoad sch st.fields name with | some _ => "some" | none => "none")
      | none => (st, "BAD ty")
  | ["emit", variant] =>
      match customOf variant with
      | none => (st, "BAD variant")
      | some custom =>
        match emit knownLoads st.cfgCapture st.fields "1.5" 0 serverListening custom with
        | .filtered => (st, "filtered")
        | .panic => (st, "PANIC")
        | .emitted ev =>
            let ks := keys (objKvs (ser eventSchema ev))
            (st, s!"ok {",".intercalate ks} rt={if rtOf eventSchema ev then 1 else 0}")
  | _ => (st, "BAD op")

def spanModel : Model SpanSt := { init := {}, step := exact spanStep }

/-! ### purity leg: the transcript of the workload must be byte-identical under every exporter configuration -/
def pureStep (_ : Unit) (op obs : List String) : Unit × Option String :=
  match op, obs with
  | "workload" :: _, ["ok"] => ((), none)
  | ["pure", _, "feature-off"], ["skipped"] => ((), none)
  | "pure" :: _, ["same"] => ((), none)
  | "pure" :: _, _ => ((), some "same")
  | _, _ => ((), some "BAD op")

def pureModel : Model Unit := { init := (), step := pureStep }

def entries : List (String × IO UInt32) :=
  [("C20ser", runModel serModel), ("C20amb", runModel ambModel), ("C20span", runModel spanModel), ("C20pure", runModel pureModel)]

end GmQuic.Drv.C20
