import GmQuic.Drv.Core
import GmQuic.Model.RcvdJournal
import GmQuic.Model.SentFrames
/-! Line driver for C10: `C10r` (received-packet journal + `gen_ack_frame_util`; exact, with a relational fall-back for
the frame where the code has freedom), `C10s` (sent journal with frame contents, exact), `C10i` (`AckFrame::iter`, exact). -/
namespace GmQuic.Drv.C10
open GmQuic.Drv GmQuic.Pn

def joinWith (sep : String) (xs : List String) : String := if xs.isEmpty then "-" else sep.intercalate xs
def natsStr (sep : String) (xs : List Nat) : String := joinWith sep (xs.map toString)

def parseNats (sep : String) (s : String) : Option (List Nat) :=
  if s == "-" then some [] else (s.splitOn sep).mapM String.toNat?

def parsePairs (s : String) : Option (List (Nat × Nat)) :=
  if s == "-" then some [] else
  (s.splitOn ",").mapM fun w =>
    match w.splitOn ":" with
    | [a, b] => match a.toNat?, b.toNat? with
      | some x, some y => some (x, y)
      | _, _ => none
    | _ => none

def pairsStr (rs : List (Nat × Nat)) : String := joinWith "," (rs.map fun r => s!"{r.1}:{r.2}")

section R
open GmQuic.RcvdJournal

def b01 (b : Bool) : String := if b then "1" else "0"

def cellStr : Cell → String
  | .empty => "E"
  | .rcvd e x => s!"R{b01 e}:{x}"
  | .ackSent e x pns => s!"S{b01 e}:{x}:{natsStr "+" pns}"
  | .ackConfirmed e x => s!"C{b01 e}:{x}"

def dumpR (s : State) : String :=
  let e := match s.earliest with | some p => toString p | none => "-"
  s!"off={s.offset} cells={joinWith "," (s.cells.map cellStr)} incl={natsStr "+" s.incl} earliest={e}"

def frameStr (f : AckFrame) : String :=
  s!"ack L={f.largest} D={f.delay} first={f.first} ranges={pairsStr f.ranges} size={f.size}"

def mkPn (v : String) (x : Nat) : Option PacketNumber :=
  match v with
  | "u8" => some (.u8 x)
  | "u16" => some (.u16 x)
  | "u24" => some (.u24 x)
  | "u32" => some (.u32 x)
  | _ => none

/-- The relation the property puts on a generated frame (used when the implementation's frame differs from the
transliteration): requested largest and delay, fits, well-formed, covers only tracked received numbers. -/
def frameRelOk (s : State) (largest delay cap : Nat) (f : AckFrame) : Bool :=
  f.largest == largest && f.delay == delay && decide (f.size ≤ cap) &&
  -- the property constrains the enumerated numbers only when the requested largest was received (caller contract)
  (if s.has largest || (decide (largest < s.offset) && s.rcvdLog.contains largest) then
    match f.iter with
    | none => false
    | some rs => (pnsDesc rs).all fun p => p == largest || s.has p
   else true)

def stepR (s : State) (op obs : List String) : State × Option String :=
  let theirs := " ".intercalate obs
  let cmp (s' : State) (mine : String) : State × Option String := (s', if mine == theirs then none else some mine)
  match op with
  | ["rcv", a, b, c] =>
    match a.toNat?, b.toNat?, c.toNat? with
    | some pn, some e, some pto =>
      match onRcvdPn s pn (e == 1) pto with
      | some s' => cmp s' s!"ok {dumpR s'}"
      | none => cmp s "PANIC"
    | _, _, _ => (s, some "BAD rcv args")
  | ["rcvq", a, b, c] =>
    match a.toNat?, b.toNat?, c.toNat? with
    | some pn, some e, some pto =>
      match onRcvdPn s pn (e == 1) pto with
      | some s' => cmp s' "ok"
      | none => cmp s "PANIC"
    | _, _, _ => (s, some "BAD rcvq args")
  | ["genq", a, b, c, d] =>
    -- bulk leg: frame compared (exactly, or through the relation), no state dump on the line
    match a.toNat?, b.toNat?, c.toNat?, d.toNat? with
    | some pn, some largest, some delay, some cap =>
      let (s', out) := genAck s pn largest delay cap
      let mine := match out with
        | .ok f => frameStr f
        | .congestion => "CONGESTION"
        | .panic => "PANIC"
        | .overflow => "OVERFLOW"
      if mine == theirs then (s', none)
      else
        match obs with
        | "ack" :: rest =>
          match kvNat rest "L", kvNat rest "D", kvNat rest "first", (kv rest "ranges").bind parsePairs, kvNat rest "size" with
          | some l, some dl, some fi, some rs, some sz =>
            let f : AckFrame := ⟨l, dl, fi, rs⟩
            if f.size == sz && frameRelOk s largest delay cap f && (match out with | .ok _ => true | _ => false)
            then (s', none) else (s', some (mine.take 300).toString)
          | _, _, _, _, _ => (s', some (mine.take 300).toString)
        | _ => (s', some (mine.take 300).toString)
    | _, _, _, _ => (s, some "BAD genq args")
  | ["dec", v, x] =>
    match x.toNat? with
    | some x =>
      match mkPn v x with
      | some e =>
        cmp s (match decodePn s e with | .ok n => s!"ok {n}" | .tooOld => "TooOld" | .dup => "Dup" | .panic => "PANIC")
      | none => (s, some "BAD dec variant")
    | none => (s, some "BAD dec args")
  | ["gen", a, b, c, d] =>
    match a.toNat?, b.toNat?, c.toNat?, d.toNat? with
    | some pn, some largest, some delay, some cap =>
      let (s', out) := genAck s pn largest delay cap
      let mine := match out with
        | .ok f => s!"{frameStr f} {dumpR s'}"
        | .congestion => s!"CONGESTION {dumpR s'}"
        | .panic => "PANIC"
        | .overflow => "OVERFLOW"
      if mine == theirs then (s', none)
      else
        -- relational fall-back: same post-state, a different but legal frame
        match obs with
        | "ack" :: rest =>
          match kvNat rest "L", kvNat rest "D", kvNat rest "first", (kv rest "ranges").bind parsePairs, kvNat rest "size" with
          | some l, some dl, some fi, some rs, some sz =>
            let f : AckFrame := ⟨l, dl, fi, rs⟩
            let dumpTheirs := " ".intercalate (rest.drop 5)
            if f.size == sz && frameRelOk s largest delay cap f && dumpTheirs == dumpR s' && (match out with | .ok _ => true | _ => false)
            then (s', none) else (s', some mine)
          | _, _, _, _, _ => (s', some mine)
        | _ => (s', some mine)
    | _, _, _, _ => (s, some "BAD gen args")
  | ["rack", a, b, c] =>
    match a.toNat?, b.toNat?, parsePairs c with
    | some l, some fi, some rs =>
      match onRcvdAck s ⟨l, 0, fi, rs⟩ with
      | some s' => cmp s' s!"ok {dumpR s'}"
      | none => cmp s "PANIC"
    | _, _, _ => (s, some "BAD rack args")
  | ["tick", a] =>
    match a.toNat? with
    | some us => cmp (step s (.tick us)) "ok"
    | none => (s, some "BAD tick args")
  | _ => (s, some "BAD op")

def modelR : Model State := { init := RcvdJournal.init, step := stepR }

/-- `iter <L> <first> <ranges>` → `ranges=<lo:hi,…>` | `PANIC` -/
def stepI (s : Unit) (op : List String) : Unit × String :=
  match op with
  | ["iter", a, b, c] =>
    match a.toNat?, b.toNat?, parsePairs c with
    | some l, some fi, some rs =>
      match (⟨l, 0, fi, rs⟩ : AckFrame).iter with
      | some out => (s, s!"ranges={pairsStr out} size={(⟨l, 0, fi, rs⟩ : AckFrame).size}")
      | none => (s, "PANIC")
    | _, _, _ => (s, "BAD iter args")
  | _ => (s, "BAD op")

def modelI : Model Unit := { init := (), step := exact stepI }
end R

section S
open GmQuic.SentFrames GmQuic.SentJournal

def recStr : Rec → String
  | .skipped => "S"
  | .flighting n _ _ => s!"F{n}"
  | .retrans n _ => s!"R{n}"
  | .acked n => s!"A{n}"

def dumpS (s : SentFrames.State) : String :=
  s!"off={s.offset} recs={joinWith "," (s.recs.map recStr)} q={natsStr "," s.queue} la={s.la}"

def outStr : Out → String
  | .pn (some n) => s!"pn={n}"
  | .pn none => "pn=-"
  | .frames fs => s!"frames={natsStr "," fs}"
  | .err => "err"
  | .panic => "PANIC"
  | .unit => "ok"

def parseOp (op : List String) : Option SentFrames.Op :=
  match op with
  | ["pkt", fs, t, a, b] =>
    match parseNats "," fs, t.toNat?, a.toNat?, b.toNat? with
    | some fs, some t, some rt, some et => some (.pkt fs (t == 1) rt et)
    | _, _, _, _ => none
  | ["leak", fs] => (parseNats "," fs).map .leak
  | ["ack", a, b, c] =>
    match a.toNat?, b.toNat?, parsePairs c with
    | some l, some fi, some rs => some (.ack ⟨l, 0, fi, rs⟩)
    | _, _, _ => none
  | ["acked", pns] => (parseNats "," pns).map .acked
  | ["lost", pns] => (parseNats "," pns).map .lost
  | ["fastretx"] => some .fastretx
  | ["rotate"] => some .rotate
  | ["tick", a] => a.toNat?.map .tick
  | _ => none

def stepS (s : SentFrames.State) (op : List String) : SentFrames.State × String :=
  match parseOp op with
  | some o =>
    let (s', out) := SentFrames.step s o
    match out, o with
    | .panic, _ => (s', "PANIC")
    | _, .tick _ => (s', "ok")
    | _, _ => (s', s!"{outStr out} {dumpS s'}")
  | none => (s, "BAD op")

def modelS : Model SentFrames.State := { init := SentFrames.init, step := exact stepS }
end S

def entries : List (String × IO UInt32) :=
  [("C10r", runModel modelR), ("C10s", runModel modelS), ("C10i", runModel modelI)]

end GmQuic.Drv.C10
