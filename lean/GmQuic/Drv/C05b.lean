import GmQuic.Drv.Core
import GmQuic.Model.Header
/-!
Line driver for the second part of C05: `C05hdr` (packet-type byte + headers).  Exact comparison;
the canonical rendering is the one of `harness/src/c05b.rs`.
-/
namespace GmQuic.Drv.C05b
open GmQuic.Drv GmQuic.Wire GmQuic.Codec GmQuic.Gen

def b01 (b : Bool) : String := if b then "1" else "0"
def pb (s : String) : Option Bool := if s == "1" then some true else if s == "0" then some false else none

def showHeader : Header → String
  | .vn d s vs => s!"VN {toHex d} {toHex s} {if vs.isEmpty then "-" else ",".intercalate (vs.map toString)}"
  | .retry d s t i => s!"RETRY {toHex d} {toHex s} {toHex t} {toHex i}"
  | .initial d s t => s!"INITIAL {toHex d} {toHex s} {toHex t}"
  | .zeroRtt d s => s!"ZERO_RTT {toHex d} {toHex s}"
  | .handshake d s => s!"HANDSHAKE {toHex d} {toHex s}"
  | .oneRtt spin d => s!"ONE_RTT {b01 spin} {toHex d}"

def parseHeader (ws : List String) : Option Header :=
  match ws with
  | ["VN", d, s, vs] => do
    let vs ← if vs == "-" then some [] else (vs.splitOn ",").mapM String.toNat?
    some (.vn (← parseHex d) (← parseHex s) vs)
  | ["RETRY", d, s, t, i] => do some (.retry (← parseHex d) (← parseHex s) (← parseHex t) (← parseHex i))
  | ["INITIAL", d, s, t] => do some (.initial (← parseHex d) (← parseHex s) (← parseHex t))
  | ["ZERO_RTT", d, s] => do some (.zeroRtt (← parseHex d) (← parseHex s))
  | ["HANDSHAKE", d, s] => do some (.handshake (← parseHex d) (← parseHex s))
  | ["ONE_RTT", sp, d] => do some (.oneRtt (← pb sp) (← parseHex d))
  | _ => none

def codeName : NomCode → String
  | .eof => "Eof" | .tooLarge => "TooLarge" | .verify => "Verify" | .alt => "Alt"

def showHDec (inputLen : Nat) : HRes Header → String
  | .ok h rest => s!"ok used={inputLen - rest.length} {showHeader h}"
  | .err .incomplete => "err Incomplete"
  | .err (.unsupportedVersion v) => s!"err UnsupportedVersion:{v}"
  | .err .invalidFixedBit => "err InvalidFixedBit"
  | .err (.nom c) => s!"err Nom:{codeName c}"
  | .panic _ => "PANIC"

def stepHdr (_ : Unit) (op : List String) : Unit × String :=
  match op with
  | "henc" :: dl :: tail :: hs =>
    match dl.toNat?, parseHex tail, parseHeader hs with
    | some dl, some tail, some h =>
      let bytes := encHeader h
      let input := bytes ++ tail
      let sz := match headerSize h with | some n => toString n | none => "-"
      ((), s!"bytes={toHex bytes} size={sz} tsize={ptypeSize h.type} {showHDec input.length (decHeader dl input)}")
    | _, _, _ => ((), "BAD henc args")
  | ["hdec", dl, h] =>
    match dl.toNat?, parseHex h with
    | some dl, some bs => ((), showHDec bs.length (decHeader dl bs))
    | _, _ => ((), "BAD hdec args")
  | _ => ((), "BAD op")

def entries : List (String × IO UInt32) :=
  [("C05hdr", runModel { init := (), step := exact stepHdr })]

end GmQuic.Drv.C05b
