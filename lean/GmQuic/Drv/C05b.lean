import GmQuic.Drv.Core
import GmQuic.Model.Header
import GmQuic.Model.Addr
import GmQuic.Model.ParamsEnc
import GmQuic.Model.CloseBounded
/-!
Line driver for the second part of C05: `C05hdr` (packet-type byte + headers).  Exact comparison;
the canonical rendering is the one of `harness/src/c05b.rs`.
-/
namespace GmQuic.Drv.C05b
open GmQuic.Drv GmQuic.Wire GmQuic.Codec GmQuic.Gen

def b01 (b : Bool) : String := if b then "1" else "0"
def pb (s : String) : Option Bool := if s == "1" then some true else if s == "0" then some false else none

def showHeader : Header → String
  | .vn d s vs => s!"VN {toHex d} {toHex s} {if vs.isEmpty then "-" else ",".intercalate (vs.map toString)}"
  | .retry d s t i => s!"RETRY {toHex d} {toHex s} {toHex t} {toHex i}"
  | .initial d s t => s!"INITIAL {toHex d} {toHex s} {toHex t}"
  | .zeroRtt d s => s!"ZERO_RTT {toHex d} {toHex s}"
  | .handshake d s => s!"HANDSHAKE {toHex d} {toHex s}"
  | .oneRtt spin d => s!"ONE_RTT {b01 spin} {toHex d}"

def parseHeader (ws : List String) : Option Header :=
  match ws with
  | ["VN", d, s, vs] => do
    let vs ← if vs == "-" then some [] else (vs.splitOn ",").mapM String.toNat?
    some (.vn (← parseHex d) (← parseHex s) vs)
  | ["RETRY", d, s, t, i] => do some (.retry (← parseHex d) (← parseHex s) (← parseHex t) (← parseHex i))
  | ["INITIAL", d, s, t] => do some (.initial (← parseHex d) (← parseHex s) (← parseHex t))
  | ["ZERO_RTT", d, s] => do some (.zeroRtt (← parseHex d) (← parseHex s))
  | ["HANDSHAKE", d, s] => do some (.handshake (← parseHex d) (← parseHex s))
  | ["ONE_RTT", sp, d] => do some (.oneRtt (← pb sp) (← parseHex d))
  | _ => none

def codeName : NomCode → String
  | .eof => "Eof" | .tooLarge => "TooLarge" | .verify => "Verify" | .alt => "Alt"

def showHDec (inputLen : Nat) : HRes Header → String
  | .ok h rest => s!"ok used={inputLen - rest.length} {showHeader h}"
  | .err .incomplete => "err Incomplete"
  | .err (.unsupportedVersion v) => s!"err UnsupportedVersion:{v}"
  | .err .invalidFixedBit => "err InvalidFixedBit"
  | .err (.nom c) => s!"err Nom:{codeName c}"
  | .panic _ => "PANIC"

def stepHdr (_ : Unit) (op : List String) : Unit × String :=
  match op with
  | "henc" :: dl :: tail :: hs =>
    match dl.toNat?, parseHex tail, parseHeader hs with
    | some dl, some tail, some h =>
      let bytes := encHeader h
      let input := bytes ++ tail
      let sz := match headerSize h with | some n => toString n | none => "-"
      ((), s!"bytes={toHex bytes} size={sz} tsize={ptypeSize h.type} {showHDec input.length (decHeader dl input)}")
    | _, _, _ => ((), "BAD henc args")
  | ["hdec", dl, h] =>
    match dl.toNat?, parseHex h with
    | some dl, some bs => ((), showHDec bs.length (decHeader dl bs))
    | _, _ => ((), "BAD hdec args")
  | _ => ((), "BAD op")

/-! ### transport-parameter sets (`C05tp`) -/

open GmQuic.Params in
def showVal : PVal → String
  | .varint n => s!"v{n}" | .dur n => s!"d{n}" | .tru => "t" | .bytes b => s!"b{toHex b}"
  | .cid c => s!"c{toHex c}" | .token t => s!"k{toHex t}" | .pref b => s!"p{toHex b}"

open GmQuic.Params in
def parseVal (s : String) : Option PVal :=
  match s.toList with
  | 'v' :: r => (String.ofList r).toNat?.map .varint
  | 'd' :: r => (String.ofList r).toNat?.map .dur
  | ['t'] => some .tru
  | 'b' :: r => (parseHex (String.ofList r)).map .bytes
  | 'c' :: r => (parseHex (String.ofList r)).map .cid
  | 'k' :: r => (parseHex (String.ofList r)).map .token
  | 'p' :: r => (parseHex (String.ofList r)).map .pref
  | _ => none

open GmQuic.Params in
def parseSet (s : String) : Option PMap :=
  if s == "-" then some [] else
  (s.splitOn ",").mapM fun e =>
    match e.splitOn ":" with
    | [id, v] => do some (← id.toNat?, ← parseVal v)
    | _ => none

def insertSorted (e : Nat × String) : List (Nat × String) → List (Nat × String)
  | [] => [e]
  | x :: tl => if e.1 ≤ x.1 then e :: x :: tl else x :: insertSorted e tl

open GmQuic.Params in
def canonSet (m : PMap) : String :=
  let l := m.foldl (fun acc e => insertSorted (e.1, showVal e.2) acc) []
  if l.isEmpty then "-" else ",".intercalate (l.map fun e => s!"{e.1}:{e.2}")

open GmQuic.Params in
def stepTp (_ : Unit) (op : List String) : Unit × String :=
  match op with
  | ["tp", role, set] =>
    match (if role == "c" then some Role.client else if role == "s" then some Role.server else none), parseSet set with
    | some r, some m =>
      -- `m` is listed by ascending id; the harness sorts the chunks of the real output the same way
      let bytes := putParams m
      let parsed := match parse r bytes with | some m' => canonSet m' | none => "err"
      ((), s!"chunks={toHex bytes} parsed={parsed}")
    | _, _ => ((), "BAD tp args")
  | _ => ((), "BAD op")

/-! ### endpoint address / link / preferred address (`C05addr`) -/

def showAddr (a : SockAddr) : String := s!"{if a.v6 then 6 else 4}:{a.ip}:{a.port}"

def parseAddr (s : String) : Option SockAddr :=
  match s.splitOn ":" with
  | [f, ip, port] =>
    match ip.toNat?, port.toNat? with
    | some ip, some port => if f == "6" then some ⟨true, ip, port⟩ else if f == "4" then some ⟨false, ip, port⟩ else none
    | _, _ => none
  | _ => none

def showRes {α} (inputLen : Nat) (sh : α → String) : Res α → String
  | .ok a rest => s!"ok used={inputLen - rest.length} {sh a}"
  | .err .incomplete => "err Incomplete"
  | .err (.nom c) => s!"err Nom:{codeName c}"
  | .err _ => "err ?"
  | .panic _ => "PANIC"

def showEp : EndpointAddr → String
  | .direct a => s!"D {showAddr a}"
  | .agent a o => s!"A {showAddr a} {showAddr o}"

def showLink (l : Link) : String := s!"{showAddr l.src} {showAddr l.dst}"
def showPa (p : PrefAddr) : String := s!"{p.ip4}:{p.port4} {p.ip6}:{p.port6} {toHex p.cid} {toHex p.token}"

def parseIpPort (s : String) : Option (Nat × Nat) :=
  match s.splitOn ":" with
  | [a, b] => do some (← a.toNat?, ← b.toNat?)
  | _ => none

def fam (s : String) : Option Bool := if s == "6" then some true else if s == "4" then some false else none

def stepAddr (_ : Unit) (op : List String) : Unit × String :=
  match op with
  | "ep" :: relay :: f :: tail :: rest =>
    let e : Option EndpointAddr := match rest with
      | ["D", a] => (parseAddr a).map .direct
      | ["A", a, o] => do some (.agent (← parseAddr a) (← parseAddr o))
      | _ => none
    match relay.toNat?, fam f, parseHex tail, e with
    | some relay, some f, some tail, some e =>
      let bytes := encEndpoint e
      let input := bytes ++ tail
      let sz := match endpointSize e with | some n => toString n | none => "PANIC"
      ((), s!"bytes={toHex bytes} size={sz} {showRes input.length showEp (pEndpoint relay f input)}")
    | _, _, _, _ => ((), "BAD ep args")
  | ["epd", relay, f, h] =>
    match relay.toNat?, fam f, parseHex h with
    | some relay, some f, some bs => ((), showRes bs.length showEp (pEndpoint relay f bs))
    | _, _, _ => ((), "BAD epd args")
  | ["ln", tail, s, d] =>
    match parseHex tail, parseAddr s, parseAddr d with
    | some tail, some s, some d =>
      let l : Link := ⟨s, d⟩
      let bytes := encLink l
      let input := bytes ++ tail
      ((), s!"bytes={toHex bytes} size={linkSize l} max={linkMaxSize l} {showRes input.length showLink (pLink input)}")
    | _, _, _ => ((), "BAD ln args")
  | ["lnd", h] =>
    match parseHex h with
    | some bs => ((), showRes bs.length showLink (pLink bs))
    | none => ((), "BAD lnd args")
  | ["pa", tail, a4, a6, cid, tok] =>
    match parseHex tail, parseIpPort a4, parseIpPort a6, parseHex cid, parseHex tok with
    | some tail, some (ip4, p4), some (ip6, p6), some cid, some tok =>
      let p : PrefAddr := ⟨ip4, p4, ip6, p6, cid, tok⟩
      let bytes := encPrefAddr p
      let input := bytes ++ tail
      ((), s!"bytes={toHex bytes} size={prefAddrSize p} {showRes input.length showPa (pPrefAddr input)}")
    | _, _, _, _, _ => ((), "BAD pa args")
  | ["pad", h] =>
    match parseHex h with
    | some bs => ((), showRes bs.length showPa (pPrefAddr bs))
    | none => ((), "BAD pad args")
  | _ => ((), "BAD op")

/-! ### CONNECTION_CLOSE into a bounded buffer (`C05cb`) -/

def stepCb (_ : Unit) (op : List String) : Unit × String :=
  let f : Option (Nat × Frame) := match op with
    | ["cb", rem, "A", code, reason] => do some (← rem.toNat?, .closeApp (← code.toNat?) (← parseHex reason))
    | ["cb", rem, "Q", kind, fty, reason] => do
      let k ← errKindOfNat (← kind.toNat?)
      let n ← fty.toNat?
      let t := match frameTypeOfNat n with | some t => ErrFty.v1 t | none => ErrFty.ext n
      some (← rem.toNat?, .closeQuic k t (← parseHex reason))
    | _ => none
  match f with
  | some (rem, f) =>
    match encCloseBounded rem f with
    | .ok _ b => ((), s!"ok bytes={toHex b}")
    | _ => ((), "PANIC")
  | none => ((), "BAD cb args")

def entries : List (String × IO UInt32) :=
  [("C05hdr", runModel { init := (), step := exact stepHdr }),
   ("C05tp", runModel { init := (), step := exact stepTp }),
   ("C05addr", runModel { init := (), step := exact stepAddr }),
   ("C05cb", runModel { init := (), step := exact stepCb })]

end GmQuic.Drv.C05b
