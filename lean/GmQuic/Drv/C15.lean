import GmQuic.Drv.Core
import GmQuic.Model.AntiAmp
/-!
Line driver for C15.

Run `C15` (exact): the real `AntiAmplifier<3>` and `Constraints` through their public API.

    factor                      => <DEFAULT_ANTI_FACTOR>
    rcvd <n> | sent <n> | grant | abort   => ok|PANIC <tail>
    bal                         => unlimited|none|wait|some:<c> <tail>
    wait                        => ready|pending <tail>      (one poll of tx_waker.wait_for(CREDIT))
    cons <credit> <quota>       => ok
    constrain <buf>             => <n>
    commit <len> <0|1>          => credit=<c> quota=<q> avail=<0|1>
    tail = credit=<c> st=<0|1|2> sig=<0|1>

Run `C15p` (exact): the burst rule, fed by the harness with the variant of the rule it recognised
in the source of the tree (`rule <capPad> <carry> <guardClose>`) and op lists; the observations are
the totals the harness' independent bookkeeping expects (see docs/C15.md: this run ties the model's
burst arithmetic to a second, independently written implementation, not to the Rust).
-/
namespace GmQuic.Drv.C15
open GmQuic.Drv GmQuic.AntiAmp

structure S where
  aa : AA := {}
  cons : Cons := ⟨0, 0⟩

def stNum : St → Nat
  | .normal => 0 | .granted => 1 | .aborted => 2

def tail (a : AA) : String :=
  s!"credit={a.credit} st={stNum a.state} sig={if a.sig then 1 else 0}"

def balStr : Bal → String
  | .unlimited => "unlimited" | .deactivated => "none" | .wait => "wait" | .some c => s!"some:{c}"

def step (s : S) (op : List String) : S × String :=
  match op with
  | ["factor"] => (s, s!"{N}")
  | ["rcvd", n] =>
    match n.toNat? with
    | some n =>
      match s.aa.onRcvd n with
      | (a, .panic) => ({ s with aa := a }, s!"PANIC {tail a}")
      | (a, _) => ({ s with aa := a }, s!"ok {tail a}")
    | none => (s, "BAD rcvd")
  | ["sent", n] =>
    match n.toNat? with
    | some n => let a := s.aa.onSent n; ({ s with aa := a }, s!"ok {tail a}")
    | none => (s, "BAD sent")
  | ["grant"] => let a := s.aa.grant; ({ s with aa := a }, s!"ok {tail a}")
  | ["abort"] => let a := s.aa.abort; ({ s with aa := a }, s!"ok {tail a}")
  | ["bal"] => let (a, b) := s.aa.balance; ({ s with aa := a }, s!"{balStr b} {tail a}")
  | ["wait"] =>
    if s.aa.sig then
      let a := { s.aa with sig := false }; ({ s with aa := a }, s!"ready {tail a}")
    else (s, s!"pending {tail s.aa}")
  | ["cons", c, q] =>
    match c.toNat?, q.toNat? with
    | some c, some q => ({ s with cons := ⟨c, q⟩ }, "ok")
    | _, _ => (s, "BAD cons")
  | ["constrain", b] =>
    match b.toNat? with
    | some b => (s, s!"{s.cons.constrain b}")
    | none => (s, "BAD constrain")
  | ["commit", l, f] =>
    match l.toNat?, f.toNat? with
    | some l, some f =>
      let c := s.cons.commit l (f != 0)
      ({ s with cons := c }, s!"credit={c.credit} quota={c.quota} avail={if c.isAvailable then 1 else 0}")
    | _, _ => (s, "BAD commit")
  | _ => (s, "BAD op")

def model : Model S := { init := {}, step := exact step }

/-! ## C15p: path-level histories under a given rule -/
structure P where
  rule : Rule := Rule.asFound
  st : PathSt := {}

def parsePair (w : String) : Option (Nat × Bool) :=
  match w.splitOn ":" with
  | [a, b] => match a.toNat?, b.toNat? with
    | some a, some b => some (a, b != 0)
    | _, _ => none
  | _ => none

/-- `buf,rev,quota,fallback,w:f,w:f,...` (first pair = Initial). -/
def parseSeg (w : String) : Option Seg :=
  match w.splitOn "," with
  | b :: r :: q :: fb :: i :: rest =>
    match b.toNat?, r.toNat?, q.toNat?, fb.toNat?, parsePair i, rest.mapM parsePair with
    | some b, some r, some q, some fb, some i, some rest =>
      some { buf := b, rev := r, quota := q, initial := i, rest := rest, fallback := fb }
    | _, _, _, _, _, _ => none
  | _ => none

def ptail (s : PathSt) : String :=
  s!"sent={s.sentTotal} rcvd={s.rcvdTotal} uf={if s.underflow then 1 else 0} w={if s.waiting then 1 else 0} {tail s.aa}"

def pstep (p : P) (op : List String) : P × String :=
  let go (o : AaOp) : P × String :=
    let s := Path.stepR p.rule p.st o
    ({ p with st := s }, ptail s)
  match op with
  | ["rule", a, b, c] =>
    match a.toNat?, b.toNat?, c.toNat? with
    | some a, some b, some c => ({ p with rule := ⟨a != 0, b != 0, c != 0⟩ }, "ok")
    | _, _, _ => (p, "BAD rule")
  | ["rcvd", n] => match n.toNat? with
    | some n => go (.rcvd n)
    | none => (p, "BAD rcvd")
  | ["close", n] => match n.toNat? with
    | some n => go (.close n)
    | none => (p, "BAD close")
  | ["grant"] => go .grant
  | ["abort"] => go .abort
  | ["poll"] => go .poll
  | "burst" :: segs =>
    match segs.mapM parseSeg with
    | some segs => go (.burst segs)
    | none => (p, "BAD burst")
  | ["probe"] => (p, "ok")
  | _ => (p, "BAD op")

/-- The `probe` line carries what the source scan found; any well-formed answer is accepted here
(the verdict is the harness monitor's, recorded as known findings). -/
def pstepRel (p : P) (op obs : List String) : P × Option String :=
  match op with
  | ["probe"] =>
    match kvNat obs "found", kvNat obs "capPad", kvNat obs "carry", kvNat obs "guardClose" with
    | some _, some _, some _, some _ => (p, none)
    | _, _, _, _ => (p, some "BAD probe line")
  | _ => exact pstep p op obs

def pmodel : Model P := { init := {}, step := pstepRel }

def entries : List (String × IO UInt32) := [("C15", runModel model), ("C15p", runModel pmodel)]

end GmQuic.Drv.C15
