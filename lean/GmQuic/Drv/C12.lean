import GmQuic.Drv.Core
import GmQuic.Model.Sid
import GmQuic.Model.StreamRules
/-!
Line driver for C12, run `C12i`: `ArcLocalStreamIds` and `ArcRemoteStreamIds` (exact comparison of every
return value, every STREAMS_BLOCKED / MAX_STREAMS frame, the ids yielded by every `NeedCreate`, the wake
count and the private `max` / `unallocated` arrays read from the derived `Debug` output).

    linit <c|s> <mb> <mu> | alloc <bi|uni> | maxstreams <bi|uni> <v> | revise <0|1> <b> <u>
    rinit <c|s> <mb> <mu> <consistent|demand|eager:<w>> | accept <sid> | eos <sid> | blocked <bi|uni> <v>
-/
namespace GmQuic.Drv.C12
open GmQuic.Drv GmQuic.Sid

structure St where
  l : Option Local := none
  r : Option (Remote CtrlSt) := none

def parseRole : String → Option Role
  | "c" => some .client | "s" => some .server | _ => none
def parseDir : String → Option Dir
  | "bi" => some .bi | "uni" => some .uni | _ => none

def parseStrategy (s : String) (mb mu : Nat) : Option CtrlSt :=
  match s.splitOn ":" with
  | ["consistent"] => some (.consistent ⟨mb, mu⟩)
  | ["demand"] => some .demand
  | ["eager", w] => w.toNat?.map fun w => .eager w ⟨mb, mu⟩
  | _ => none

def lTail (l : Local) : String :=
  s!"max={l.max.bi},{l.max.uni} un={l.unalloc.bi},{l.unalloc.uni} op={l.openedStreams .bi},{l.openedStreams .uni}"
def rTail (r : Remote CtrlSt) : String :=
  s!"max={r.max.bi},{r.max.uni} un={r.unalloc.bi},{r.unalloc.uni}"

def lObs (l : Local) : LObs → String
  | .sid s => s!"sid={s} {lTail l}"
  | .exhausted => s!"none {lTail l}"
  | .pending b => s!"pending sb={b} {lTail l}"
  | .done w => s!"ok woke={w} {lTail l}"
  | .panic => "PANIC"

def msTok : Option Nat → String
  | none => ""
  | some m => s!" ms={m}"

/-- ids of a `NeedCreate`: listed when there are at most 16, otherwise `first..last#n`. -/
def idsTok (first last : Nat) : String :=
  let n := (last - first) / 4 + 1
  if n ≤ 16 then ",".intercalate ((List.range n).map fun k => toString (first + 4 * k))
  else s!"{first}..{last}#{n}"

def rObs (r : Remote CtrlSt) : RObs → String
  | .old => s!"old {rTail r}"
  | .new a b f => s!"new ids={idsTok a b}{msTok f} {rTail r}"
  | .exceed m => s!"err limit={m} {rTail r}"
  | .done f => s!"ok{msTok f} {rTail r}"
  | .panic => "PANIC"

def doL (st : St) (op : LOp) : St × String :=
  match st.l with
  | none => (st, "BAD no linit")
  | some l =>
    let (l', o) := l.step op
    ({ st with l := some l' }, lObs l' o)

def doR (st : St) (op : ROp) : St × String :=
  match st.r with
  | none => (st, "BAD no rinit")
  | some r =>
    let (r', o) := r.step std op
    ({ st with r := some r' }, rObs r' o)

def step (st : St) (op : List String) : St × String :=
  match op with
  | ["linit", role, mb, mu] =>
    match parseRole role, mb.toNat?, mu.toNat? with
    | some role, some mb, some mu =>
      match Local.new role mb mu with
      | some l => ({ st with l := some l }, "ok")
      | none => (st, "PANIC")
    | _, _, _ => (st, "BAD linit")
  | ["alloc", d] =>
    match parseDir d with
    | some d => doL st (.alloc d)
    | none => (st, "BAD alloc")
  | ["maxstreams", d, v] =>
    match parseDir d, v.toNat? with
    | some d, some v => doL st (.maxStreams d v)
    | _, _ => (st, "BAD maxstreams")
  | ["revise", rej, b, u] =>
    match rej.toNat?, b.toNat?, u.toNat? with
    | some rej, some b, some u => doL st (.revise (rej != 0) b u)
    | _, _, _ => (st, "BAD revise")
  | ["rinit", role, mb, mu, strat] =>
    match parseRole role, mb.toNat?, mu.toNat? with
    | some role, some mb, some mu =>
      match parseStrategy strat mb mu with
      | some k => ({ st with r := some (Remote.new role mb mu k) }, "ok")
      | none => (st, "BAD strategy")
    | _, _, _ => (st, "BAD rinit")
  | ["accept", s] =>
    match s.toNat? with
    | some s => doR st (.accept s)
    | none => (st, "BAD accept")
  | ["eos", s] =>
    match s.toNat? with
    | some s => doR st (.eos s)
    | none => (st, "BAD eos")
  | ["blocked", d, v] =>
    match parseDir d, v.toNat? with
    | some d, some v => doR st (.blocked d v)
    | _, _ => (st, "BAD blocked")
  | _ => (st, "BAD op")

def model : Model St := { init := {}, step := exact step }

/-! ## C12e / C12d: one real `DataStreams` endpoint

    einit <c|s> <local bi> <local uni> <peer bi> <peer uni> <wbl>,<wbr>,<wu> <strategy>
    einitlate …same…   (peer parameters not yet received) | rparams | rscid | acceptbi | acceptuni
    open <bi|uni> | stream <sid> <off> <len> <0|1> | reset <sid> <final> | stop <sid> | maxsd <sid> <v>
    sdb <sid> <v> | maxstreams <bi|uni> <v> | blocked <bi|uni> <v> | drain
-/
open GmQuic.StreamRules

def dirTok : Dir → String | .bi => "bi" | .uni => "uni"

def idList (l : List Nat) : String := if l.isEmpty then "-" else ",".intercalate (l.map toString)

def errTok : ErrKind → String
  | .streamLimit => "StreamLimit" | .streamState => "StreamState"
  | .finalSize => "FinalSize" | .flowControl => "FlowControl"

def eObs : EObs → String
  | .sid s => s!"sid={s}"
  | .pending sb => s!"pending sb={sb}"
  | .exhausted => "none"
  | .ok n ms => s!"ok={n}" ++ String.join (ms.map fun x => s!" ms={dirTok x.1}:{x.2}")
  | .err k => s!"err {errTok k}"
  | .offered b u => s!"bi={idList b} uni={idList u}"
  | .accepted (some s) => s!"sid={s}"
  | .accepted none => "pending"
  | .pendingParams => "pending sb="
  | .params r => s!"ok ready={if r then 1 else 0}"
  | .panic => "PANIC"

def doE (st : Option Endpoint) (op : EOp) : Option Endpoint × String :=
  match st with
  | none => (st, "BAD no einit")
  | some e =>
    let (e', o) := e.step op
    (some e', eObs o)

def parseWin (s : String) : Option Windows :=
  match (s.splitOn ",").map String.toNat? with
  | [some a, some b, some c] => some ⟨a, b, c⟩
  | _ => none

def stepE (st : Option Endpoint) (op : List String) : Option Endpoint × String :=
  match op with
  | ["einit", role, lb, lu, pb, pu, win, strat] =>
    match parseRole role, lb.toNat?, lu.toNat?, pb.toNat?, pu.toNat?, parseWin win with
    | some role, some lb, some lu, some pb, some pu, some win =>
      match parseStrategy strat lb lu with
      | some k =>
        match Endpoint.new role lb lu pb pu win k with
        | some e => (some e, "ok")
        | none => (none, "PANIC")
      | none => (st, "BAD strategy")
    | _, _, _, _, _, _ => (st, "BAD einit")
  | ["einitlate", role, lb, lu, pb, pu, win, strat] =>
    match parseRole role, lb.toNat?, lu.toNat?, pb.toNat?, pu.toNat?, parseWin win with
    | some role, some lb, some lu, some pb, some pu, some win =>
      match parseStrategy strat lb lu with
      | some k =>
        match Endpoint.newLate role lb lu pb pu win k with
        | some e => (some e, "ok")
        | none => (none, "PANIC")
      | none => (st, "BAD strategy")
    | _, _, _, _, _, _ => (st, "BAD einitlate")
  | ["acceptbi"] => doE st .acceptBi
  | ["acceptuni"] => doE st .acceptUni
  | ["rparams"] => doE st .rparams
  | ["rscid"] => doE st .rscid
  | ["open", d] =>
    match parseDir d with
    | some d => doE st (.open_ d)
    | none => (st, "BAD open")
  | ["stream", s, off, len, fin] =>
    match s.toNat?, off.toNat?, len.toNat?, fin.toNat? with
    | some s, some off, some len, some fin => doE st (.frame .stream s off len (fin != 0))
    | _, _, _, _ => (st, "BAD stream")
  | ["reset", s, f] =>
    match s.toNat?, f.toNat? with
    | some s, some f => doE st (.frame .resetStream s f 0 false)
    | _, _ => (st, "BAD reset")
  | ["stop", s] =>
    match s.toNat? with
    | some s => doE st (.frame .stopSending s 0 0 false)
    | none => (st, "BAD stop")
  | ["maxsd", s, v] =>
    match s.toNat?, v.toNat? with
    | some s, some v => doE st (.frame .maxStreamData s v 0 false)
    | _, _ => (st, "BAD maxsd")
  | ["sdb", s, v] =>
    match s.toNat?, v.toNat? with
    | some s, some v => doE st (.frame .streamDataBlocked s v 0 false)
    | _, _ => (st, "BAD sdb")
  | ["maxstreams", d, v] =>
    match parseDir d, v.toNat? with
    | some d, some v => doE st (.maxStreams d v)
    | _, _ => (st, "BAD maxstreams")
  | ["blocked", d, v] =>
    match parseDir d, v.toNat? with
    | some d, some v => doE st (.streamsBlocked d v)
    | _, _ => (st, "BAD blocked")
  | ["drain"] => doE st .drain
  | _ => (st, "BAD op")

def modelE : Model (Option Endpoint) := { init := none, step := exact stepE }

def entries : List (String × IO UInt32) :=
  [("C12i", runModel model), ("C12x", runModel model), ("C12e", runModel modelE), ("C12d", runModel modelE)]

end GmQuic.Drv.C12
