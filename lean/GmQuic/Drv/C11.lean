import GmQuic.Drv.Core
import GmQuic.Model.Flow
import GmQuic.Model.StreamWindow
import GmQuic.Model.StreamRevise
import GmQuic.Spec.Rfc9000Windows
/-!
Line driver for C11, run `C11c`: both connection-level flow controllers, exact comparison of every
return value, every emitted frame and the private counters (read from the derived `Debug` output).

    init <send m0> <recv m0>
    credit <q> | post <k> <n> | drop <k> | maxdata <m> | revise <0|1> <m> | error | rcvd <n>
-/
namespace GmQuic.Drv.C11
open GmQuic.Drv GmQuic.Flow

structure St where
  s : SendCtl := SendCtl.init 0
  r : RecvCtl := RecvCtl.init 0

def sTail (s : SendCtl) : String :=
  if s.dead then s!"closed open={s.credits.length}"
  else s!"sent={s.sent} max={s.max} lim={if s.limited then 1 else 0} open={s.credits.length}"

def rTail (r : RecvCtl) : String := s!"rcvd={r.rcvd} max={r.max} step={r.step}"

def sendObs (s' : SendCtl) : SendObs → String
  | .credit a none => s!"avail={a} {sTail s'}"
  | .credit a (some m) => s!"avail={a} frame=DB:{m} {sTail s'}"
  | .err => s!"err {sTail s'}"
  | .done => s!"ok {sTail s'}"
  | .panic _ => "PANIC"
  | .bad => "BAD handle"

def doSend (st : St) (op : SendOp) : St × String :=
  let (s', o) := st.s.step op
  ({ st with s := s' }, sendObs s' o)

def step (st : St) (op : List String) : St × String :=
  match op with
  | ["init", a, b] =>
    match a.toNat?, b.toNat? with
    | some a, some b => ({ s := SendCtl.init a, r := RecvCtl.init b }, "ok")
    | _, _ => (st, "BAD init")
  | ["credit", q] =>
    match q.toNat? with
    | some q => doSend st (.credit q)
    | none => (st, "BAD credit")
  | ["post", k, n] =>
    match k.toNat?, n.toNat? with
    | some k, some n => doSend st (.post k n)
    | _, _ => (st, "BAD post")
  | ["drop", k] =>
    match k.toNat? with
    | some k => doSend st (.drop k)
    | none => (st, "BAD drop")
  | ["maxdata", m] =>
    match m.toNat? with
    | some m => doSend st (.maxdata m)
    | none => (st, "BAD maxdata")
  | ["revise", rej, m] =>
    match rej.toNat?, m.toNat? with
    | some rej, some m => doSend st (.revise (rej != 0) m)
    | _, _ => (st, "BAD revise")
  | ["error"] => doSend st .error
  | ["rcvd", n] =>
    match n.toNat? with
    | some n =>
      let (r', o) := st.r.onNewRcvd n
      let st' := { st with r := r' }
      match o with
      | .ok n none => (st', s!"ok={n} {rTail r'}")
      | .ok n (some m) => (st', s!"ok={n} frame=MD:{m} {rTail r'}")
      | .flowControl => (st', s!"err=FlowControl {rTail r'}")
      | .panic _ => (st', "PANIC")
    | none => (st, "BAD rcvd")
  | _ => (st, "BAD op")

def model : Model St := { init := {}, step := exact step }


/-! ## C11w: window-source table

    cell <wiring> <local|remote> <bi|uni> <send|recv> l=<bl>,<br>,<u> r=<bl>,<br>,<u> => limit=<n> | none

An observation agrees when it is the value selected by the table of the unchanged tree
(`codeWindow false`) or by RFC 9000 §18.2 (`rfcWindow` = `codeWindow true`); which of the two is
the property monitor's business (it runs in the harness and knows only the RFC table). -/
open GmQuic.StreamWindow GmQuic.Spec.Rfc9000

def parse3 (s : String) : Option (PId → Nat) :=
  match (s.splitOn ",").map String.toNat? with
  | [some a, some b, some c] => some fun | .bidiLocal => a | .bidiRemote => b | .uni => c
  | _ => none

def parseWiring : String → Option Wiring
  | "client" => some .client | "server" => some .server | "client0rtt" => some .client0rtt | _ => none

def showLimit (p : P6) : Option Src → String
  | none => "none"
  | some s => s!"limit={p.value s}"

def stepW (_ : Unit) (op obs : List String) : Unit × Option String :=
  match op with
  | ["cell", w, ini, dir, side, l, r] =>
    let ini? : Option Initiator := match ini with | "local" => some .loc | "remote" => some .rem | _ => none
    let dir? : Option SDir := match dir with | "bi" => some .bi | "uni" => some .uni | _ => none
    let side? : Option Side := match side with | "send" => some .send | "recv" => some .recv | _ => none
    match parseWiring w, ini?, dir?, side?, (kv [l] "l").bind parse3, (kv [r] "r").bind parse3 with
    | some w, some i, some d, some sd, some l, some r =>
      let p : P6 := ⟨l, r⟩
      let pinned := showLimit p (codeWindow false w i d sd)
      let rfc := showLimit p (rfcWindow i d sd)
      let theirs := " ".intercalate obs
      if theirs == pinned || theirs == rfc then ((), none)
      else ((), some s!"pinned-table:{pinned} rfc-table:{rfc}")
    | _, _, _, _, _, _ => ((), some "BAD cell args")
  | _ => ((), some "BAD op")

def modelW : Model Unit := { init := (), step := stepW }

/-! ## C11s: one endpoint, stream level -/

structure Ep where
  w : Wiring := .client
  p : P6 := ⟨fun _ => 0, fun _ => 0⟩
  ctl : SendCtl := SendCtl.init 0
  rc : RecvCtl := RecvCtl.init 0
  snd : List (Nat × Sndr) := []
  ms : Nat × Nat := (1000000000, 1000000000)   -- `LocalStreamIds::max` (bidi, uni)
  un : Nat × Nat := (0, 0)                     -- `LocalStreamIds::unallocated`
  rcv : List (Nat × Rcvr) := []

def lookup {α : Type} (l : List (Nat × α)) (k : Nat) : Option α := (l.find? (·.1 == k)).map (·.2)
def update {α : Type} (l : List (Nat × α)) (k : Nat) (v : α) : List (Nat × α) :=
  if l.any (·.1 == k) then l.map fun e => if e.1 == k then (k, v) else e else l ++ [(k, v)]

def ctlTail (c : SendCtl) : String :=
  if c.dead then "closed" else s!"sent={c.sent} max={c.max} lim={if c.limited then 1 else 0}"

def framesTok (fs : List String) : String := if fs.isEmpty then "" else " frames=" ++ ",".intercalate fs

def newBlocked (c c' : SendCtl) : List String := (c'.blocked.drop c.blocked.length).map fun m => s!"DB:{m}"
def newAdv (r r' : RecvCtl) : List String := (r'.advertised.drop r.advertised.length).map fun m => s!"MD:{m}"

/-- window observed at open/accept: must be what one of the two tables selects. -/
def winOk (e : Ep) (i : Initiator) (d : SDir) (sd : Side) (v : Nat) : Bool :=
  ((codeWindow false e.w i d sd).map e.p.value == some v) || ((rfcWindow i d sd).map e.p.value == some v)

def rcConn (e : Ep) (n : Nat) : Ep × String :=
  let (r', o) := e.rc.onNewRcvd n
  let tail := s!"rcvd={r'.rcvd} max={r'.max}"
  let fr := framesTok (newAdv e.rc r')
  match o with
  | .ok _ _ => ({ e with rc := r' }, s!"conn=ok{fr} {tail}")
  | .flowControl => ({ e with rc := r' }, s!"conn=FlowControl{fr} {tail}")
  | .panic _ => ({ e with rc := r' }, "PANIC")

def rxShow (e : Ep) (sid : Nat) (r : Rcvr × RxObs) : Ep × String :=
  match r with
  | (h', .fresh n) =>
    let (e', s) := rcConn { e with rcv := update e.rcv sid h' } n
    (e', s!"fresh={n} {s}")
  | (_, .flowControl) => (e, "err=FlowControl")
  | (_, .finalSize) => (e, "err=FinalSize")

def isUni (sid : Nat) : Bool := (sid / 2) % 2 == 1
def isLocal (e : Ep) (sid : Nat) : Bool := sid % 2 == (if e.w == .server then 1 else 0)
def pick2 (p : Nat × Nat) (uni : Bool) : Nat := if uni then p.2 else p.1
def put2 (p : Nat × Nat) (uni : Bool) (v : Nat) : Nat × Nat := if uni then (p.1, v) else (v, p.2)
/-- `LocalStreamIds::opened_streams(dir)`. -/
def openedS (e : Ep) (uni : Bool) : Nat := min (pick2 e.un uni) (pick2 e.ms uni)
/-- `stream_allowed` of `try_load_data_into_once`. -/
def allowedS (e : Ep) (sid : Nat) : Bool := !isLocal e sid || sid / 4 < openedS e (isUni sid)
def noteOpen (e : Ep) (sid : Nat) : Ep := { e with un := put2 e.un (isUni sid) (sid / 4 + 1) }
def parse2 (s : String) : Option (Nat × Nat) :=
  match (s.splitOn ",").map String.toNat? with
  | [some a, some b] => some (a, b)
  | _ => none

/-- `DataStreams::revise_params` + `ArcSendControler::revise_max_data`, the way `apply_parameters` of
`qconnection/src/builder.rs` runs them when the handshake completes. -/
def reviseS (e : Ep) (rej : Bool) (r : PId → Nat) (rmd : Nat) (ms : Nat × Nat) : Ep × String :=
  let ob := openedS e false
  let ou := openedS e true
  let snd' := e.snd.map fun (sid, h) =>
    let uni := isUni sid
    -- `Output::revise_max_stream_data` filters on direction and index only
    if sid / 4 < (if uni then ou else ob) then (sid, h.revise rej (if uni then r .uni else r .bidiRemote))
    else (sid, h.reviseSkipped rej (if uni then r .uni else r .bidiRemote))
  let ctl' := (e.ctl.step (.revise rej rmd)).1
  let base : Nat × Nat := if rej then (0, 0) else e.ms
  let ms' : Nat × Nat := (max base.1 ms.1, max base.2 ms.2)
  let wins := snd'.map fun (sid, h) => if h.rst.isSome then s!"{sid}:-" else s!"{sid}:{h.half.maxData}"
  ({ e with snd := snd', ctl := ctl', ms := ms', p := ⟨e.p.l, r⟩,
            w := if e.w == .client0rtt then .client else e.w },
   s!"ok {ctlTail ctl'} wins={if wins.isEmpty then "-" else ",".intercalate wins}")

/-- `Reader::poll_next` on stream `sidS`. -/
def nextS (e : Ep) (sidS theirs : String) : Ep × Option String :=
  let cmp (e' : Ep) (mine : String) : Ep × Option String := if mine == theirs then (e', none) else (e', some mine)
  match sidS.toNat? with
  | some sid =>
    match lookup e.rcv sid with
    | none => (e, some "BAD next: unknown stream")
    | some h =>
      let (h', o) := h.next
      let e' := { e with rcv := update e.rcv sid h' }
      match o with
      | .half .pending => cmp e' "pending"
      | .half (.read n none) => cmp e' s!"n={n}"
      | .half (.read n (some m)) => cmp e' s!"n={n} frames=MSD:{sid}:{m}"
      | .resetErr => cmp e' "err"
  | none => (e, some "BAD next")

def stepS (e : Ep) (op obs : List String) : Ep × Option String :=
  let theirs := " ".intercalate obs
  let cmp (e' : Ep) (mine : String) : Ep × Option String := if mine == theirs then (e', none) else (e', some mine)
  match op with
  | ["init", w, l, r, lmd, rmd] =>
    match parseWiring w, (kv [l] "l").bind parse3, (kv [r] "r").bind parse3, kvNat [lmd] "lmd", kvNat [rmd] "rmd" with
    | some w, some l, some r, some lmd, some rmd =>
      let ctl := ((SendCtl.init 0).step (.revise false rmd)).1
      let e' : Ep := { w := w, p := ⟨l, r⟩, ctl := ctl, rc := RecvCtl.init lmd }
      cmp e' s!"ok {ctlTail ctl}"
    | _, _, _, _, _ => (e, some "BAD init")
  | ["open", kind] =>
    if theirs == "none" then (e, none) else
    match kvNat obs "sid", kvNat obs "swin" with
    | some sid, some sw =>
      if kind == "bi" then
        match kvNat obs "rwin" with
        | some rw =>
          if winOk e .loc .bi .send sw && winOk e .loc .bi .recv rw then
            (noteOpen { e with snd := update e.snd sid (Sndr.init sw), rcv := update e.rcv sid (Rcvr.mk0 rw) } sid, none)
          else (e, some "window of a local bidi stream comes from neither table")
        | none => (e, some "BAD open obs")
      else
        if winOk e .loc .uni .send sw then (noteOpen { e with snd := update e.snd sid (Sndr.init sw) } sid, none)
        else (e, some "window of a local uni stream comes from neither table")
    | _, _ => (e, some "BAD open obs")
  | ["peeropen", kind, sidS] =>
    match sidS.toNat?, kvNat obs "rwin" with
    | some sid, some rw =>
      -- the creating frame is empty: `on_new_rcvd(0)` may still emit MAX_DATA
      let (r', _) := e.rc.onNewRcvd 0
      let fr := framesTok (newAdv e.rc r')
      let e := { e with rc := r' }
      if kind == "bi" then
        match kvNat obs "swin" with
        | some sw =>
          if winOk e .rem .bi .send sw && winOk e .rem .bi .recv rw then
            cmp { e with snd := update e.snd sid (Sndr.init sw), rcv := update e.rcv sid (Rcvr.mk0 rw) }
              s!"sid={sid} swin={sw} rwin={rw}{fr}"
          else (e, some "window of a peer bidi stream comes from neither table")
        | none => (e, some "BAD peeropen obs")
      else
        if winOk e .rem .uni .recv rw then
          cmp { e with rcv := update e.rcv sid (Rcvr.mk0 rw) } s!"sid={sid} rwin={rw}{fr}"
        else (e, some "window of a peer uni stream comes from neither table")
    | _, _ => (e, some "BAD peeropen")
  | ["write", sidS, nS] =>
    match sidS.toNat?, nS.toNat? with
    | some sid, some n =>
      match lookup e.snd sid with
      | some h =>
        if h.half.finReq || h.rst.isSome then cmp e "err"
        else cmp { e with snd := update e.snd sid { h with half := { h.half with written := h.half.written + n } } } "ok"
      | none => (e, some "BAD write: unknown stream")
    | _, _ => (e, some "BAD write")
  | ["fin", sidS] =>
    match sidS.toNat? with
    | some sid =>
      match lookup e.snd sid with
      | some h =>
        if h.rst.isSome then cmp e "err"   -- `Sender::ResetSent`: `Err(StreamError::Reset)`
        else if theirs == "pending" then ({ e with snd := update e.snd sid { h with half := { h.half with finReq := true } } }, none)
        else if theirs == "done" && h.half.finSent then (e, none)
        else (e, some "pending")
      | none => (e, some "BAD fin: unknown stream")
    | none => (e, some "BAD fin")
  | ["load", capS] =>
    match capS.toNat? with
    | none => (e, some "BAD load")
    | some cap =>
      match kv obs "frame" with
      | none =>
        let ctl' := if cap < 25 then e.ctl else loadCtl e.ctl cap 0
        cmp { e with ctl := ctl' } s!"none{framesTok (newBlocked e.ctl ctl')} {ctlTail ctl'}"
      | some f =>
        match f.splitOn ":" with
        | [sidS, rng, finS] =>
          match sidS.toNat?, (rng.splitOn "..").map String.toNat?, finS.toNat? with
          | some sid, [some a, some b], some fin =>
            if cap < 25 then (e, some "notok: frame emitted into less than STREAM_FRAME_MAX_ENCODING_SIZE") else
            match lookup e.snd sid with
            | none => (e, some "notok: frame on a stream without sending half")
            | some h =>
              if !allowedS e sid then (e, some s!"notok: stream {sid} is beyond opened_streams = {openedS e (isUni sid)} (stream count in force)") else
              match h.emit a b (fin != 0) (availFor e.ctl cap) with
              | none => (e, some s!"notok: illegal frame; stream maxData={h.half.maxData} written={h.half.written} sentHi={h.half.sentHi} finReq={h.half.finReq} reset={h.rst.isSome} avail={availFor e.ctl cap}")
              | some (h', charge) =>
                let ctl' := loadCtl e.ctl cap charge
                cmp { e with ctl := ctl', snd := update e.snd sid h' }
                  s!"frame={sid}:{a}..{b}:{fin}{framesTok (newBlocked e.ctl ctl')} {ctlTail ctl'}"
          | _, _, _ => (e, some "BAD frame token")
        | _ => (e, some "BAD frame token")
  | ["msd", sidS, mS] =>
    match sidS.toNat?, mS.toNat? with
    | some sid, some m =>
      match lookup e.snd sid with
      | some h =>
        let h' := h.updateWindow m
        -- once the FIN is out the stream may have reached `DataRcvd` (all acked): no `SendBuf` left to show
        if theirs == "ok win=-" && (h.half.finSent || h.rst.isSome) then ({ e with snd := update e.snd sid h' }, none) else
        if h.rst.isSome then cmp { e with snd := update e.snd sid h' } "ok win=-" else
        cmp { e with snd := update e.snd sid h' } s!"ok win={h'.half.maxData}"
      | none => (e, some "BAD msd: unknown stream")
    | _, _ => (e, some "BAD msd")
  | ["md", mS] =>
    match mS.toNat? with
    | some m =>
      let ctl' := (e.ctl.step (.maxdata m)).1
      cmp { e with ctl := ctl' } s!"ok {ctlTail ctl'}"
    | none => (e, some "BAD md")
  | ["ack", _, _, _, _] => cmp e "ok"
  | ["lose", _, _, _, _] => cmp e "ok"
  | ["rx", sidS, offS, lenS, finS] =>
    match sidS.toNat?, offS.toNat?, lenS.toNat?, finS.toNat? with
    | some sid, some off, some len, some fin =>
      match lookup e.rcv sid with
      | none => (e, some "BAD rx: unknown stream")
      | some h =>
        -- the FIN-limit fix is in the tree (36fc566): only `fixed = true` agrees
        let (e1, s1) := rxShow e sid (h.rx true off len (fin != 0))
        if s1 == theirs then (e1, none) else (e1, some s1)
    | _, _, _, _ => (e, some "BAD rx")
  | ["read", sidS, capS] =>
    match sidS.toNat?, capS.toNat? with
    | some sid, some cap =>
      match lookup e.rcv sid with
      | none => (e, some "BAD read: unknown stream")
      | some h =>
        let (h', o) := h.read cap
        let e' := { e with rcv := update e.rcv sid h' }
        match o with
        | .half .pending => cmp e' "pending"
        | .half (.read n none) => cmp e' s!"n={n}"
        | .half (.read n (some m)) => cmp e' s!"n={n} frames=MSD:{sid}:{m}"
        | .resetErr => cmp e' "err"
    | _, _ => (e, some "BAD read")
  | ["zrtt", msS] =>
    match (kv [msS] "ms").bind parse2 with
    | some ms => cmp { e with ms := ms } "ok"
    | none => (e, some "BAD zrtt")
  | ["maxstreams", d, vS] =>
    match vS.toNat? with
    | some v => cmp { e with ms := put2 e.ms (d == "uni") (max (pick2 e.ms (d == "uni")) v) } "ok"
    | none => (e, some "BAD maxstreams")
  | ["revise", rejS, r, rmd, msS] =>
    match rejS.toNat?, (kv [r] "r").bind parse3, kvNat [rmd] "rmd", (kv [msS] "ms").bind parse2 with
    | some rej, some r, some rmd, some ms =>
      let (e', mine) := reviseS e (rej != 0) r rmd ms
      cmp e' mine
    | _, _, _, _ => (e, some "BAD revise")
  | ["stop", sidS, codeS] =>
    match sidS.toNat?, codeS.toNat? with
    | some sid, some code =>
      match lookup e.rcv sid with
      | none => (e, some "BAD stop: unknown stream")
      | some h =>
        let (h', fr) := h.stop code
        cmp { e with rcv := update e.rcv sid h' } (if fr then s!"ok frames=STOP:{sid}" else "ok")
    | _, _ => (e, some "BAD stop")
  | ["dropreader", sidS] =>
    match sidS.toNat? with
    | some sid =>
      match lookup e.rcv sid with
      | none => (e, some "BAD dropreader: unknown stream")
      | some h => cmp { e with rcv := update e.rcv sid (h.step true true .dropReader) } "ok"
    | none => (e, some "BAD dropreader")
  | ["reset", sidS, finalS] =>
    match sidS.toNat?, finalS.toNat? with
    | some sid, some final =>
      match lookup e.rcv sid with
      | none => (e, some "BAD reset: unknown stream")
      | some h =>
        -- `Recv::recv_reset` compares the final size with the stream limit (`rfix = true`,
        -- fix-C11-reset-limit): exact comparison
        let shw (r : Rcvr × RstObs) : Ep × String :=
          match r with
          | (h', .sync n) =>
            let (e', s) := rcConn { e with rcv := update e.rcv sid h' } n
            (e', s!"sync={n} {s}")
          | (_, .finalSize) => (e, "err=FinalSize")
          | (_, .flowControl) => (e, "err=FlowControl")
        let (e1, s1) := shw (h.reset true final)
        if s1 == theirs then (e1, none) else (e1, some s1)
    | _, _ => (e, some "BAD reset")
  | [op, sidS] =>
    if op == "rstack" then cmp e "ok" else
    if op == "next" then nextS e sidS theirs else
    if op == "cancel" || op == "stopsending" then
      match sidS.toNat? with
      | some sid =>
        match lookup e.snd sid with
        | none => (e, some s!"BAD {op}: unknown stream")
        | some h =>
          -- `Sender::DataRcvd` (FIN out and everything acked; acks are C09's): nothing happens
          if theirs == "ok" && h.half.finSent && h.rst.isNone then (e, none) else
          let (h', fr) := h.resetNow
          cmp { e with snd := update e.snd sid h' }
            (match fr with | some f => s!"ok frames=RST:{sid}:{f}" | none => "ok")
      | none => (e, some s!"BAD {op}")
    else (e, some "BAD op")
  | _ => (e, some "BAD op")

def modelS : Model Ep := { init := {}, step := stepS }

def entries : List (String × IO UInt32) :=
  [("C11c", runModel model), ("C11w", runModel modelW), ("C11s", runModel modelS)]

end GmQuic.Drv.C11
