import GmQuic.Drv.Core
import GmQuic.Model.Flow
/-!
Line driver for C11, run `C11c`: both connection-level flow controllers, exact comparison of every
return value, every emitted frame and the private counters (read from the derived `Debug` output).

    init <send m0> <recv m0>
    credit <q> | post <k> <n> | drop <k> | maxdata <m> | revise <0|1> <m> | error | rcvd <n>
-/
namespace GmQuic.Drv.C11
open GmQuic.Drv GmQuic.Flow

structure St where
  s : SendCtl := SendCtl.init 0
  r : RecvCtl := RecvCtl.init 0

def sTail (s : SendCtl) : String :=
  if s.dead then s!"closed open={s.credits.length}"
  else s!"sent={s.sent} max={s.max} lim={if s.limited then 1 else 0} open={s.credits.length}"

def rTail (r : RecvCtl) : String := s!"rcvd={r.rcvd} max={r.max} step={r.step}"

def sendObs (s' : SendCtl) : SendObs → String
  | .credit a none => s!"avail={a} {sTail s'}"
  | .credit a (some m) => s!"avail={a} frame=DB:{m} {sTail s'}"
  | .err => s!"err {sTail s'}"
  | .done => s!"ok {sTail s'}"
  | .panic _ => "PANIC"
  | .bad => "BAD handle"

def doSend (st : St) (op : SendOp) : St × String :=
  let (s', o) := st.s.step op
  ({ st with s := s' }, sendObs s' o)

def step (st : St) (op : List String) : St × String :=
  match op with
  | ["init", a, b] =>
    match a.toNat?, b.toNat? with
    | some a, some b => ({ s := SendCtl.init a, r := RecvCtl.init b }, "ok")
    | _, _ => (st, "BAD init")
  | ["credit", q] =>
    match q.toNat? with
    | some q => doSend st (.credit q)
    | none => (st, "BAD credit")
  | ["post", k, n] =>
    match k.toNat?, n.toNat? with
    | some k, some n => doSend st (.post k n)
    | _, _ => (st, "BAD post")
  | ["drop", k] =>
    match k.toNat? with
    | some k => doSend st (.drop k)
    | none => (st, "BAD drop")
  | ["maxdata", m] =>
    match m.toNat? with
    | some m => doSend st (.maxdata m)
    | none => (st, "BAD maxdata")
  | ["revise", rej, m] =>
    match rej.toNat?, m.toNat? with
    | some rej, some m => doSend st (.revise (rej != 0) m)
    | _, _ => (st, "BAD revise")
  | ["error"] => doSend st .error
  | ["rcvd", n] =>
    match n.toNat? with
    | some n =>
      let (r', o) := st.r.onNewRcvd n
      let st' := { st with r := r' }
      match o with
      | .ok n none => (st', s!"ok={n} {rTail r'}")
      | .ok n (some m) => (st', s!"ok={n} frame=MD:{m} {rTail r'}")
      | .flowControl => (st', s!"err=FlowControl {rTail r'}")
      | .panic _ => (st', "PANIC")
    | none => (st, "BAD rcvd")
  | _ => (st, "BAD op")

def model : Model St := { init := {}, step := exact step }

def entries : List (String × IO UInt32) := [("C11c", runModel model)]

end GmQuic.Drv.C11
