import GmQuic.Drv.Core
/-! Line driver for the whole-connection simulator legs of C15 / C17 / C19 (`harness2/src/c15.rs`, `c17.rs`, `c19.rs`).
The property monitors of these legs live in the harness and are model independent; this driver only re-checks the
arithmetic relations the summary lines must satisfy (so a harness that mis-counts is noticed) and the grammar:
* `amp … => rcvd= sent= worst=<a>/<b> validated_at= complete=`
* `dg <ep> … accepted= frames_sent= frames_rcvd= read= echo= => ok` : dispatched ≤ sent frames, read ≤ dispatched (a network
  without duplication), nothing is read that was not accepted
* `close … => released=<n>/<m> …` : n ≤ m ;  `idle a= b= => c= s=` -/
namespace GmQuic.Drv.Sim
open GmQuic.Drv

def frac (s : String) : Option (Nat × Nat) :=
  match s.splitOn "/" with
  | [a, b] => match a.toNat?, b.toNat? with
    | some x, some y => some (x, y)
    | _, _ => none
  | _ => none

def step (s : Unit) (op obs : List String) : Unit × Option String :=
  match op with
  | "amp" :: _ =>
    match kvNat obs "rcvd", kvNat obs "sent", (kv obs "worst").bind frac with
    | some _, some _, some _ => (s, none)
    | _, _, _ => (s, some "BAD amp line")
  | "dg" :: rest =>
    match kvNat rest "accepted", kvNat rest "frames_sent", kvNat rest "frames_rcvd", kvNat rest "read" with
    | some a, some fs, some fr, some rd =>
      if fr ≤ fs ∧ rd ≤ fr ∧ rd ≤ a then (s, none)
      else (s, some s!"datagram counts inconsistent: accepted={a} frames_sent={fs} frames_rcvd={fr} read={rd}")
    | _, _, _, _ => (s, some "BAD dg line")
  | "close" :: _ =>
    match (kv obs "released").bind frac with
    | some (n, m) => if n ≤ m then (s, none) else (s, some "released more operations than were parked")
    | none => if obs == ["no-result"] then (s, none) else (s, some "BAD close line")
  | "idle" :: _ => (s, none)
  | _ => (s, some "BAD op")

def model : Model Unit := { init := (), step := step }

def entries : List (String × IO UInt32) :=
  [("c15_e2e", runModel model), ("c17_close", runModel model), ("c17_idle", runModel model), ("c19_e2e", runModel model)]

end GmQuic.Drv.Sim
