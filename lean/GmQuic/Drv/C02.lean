import GmQuic.Drv.Core
import GmQuic.Model.Net
/-! Line driver for C02: validates the application-level history of an end-to-end simulator run (real dquic client
and server, `harness2/src/c02.rs`) as a trace of the application projection of `Model/Net.lean` (relational mode):
every read must be legal given what the peer application wrote (`AppDir.readOk` — the conclusion of
`Net.net_safety` / C01 `read_is_prefix`), EOF only at the end (`AppDir.eofOk` — `eof_only_at_end`), only opened
streams are accepted, and a connection ends only by application close or loss of the path
(`allowedTerm` — `no_error_from_tampering`). -/
namespace GmQuic.Drv.C02
open GmQuic.Drv GmQuic.Net

/-- key: (stream id, writer endpoint "c"/"s") -/
abbrev St := List ((Nat × String) × AppDir)

def get (s : St) (k : Nat × String) : Option AppDir := (s.find? (fun e => e.1 == k)).map (·.2)
def put (s : St) (k : Nat × String) (v : AppDir) : St := (k, v) :: s.filter (fun e => e.1 != k)

def peer (ep : String) : String := if ep == "c" then "s" else "c"
def isBidi (sid : Nat) : Bool := sid % 4 < 2
/-- the endpoint that opens stream `sid` (bit 0 of the id) -/
def opener (sid : Nat) : String := if sid % 2 == 0 then "c" else "s"

def step (s : St) (op obs : List String) : St × Option String :=
  match op with
  | ["cfg", _, _] => (s, none)
  | "wire" :: _ => (s, none)
  | ["end"] => (s, none)
  | ["close", _] => (s, none)
  | "serr" :: _ => (s, none)
  | ["open", ep, sid, key] =>
    match sid.toNat?, key.toNat? with
    | some sid, some key =>
      if opener sid != ep then (s, some s!"stream {sid} cannot be opened by {ep}") else
      let d : AppDir := { key := key, opened := true }
      let s1 := put s (sid, ep) d
      (if isBidi sid then put s1 (sid, peer ep) d else s1, none)
    | _, _ => (s, some "BAD open args")
  | ["accept", ep, sid] =>
    match sid.toNat? with
    | some sid =>
      match get s (sid, peer ep) with
      | some d => if d.opened && opener sid == peer ep then (s, none) else (s, some s!"accepted stream {sid} the peer never opened")
      | none => (s, some s!"accepted stream {sid} the peer never opened")
    | none => (s, some "BAD accept args")
  | ["w", ep, sid, n] =>
    match sid.toNat?, n.toNat? with
    | some sid, some n =>
      match get s (sid, ep) with
      | some d => if d.fin then (s, some "write accepted after shutdown") else (put s (sid, ep) { d with written := d.written + n }, none)
      | none => (s, some s!"write on unopened stream {sid}")
    | _, _ => (s, some "BAD w args")
  | ["sd", ep, sid] =>
    match sid.toNat? with
    | some sid =>
      match get s (sid, ep) with
      | some d => (put s (sid, ep) { d with fin := true }, none)
      | none => (s, some s!"shutdown of unopened stream {sid}")
    | none => (s, some "BAD sd args")
  | ["fin", ep, sid] =>
    match sid.toNat? with
    | some sid =>
      match get s (sid, ep) with
      | some d => if d.fin then (s, none) else (s, some "shutdown completed without being requested")
      | none => (s, some s!"shutdown of unopened stream {sid}")
    | none => (s, some "BAD fin args")
  | ["r", ep, sid, n] =>
    match sid.toNat?, n.toNat?, kvNat obs "a", kvNat obs "s" with
    | some sid, some n, some a, some sm =>
      match get s (sid, peer ep) with
      | some d =>
        if d.readOk n a sm then (put s (sid, peer ep) { d with nread := d.nread + n, a := a, s := sm }, none)
        else
          let (a', s') := sumsFrom d.key d.nread n (d.a, d.s)
          (s, some s!"illegal read: nread={d.nread} n={n} written={d.written} eof={d.eof} expected a={a'} s={s'}")
      | none => (s, some s!"read on unopened stream {sid}")
    | _, _, _, _ => (s, some "BAD r args")
  | ["eof", ep, sid] =>
    match sid.toNat? with
    | some sid =>
      match get s (sid, peer ep) with
      | some d =>
        if d.eofOk then (put s (sid, peer ep) { d with eof := true }, none)
        else (s, some s!"illegal EOF: nread={d.nread} written={d.written} fin={d.fin}")
      | none => (s, some s!"EOF on unopened stream {sid}")
    | none => (s, some "BAD eof args")
  | ["term", ep] =>
    match obs with
    | [k] => if allowedTerm k then (s, none) else (s, some s!"{ep}: connection ended with {k}; the abstract stack allows only app close / path loss")
    | _ => (s, some "BAD term obs")
  | _ => (s, some "BAD op")

def model : Model St := { init := [], step := step }

def entries : List (String × IO UInt32) := [("c02_net", runModel model), ("c02_inject", runModel model), ("c02_wire", runModel model)]

end GmQuic.Drv.C02
