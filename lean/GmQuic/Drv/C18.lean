import GmQuic.Drv.Core
import GmQuic.Model.Params
/-! Line driver for C18 (transport parameters), exact comparison of every observable. -/
namespace GmQuic.Drv.C18
open GmQuic.Drv GmQuic.Params GmQuic.Gen.Params

def roleOf : String → Option Role
  | "c" => some .client
  | "s" => some .server
  | _ => none

def showVal : PVal → String
  | .varint n => s!"v{n}"
  | .dur n => s!"d{n}"
  | .tru => "t"
  | .bytes b => s!"b{toHex b}"
  | .cid b => s!"c{toHex b}"
  | .token b => s!"k{toHex b}"
  | .pref b => s!"p{toHex b}"

def parseVal (s : String) : Option PVal :=
  match s.toList with
  | 'v' :: r => (String.ofList r).toNat?.map .varint
  | 'd' :: r => (String.ofList r).toNat?.map .dur
  | ['t'] => some .tru
  | 'b' :: r => (parseHex (String.ofList r)).map .bytes
  | 'c' :: r => (parseHex (String.ofList r)).map .cid
  | 'k' :: r => (parseHex (String.ofList r)).map .token
  | 'p' :: r => (parseHex (String.ofList r)).map .pref
  | _ => none

def insertSorted (e : Nat × PVal) : List (Nat × PVal) → List (Nat × PVal)
  | [] => [e]
  | x :: xs => if e.1 ≤ x.1 then e :: x :: xs else x :: insertSorted e xs

/-- Stored entries sorted by id (the harness enumerates the known ids in increasing order). -/
def canon (m : PMap) : String :=
  if m.isEmpty then "-" else
  ",".intercalate ((m.foldr insertSorted []).map fun e =>
    -- a stored value of another type than the id's is invisible to the typed `get::<V>` (prints `?`)
    let shown := match row? e.1 with
      | some row => if e.2.ty == row.ty then showVal e.2 else "?"
      | none => "?"
    s!"{e.1}:{shown}")

def tyName : Ty → String
  | .varint => "varint" | .boolean => "boolean" | .bytes => "bytes" | .duration => "duration"
  | .resetToken => "resetToken" | .connectionId => "connectionId" | .preferredAddress => "preferredAddress"

def b01 (b : Bool) : String := if b then "1" else "0"

def tail (s : St) : String :=
  let idle := match s.negotiated with
    | none => "none"
    | some none => "max"
    | some (some n) => toString n
  let iscid := match s.core.initialScid with | none => "none" | some c => toHex c
  s!"rcvd={b01 s.core.received} ready={b01 s.core.ready} rem={b01 s.remembered} idle={idle} wakes={s.wakes} iscid={iscid}"

def showObs (s : St) : Obs → String
  | .ok => s!"ok {tail s}"
  | .errTP => s!"err TP {tail s}"
  | .errConn => "err conn"
  | .panic _ => "PANIC"
  | .pollReady => s!"ready {tail s}"
  | .pollPending => s!"pending {tail s}"

abbrev DS := Option St

def connOp (ds : DS) (op : Op) : DS × String :=
  match ds with
  | none => (none, "BAD no connection")
  | some s =>
    let (s', o) := step s op
    match op, o with
    | .connErr, .ok => (some s', "ok")
    | _, _ => (some s', showObs s' o)

def stepF (ds : DS) (op : List String) : DS × String :=
  match op with
  | ["new", r, idle, od, rem] =>
    match roleOf r, idle.toNat?, parseHex od with
    | some r, some i, some o =>
      let s : St := { core := { role := r, odcid := o }, localIdle := i, remembered := rem == "1" }
      (some s, s!"ok {tail s}")
    | _, _, _ => (ds, "BAD new args")
  | ["recv", h] => match parseHex h with | some b => connOp ds (.recv b) | none => (ds, "BAD hex")
  | ["scid", h] => match parseHex h with | some b => connOp ds (.scid b) | none => (ds, "BAD hex")
  | ["retry", h] => match parseHex h with | some b => connOp ds (.retry b) | none => (ds, "BAD hex")
  | ["poll"] => connOp ds .poll
  | ["query"] => connOp ds .query
  | ["connerr"] => connOp ds .connErr
  | ["parse", r, h] =>
    match roleOf r, parseHex h with
    | some r, some b => (ds, match parse r b with | none => "err TP" | some m => s!"ok {canon m}")
    | _, _ => (ds, "BAD parse args")
  | ["apply", r, h] =>
    match roleOf r, parseHex h with
    | some r, some b => (ds, match parse r b with | none => "err TP" | some _ => "ok")
    | _, _ => (ds, "BAD apply args")
  | ["set", r, id, v] =>
    match roleOf r, id.toNat?, parseVal v with
    | some r, some id, some v =>
      match row? id with
      | none => (ds, "BAD unknown id")
      | some row =>
        (ds, match setRow r [] row v with
          | .ok m => s!"ok {canon m}"
          | .error .role => "err role"
          | .error .type => "err type"
          | .error .bounds => "err bounds")
    | _, _, _ => (ds, "BAD set args")
  | ["info", id] =>
    match id.toNat? with
    | none => (ds, "BAD info args")
    | some id =>
      match row? id with
      | none => (ds, "unknown")
      | some row =>
        let d := match row.dflt with | none => "none" | some d => showVal (dfltVal d)
        (ds, s!"known ty={tyName row.ty} dflt={d} c={b01 (belongTo row.id .client)} s={b01 (belongTo row.id .server)}")
  | ["zrtt", o, n] =>
    match parseHex o, parseHex n with
    | some o, some n =>
      match parse .server o, parse .server n with
      | some mo, some mn => (ds, match zeroRttAccepted mo mn with | some a => s!"acc={b01 a}" | none => "PANIC")
      | _, _ => (ds, "err")
    | _, _ => (ds, "BAD zrtt args")
  | ["idlecfg", l, r] =>
    match l.toNat?, r.toNat? with
    | some l, some r => (ds, s!"max={idleConfigNegotiate l r}")
    | _, _ => (ds, "BAD idlecfg args")
  | _ => (ds, "BAD op")

def model : Model DS := { init := none, step := exact stepF }

def entries : List (String × IO UInt32) :=
  [("C18", runModel model), ("C18t", runModel model), ("C18x", runModel model)]

end GmQuic.Drv.C18
