import GmQuic.Model.Params
/-!
RFC 9000 transport parameters — the SPECIFICATION, written by hand from the RFC text (not from the code).

§18.2  Transport Parameter Definitions (id, value, who may send it, range):
  0x00 original_destination_connection_id  cid       server only ("sent only by a server")
  0x01 max_idle_timeout                    ms        any value; 0 / absent = no timeout
  0x02 stateless_reset_token               16 bytes  "MUST NOT be sent by a client, but MAY be sent by a server"
  0x03 max_udp_payload_size                int       "Values below 1200 are invalid"; default 65527 = "the maximum
                                                     permitted UDP payload" (taken as the upper bound)
  0x04 initial_max_data                    int
  0x05/0x06/0x07 initial_max_stream_data_{bidi_local,bidi_remote,uni}   int
  0x08/0x09 initial_max_streams_{bidi,uni} int       "If a max_streams transport parameter … is received with a value
                                                     greater than 2^60 … TRANSPORT_PARAMETER_ERROR" (§4.6)
  0x0a ack_delay_exponent                  int       "Values above 20 are invalid", default 3
  0x0b max_ack_delay                       ms        "Values of 2^14 or greater are invalid", default 25
  0x0c disable_active_migration            flag      zero-length value
  0x0d preferred_address                   struct    "only sent by a server"
  0x0e active_connection_id_limit          int       "MUST be at least 2 … Values less than 2 … TRANSPORT_PARAMETER_ERROR"
  0x0f initial_source_connection_id        cid       both
  0x10 retry_source_connection_id          cid       "sent only by a server"
  "A client MUST NOT include any server-only transport parameter: original_destination_connection_id,
   preferred_address, retry_source_connection_id, or stateless_reset_token.  A server MUST treat receipt of any of
   these transport parameters as a connection error of type TRANSPORT_PARAMETER_ERROR."
RFC 9221 §3   0x20   max_datagram_frame_size  int
RFC 9287 §3   0x2ab2 grease_quic_bit          flag
genmeta       0xffee client_name              bytes, sent by a client only (qbase doc comment "Genemta extension")
§7.3   Authenticating connection IDs: "An endpoint MUST treat the absence of the initial_source_connection_id
  transport parameter from either endpoint or the absence of the original_destination_connection_id transport
  parameter from the server as a connection error of type TRANSPORT_PARAMETER_ERROR"; the declared values MUST equal
  the ones seen on the wire; retry_source_connection_id present iff a Retry was received (and then equal).
§7.4   "An endpoint MUST treat receipt of a transport parameter with an invalid value as a connection error of type
  TRANSPORT_PARAMETER_ERROR"; unknown ids MUST be ignored.
§7.4.1 0-RTT: remembered values may be used only if the server's new values are not smaller for initial_max_data,
  initial_max_stream_data_*, initial_max_streams_*, active_connection_id_limit (+ max_datagram_frame_size, RFC 9221).
§10.1  "the effective value at an endpoint is computed as the minimum of the two advertised values (or the sole
  advertised value, if only one endpoint advertises a non-zero value)"; both zero/absent ⇒ no idle timeout.
-/
namespace GmQuic.Spec.Rfc9000Params
open GmQuic.Params GmQuic.Gen.Params

/-- One row of the RFC table. `range = none`: every value of the type is legal. -/
structure SRow where
  id : Nat
  ty : Ty
  range : Option (Nat × Nat)
  serverOnly : Bool
  clientOnly : Bool
  deriving DecidableEq, Repr

def table : List SRow := [
  ⟨0x00, .connectionId, none, true, false⟩,
  ⟨0x01, .duration, none, false, false⟩,
  ⟨0x02, .resetToken, none, true, false⟩,
  ⟨0x03, .varint, some (1200, 65527), false, false⟩,
  ⟨0x04, .varint, none, false, false⟩,
  ⟨0x05, .varint, none, false, false⟩,
  ⟨0x06, .varint, none, false, false⟩,
  ⟨0x07, .varint, none, false, false⟩,
  ⟨0x08, .varint, some (0, 2 ^ 60), false, false⟩,
  ⟨0x09, .varint, some (0, 2 ^ 60), false, false⟩,
  ⟨0x0a, .varint, some (0, 20), false, false⟩,
  ⟨0x0b, .duration, some (0, 2 ^ 14 - 1), false, false⟩,
  ⟨0x0c, .boolean, none, false, false⟩,
  ⟨0x0d, .preferredAddress, none, true, false⟩,
  ⟨0x0e, .varint, some (2, 2 ^ 62 - 1), false, false⟩,
  ⟨0x0f, .connectionId, none, false, false⟩,
  ⟨0x10, .connectionId, none, true, false⟩,
  ⟨0x20, .varint, none, false, false⟩,
  ⟨0x2ab2, .boolean, none, false, false⟩,
  ⟨0xffee, .bytes, none, false, true⟩
]

def inRange : Option (Nat × Nat) → PVal → Bool
  | none, _ => true
  | some b, .varint n => b.1 ≤ n && n ≤ b.2
  | some b, .dur n => b.1 ≤ n && n ≤ b.2
  | some _, _ => true

/-- May `sender` send a parameter of this row? -/
def roleOk (row : SRow) (sender : Role) : Bool :=
  !(row.serverOnly && sender != .server) && !(row.clientOnly && sender != .client)

def rowLegal (row : SRow) (sender : Role) (v : PVal) : Bool :=
  roleOk row sender && v.ty == row.ty && inRange row.range v

/-- §18.2/§7.4: the parameter (id, value) sent by `sender` is known, allowed for that role, of the right type and in range. -/
def legal (sender : Role) (id : Nat) (v : PVal) : Bool :=
  match table.find? (fun r => r.id == id) with
  | none => false
  | some row => rowLegal row sender v

/-- §7.3: parameters whose absence is a TRANSPORT_PARAMETER_ERROR. -/
def mandatory : Role → List Nat
  | .client => [0x0f]
  | .server => [0x0f, 0x00]

/-- §7.4.1 (+ RFC 9221): limits that must not shrink for remembered parameters to be usable. -/
def zeroRttIds : List Nat := [0x04, 0x05, 0x06, 0x07, 0x08, 0x09, 0x0e, 0x20]

/-- §18.2 defaults of the integer parameters (absent = default). -/
def dflt (id : Nat) : Nat := if id == 0x0e then 2 else if id == 0x03 then 65527 else if id == 0x0a then 3 else 0

/-- §10.1: effective idle timeout of two advertised values (`none` = no idle timeout). -/
def effectiveIdle (a b : Nat) : Option Nat :=
  match a, b with
  | 0, 0 => none
  | 0, x => some x
  | x, 0 => some x
  | x, y => some (min x y)

end GmQuic.Spec.Rfc9000Params
