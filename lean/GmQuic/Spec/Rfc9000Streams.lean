import GmQuic.Model.StreamRules
/-!
RFC 9000 stream rules, hand-written from the text (not from the code), used as the specification.

§2.1  The least significant bit of a stream id identifies the initiator (0 client, 1 server), the second
      least significant bit distinguishes bidirectional (0) from unidirectional (1) streams.
      Unidirectional streams carry data in one direction: from the initiator of the stream to its peer.
§3    An endpoint has a *sending part* on: bidirectional streams, and unidirectional streams it initiated;
      a *receiving part* on: bidirectional streams, and unidirectional streams initiated by the peer.
§19.4 RESET_STREAM     "for a send-only stream MUST terminate the connection with error STREAM_STATE_ERROR"
§19.5 STOP_SENDING     "for a receive-only stream MUST terminate the connection with error STREAM_STATE_ERROR"
§19.8 STREAM           "... or for a send-only stream" ⇒ STREAM_STATE_ERROR
§19.10 MAX_STREAM_DATA "for a receive-only stream MUST terminate the connection with error STREAM_STATE_ERROR"
§19.13 STREAM_DATA_BLOCKED "for a send-only stream MUST terminate the connection with error STREAM_STATE_ERROR"
§4.6  A limit of N streams allows the stream indices 0 .. N-1; "An endpoint that receives a frame with a
      stream ID exceeding the limit it has sent MUST treat this as a connection error of type
      STREAM_LIMIT_ERROR".  MAX_STREAMS values that do not increase the limit are ignored by the receiver,
      so the limit in force is the largest value ever sent.
§3.2  "Before a stream is created, all streams of the same type with lower-numbered stream IDs MUST be created."
§4.5  Final size: FINAL_SIZE_ERROR if (a) a final size is below data already received, (b) data arrives at
      or beyond the known final size, (c) a STREAM or RESET_STREAM changes the known final size.
§19.5/§19.8/§19.10 additionally: STOP_SENDING / STREAM / MAX_STREAM_DATA "for a locally initiated stream
      that has not yet been created" ⇒ STREAM_STATE_ERROR (`mustBeCreated`).
Core-only imports (the driver does not need this file; the proofs do).
-/
namespace GmQuic.Spec.Rfc9000Streams
open GmQuic.Sid GmQuic.StreamRules

/-- §2.1/§3: does the endpoint have a receiving part on a stream of direction `d` that was initiated by
the peer (`peerInit`) or by itself? -/
def hasRecvPart (peerInit : Bool) (d : Dir) : Bool :=
  match d with
  | .bi => true
  | .uni => peerInit          -- data flows from the initiator to its peer

/-- §2.1/§3: does the endpoint have a sending part? -/
def hasSendPart (peerInit : Bool) (d : Dir) : Bool :=
  match d with
  | .bi => true
  | .uni => !peerInit

/-- Which part of the receiving endpoint's stream a frame kind addresses (§19.4–§19.13). -/
def addressesRecvPart : FrameKind → Bool
  | .stream | .resetStream | .streamDataBlocked => true    -- sent by the sender of stream data
  | .stopSending | .maxStreamData => false                 -- sent by the receiver of stream data

/-- The RFC's verdict on direction: `true` = the frame is legal on that stream type, `false` = the
endpoint MUST close the connection with STREAM_STATE_ERROR. -/
def directionOk (k : FrameKind) (peerInit : Bool) (d : Dir) : Bool :=
  if addressesRecvPart k then hasRecvPart peerInit d else hasSendPart peerInit d

/-- §19.5/§19.8/§19.10: kinds for which a not-yet-created locally initiated stream is a STREAM_STATE_ERROR. -/
def mustBeCreated : FrameKind → Bool
  | .stream | .stopSending | .maxStreamData => true
  | _ => false

/-- §4.6: with a cumulative limit of `limit` streams of a kind, index `i` is allowed iff `i < limit`. -/
def withinLimit (limit i : Nat) : Bool := i < limit

/-- §4.5 for a STREAM frame `[off, off+len)` (+FIN) against what is known about the stream:
`received` = largest end offset of data received so far, `final?` = the final size if known. -/
def streamFinalSizeError (received : Nat) (final? : Option Nat) (off len : Nat) (fin : Bool) : Bool :=
  match final? with
  | none => fin && off + len < received                       -- (a)
  | some fs => off + len > fs || (fin && off + len != fs)     -- (b), (c)

/-- §4.5 for RESET_STREAM with final size `final`. -/
def resetFinalSizeError (received : Nat) (final? : Option Nat) (final : Nat) : Bool :=
  match final? with
  | none => final < received                                  -- (a)
  | some fs => final != fs                                    -- (c)

end GmQuic.Spec.Rfc9000Streams
