/-!
RFC 9000: which connection error a receiver MUST (or is allowed to) raise for a hostile but well-formed frame.
Hand-written from the text of the RFC (not from the code); the numeric codes are §20.1.

| situation | section | text | error | code |
|-----------|---------|------|-------|------|
| ACK range reaches below packet number 0 | §19.3.1 | "If any computed packet number is negative, an endpoint MUST generate a connection error of type FRAME_ENCODING_ERROR" | FRAME_ENCODING_ERROR | 0x07 |
| ACK of a packet never sent | §13.1 | "An endpoint SHOULD treat receipt of an acknowledgment for a packet it did not send as a connection error of type PROTOCOL_VIOLATION, if it is able to detect the condition" | PROTOCOL_VIOLATION | 0x0a |
| stream id above the advertised stream limit | §4.6 / §19.8 | "An endpoint that receives a frame with a stream ID exceeding the limit it has sent MUST treat this as a connection error of type STREAM_LIMIT_ERROR" | STREAM_LIMIT_ERROR | 0x04 |
| more data than the advertised stream / connection limit | §4.1 | "A receiver MUST close the connection with an error of type FLOW_CONTROL_ERROR if the sender violates the advertised connection or stream data limits" | FLOW_CONTROL_ERROR | 0x03 |
| final size changed / data beyond it / final size below received data | §4.5 | "… MUST … connection error of type FINAL_SIZE_ERROR" | FINAL_SIZE_ERROR | 0x06 |
| frame for the wrong half of a unidirectional stream | §19.4 §19.5 §19.8 §19.10 §19.13 | "… MUST terminate the connection with error STREAM_STATE_ERROR" | STREAM_STATE_ERROR | 0x05 |
| more active connection ids than active_connection_id_limit | §5.1.1 | "After processing a NEW_CONNECTION_ID frame and adding and retiring active connection IDs, if the number of active connection IDs exceeds the value advertised in its active_connection_id_limit transport parameter, an endpoint MUST close the connection with an error of type CONNECTION_ID_LIMIT_ERROR" | CONNECTION_ID_LIMIT_ERROR | 0x09 |
| RETIRE_CONNECTION_ID for a sequence number never issued | §19.16 | "Receipt of a RETIRE_CONNECTION_ID frame containing a sequence number greater than any previously sent to the peer MUST be treated as a connection error of type PROTOCOL_VIOLATION" | PROTOCOL_VIOLATION | 0x0a |
| active_connection_id_limit below 2 | §18.2 | "An endpoint that receives a value less than 2 MUST close the connection with an error of type TRANSPORT_PARAMETER_ERROR" | TRANSPORT_PARAMETER_ERROR | 0x08 |

A sequence number that would make the receiver keep state for connection ids it never received is not named by
the RFC; §5.1.1 lets an endpoint bound the ids it tracks and names CONNECTION_ID_LIMIT_ERROR for excess ids —
recorded as `cidSeqFarAhead` (the choice of the fix patch, a "MAY" situation).
Core-only.
-/
namespace GmQuic.Spec.Rfc9000Errors

inductive Situation
  | ackRangeNegative
  | ackOfUnsent
  | streamLimitExceeded
  | flowControlExceeded
  | finalSizeViolated
  | wrongStreamDirection
  | cidLimitExceeded
  | cidSeqFarAhead
  | retireUnissued
  | cidLimitParamBelow2
  deriving DecidableEq, Repr

/-- RFC 9000 §20.1 transport error codes -/
def FLOW_CONTROL_ERROR : Nat := 0x03
def STREAM_LIMIT_ERROR : Nat := 0x04
def STREAM_STATE_ERROR : Nat := 0x05
def FINAL_SIZE_ERROR : Nat := 0x06
def FRAME_ENCODING_ERROR : Nat := 0x07
def TRANSPORT_PARAMETER_ERROR : Nat := 0x08
def CONNECTION_ID_LIMIT_ERROR : Nat := 0x09
def PROTOCOL_VIOLATION : Nat := 0x0a

def prescribed : Situation → Nat
  | .ackRangeNegative => FRAME_ENCODING_ERROR
  | .ackOfUnsent => PROTOCOL_VIOLATION
  | .streamLimitExceeded => STREAM_LIMIT_ERROR
  | .flowControlExceeded => FLOW_CONTROL_ERROR
  | .finalSizeViolated => FINAL_SIZE_ERROR
  | .wrongStreamDirection => STREAM_STATE_ERROR
  | .cidLimitExceeded => CONNECTION_ID_LIMIT_ERROR
  | .cidSeqFarAhead => CONNECTION_ID_LIMIT_ERROR
  | .retireUnissued => PROTOCOL_VIOLATION
  | .cidLimitParamBelow2 => TRANSPORT_PARAMETER_ERROR

end GmQuic.Spec.Rfc9000Errors
