import GmQuic.Model.StreamWindow
/-!
RFC 9000 §18.2, hand-written from the text (not from the code):

* `initial_max_stream_data_bidi_local` (0x05): "applies to streams opened by the endpoint that
  SENDS the transport parameter" (bidirectional);
* `initial_max_stream_data_bidi_remote` (0x06): "applies to streams opened by the endpoint that
  RECEIVES the transport parameter" (bidirectional);
* `initial_max_stream_data_uni` (0x07): "applies to streams opened by the endpoint that RECEIVES
  the transport parameter" (unidirectional).

Every one of them is a limit on what the endpoint that sent the parameter is willing to RECEIVE.
Core-only: also used by the native driver to classify observations.
-/
namespace GmQuic.Spec.Rfc9000
open GmQuic.StreamWindow

/-- The parameter, among those sent by the RECEIVER of the data, that bounds a stream:
`rcvIsOpener` = the receiver of the data is the endpoint that opened the stream. -/
def paramOfReceiver (dir : SDir) (rcvIsOpener : Bool) : Option PId :=
  match dir, rcvIsOpener with
  | .bi, true => some .bidiLocal     -- opened by the endpoint that sends the parameter
  | .bi, false => some .bidiRemote   -- opened by the endpoint that receives the parameter
  | .uni, false => some .uni         -- opened by the endpoint that receives the parameter
  | .uni, true => none               -- the opener of a unidirectional stream receives nothing on it

/-- The same table from the perspective of one endpoint: the window of the `side` half of a
stream opened by `init`.  Receive windows come from the endpoint's own parameters, send windows
from the peer's. -/
def rfcWindow (init : Initiator) (dir : SDir) (side : Side) : Option Src :=
  match side with
  | .recv => (paramOfReceiver dir (init == .loc)).map fun p => ⟨.loc, p⟩
  | .send => (paramOfReceiver dir (init == .rem)).map fun p => ⟨.rem, p⟩

end GmQuic.Spec.Rfc9000
