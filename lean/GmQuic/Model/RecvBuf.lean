/-
Model of `qrecovery/src/recv/rcvbuf.rs` (`RecvBuf`): stream reassembly buffer.

Rust `recv` is a `loop` around a binary search; its net effect is a single ordered pass:
existing segments are never touched, and every maximal sub-interval of the (already-read-trimmed)
fragment that is not covered by an existing segment is inserted as one new segment.  `ins` states
exactly that pass.  `largest` is threaded the way the Rust does it (raised only by the end of an
inserted piece), not assumed to be `max largest (start+len)`; that the two coincide under the
invariant is a theorem.
Core-only (no imports): linked into the native driver.
-/

namespace GmQuic.RecvBuf

abbrev Bytes := List UInt8

structure Seg where
  off : Nat
  data : Bytes
deriving Repr, DecidableEq

def Seg.stop (s : Seg) : Nat := s.off + s.data.length

/-- One ordered pass: insert the uncovered pieces of `[start, start+|data|)`; returns the new
segment list and the updated `largest_offset`. -/
def ins : List Seg → Nat → Bytes → Nat → List Seg × Nat
  | [], start, data, lg =>
      if data.isEmpty then ([], lg) else ([⟨start, data⟩], max lg (start + data.length))
  | seg :: rest, start, data, lg =>
      if data.isEmpty then (seg :: rest, lg)
      else if start + data.length ≤ seg.off then
        -- entirely before `seg` (Rust: `Err(i)` with no overlap with the next segment)
        (⟨start, data⟩ :: seg :: rest, max lg (start + data.length))
      else if seg.stop ≤ start then
        -- entirely after `seg`
        let (r, lg') := ins rest start data lg
        (seg :: r, lg')
      else
        -- overlaps `seg`: optional uncovered prefix, then continue behind `seg`
        let pre : List Seg := if start < seg.off then [⟨start, data.take (seg.off - start)⟩] else []
        let lg1 := if start < seg.off then max lg seg.off else lg
        let (r, lg') := ins rest (max start seg.stop) (data.drop (seg.stop - start)) lg1
        (pre ++ seg :: r, lg')

structure State where
  nread : Nat := 0
  largest : Nat := 0
  segs : List Seg := []
deriving Repr

def init : State := {}

/-- `RecvBuf::recv(offset, data)`: returns the new state and the flow-control increment. -/
def recv (s : State) (off : Nat) (data : Bytes) : State × Nat :=
  let start := max off s.nread
  let data' := data.drop (min data.length (start - off))
  let (segs', lg') := ins s.segs start data' s.largest
  ({ s with segs := segs', largest := lg' }, lg' - s.largest)

/-- `RecvBuf::available`. -/
def contEnd : List Seg → Nat → Nat
  | [], o => o
  | seg :: rest, o => if seg.off = o then contEnd rest (o + seg.data.length) else o

def available (s : State) : Nat := contEnd s.segs s.nread - s.nread

def isReadable (s : State) : Bool :=
  match s.segs with
  | [] => false
  | seg :: _ => seg.off == s.nread

/-- `RecvBuf::try_read` into a destination with `cap` bytes of room: new state and the bytes copied. -/
def readGo : List Seg → Nat → Nat → List Seg × Nat × Bytes
  | [], nread, _ => ([], nread, [])
  | seg :: rest, nread, cap =>
      if seg.off ≠ nread ∨ cap = 0 then (seg :: rest, nread, [])
      else
        let n := min cap seg.data.length
        if n < seg.data.length then
          -- partial: the segment keeps its tail, and the loop stops (cap exhausted)
          (⟨seg.off + n, seg.data.drop n⟩ :: rest, nread + n, seg.data.take n)
        else
          let (r, nr, out) := readGo rest (nread + n) (cap - n)
          (r, nr, seg.data ++ out)

def tryRead (s : State) (cap : Nat) : State × Bytes :=
  let (segs', nread', out) := readGo s.segs s.nread cap
  ({ s with segs := segs', nread := nread' }, out)

/-- `RecvBuf::try_next`. -/
def tryNext (s : State) : State × Option Bytes :=
  match s.segs with
  | [] => (s, none)
  | seg :: rest =>
      if seg.off = s.nread then ({ s with segs := rest, nread := s.nread + seg.data.length }, some seg.data)
      else (s, none)

/-! Operation language (the quantifier domain of the C08 theorems). -/

inductive Op where
  | recv (off : Nat) (data : Bytes)
  | read (cap : Nat)
  | next
deriving Repr

/-- State extended with the ghost output log and the sum of `recv` return values. -/
structure Run where
  buf : State := {}
  out : Bytes := []
  charged : Nat := 0
deriving Repr

def Run.step (r : Run) : Op → Run
  | .recv off data =>
      let (b, n) := recv r.buf off data
      { r with buf := b, charged := r.charged + n }
  | .read cap =>
      let (b, o) := tryRead r.buf cap
      { r with buf := b, out := r.out ++ o }
  | .next =>
      match tryNext r.buf with
      | (b, some o) => { r with buf := b, out := r.out ++ o }
      | (b, none) => { r with buf := b }

def run (ops : List Op) : Run := ops.foldl Run.step {}

end GmQuic.RecvBuf
