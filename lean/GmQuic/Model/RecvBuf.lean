/-
Model of `qrecovery/src/recv/rcvbuf.rs` (`RecvBuf`): stream reassembly buffer.

Rust `recv` is a `loop` around a binary search; its net effect is a single ordered pass:
existing segments are never touched, and every maximal sub-interval of the (already-read-trimmed)
fragment that is not covered by an existing segment is inserted as one new segment.  `ins` states
exactly that pass.  `largest` is threaded the way the Rust does it (raised only by the end of an
inserted piece), not assumed to be `max largest (start+len)`; that the two coincide under the
invariant is a theorem.
Core-only (no imports): linked into the native driver.
-/

namespace GmQuic.RecvBuf

abbrev Bytes := List UInt8

structure Seg where
  off : Nat
  data : Bytes
deriving Repr, DecidableEq

def Seg.stop (s : Seg) : Nat := s.off + s.data.length

/-- One ordered pass: insert the uncovered pieces of `[start, start+|data|)`; returns the new
segment list and the updated `largest_offset`. -/
def ins : List Seg → Nat → Bytes → Nat → List Seg × Nat
  | [], start, data, lg =>
      if data.isEmpty then ([], lg) else ([⟨start, data⟩], max lg (start + data.length))
  | seg :: rest, start, data, lg =>
      if data.isEmpty then (seg :: rest, lg)
      else if start + data.length ≤ seg.off then
        -- entirely before `seg` (Rust: `Err(i)` with no overlap with the next segment)
        (⟨start, data⟩ :: seg :: rest, max lg (start + data.length))
      else if seg.stop ≤ start then
        -- entirely after `seg`
        let (r, lg') := ins rest start data lg
        (seg :: r, lg')
      else
        -- overlaps `seg`: optional uncovered prefix, then continue behind `seg`
        let pre : List Seg := if start < seg.off then [⟨start, data.take (seg.off - start)⟩] else []
        let lg1 := if start < seg.off then max lg seg.off else lg
        let (r, lg') := ins rest (max start seg.stop) (data.drop (seg.stop - start)) lg1
        (pre ++ seg :: r, lg')

/-! ### Branch-by-branch transliteration of the Rust `loop` in `RecvBuf::recv`

`recvLoop fuel segs start data lg` is the `loop { … }` of `recv` with `self.segments = segs`,
`self.largest_offset = lg`; one unit of fuel per loop iteration.  `ins` above is the specification-level
single pass; `recvLoop_eq_ins` (Props/C08.lean) proves that the loop computes the same result whenever the
segment list is sorted/disjoint, and that `2·|segs| + 2` iterations always suffice.

`VecDeque::binary_search_by(|seg| seg.offset.cmp(&start))` is modelled by `search`: index of the first
segment whose offset is ≥ `start`, `ok` if that offset equals `start`, otherwise `err` (the insertion
point).  On a list sorted by strictly increasing offset that is what the binary search returns. -/

inductive LoopRes where
  | done (segs : List Seg) (lg : Nat)
  /-- a Rust panic site (slice bound / integer underflow) was reached -/
  | panic (site : String)
  /-- the iteration budget ran out -/
  | fuel
deriving Repr, DecidableEq

/-- number of leading segments with `offset < start` (on a sorted list: the partition point) -/
def lowerBound : List Seg → Nat → Nat
  | [], _ => 0
  | s :: rest, start => if s.off < start then lowerBound rest start + 1 else 0

inductive Search where
  | ok (i : Nat)
  | err (i : Nat)
deriving Repr, DecidableEq

def search (segs : List Seg) (start : Nat) : Search :=
  let i := lowerBound segs start
  match segs[i]? with
  | some seg => if seg.off = start then .ok i else .err i
  | none => .err i

/-- `VecDeque::insert(i, seg)` / `push_front` for `i = 0` -/
def insertAt (segs : List Seg) (i : Nat) (seg : Seg) : List Seg := segs.take i ++ seg :: segs.drop i

def recvLoop : Nat → List Seg → Nat → Bytes → Nat → LoopRes
  | 0, _, _, _, _ => .fuel
  | fuel + 1, segs, start, data, lg =>
    -- `if data.is_empty() { break; }`
    if data.isEmpty then .done segs lg else
    match search segs start with
    | .ok i =>
      -- `Ok(exist_seg_index)`: skip what the existing segment at the same offset covers
      match segs[i]? with
      | none => .panic "segments[exist_seg_index]"
      | some ex =>
        let c := min data.length ex.data.length
        recvLoop fuel segs (start + c) (data.drop c) lg
    | .err 0 =>
      -- `Err(0)`: in front of every segment
      match segs.head? with
      | some next =>
        if start + data.length > next.off then
          -- `data.split_to((next_seg.offset - start) as usize)`
          if next.off < start then .panic "next_seg.offset - start" else
          if next.off - start > data.length then .panic "split_to" else
          let unc := data.take (next.off - start)
          recvLoop fuel (insertAt segs 0 ⟨start, unc⟩) (start + unc.length) (data.drop (next.off - start))
            (max lg (start + unc.length))
        else
          -- `core::mem::take(&mut data)`
          recvLoop fuel (insertAt segs 0 ⟨start, data⟩) (start + data.length) [] (max lg (start + data.length))
      | none =>
        recvLoop fuel (insertAt segs 0 ⟨start, data⟩) (start + data.length) [] (max lg (start + data.length))
    | .err (i + 1) =>
      -- `Err(seg_index)`, `seg_index = i + 1 > 0`: first trim against the previous segment `segs[i]`
      let trimmed : Option (Nat × Bytes) :=          -- `none` = the `break` arm
        match segs[i]? with
        | some prev =>
          if start + data.length ≤ prev.stop then none
          else if start < prev.stop then
            -- `start += prev.end() - start; data.split_off(prev.end() - start)` (keeps the tail)
            some (prev.stop, data.drop (prev.stop - start))
          else some (start, data)
        | none => some (start, data)
      match trimmed with
      | none => .done segs lg
      | some (start, data) =>
        match segs[i + 1]? with
        | some next =>
          -- `Some(next_seg) if start == next_seg.offset => continue`
          if start = next.off then recvLoop fuel segs start data lg
          else if start + data.length > next.off then
            if next.off < start then .panic "next_seg.offset - start" else
            if next.off - start > data.length then .panic "split_to" else
            let unc := data.take (next.off - start)
            recvLoop fuel (insertAt segs (i + 1) ⟨start, unc⟩) (start + unc.length) (data.drop (next.off - start))
              (max lg (start + unc.length))
          else
            recvLoop fuel (insertAt segs (i + 1) ⟨start, data⟩) (start + data.length) [] (max lg (start + data.length))
        | none =>
          recvLoop fuel (insertAt segs (i + 1) ⟨start, data⟩) (start + data.length) [] (max lg (start + data.length))

structure State where
  nread : Nat := 0
  largest : Nat := 0
  segs : List Seg := []
deriving Repr

def init : State := {}

/-- `RecvBuf::recv(offset, data)`: returns the new state and the flow-control increment. -/
def recv (s : State) (off : Nat) (data : Bytes) : State × Nat :=
  let start := max off s.nread
  let data' := data.drop (min data.length (start - off))
  let (segs', lg') := ins s.segs start data' s.largest
  ({ s with segs := segs', largest := lg' }, lg' - s.largest)

/-- iteration budget that `recv_loop_terminates` proves sufficient -/
def loopFuel (segs : List Seg) : Nat := 2 * segs.length + 2

/-- `RecvBuf::recv` with the loop transliteration in place of `ins`. -/
inductive RecvRes where
  | ok (s : State) (ret : Nat)
  | panic (site : String)
  | fuel
deriving Repr

def recvViaLoop (s : State) (off : Nat) (data : Bytes) : RecvRes :=
  let start := max off s.nread
  let data' := data.drop (min data.length (start - off))
  match recvLoop (loopFuel s.segs) s.segs start data' s.largest with
  | .done segs' lg' => .ok { s with segs := segs', largest := lg' } (lg' - s.largest)
  | .panic site => .panic site
  | .fuel => .fuel

/-- `RecvBuf::available`. -/
def contEnd : List Seg → Nat → Nat
  | [], o => o
  | seg :: rest, o => if seg.off = o then contEnd rest (o + seg.data.length) else o

def available (s : State) : Nat := contEnd s.segs s.nread - s.nread

def isReadable (s : State) : Bool :=
  match s.segs with
  | [] => false
  | seg :: _ => seg.off == s.nread

/-- `RecvBuf::try_read` into a destination with `cap` bytes of room: new state and the bytes copied. -/
def readGo : List Seg → Nat → Nat → List Seg × Nat × Bytes
  | [], nread, _ => ([], nread, [])
  | seg :: rest, nread, cap =>
      if seg.off ≠ nread ∨ cap = 0 then (seg :: rest, nread, [])
      else
        let n := min cap seg.data.length
        if n < seg.data.length then
          -- partial: the segment keeps its tail, and the loop stops (cap exhausted)
          (⟨seg.off + n, seg.data.drop n⟩ :: rest, nread + n, seg.data.take n)
        else
          let (r, nr, out) := readGo rest (nread + n) (cap - n)
          (r, nr, seg.data ++ out)

def tryRead (s : State) (cap : Nat) : State × Bytes :=
  let (segs', nread', out) := readGo s.segs s.nread cap
  ({ s with segs := segs', nread := nread' }, out)

/-- `RecvBuf::try_next`. -/
def tryNext (s : State) : State × Option Bytes :=
  match s.segs with
  | [] => (s, none)
  | seg :: rest =>
      if seg.off = s.nread then ({ s with segs := rest, nread := s.nread + seg.data.length }, some seg.data)
      else (s, none)

/-! Operation language (the quantifier domain of the C08 theorems). -/

inductive Op where
  | recv (off : Nat) (data : Bytes)
  | read (cap : Nat)
  | next
deriving Repr

/-- State extended with the ghost output log and the sum of `recv` return values. -/
structure Run where
  buf : State := {}
  out : Bytes := []
  charged : Nat := 0
deriving Repr

def Run.step (r : Run) : Op → Run
  | .recv off data =>
      let (b, n) := recv r.buf off data
      { r with buf := b, charged := r.charged + n }
  | .read cap =>
      let (b, o) := tryRead r.buf cap
      { r with buf := b, out := r.out ++ o }
  | .next =>
      match tryNext r.buf with
      | (b, some o) => { r with buf := b, out := r.out ++ o }
      | (b, none) => { r with buf := b }

def run (ops : List Op) : Run := ops.foldl Run.step {}

end GmQuic.RecvBuf
