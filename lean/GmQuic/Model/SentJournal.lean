import GmQuic.Model.Pn
/-!
C07 — the packet-number allocation life-cycle of `qrecovery/src/journal/sent.rs`
(`SentJournal`, `ArcSentJournal::{new_packet, rotate}`, `NewPacketGuard`, `SentRotateGuard`) as it is used by
`qconnection/src/tx.rs` (`PacketWriter::{new_long,new_short}` take the guard and call `pn()`;
`encrypt_and_protect_packet` calls `build_with_time` / `build_trivial` and then emits the packet **unconditionally**;
an early `?` return in `path/burst.rs::assemble` drops the guard = `abandon`).

State = ⟨offset, records, queue length, largest acked⟩ + the guard (it holds the journal's mutex, so every
other operation that needs the mutex is *blocked* while a guard exists — modelled as a no-op) + the paused
clock + a log `built` of the packet number of every packet handed to `encrypt_and_protect_packet`.
`NewPacketGuard` has **no `Drop` impl**: abandoning it undoes nothing (frames already pushed stay in `queue`).
Frame *contents* are not modelled (C10); only how many there are.  Core-only imports.
-/
namespace GmQuic.SentJournal
open GmQuic.Gen GmQuic.Pn

/-- `enum SentPktState` (`sent_time` dropped: never read by the modelled methods). -/
inductive Rec
  | skipped
  | flighting (nframes retran expire : Nat)
  | retrans (nframes expire : Nat)
  | acked (nframes : Nat)
  deriving DecidableEq, Repr

def Rec.nframes : Rec → Nat
  | .skipped => 0
  | .flighting n _ _ => n
  | .retrans n _ => n
  | .acked n => n

/-- `SentPktState::be_acked` → (new state, returned count). -/
def Rec.beAcked : Rec → Rec × Nat
  | .skipped => (.skipped, 0)
  | .flighting n _ _ => (.acked n, n)
  | .retrans n _ => (.acked n, n)
  | .acked n => (.acked n, 0)

/-- `SentPktState::maybe_lost`. -/
def Rec.maybeLost : Rec → Rec × Nat
  | .flighting n _ e => (.retrans n e, n)
  | .retrans n e => (.retrans n e, n)
  | r => (r, 0)

/-- `SentPktState::should_remain_after(now)`. -/
def Rec.shouldRemain (now : Nat) : Rec → Bool
  | .skipped => false
  | .flighting _ _ _ => true
  | .retrans _ e => decide (e > now)
  | .acked _ => false

structure Journal where
  offset : Nat := 0             -- `sent_packets.offset`
  recs : List Rec := []         -- `sent_packets.deque`
  queueLen : Nat := 0           -- `queue.len()`
  la : Nat := sjInitLargestAcked  -- `largest_acked_pktno`
  deriving Repr

/-- `IndexDeque::largest()` = offset + len = the next packet number. -/
def Journal.largest (j : Journal) : Nat := j.offset + j.recs.length

def sumFrames (rs : List Rec) : Nat := (rs.map Rec.nframes).sum

/-- the `take_while(!should_remain_after).fold` of `resize`: (records to drop, frames to drain). -/
def dropCount (now : Nat) : List Rec → Nat × Nat
  | [] => (0, 0)
  | r :: rs =>
    if r.shouldRemain now then (0, 0)
    else ((dropCount now rs).1 + 1, (dropCount now rs).2 + r.nframes)

structure Guard where
  trivial : Bool
  originLen : Nat
  deriving Repr

inductive Poison
  | pnOverflow        -- `.expect("packet number never overflow")`
  | trivialAssert     -- `build_trivial`'s `assert_eq!` / `assert!`
  | drain             -- `queue.drain(..f)` with f > len (proved unreachable)
  deriving DecidableEq, Repr

structure State where
  j : Journal := {}
  guard : Option Guard := none
  now : Nat := 0
  /-- pn of every packet handed to `encrypt_and_protect_packet`, oldest first -/
  built : List Nat := []
  /-- number of `build`s that emitted a packet although the guard recorded nothing (pn not consumed) -/
  emptyBuilds : Nat := 0
  /-- frames left in `queue` by guards abandoned after `record_frame` -/
  leaked : Nat := 0
  /-- a panic while the mutex guard was alive poisons the mutex: every later `lock().unwrap()` panics -/
  poisoned : Option Poison := none
  deriving Repr

inductive Op
  | begin                   -- `journal.new_packet()`
  | pn                      -- `guard.pn()`
  | frame                   -- `guard.record_frame(f)`
  | trivial                 -- `guard.record_trivial()`
  | build (rt et : Nat)     -- `guard.build_with_time(rt, et)` then the packet is emitted
  | buildTrivial            -- `guard.build_trivial()` then the packet is emitted
  | abandon                 -- `drop(guard)`
  | ackLargest (n : Nat)    -- `{ let mut r = journal.rotate(); r.update_largest(ack(largest = n)) }`
  | rotate                  -- `drop(journal.rotate())`
  | acked (pn : Nat)        -- `journal.rotate().on_packet_acked(pn).count()`
  | lost (pn : Nat)         -- `journal.rotate().may_loss_packet(pn).count()`
  | tick (ms : Nat)         -- the paused clock advances
  deriving DecidableEq, Repr

/-- `SentJournal::resize` (also `Drop for SentRotateGuard`). -/
def resize (s : State) : State :=
  let d := dropCount s.now s.j.recs
  if s.j.queueLen < d.2 then { s with poisoned := some .drain }
  else { s with j := { s.j with offset := s.j.offset + d.1, recs := s.j.recs.drop d.1, queueLen := s.j.queueLen - d.2 } }

/-- `IndexDeque::<_, VARINT_MAX>::push_back(..).expect(..)`. -/
def pushRec (s : State) (r : Rec) : State :=
  if s.j.largest > varintMax then { s with guard := none, poisoned := some .pnOverflow }
  else { s with j := { s.j with recs := s.j.recs ++ [r] }, guard := none, built := s.built ++ [s.j.largest] }

/-- apply `f` to the record of packet `pn` (`IndexDeque::get_mut`), returning its count. -/
def touch (j : Journal) (pn : Nat) (f : Rec → Rec × Nat) : Journal × Nat :=
  if j.offset ≤ pn ∧ pn < j.largest then
    match j.recs[pn - j.offset]? with
    | some r => ({ j with recs := j.recs.set (pn - j.offset) (f r).1 }, (f r).2)
    | none => (j, 0)
  else (j, 0)

/-- `update_largest`: `Ok` iff the frame's largest < `sent_packets.largest()` (= the next pn to send), i.e. the number was
really sent (fixed code, `repo_patches/fix-C10-ack-of-unsent.diff`; before the fix the test was `≤`: an ACK of the next,
unsent number was accepted — DESIGN §7 #25). -/
def updateLargestOk (j : Journal) (n : Nat) : Bool := decide (n < j.largest)

/-- `NewPacketGuard::pn()`: (pn, encoded pn) — only while a guard exists. -/
def guardPn (s : State) : Option (Nat × Res PacketNumber) :=
  match s.guard with
  | some _ => some (s.j.largest, encode s.j.largest s.j.la)
  | none => none

def step (s : State) (op : Op) : State :=
  if s.poisoned.isSome then s else
  match s.guard, op with
  | _, .tick ms => { s with now := s.now + ms }
  -- operations on a live guard
  | some _, .pn => s
  | some _, .frame => { s with j := { s.j with queueLen := s.j.queueLen + 1 } }
  | some g, .trivial => { s with guard := some { g with trivial := true } }
  | some g, .build rt et =>
    let nframes := s.j.queueLen - g.originLen
    if g.trivial ∧ nframes = 0 then pushRec s .skipped
    else if nframes > 0 then pushRec s (.flighting nframes (s.now + rt) (s.now + et))
    else { s with guard := none, built := s.built ++ [s.j.largest], emptyBuilds := s.emptyBuilds + 1 }
  | some g, .buildTrivial =>
    if s.j.queueLen ≠ g.originLen ∨ g.trivial = false then { s with guard := none, poisoned := some .trivialAssert }
    else pushRec s .skipped
  | some g, .abandon => { s with guard := none, leaked := s.leaked + (s.j.queueLen - g.originLen) }
  -- the guard holds the mutex: everything else that locks it is blocked
  | some _, _ => s
  -- no guard
  | none, .begin => { s with guard := some { trivial := false, originLen := s.j.queueLen } }
  | none, .ackLargest n =>
    resize (if updateLargestOk s.j n then { s with j := { s.j with la := max s.j.la n } } else s)
  | none, .rotate => resize s
  | none, .acked pn => resize { s with j := (touch s.j pn Rec.beAcked).1 }
  | none, .lost pn => resize { s with j := (touch s.j pn Rec.maybeLost).1 }
  | none, _ => s

def init : State := {}

def run (ops : List Op) : State := ops.foldl step init

/-- The pns carried by the packets handed to `encrypt_and_protect_packet` (Appendix A `builtPns`). -/
def builtPns (s : State) : List Nat := s.built

end GmQuic.SentJournal
