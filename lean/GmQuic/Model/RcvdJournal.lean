import GmQuic.Model.Pn
import GmQuic.Gen.AckConsts
/-!
C10 (receiving direction) — `qrecovery/src/journal/rcvd.rs` `RcvdJournal` and `qbase/src/frame/ack.rs`
`AckFrame::{iter, encoding_size}` transliterated branch by branch.

* `Cell` = `enum State` (`Empty | PacketReceived | AckSent | AckConfirmed`); `recv_time` is dropped (read only by
  `need_ack`, not modelled), `latest_ack_time` is kept as its `is_some()` (= ack-eliciting), `expire_time` as µs.
* `genAck` = `gen_ack_frame_util` including the capacity arithmetic, `range_count_size_increment`, the
  `capacity >= size` test of the last range (comparison read from the source: `ackLastSpare`), and the **side effects that happen even when the frame is
  refused or cut** (every cell visited before the `Break` is tracked with `pn`).
* `AckFrame.iter` = the range iterator with the three unchecked `u64` subtractions made explicit (`none` = underflow:
  panic in a dev build, 2^62-element ranges in release; DESIGN §7 #5).
* `rcvdLog` is a ghost field (every pn registered through `on_rcvd_pn` at or above the offset), never read by the code paths.
Times are µs on the paused clock.  Core-only imports.
-/
namespace GmQuic.RcvdJournal
open GmQuic.Gen GmQuic.Wire GmQuic.Pn

/-! ### AckFrame -/

structure AckFrame where
  largest : Nat
  delay : Nat
  first : Nat
  ranges : List (Nat × Nat)     -- (gap, ack range length), wire values
  deriving DecidableEq, Repr

/-- the `scan` of `AckFrame::iter`: `left` = smallest pn of the previous range.  Result: inclusive (lo, hi) ranges. -/
def iterRanges : Nat → List (Nat × Nat) → Option (List (Nat × Nat))
  | _, [] => some []
  | left, (g, r) :: rest =>
    if left < g + 2 then none            -- `*largest - gap - 2` underflows
    else if left - g - 2 < r then none   -- `right - range` underflows
    else (iterRanges (left - g - 2 - r) rest).map ((left - g - 2 - r, left - g - 2) :: ·)

/-- `AckFrame::iter` collected (every consumer drains it). -/
def AckFrame.iter (f : AckFrame) : Option (List (Nat × Nat)) :=
  if f.largest < f.first then none       -- `right - first_range` underflows
  else (iterRanges (f.largest - f.first) f.ranges).map ((f.largest - f.first, f.largest) :: ·)

/-- is `pn` inside one of the inclusive ranges -/
def covers (rs : List (Nat × Nat)) (pn : Nat) : Bool := rs.any fun r => decide (r.1 ≤ pn ∧ pn ≤ r.2)

/-- all pns of the ranges, in iteration order of `space.rs` (`r.rev()` of each range: descending) -/
def pnsDesc : List (Nat × Nat) → List Nat
  | [] => []
  | (lo, hi) :: rest => ((List.range (hi + 1 - lo)).map (fun i => hi - i)) ++ pnsDesc rest

def rangesSize (rs : List (Nat × Nat)) : Nat := (rs.map fun r => varintSize r.1 + varintSize r.2).sum

/-- `EncodeSize::encoding_size` for an ACK frame without ECN counts. -/
def AckFrame.size (f : AckFrame) : Nat :=
  1 + varintSize f.largest + varintSize f.delay + varintSize f.ranges.length + varintSize f.first + rangesSize f.ranges

/-! ### the journal -/

inductive Cell
  | empty
  | rcvd (elic : Bool) (expire : Nat)
  | ackSent (elic : Bool) (expire : Nat) (pns : List Nat)   -- `HashSet<u64>` kept sorted, duplicate-free
  | ackConfirmed (elic : Bool) (expire : Nat)
  deriving DecidableEq, Repr

def Cell.isEmpty : Cell → Bool
  | .empty => true
  | _ => false

def insertSorted (x : Nat) : List Nat → List Nat
  | [] => [x]
  | y :: ys => if x < y then x :: y :: ys else if x = y then y :: ys else y :: insertSorted x ys

/-- `State::track_packet_in_ack_frame(pn)` → new state (the returned bool is `!isEmpty`). -/
def Cell.track (pn : Nat) : Cell → Cell
  | .empty => .empty
  | .rcvd e x => .ackSent e x [pn]
  | .ackSent e x pns => .ackSent e x (insertSorted pn pns)
  | .ackConfirmed e x => .ackConfirmed e x

/-- `State::could_expire(now)`. -/
def Cell.couldExpire (now : Nat) : Cell → Bool
  | .empty => true
  | .ackConfirmed elic expire => !elic || decide (expire < now)
  | _ => false

structure State where
  offset : Nat := 0
  cells : List Cell := []
  incl : List Nat := []            -- `packet_include_ack`, sorted
  earliest : Option Nat := none    -- pn of `earliest_not_ack_time`
  now : Nat := 0
  rcvdLog : List Nat := []         -- ghost
  deriving Repr

def State.largest (s : State) : Nat := s.offset + s.cells.length

def State.cell (s : State) (pn : Nat) : Cell :=
  if s.offset ≤ pn then s.cells.getD (pn - s.offset) .empty else .empty

/-- "pn is recorded as received and still tracked" -/
def State.has (s : State) (pn : Nat) : Bool := decide (s.offset ≤ pn) && !(s.cell pn).isEmpty

inductive DecRes
  | ok (pn : Nat) | tooOld | dup | panic
  deriving DecidableEq, Repr

/-- `RcvdJournal::decode_pn`. -/
def decodePn (s : State) (e : PacketNumber) : DecRes :=
  match decode e s.largest with
  | .panic _ => .panic
  | .ok pn =>
    if pn < s.offset then .tooOld
    else if (s.cell pn).isEmpty then .ok pn else .dup

/-- `RcvdJournal::on_rcvd_pn(pn, is_ack_eliciting, pto)`; `none` = the `panic!("packet number never exceed limit")`. -/
def onRcvdPn (s : State) (pn : Nat) (elic : Bool) (pto : Nat) : Option State :=
  let c := Cell.rcvd elic (s.now + pto * 3)
  let e := if elic ∧ s.earliest.isNone then some pn else s.earliest
  if s.offset ≤ pn ∧ pn < s.largest then
    some { s with cells := s.cells.set (pn - s.offset) c, earliest := e, rcvdLog := pn :: s.rcvdLog }
  else if pn > varintMax then none
  else if pn < s.offset then some { s with earliest := e }      -- `IndexError::TooSmall` is ignored
  else some { s with cells := s.cells ++ List.replicate (pn - s.largest) .empty ++ [c], earliest := e,
                     rcvdLog := pn :: s.rcvdLog }

/-- `rotate_queue`: pop while the front could expire. -/
def dropExpired (now : Nat) : List Cell → List Cell
  | [] => []
  | c :: cs => if c.couldExpire now then dropExpired now cs else c :: cs

def rotate (s : State) : State :=
  let cs := dropExpired s.now s.cells
  { s with offset := s.offset + (s.cells.length - cs.length), cells := cs }

def confirm (acked : List Nat) : Cell → Cell
  | .ackSent e x pns => if pns.any (acked.contains ·) then .ackConfirmed e x else .ackSent e x pns
  | c => c

/-- `RcvdJournal::on_rcvd_ack`; `none` = `AckFrame::iter` underflow (panic before any mutation). -/
def onRcvdAck (s : State) (f : AckFrame) : Option State :=
  match f.iter with
  | none => none
  | some rs =>
    let acked := s.incl.filter (covers rs)
    some (rotate { s with incl := s.incl.filter (fun p => !acked.contains p), cells := s.cells.map (confirm acked) })

/-! ### gen_ack_frame_util -/

/-- `range_count_size_increment`: boundaries and increments are REGENERATED from rcvd.rs on every run
(`xlate/gen_ackconsts.py` → `Gen/AckConsts.lean`), not copied. -/
def rangeCountIncr (n : Nat) : Nat :=
  if n = ackIncrAt1 then ackIncrBy1 else if n = ackIncrAt2 then ackIncrBy2 else if n = ackIncrAt3 then ackIncrBy3
  else ackIncrDefault

structure Fold where
  gap : Nat
  ack : Nat
  last : Bool
  cap : Nat
  ranges : List (Nat × Nat)
  left : Nat          -- elements NOT consumed (non-zero only after `Break`)
  broke : Bool        -- the fold ended with `Break`
  deriving Repr

/-- the `try_fold` over the remaining cells (as booleans "tracked"), newest first. -/
def foldRanges (gap ack : Nat) (last : Bool) (cap : Nat) (rs : List (Nat × Nat)) : List Bool → Fold
  | [] => ⟨gap, ack, last, cap, rs, 0, false⟩
  | b :: bs =>
    match last, b with
    | true, false =>
      let size := rangeCountIncr rs.length + varintSize (gap - 1) + varintSize (ack - 1)
      if cap < size then ⟨0, 0, false, cap, rs, bs.length, true⟩          -- `Break`; the element itself was consumed
      else foldRanges 1 0 false (cap - size) (rs ++ [(gap - 1, ack - 1)]) bs
    | _, true => foldRanges gap (ack + 1) true cap rs bs
    | false, false => foldRanges (gap + 1) ack false cap rs bs

/-- number of leading `true`s -/
def leadTrue : List Bool → Nat
  | true :: bs => leadTrue bs + 1
  | _ => 0

inductive GenOut
  | ok (f : AckFrame)
  | congestion
  | panic           -- `VarInt::from_u64(..).unwrap()` on largest / delay ≥ 2^62
  | overflow        -- ≥ 2^32 cells scanned: the `u32` counters would overflow (dev: panic, release: wrap)
  deriving DecidableEq, Repr

/-- apply `f` to the first `n` elements -/
def mapFirst {α : Type} (f : α → α) : Nat → List α → List α
  | 0, l => l
  | _, [] => []
  | n + 1, x :: xs => f x :: mapFirst f n xs

/-- number of queue cells with index ≤ `largest` (what `rev().skip_while(pktno > largest)` leaves) -/
def State.below (s : State) (largest : Nat) : Nat :=
  if largest < s.offset then 0 else min s.cells.length (largest + 1 - s.offset)

/-- the frame part: first range, remaining capacity arithmetic, ranges; `bs` = tracked flags, newest first.
Returns (outcome, number of elements visited). -/
def genFrame (largest delay cap : Nat) (bs : List Bool) : GenOut × Nat :=
  let f := leadTrue bs
  let visited1 := min (f + 1) bs.length
  let first := f - 1
  let minLen := 1 + varintSize largest + varintSize delay + varintSize first + 1
  if cap < minLen then (.congestion, visited1)
  else
    let r := foldRanges 1 0 false (cap - minLen) [] (bs.drop visited1)
    let rs :=
      if r.last then
        let size := rangeCountIncr r.ranges.length + varintSize (r.gap - 1) + varintSize (r.ack - 1)
        -- `if capacity >= size` (fix-C10-ack-exact-fit; `ackLastSpare` = 0 for `>=`, 1 for the former strict `>`)
        if size + ackLastSpare ≤ r.cap then r.ranges ++ [(r.gap - 1, r.ack - 1)] else r.ranges
      else r.ranges
    (.ok ⟨largest, delay, first, rs⟩, bs.length - r.left)

/-- `RcvdJournal::gen_ack_frame_util(pn, largest, rcvd_time, capacity)` with `delay = rcvd_time.elapsed()` in µs. -/
def genAck (s : State) (pn largest delay cap : Nat) : State × GenOut :=
  if largest > varintMax ∨ delay > varintMax then (s, .panic)
  else
    let k := s.below largest
    if k ≥ 2 ^ 32 then (s, .overflow)
    else
      let rev := (s.cells.take k).reverse
      let gf := genFrame largest delay cap (rev.map fun c => !c.isEmpty)
      let cells' := (mapFirst (Cell.track pn) gf.2 rev).reverse ++ s.cells.drop k
      match gf.1 with
      | .ok fr =>
        ({ s with cells := cells', incl := insertSorted pn s.incl,
                  earliest := match s.earliest with
                    | some e => if largest ≥ e then none else some e
                    | none => none }, .ok fr)
      | o => ({ s with cells := cells' }, o)

/-! ### operations / histories -/

inductive Op
  | rcv (pn : Nat) (elic : Bool) (pto : Nat)
  | gen (pn largest delay cap : Nat)
  | rack (f : AckFrame)
  | tick (us : Nat)
  deriving Repr

/-- one step; a panic leaves the state unchanged (the harness ends the case there: the lock is poisoned). -/
def step (s : State) : Op → State
  | .rcv pn elic pto => (onRcvdPn s pn elic pto).getD s
  | .gen pn largest delay cap => (genAck s pn largest delay cap).1
  | .rack f => (onRcvdAck s f).getD s
  | .tick us => { s with now := s.now + us }

def init : State := {}
def run (ops : List Op) : State := ops.foldl step init

end GmQuic.RcvdJournal
