import GmQuic.Model.Res
import GmQuic.Model.FrameType
import GmQuic.Gen.FrameTable
import GmQuic.Gen.SidConsts
/-!
Executable model of the frame codecs of `qbase/src/frame/*.rs`, transliterated field by field:
`enc` (= `put_frame` / `put_data_frame`), `dec` (= the `be_*` parsers + `complete_frame` +
`be_frame`), `sizeOf` (= `encoding_size`), `maxSizeOf` (= `max_encoding_size`).

Decoders behave like the nom parsers (streaming parsers answer `incomplete`, complete parsers and
explicit checks answer `nom code`), `decFrame` maps them the way `be_frame` does.  Values that the
Rust types cannot hold are excluded by `WF` (Props), not by the functions here.
The model follows the code with `repo_patches/fix-C05-*.diff` applied (see docs/C05.md).
-/
namespace GmQuic.Codec
open GmQuic.Wire GmQuic.Gen

def varintMax : Nat := 2 ^ 62 - 1
/-- `qbase::sid::MAX_STREAMS_LIMIT`, generated from `sid.rs` (Gen/SidConsts, C12's plug-in). -/
def maxStreamsLimit : Nat := GmQuic.Gen.maxStreamsLimit
def maxCidSize : Nat := 20
def resetTokenSize : Nat := 16

/-! ### UTF-8 (`String::from_utf8_lossy` on the CONNECTION_CLOSE reason) -/

def isCont (b : UInt8) : Bool := 0x80 ≤ b.toNat && b.toNat ≤ 0xBF

/-- `core::str::from_utf8(bs).is_ok()` (RFC 3629 well-formed table). -/
def validUtf8 : Bytes → Bool
  | [] => true
  | b0 :: rest =>
    let a := b0.toNat
    if a < 0x80 then validUtf8 rest
    else if 0xC2 ≤ a ∧ a ≤ 0xDF then
      match rest with
      | b1 :: r => isCont b1 && validUtf8 r
      | _ => false
    else if 0xE0 ≤ a ∧ a ≤ 0xEF then
      match rest with
      | b1 :: b2 :: r =>
        (if a = 0xE0 then 0xA0 ≤ b1.toNat && b1.toNat ≤ 0xBF
         else if a = 0xED then 0x80 ≤ b1.toNat && b1.toNat ≤ 0x9F
         else isCont b1) && isCont b2 && validUtf8 r
      | _ => false
    else if 0xF0 ≤ a ∧ a ≤ 0xF4 then
      match rest with
      | b1 :: b2 :: b3 :: r =>
        (if a = 0xF0 then 0x90 ≤ b1.toNat && b1.toNat ≤ 0xBF
         else if a = 0xF4 then 0x80 ≤ b1.toNat && b1.toNat ≤ 0x8F
         else isCont b1) && isCont b2 && isCont b3 && validUtf8 r
      | _ => false
    else false

/-- `String::from_utf8_lossy(bs).into_owned()` as bytes.  Exact on valid input; on invalid input the
real result has one U+FFFD per maximal invalid subpart — the model answers a single U+FFFD (the
driver canonicalises every reason containing U+FFFD to `LOSSY`, the round-trip theorems need only
the valid case). -/
def utf8Lossy (bs : Bytes) : Bytes := if validUtf8 bs then bs else [0xEF, 0xBF, 0xBD]

/-! ### values -/

/-- `error::ErrorFrameType` -/
inductive ErrFty | v1 (t : FrameType) | ext (v : Nat)
  deriving DecidableEq, Repr, Inhabited

/-- `std::net::SocketAddr` (flowinfo / scope id are not encoded; `SocketAddr::new` sets them 0). -/
structure SockAddr where
  v6 : Bool
  ip : Nat
  port : Nat
  deriving DecidableEq, Repr, Inhabited

/-- `StreamCtlFrame` -/
inductive StreamCtl
  | resetStream (sid code finalSize : Nat)
  | stopSending (sid code : Nat)
  | maxStreamData (sid n : Nat)
  | maxStreams (uni : Bool) (n : Nat)
  | streamDataBlocked (sid n : Nat)
  | streamsBlocked (uni : Bool) (n : Nat)
  deriving DecidableEq, Repr, Inhabited

/-- `Frame<Bytes>`; the data of STREAM / CRYPTO / DATAGRAM travels next to the header, as in Rust. -/
inductive Frame
  | padding
  | ping
  | ack (largest delay first : Nat) (ranges : List (Nat × Nat)) (ecn : Option (Nat × Nat × Nat))
  | closeApp (code : Nat) (reason : Bytes)
  | closeQuic (kind : EKind) (fty : ErrFty) (reason : Bytes)
  | newToken (token : Bytes)
  | maxData (n : Nat)
  | dataBlocked (n : Nat)
  | newConnectionId (seq rpt : Nat) (cid : Bytes) (token : Bytes)
  | retireConnectionId (seq : Nat)
  | handshakeDone
  | pathChallenge (d : Bytes)
  | pathResponse (d : Bytes)
  | streamCtl (f : StreamCtl)
  | stream (sid off len : Nat) (lenBit fin : Bool) (data : Bytes)
  | crypto (off len : Nat) (data : Bytes)
  | datagram (withLen : Bool) (len : Nat) (data : Bytes)
  | addAddress (seq : Nat) (addr : SockAddr) (tire : Nat) (nat : Nat)
  | removeAddress (seq : Nat)
  | punchMeNow (lseq rseq : Nat) (addr : SockAddr) (tire : Nat) (nat : Nat)
  | punchHello (lseq rseq probe : Nat)
  | punchDone (lseq rseq probe : Nat)
  deriving DecidableEq, Repr, Inhabited

/-- `GetFrameType::frame_type` -/
def Frame.type : Frame → FrameType
  | .padding => .padding
  | .ping => .ping
  | .ack _ _ _ _ ecn => .ack ecn.isSome
  | .closeApp .. => .connectionClose true
  | .closeQuic .. => .connectionClose false
  | .newToken _ => .newToken
  | .maxData _ => .maxData
  | .dataBlocked _ => .dataBlocked
  | .newConnectionId .. => .newConnectionId
  | .retireConnectionId _ => .retireConnectionId
  | .handshakeDone => .handshakeDone
  | .pathChallenge _ => .pathChallenge
  | .pathResponse _ => .pathResponse
  | .streamCtl (.resetStream ..) => .resetStream
  | .streamCtl (.stopSending ..) => .stopSending
  | .streamCtl (.maxStreamData ..) => .maxStreamData
  | .streamCtl (.maxStreams uni _) => .maxStreams uni
  | .streamCtl (.streamDataBlocked ..) => .streamDataBlocked
  | .streamCtl (.streamsBlocked uni _) => .streamsBlocked uni
  | .stream _ off _ lenBit fin _ => .stream (off != 0) lenBit fin
  | .crypto .. => .crypto
  | .datagram withLen _ _ => .datagram withLen
  | .addAddress _ a _ _ => .addAddress a.v6
  | .removeAddress _ => .removeAddress
  | .punchMeNow _ _ a _ _ => .punchMeNow a.v6
  | .punchHello .. => .punchHello
  | .punchDone .. => .punchDone

/-! ### encoders -/

/-- `put_frame_type` -/
def encType (t : FrameType) : Bytes := encVarint (natOfFrameType t)

def natOfErrFty : ErrFty → Nat
  | .v1 t => natOfFrameType t
  | .ext v => v

/-- `put_socket_addr` / the inline copy in `put_frame(PunchMeNowFrame)` -/
def encSockAddr (a : SockAddr) : Bytes :=
  beBytes 2 a.port ++ (if a.v6 then beBytes 16 a.ip else beBytes 4 a.ip)

def encRanges : List (Nat × Nat) → Bytes
  | [] => []
  | (gap, ack) :: rest => encVarint gap ++ (encVarint ack ++ encRanges rest)

def encEcn : Option (Nat × Nat × Nat) → Bytes
  | none => []
  | some (a, b, c) => encVarint a ++ (encVarint b ++ encVarint c)

/-- body after the frame type -/
def encBody : Frame → Bytes
  | .padding | .ping | .handshakeDone => []
  | .ack largest delay first ranges ecn =>
    encVarint largest ++ (encVarint delay ++ (encVarint ranges.length ++ (encVarint first ++
      (encRanges ranges ++ encEcn ecn))))
  | .closeApp code reason =>
    -- `len = reason.len().min(remaining_mut())`: unbounded buffer (Vec) modelled; `from_u32(len as u32)`
    encVarint code ++ (encVarint (reason.length % 2 ^ 32) ++ reason)
  | .closeQuic kind fty reason =>
    encVarint (natOfErrKind kind) ++ (encVarint (natOfErrFty fty) ++
      (encVarint (reason.length % 2 ^ 32) ++ reason))
  | .newToken token => encVarint (token.length % 2 ^ 32) ++ token
  | .maxData n | .dataBlocked n | .retireConnectionId n | .removeAddress n => encVarint n
  | .newConnectionId seq rpt cid token =>
    encVarint seq ++ (encVarint rpt ++ (UInt8.ofNat cid.length :: (cid ++ token)))
  | .pathChallenge d | .pathResponse d => d
  | .streamCtl (.resetStream sid code fs) => encVarint sid ++ (encVarint code ++ encVarint fs)
  | .streamCtl (.stopSending sid code) => encVarint sid ++ encVarint code
  | .streamCtl (.maxStreamData sid n) => encVarint sid ++ encVarint n
  | .streamCtl (.maxStreams _ n) => encVarint n
  | .streamCtl (.streamDataBlocked sid n) => encVarint sid ++ encVarint n
  | .streamCtl (.streamsBlocked _ n) => encVarint n
  | .stream sid off len lenBit _ data =>
    encVarint sid ++ ((if off != 0 then encVarint off else []) ++
      ((if lenBit then encVarint (len % 2 ^ 32) else []) ++ data))
  | .crypto off len data => encVarint off ++ (encVarint len ++ data)
  | .datagram withLen len data => (if withLen then encVarint len else []) ++ data
  | .addAddress seq a tire nat =>
    encVarint seq ++ (encSockAddr a ++ (encVarint tire ++ encVarint nat))
  | .punchMeNow l r a tire nat =>
    encVarint l ++ (encVarint r ++ (encSockAddr a ++ (encVarint tire ++ encVarint nat)))
  | .punchHello a b c | .punchDone a b c => encVarint a ++ (encVarint b ++ encVarint c)

/-- `put_frame(&Frame)`: the three data frames go through `put_data_frame`; CRYPTO asserts
`frame.length == data.len()` first. -/
def enc (f : Frame) : Res Unit :=
  match f with
  | .crypto _ len data =>
    if len = data.length then .ok () (encType f.type ++ encBody f)
    else .panic "crypto.rs put_data_frame assert_eq!(frame.length, data.len())"
  | _ => .ok () (encType f.type ++ encBody f)

/-- the bytes `put_frame` writes (CRYPTO's assertion is part of `WF`). -/
def encBytes (f : Frame) : Bytes := encType f.type ++ encBody f

/-! ### declared sizes -/

def sockAddrSize (a : SockAddr) : Nat := if a.v6 then 2 + 16 else 2 + 4

def rangesSize : List (Nat × Nat) → Nat
  | [] => 0
  | (g, a) :: rest => varintSize g + varintSize a + rangesSize rest

/-- `EncodeSize::encoding_size` (header part only for the three data frames, as in Rust). -/
def sizeOf : Frame → Nat
  | .padding | .ping | .handshakeDone => 1
  | .ack largest delay first ranges ecn =>
    1 + varintSize largest + varintSize delay + varintSize ranges.length + varintSize first
      + rangesSize ranges
      + (match ecn with | some (a, b, c) => varintSize a + varintSize b + varintSize c | none => 0)
  | .closeApp code reason => 1 + varintSize code + varintSize reason.length + reason.length
  | .closeQuic kind fty reason =>
    1 + varintSize (natOfErrKind kind) + varintSize (natOfErrFty fty)
      + varintSize reason.length + reason.length
  | .newToken token => 1 + varintSize token.length + token.length
  | .maxData n | .dataBlocked n | .retireConnectionId n => 1 + varintSize n
  | .newConnectionId seq rpt cid _ => 1 + varintSize seq + varintSize rpt + 1 + cid.length + resetTokenSize
  | .pathChallenge d | .pathResponse d => 1 + d.length
  | .streamCtl (.resetStream sid code fs) => 1 + varintSize sid + varintSize code + varintSize fs
  | .streamCtl (.stopSending sid code) => 1 + varintSize sid + varintSize code
  | .streamCtl (.maxStreamData sid n) => 1 + varintSize sid + varintSize n
  | .streamCtl (.maxStreams _ n) => 1 + varintSize n
  | .streamCtl (.streamDataBlocked sid n) => 1 + varintSize sid + varintSize n
  | .streamCtl (.streamsBlocked _ n) => 1 + varintSize n
  | .stream sid off len lenBit _ _ =>
    1 + varintSize sid + (if off != 0 then varintSize off else 0) + (if lenBit then varintSize len else 0)
  | .crypto off len _ => 1 + varintSize off + varintSize len
  | .datagram withLen len _ => 1 + (if withLen then varintSize len else 0)
  | f@(.addAddress seq a tire nat) =>
    varintSize (natOfFrameType f.type) + varintSize seq + sockAddrSize a + varintSize tire + varintSize nat
  | f@(.removeAddress seq) => varintSize (natOfFrameType f.type) + varintSize seq
  | f@(.punchMeNow l r a tire nat) =>
    varintSize (natOfFrameType f.type) + varintSize l + varintSize r + sockAddrSize a + varintSize tire
      + varintSize nat
  | f@(.punchHello a b c) | f@(.punchDone a b c) =>
    varintSize (natOfFrameType f.type) + varintSize a + varintSize b + varintSize c

/-- `EncodeSize::max_encoding_size` -/
def maxSizeOf : Frame → Nat
  | .padding | .ping | .handshakeDone => 1
  | .ack _ _ _ ranges ecn => 1 + 8 + 8 + 8 + 8 + ranges.length * 16 + (if ecn.isSome then 24 else 0)
  | .closeApp _ reason => 1 + 8 + 2 + reason.length
  | .closeQuic _ _ reason => 1 + 8 + 8 + 2 + reason.length
  | .newToken token => 1 + varintSize token.length + token.length
  | .maxData _ | .dataBlocked _ | .retireConnectionId _ => 1 + 8
  | .newConnectionId .. => 1 + 8 + 8 + 21 + resetTokenSize
  | .pathChallenge d | .pathResponse d => 1 + d.length
  | .streamCtl (.resetStream ..) => 1 + 8 + 8 + 8
  | .streamCtl (.stopSending ..) => 1 + 8 + 8
  | .streamCtl (.maxStreamData ..) => 1 + 8 + 8
  | .streamCtl (.maxStreams ..) => 1 + 8
  | .streamCtl (.streamDataBlocked ..) => 1 + 8 + 8
  | .streamCtl (.streamsBlocked ..) => 1 + 8
  | .stream .. => 1 + 8 + 8 + 8
  | .crypto .. => 1 + 8 + 8
  | .datagram .. => 1 + 8
  | .addAddress .. => 4 + 8 + 2 + 16 + 8 + 8
  | .removeAddress _ => 4 + 8
  | .punchMeNow .. => 4 + 8 + 8 + (2 + 16) + 8 + 8
  | .punchHello .. | .punchDone .. => 4 + 8 + 8 + 8

/-- length of the data that `put_data_frame` appends after the header (0 for the other frames). -/
def dataLen : Frame → Nat
  | .stream _ _ _ _ _ data | .crypto _ _ data | .datagram _ _ data => data.length
  | _ => 0

/-! ### decoders -/

/-- `be_socket_addr` (complete `be_u16` + `be_u32` / `be_u128`) -/
def pSockAddr (v6 : Bool) : P SockAddr := fun bs =>
  (pBeC 2 bs).bind fun port r =>
  (pBeC (if v6 then 16 else 4) r).bind fun ip r => .ok ⟨v6, ip, port⟩ r

/-- `be_connection_id` (streaming `be_u8`, TooLarge above 20, streaming `take`) -/
def pCid : P Bytes := fun bs =>
  (pU8S bs).bind fun len r =>
  if len > maxCidSize then .err (.nom .tooLarge) else pTakeS len r

/-- the `while count > 0` loop of `ack_frame_with_ecn` -/
def pRanges : Nat → P (List (Nat × Nat))
  | 0 => fun bs => .ok [] bs
  | n + 1 => fun bs =>
    (pVarint bs).bind fun gap r =>
    (pVarint r).bind fun ack r =>
    (pRanges n r).bind fun rest r => .ok ((gap, ack) :: rest) r

/-- `NatType::try_from(VarInt)`: `value.into_u64() as u8` then the 0..=5 table. -/
def natTypeOk (v : Nat) : Bool := v % 256 ≤ 5

/-- `be_frame_type` inside `be_quic_close_frame` (after fix-C05-close-frame-type: unknown numbers
become `ErrorFrameType::Ext`). -/
def pErrFty : P ErrFty := fun bs =>
  (pVarint bs).bind fun v r =>
  match frameTypeOfNat v with
  | some t => .ok (.v1 t) r
  | none => .ok (.ext v) r

/-- `complete_frame(frame_type, raw)(input)` -/
def decBody (t : FrameType) : P Frame := fun bs =>
  match t with
  | .padding => .ok .padding bs
  | .ping => .ok .ping bs
  | .handshakeDone => .ok .handshakeDone bs
  | .connectionClose true =>
    (pVarint bs).bind fun code r =>
    (pVarint r).bind fun len r =>
    (pTakeC len r).bind fun reason r => .ok (.closeApp code (utf8Lossy reason)) r
  | .connectionClose false =>
    (pVarint bs).bind fun code r =>
    match errKindOfNat code with
    | none => .err (.nom .alt)
    | some kind =>
      (match pErrFty r with
       | .err _ => Res.err (.nom .alt)
       | x => x).bind fun fty r =>
      (pVarint r).bind fun len r =>
      (pTakeC len r).bind fun reason r => .ok (.closeQuic kind fty (utf8Lossy reason)) r
  | .newConnectionId =>
    (pVarint bs).bind fun seq r =>
    (pVarint r).bind fun rpt r =>
    if rpt > seq then .err (.nom .verify) else
    (pCid r).bind fun cid r =>
    if cid.isEmpty then .err (.nom .verify) else
    (pTakeC resetTokenSize r).bind fun tok r => .ok (.newConnectionId seq rpt cid tok) r
  | .retireConnectionId => (pVarint bs).map .retireConnectionId
  | .dataBlocked => (pVarint bs).map .dataBlocked
  | .maxData => (pVarint bs).map .maxData
  | .pathChallenge => (pTakeS 8 bs).map .pathChallenge
  | .pathResponse => (pTakeC 8 bs).map .pathResponse
  | .newToken =>
    (pVarint bs).bind fun len r => (pTakeS len r).map .newToken
  | .ack ecn =>
    (pVarint bs).bind fun largest r =>
    (pVarint r).bind fun delay r =>
    (pVarint r).bind fun count r =>
    (pVarint r).bind fun first r =>
    (pRanges count r).bind fun ranges r =>
    if ecn then
      (pVarint r).bind fun a r =>
      (pVarint r).bind fun b r =>
      (pVarint r).bind fun c r => .ok (.ack largest delay first ranges (some (a, b, c))) r
    else .ok (.ack largest delay first ranges none) r
  | .resetStream =>
    (pVarint bs).bind fun sid r =>
    (pVarint r).bind fun code r =>
    (pVarint r).bind fun fs r => .ok (.streamCtl (.resetStream sid code fs)) r
  | .stopSending =>
    (pVarint bs).bind fun sid r =>
    (pVarint r).bind fun code r => .ok (.streamCtl (.stopSending sid code)) r
  | .maxStreamData =>
    (pVarint bs).bind fun sid r =>
    (pVarint r).bind fun n r => .ok (.streamCtl (.maxStreamData sid n)) r
  | .maxStreams uni =>
    (pVarint bs).bind fun n r =>
    if n > maxStreamsLimit then .err (.nom .tooLarge) else .ok (.streamCtl (.maxStreams uni n)) r
  | .streamsBlocked uni =>
    (pVarint bs).bind fun n r => .ok (.streamCtl (.streamsBlocked uni n)) r
  | .streamDataBlocked =>
    (pVarint bs).bind fun sid r =>
    (pVarint r).bind fun n r => .ok (.streamCtl (.streamDataBlocked sid n)) r
  | .crypto =>
    (pVarint bs).bind fun off r =>
    (pVarint r).bind fun len r =>
    -- after fix-C05-crypto-offset: `offset + length > VARINT_MAX`
    if off + len > varintMax then .err (.nom .tooLarge) else
    if r.length < len then .err .incomplete else .ok (.crypto off len (r.take len)) (r.drop len)
  | .stream offBit lenBit fin =>
    (pVarint bs).bind fun sid r =>
    (if offBit then pVarint r else .ok 0 r).bind fun off r =>
    (if lenBit then pVarint r else .ok r.length r).bind fun len r =>
    if off + len > varintMax then .err (.nom .tooLarge) else
    if r.length < len then .err .incomplete else .ok (.stream sid off len lenBit fin (r.take len)) (r.drop len)
  | .datagram withLen =>
    if withLen then
      (pVarint bs).bind fun len r =>
      if len > r.length then .err .incomplete else .ok (.datagram true len (r.take len)) (r.drop len)
    else .ok (.datagram false bs.length bs) []
  | .addAddress v6 =>
    (pVarint bs).bind fun seq r =>
    (pSockAddr v6 r).bind fun a r =>
    (pVarint r).bind fun tire r =>
    (pVarint r).bind fun nat r =>
    if natTypeOk nat then .ok (.addAddress seq a tire (nat % 256)) r else .err (.nom .verify)
  | .removeAddress => (pVarint bs).map .removeAddress
  | .punchMeNow v6 =>
    (pVarint bs).bind fun l r =>
    (pVarint r).bind fun rs r =>
    (pSockAddr v6 r).bind fun a r =>
    (pVarint r).bind fun tire r =>
    (pVarint r).bind fun nat r =>
    if natTypeOk nat then .ok (.punchMeNow l rs a tire (nat % 256)) r else .err (.nom .verify)
  | .punchHello =>
    (pVarint bs).bind fun a r =>
    (pVarint r).bind fun b r =>
    (pVarint r).bind fun c r => .ok (.punchHello a b c) r
  | .punchDone =>
    (pVarint bs).bind fun a r =>
    (pVarint r).bind fun b r =>
    (pVarint r).bind fun c r => .ok (.punchDone a b c) r

/-- `be_frame_type` -/
def decType : P FrameType := fun bs =>
  match decVarint bs with
  | none => .err .incompleteType
  | some (v, r) =>
    match frameTypeOfNat v with
    | none => .err (.invalidType v)
    | some t => .ok t r

/-- `be_frame(raw, packet_type)`; `consumed = raw.len() - rest.len()`. -/
def decFrame (pt : PktType) : P Frame := fun bs =>
  (decType bs).bind fun t r =>
  if !belongsTo t pt then .err .wrongType else
  match decBody t r with
  | .ok f rest => .ok f rest
  | .err .incomplete => .err .incompleteFrame
  | .err (.nom c) => .err (.parseError c)
  | .err k => .err k
  | .panic s => .panic s

end GmQuic.Codec
