import GmQuic.Model.Frame
import GmQuic.Gen.C03Tables
/-!
C03 — decrypted payload → frames: `impl Iterator for FrameReader` (qbase/src/frame.rs), the loop of
`read_plain_packet` (qconnection/src/space.rs: stop at the first error, `QuicError::from`), and the frame
dispatchers of the three packet-number spaces (tables generated from qconnection/src/space/*.rs).
`be_frame` itself is `Codec.decFrame` (C05's transliteration).  Core-only.
-/
namespace GmQuic.FrameRd
open GmQuic.Wire GmQuic.Codec GmQuic.Gen GmQuic.Gen.C03

/-- the `frame::Error` variant a `be_frame` error is (nom-level kinds never leave `be_frame`) -/
def ferrOf : ErrKind → Option FErr
  | .incompleteType => some .incompleteType
  | .invalidType _ => some .invalidType
  | .wrongType => some .wrongType
  | .incompleteFrame => some .incompleteFrame
  | .parseError _ => some .parseError
  | .incomplete | .nom _ => none

/-- one call of `<FrameReader as Iterator>::next` on a reader whose payload is `bs` -/
inductive FrStep
  | eof
  /-- `Some(Ok(..))`; `rest` = payload after `advance(consumed)` -/
  | frame (f : Frame) (rest : Bytes)
  /-- `Some(Err(e))`; the payload is NOT advanced -/
  | err (k : ErrKind)
  | panic (site : String)
  deriving Repr, DecidableEq

def FrameReader.next (pt : PktType) (bs : Bytes) : FrStep :=
  if bs.isEmpty then .eof else
  match decFrame pt bs with
  | .ok f rest =>
    -- `Ok((input.len() - remain.len(), ..))` then `self.payload.advance(consumed)`
    if rest.length > bs.length then .panic "qbase/src/frame/io.rs:be_frame:input.len()-remain.len()"
    else .frame f (bs.drop (bs.length - rest.length))
  | .err k => .err k
  | .panic s => .panic s

/-- result of `read_plain_packet` as far as decoding goes: the frames handed to `dispatch_frame`, in order -/
inductive PlainOut
  | ok (frames : List Frame)
  | err (frames : List Frame) (e : FErr)
  | panic (site : String)
  | outOfFuel
  deriving Repr, DecidableEq

def readPlainRun : Nat → PktType → Bytes → List Frame → PlainOut
  | 0, _, _, _ => .outOfFuel
  | fuel + 1, pt, bs, acc =>
    match FrameReader.next pt bs with
    | .eof => .ok acc.reverse
    | .frame f rest => readPlainRun fuel pt rest (f :: acc)
    | .err k =>
      match ferrOf k with
      | some e => .err acc.reverse e          -- `frame_result.map_err(QuicError::from)?`
      | none => .panic "qbase/src/frame/io.rs:be_frame:nom error not mapped"
    | .panic s => .panic s

/-- `read_plain_packet(packet, dispatch)` on the decrypted body `bs` of a packet of type `pt` -/
def readPlain (pt : PktType) (bs : Bytes) : PlainOut :=
  if bs.isEmpty && readPlainRejectsEmpty then .err [] .noFrames
  else readPlainRun (bs.length + 1) pt bs []

/-! ### dispatch -/

/-- which `Frame` enum variant carries a frame of type `t` (`complete_frame`) -/
def fvarOf : FrameType → FVar
  | .padding => .padding | .ping => .ping | .ack _ => .ack
  | .resetStream | .stopSending | .maxStreamData | .maxStreams _ | .streamDataBlocked | .streamsBlocked _ => .streamCtl
  | .crypto => .crypto | .newToken => .newToken | .stream .. => .stream
  | .maxData => .maxData | .dataBlocked => .dataBlocked
  | .newConnectionId => .newConnectionId | .retireConnectionId => .retireConnectionId
  | .pathChallenge => .pathChallenge | .pathResponse => .pathResponse
  | .connectionClose _ => .close | .handshakeDone => .handshakeDone | .datagram _ => .datagram
  | .addAddress _ => .addAddress | .removeAddress => .removeAddress | .punchMeNow _ => .punchMeNow
  | .punchHello => .punchHello | .punchDone => .punchDone

inductive Handling | process | ignore | unreachable
  deriving DecidableEq, Repr

/-- a Rust `match frame { arms.., _ => fall }`: first arm whose pattern, guard and cfg admit the frame -/
def dispatch (arms : List Arm) (fallUnreachable : Bool) (feat : String → Bool) (short : Bool) (v : FVar) : Handling :=
  match arms.find? (fun a => a.v == v && (!a.shortOnly || short) && (match a.feature with | none => true | some f => feat f)) with
  | some a => if a.emptyBody then .ignore else .process
  | none => if fallUnreachable then .unreachable else .ignore

/-- the dispatcher that sees packets of type `pt` (Retry / VN carry no frames) -/
def spaceOf : PktType → Option (List Arm × Bool)
  | .initial => some (initialArms, initialFallUnreachable)
  | .handshake => some (handshakeArms, handshakeFallUnreachable)
  | .zeroRtt | .oneRtt => some (dataArms, dataFallUnreachable)
  | .retry | .versionNegotiation => none

def handle (pt : PktType) (feat : String → Bool) (t : FrameType) : Handling :=
  match spaceOf pt with
  | some (arms, fall) => dispatch arms fall feat (pt == .oneRtt) (fvarOf t)
  | none => .ignore

def allFrameTypes : List FrameType :=
  [.padding, .ping, .ack false, .ack true, .resetStream, .stopSending, .crypto, .newToken,
   .stream false false false, .stream false false true, .stream false true false, .stream false true true,
   .stream true false false, .stream true false true, .stream true true false, .stream true true true,
   .maxData, .maxStreamData, .maxStreams false, .maxStreams true, .dataBlocked, .streamDataBlocked,
   .streamsBlocked false, .streamsBlocked true, .newConnectionId, .retireConnectionId, .pathChallenge,
   .pathResponse, .connectionClose false, .connectionClose true, .handshakeDone, .datagram false, .datagram true,
   .addAddress false, .addAddress true, .removeAddress, .punchMeNow false, .punchMeNow true, .punchHello, .punchDone]

def allPktTypes : List PktType := [.initial, .handshake, .zeroRtt, .oneRtt, .retry, .versionNegotiation]

end GmQuic.FrameRd
