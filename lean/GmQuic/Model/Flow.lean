/-
Model of `qbase/src/flow.rs`: the two connection-level flow controllers.

* `SendCtl`  = `SendControler` behind `ArcSendControler` (+ the `Credit` guards handed out by
  `credit`, the `Result::Err` state entered by `on_error`).
* `RecvCtl`  = `RecvController` behind `ArcRecvController`.

Transliterated branch by branch.  Integers are `Nat`; every place where the Rust does an unchecked
`u64`/`usize` subtraction that *can* go below zero is given an explicit `panic` outcome (debug
profile = reference semantics, DESIGN §5):

* `SendControler::avaliable` = `max_data - sent_data`      → `none` when `max_data < sent_data`
  (reachable only through `revise_max_data(true, m)` with `m < sent_data`);
* `Credit::post_sent`        = `available -= amount`        → panic when `amount > available`;
* `SendControler::return_back` = `sent_data -= flow`        → panic when `flow > sent_data`
  (proved unreachable, kept explicit so that the proof and not the totalisation says so);
* `VarInt::from_u64(max).expect(..)` in `commit`/`on_new_rcvd` → panic when `max ≥ 2^62`.

A panic raised while the `Mutex` is held poisons it: every later call panics on `lock().unwrap()`.
The model freezes (`poisoned = true`) and the harness ends the case there.
Core-only (no imports): linked into the native driver.
-/

namespace GmQuic.Flow

def VARINT_MAX : Nat := 2^62 - 1

/-! ## Sending side -/

structure SendCtl where
  sent : Nat                -- `sent_data`
  max : Nat                 -- `max_data`
  limited : Bool := false   -- `flow_limited`
  dead : Bool := false      -- `Err(_)` state of the `Result` after `on_error`
  poisoned : Bool := false  -- a panic happened while the lock was held
  credits : List Nat := []  -- `available` of every live `Credit` guard, in creation order
  freshTotal : Nat := 0     -- ghost: Σ of all `post_sent` amounts (bytes reported as fresh)
  blocked : List Nat := []  -- ghost: DATA_BLOCKED limits emitted, oldest first
deriving Repr, DecidableEq

def SendCtl.init (m0 : Nat) : SendCtl := { sent := 0, max := m0 }

def SendCtl.openCredits (s : SendCtl) : Nat := s.credits.length

inductive SendOp where
  | credit (q : Nat)            -- `ArcSendControler::credit(q)`
  | post (k n : Nat)            -- `post_sent(n)` on the k-th live credit
  | drop (k : Nat)              -- drop the k-th live credit
  | maxdata (m : Nat)           -- MAX_DATA received / `reset_send_window(m)` (`increase_limit`)
  | revise (rej : Bool) (m : Nat) -- `revise_max_data(rej, m)` (peer parameters after the handshake)
  | error                       -- `on_error`
deriving Repr, DecidableEq

inductive SendObs where
  | credit (avail : Nat) (frame : Option Nat)   -- new credit; DATA_BLOCKED(limit) if emitted
  | err                                          -- `credit` on a closed controller
  | done                                         -- unit-returning op completed
  | panic (site : String)
  | bad                                          -- handle does not exist (harness bug)
deriving Repr, DecidableEq

/-- `SendControler::avaliable` = `max_data.saturating_sub(sent_data)` (fix-C11-avaliable-saturating; before
that fix the subtraction was unchecked: panic / wrap-around when `sent_data > max_data`, which a rejected
0-RTT produces).  `Nat` subtraction saturates like `saturating_sub`. -/
def SendCtl.avaliable (s : SendCtl) : Nat := s.max - s.sent

/-- `SendControler::increase_limit`. -/
def SendCtl.increaseLimit (s : SendCtl) (m : Nat) : SendCtl :=
  if m > s.max then { s with max := m, limited := false } else s

def SendCtl.step (s : SendCtl) (op : SendOp) : SendCtl × SendObs :=
  if s.poisoned then (s, .panic "poisoned") else
  match op with
  | .credit q =>
    if s.dead then (s, .err) else
    let a := min s.avaliable q
    -- commit(a)
    let sent' := s.sent + a
    -- `avaliable()` again (saturating: 0 also when `sent_data > max_data`)
    if s.max - sent' = 0 ∧ s.limited = false then
      if s.max > VARINT_MAX then
        ({ s with sent := sent', limited := true, poisoned := true }, .panic "varint")
      else
        ({ s with sent := sent', limited := true, credits := s.credits ++ [a],
                  blocked := s.blocked ++ [s.max] }, .credit a (some s.max))
    else
      ({ s with sent := sent', credits := s.credits ++ [a] }, .credit a none)
  | .post k n =>
    match s.credits[k]? with
    | none => (s, .bad)
    | some a =>
      if n > a then (s, .panic "post_sent")       -- `available -= amount` underflows; nothing changed
      else ({ s with credits := s.credits.set k (a - n), freshTotal := s.freshTotal + n }, .done)
  | .drop k =>
    match s.credits[k]? with
    | none => (s, .bad)
    | some a =>
      let cs := s.credits.eraseIdx k
      if s.dead then ({ s with credits := cs }, .done) else
      -- return_back(a)
      if a > s.sent then ({ s with credits := cs, poisoned := true }, .panic "return_back")
      else ({ s with credits := cs, sent := s.sent - a }, .done)   -- `avaliable() > 0` only decides a wake-up
  | .maxdata m =>
    if s.dead then (s, .done) else (s.increaseLimit m, .done)
  | .revise rej m =>
    if s.dead then (s, .done) else
    let s1 := if rej then { s with max := 0, limited := false } else s
    (s1.increaseLimit m, .done)
  | .error =>
    ({ s with dead := true }, .done)

def SendCtl.run (m0 : Nat) (ops : List SendOp) : SendCtl :=
  ops.foldl (fun s op => (s.step op).1) (SendCtl.init m0)

/-! ## Receiving side -/

structure RecvCtl where
  rcvd : Nat               -- `rcvd_data`
  max : Nat                -- `max_data`
  step : Nat               -- `step` = initial_max_data / 2
  poisoned : Bool := false
  advertised : List Nat := []   -- ghost: MAX_DATA values emitted, oldest first
  total : Nat := 0              -- ghost: Σ of all amounts passed to `on_new_rcvd`
deriving Repr, DecidableEq

def RecvCtl.init (m0 : Nat) : RecvCtl := { rcvd := 0, max := m0, step := m0 / 2 }

inductive RecvObs where
  | ok (n : Nat) (frame : Option Nat)    -- `Ok(amount)`; MAX_DATA(value) if emitted
  | flowControl                           -- `Err(FlowControl)`
  | panic (site : String)
deriving Repr, DecidableEq

/-- `RecvController::on_new_rcvd(_, n)`. -/
def RecvCtl.onNewRcvd (s : RecvCtl) (n : Nat) : RecvCtl × RecvObs :=
  if s.poisoned then (s, .panic "poisoned") else
  let rcvd' := s.rcvd + n
  if rcvd' ≥ 2^64 then ({ s with poisoned := true }, .panic "rcvd_data overflow") else
  let s := { s with rcvd := rcvd', total := s.total + n }
  if rcvd' ≤ s.max then
    if rcvd' + s.step ≥ s.max then
      let max' := s.max + s.step
      if max' > VARINT_MAX then ({ s with max := max', poisoned := true }, .panic "varint")
      else ({ s with max := max', advertised := s.advertised ++ [max'] }, .ok n (some max'))
    else (s, .ok n none)
  else (s, .flowControl)

def RecvCtl.run (m0 : Nat) (ns : List Nat) : RecvCtl :=
  ns.foldl (fun s n => (s.onNewRcvd n).1) (RecvCtl.init m0)

end GmQuic.Flow
