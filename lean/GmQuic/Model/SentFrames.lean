import GmQuic.Model.SentJournal
import GmQuic.Model.RcvdJournal
/-!
C10 (sending direction) — `qrecovery/src/journal/sent.rs` `SentJournal<T>` **with the frame contents**:
the flat `queue: VecDeque<T>` next to `sent_packets: IndexDeque<SentPktState>`, and the offset arithmetic
(`take_while(idx < pn).map(nframes).sum()`, `queue.range_mut(offset..offset+len)`, `resize`'s `drain(..f)`)
that maps a packet number to its recorded frames.  Record states, `be_acked`, `maybe_lost`,
`should_remain_after`, `dropCount` are reused from the C07 model (`Model/SentJournal.lean`).

Whole guard life-cycles are single operations here (the guard holds the mutex; C07 covers the life-cycle):
* `pkt frames trivial rt et` = `new_packet(); record_frame(f)*; [record_trivial()]; build_with_time(rt, et)`;
* `leak frames`             = `new_packet(); record_frame(f)*; drop(guard)` (frames stay in `queue`);
* `ack f`    = `qconnection/src/space.rs` `recv_frame`: `rotate(); update_largest(f)?; for pn in f.iter().flat_map(rev)
               { on_packet_acked(pn) }; drop` (one `resize` at the end);
* `acked pns` / `lost pns` = one rotate guard, `on_packet_acked` / `may_loss_packet` for each pn, drop;
* `fastretx` = one rotate guard, `fast_retransmit()`, drop;  `rotate`;  `tick`.
`update_largest` follows the FIXED code (`repo_patches/fix-C10-ack-of-unsent.diff`): an ACK whose largest is
`≥ sent_packets.largest()` (a number not sent yet) is refused; `updateLargestOkOld` is the unchanged code.
`log` is a ghost field: the frames recorded for each record of `recs`, never read by the modelled methods.
Times are ms.  Core-only imports.
-/
namespace GmQuic.SentFrames
open GmQuic.Gen GmQuic.SentJournal GmQuic.RcvdJournal

structure State where
  offset : Nat := 0
  recs : List Rec := []
  queue : List Nat := []        -- frame ids
  la : Nat := sjInitLargestAcked
  now : Nat := 0
  log : List (List Nat) := []   -- ghost
  deriving Repr

def State.largest (s : State) : Nat := s.offset + s.recs.length

inductive Out
  | pn (n : Option Nat)           -- packet built with this number (none: nothing recorded, number not consumed)
  | frames (fs : List Nat)
  | err                           -- `update_largest` ⇒ PROTOCOL_VIOLATION
  | panic                         -- iter underflow / `range_mut` out of bounds / `drain` out of bounds / pn overflow
  | unit
  deriving DecidableEq, Repr

/-- `SentJournal::resize`; `none` = `queue.drain(..f)` out of range. -/
def resize (s : State) : Option State :=
  let d := dropCount s.now s.recs
  if s.queue.length < d.2 then none
  else some { s with offset := s.offset + d.1, recs := s.recs.drop d.1, queue := s.queue.drop d.2, log := s.log.drop d.1 }

/-- offset of packet `pn`'s frames in `queue`: `enumerate().take_while(idx < pn).map(nframes).sum()`. -/
def frameOffset (s : State) (pn : Nat) : Nat := sumFrames (s.recs.take (pn - s.offset))

/-- `on_packet_acked` / `may_loss_packet` with `f` = `be_acked` / `maybe_lost`; `none` = `range_mut` out of bounds. -/
def touchFrames (s : State) (pn : Nat) (f : Rec → Rec × Nat) : Option (State × List Nat) :=
  let off := frameOffset s pn
  let (s', len) :=
    if s.offset ≤ pn ∧ pn < s.largest then
      match s.recs[pn - s.offset]? with
      | some r => ({ s with recs := s.recs.set (pn - s.offset) (f r).1 }, (f r).2)
      | none => (s, 0)
    else (s, 0)
  if off + len > s.queue.length then none
  else some (s', (s.queue.drop off).take len)

/-- several `touchFrames` inside one rotate guard, results concatenated -/
def touchAll (f : Rec → Rec × Nat) : State → List Nat → Option (State × List Nat)
  | s, [] => some (s, [])
  | s, pn :: pns =>
    match touchFrames s pn f with
    | none => none
    | some (s1, fs) =>
      match touchAll f s1 pns with
      | none => none
      | some (s2, gs) => some (s2, fs ++ gs)

/-- `SentPktState::should_retransmit_after(now)`. -/
def Rec.shouldRetransmit (now : Nat) : Rec → Rec × Bool
  | .flighting n rt e => if rt < now then (.retrans n e, true) else (.flighting n rt e, false)
  | r => (r, false)

/-- the `scan` of `fast_retransmit` over records with pn < largest_acked: (new records, frames) -/
def fastScan (now : Nat) : (n : Nat) → List Rec → List Nat → List Rec × List Nat
  | 0, rs, _ => (rs, [])
  | _, [], _ => ([], [])
  | n + 1, r :: rs, q =>
    let (r', b) := Rec.shouldRetransmit now r
    let (rs', fs) := fastScan now n rs (q.drop r.nframes)
    (r' :: rs', (if b then q.take r.nframes else []) ++ fs)

/-- unchanged code: `if ack_frame.largest() > sent_packets.largest() { Err }` -/
def updateLargestOkOld (s : State) (n : Nat) : Bool := decide (n ≤ s.largest)
/-- fixed code: `if ack_frame.largest() >= sent_packets.largest() { Err }` -/
def updateLargestOk (s : State) (n : Nat) : Bool := decide (n < s.largest)

inductive Op
  | pkt (frames : List Nat) (trivial : Bool) (rt et : Nat)
  | leak (frames : List Nat)
  | ack (f : AckFrame)
  | acked (pns : List Nat)
  | lost (pns : List Nat)
  | fastretx
  | rotate
  | tick (ms : Nat)
  deriving Repr

def withResize (r : Option (State × Out)) : State → State × Out := fun s0 =>
  match r with
  | none => (s0, .panic)
  | some (s, o) => match resize s with
    | none => (s0, .panic)
    | some s' => (s', o)

/-- generic over the `update_largest` test so that the unchanged code can be stated too -/
def stepWith (ul : State → Nat → Bool) (s : State) : Op → State × Out
  | .pkt frames trivial rt et =>
    let q := s.queue ++ frames
    if trivial ∧ frames.length = 0 then
      if s.largest > varintMax then (s, .panic)
      else ({ s with recs := s.recs ++ [.skipped], log := s.log ++ [[]] }, .pn (some s.largest))
    else if frames.length > 0 then
      if s.largest > varintMax then (s, .panic)     -- the mutex is poisoned; the state is never observed again
      else ({ s with queue := q, recs := s.recs ++ [.flighting frames.length (s.now + rt) (s.now + et)],
                     log := s.log ++ [frames] }, .pn (some s.largest))
    else (s, .pn none)
  | .leak frames => ({ s with queue := s.queue ++ frames }, .unit)
  | .ack f =>
    if ul s f.largest then
      let s1 := { s with la := max s.la f.largest }
      match f.iter with
      | none => (s, .panic)     -- not reached by the harness: a dev-build panic inside the guard poisons the mutex
      | some rs => withResize ((touchAll Rec.beAcked s1 (pnsDesc rs)).map fun (s2, fs) => (s2, .frames fs)) s
    else withResize (some (s, .err)) s
  | .acked pns => withResize ((touchAll Rec.beAcked s pns).map fun (s2, fs) => (s2, .frames fs)) s
  | .lost pns => withResize ((touchAll Rec.maybeLost s pns).map fun (s2, fs) => (s2, .frames fs)) s
  | .fastretx =>
    match resize s with
    | none => (s, .panic)
    | some s1 =>
      let (rs', fs) := fastScan s1.now (s1.la - s1.offset) s1.recs s1.queue
      withResize (some ({ s1 with recs := rs' }, .frames fs)) s
  | .rotate => withResize (some (s, .unit)) s
  | .tick ms => ({ s with now := s.now + ms }, .unit)

def step := stepWith updateLargestOk
def stepOld := stepWith updateLargestOkOld

def init : State := {}
def run (ops : List Op) : State := ops.foldl (fun s op => (step s op).1) init

end GmQuic.SentFrames
