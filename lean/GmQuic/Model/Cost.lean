import GmQuic.Model.RcvdJournal
import GmQuic.Model.SentFrames
import GmQuic.Model.Cid
import GmQuic.Model.StreamRules
import GmQuic.Model.Flow
import GmQuic.Model.Frame
import GmQuic.Model.RecvBuf
/-!
C04 — cost-instrumented transliterations of the frame handlers reachable from the dispatchers of
`qconnection/src/space/{initial,handshake,data}.rs`.

Every handler is `… → Out σ × Cost`: the functional part REUSES the merged models (C10 `RcvdJournal` /
`SentFrames` / `AckFrame.iter`, C14 `Cid`, C12 `StreamRules` / `Sid`, C11 `Flow`, C08 `RecvBuf`, C05 `Frame`),
the cost layer next to it counts
* `iters` — loop iterations executed by the handler (one unit per element visited / per packet number enumerated),
* `cells` — container cells allocated (deque slots filled, vector elements collected, frames queued).
Nanoseconds and bytes are NOT modelled.

The handlers follow the code WITH `repo_patches/fix-C04-*.diff` applied (packet-number arrival: see the table); the unchanged code is kept as
`…Old` (used by the `_fails` theorems and by the driver to explain a run against an unfixed tree):

| fixed | unchanged |
|-------|-----------|
| `read_plain_packet`: `AckFrame::validate` ⇒ FRAME_ENCODING_ERROR before any consumer | `AckFrame::iter` underflows inside the first consumer (dev: panic; release: 2^62-element ranges) |
| `PacketSpace::on_ack_rcvd` (qcongestion) walks the sent packets next to the ranges | visits every acknowledged packet number |
| `RcvdJournal::on_rcvd_ack` filters `packet_include_ack` by the ranges | visits every acknowledged packet number |
| (NOT in the fix set — `repo_patches/experimental-C04-pn-gap.diff`, `handlePn true`) `RcvdJournal::decode_pn`: more than `maxPnGap` beyond the largest ⇒ `TooLarge` (packet dropped) | `handlePn false` = the code as it is: `on_rcvd_pn` fills up to 2^31 cells |
| `recv_new_cid_frame` (/repo HEAD = C14's tree `.exact`: no `seq - retire_prior_to` pre-test, exact count of active ids): a sequence number more than `max maxSeqGap limit` beyond the largest received ⇒ CONNECTION_ID_LIMIT_ERROR before the insert | pinned tree: pre-test only; table resized to `seq` cells, `retire_prior_to` RETIRE frames |
| `LocalCids::set_limit` issues at most `maxIssuedCids` ids | issues up to the peer's active_connection_id_limit (≤ 2^62−1) |

Not fixed (kept as a finding, see docs/C04.md): `Ack*Space::recv_frame` collects every acknowledged packet number
into a `Vec` (after `update_largest`, so at most `next pn` of them — bounded by the number of packets ever sent,
not by the state held).

Core-only imports (linked into the native driver).
-/
namespace GmQuic.Cost
open GmQuic.RcvdJournal (AckFrame iterRanges pnsDesc covers)
open GmQuic.Codec (Frame StreamCtl)

/-! ## costs, error kinds, outcomes -/

structure Cost where
  iters : Nat := 0
  cells : Nat := 0
  deriving DecidableEq, Repr

def Cost.total (c : Cost) : Nat := c.iters + c.cells
instance : Add Cost := ⟨fun a b => ⟨a.iters + b.iters, a.cells + b.cells⟩⟩
def Cost.one : Cost := ⟨1, 0⟩

/-- `qbase::error::ErrorKind` values the handlers produce. -/
inductive EK
  | frameEncoding | protocolViolation | streamLimit | streamState | finalSize | flowControl
  | connectionIdLimit | transportParameter
  deriving DecidableEq, Repr

inductive Out (σ : Type) where
  | ok (s : σ)
  | err (k : EK)          -- connection error: the state is not used any more
  | drop                  -- the packet is dropped (`InvalidPacketNumber`), nothing changes
  | panic
  deriving Repr

def Out.isErr {σ} : Out σ → Option EK | .err k => some k | _ => none

/-- constants of the fix patches (checked against the source by the harness, `consts` line) -/
def maxPnGap : Nat := 2 ^ 16
def maxSeqGap : Nat := 2 ^ 12
def maxIssuedCids : Nat := 64

/-! ## ACK -/

/-- `AckFrame::validate` (fix): `some k` = number of loop iterations when well-formed, `none` = FRAME_ENCODING_ERROR.
Same arithmetic as `AckFrame.iter` (C10). -/
def ackValid (f : AckFrame) : Bool := f.iter.isSome

/-- the loop of `AckFrame::validate`, step by step: `smallest.checked_sub(gap)?.checked_sub(2)?.checked_sub(range)?` per
range (`a.checked_sub(b)` = `if a < b then None else Some(a - b)`).  First component: every value a `checked_sub`
PRODUCED, in order (the only arithmetic results the function ever holds); second: `Ok(())` reached.  The shape is tied
to the source by `xlate/gen_ackvalidate.py` (`Gen/AckValidate.lean`). -/
def validateSteps : Nat → List (Nat × Nat) → List Nat × Bool
  | _, [] => ([], true)
  | sm, (g, r) :: rest =>
    if sm < g then ([], false)
    else if sm - g < 2 then ([sm - g], false)
    else if sm - g - 2 < r then ([sm - g, sm - g - 2], false)
    else ((sm - g) :: (sm - g - 2) :: (sm - g - 2 - r) :: (validateSteps (sm - g - 2 - r) rest).1,
          (validateSteps (sm - g - 2 - r) rest).2)

/-- `AckFrame::validate`: `largest.checked_sub(first_range)?`, then the loop -/
def validateTrace (f : AckFrame) : List Nat × Bool :=
  if f.largest < f.first then ([], false)
  else ((f.largest - f.first) :: (validateSteps (f.largest - f.first) f.ranges).1,
        (validateSteps (f.largest - f.first) f.ranges).2)

/-- the one-sum form `first_range + Σ (gap + 2 + range)` (NOT what the code does; seeded change c04-2): its value -/
def spanSum (f : AckFrame) : Nat := f.ranges.foldl (fun sp gr => sp + gr.1 + 2 + gr.2) f.first

/-- one entry of qcongestion's `sent_packets` as far as `on_ack_rcvd` reads it -/
structure CcPkt where
  pn : Nat
  acked : Bool
  deriving DecidableEq, Repr

/-- FIXED merge loop of `PacketSpace::on_ack_rcvd`: `ps` = the sent packets from the start index DOWNWARDS,
`rs` = the ranges (descending).  Result: packet numbers newly acknowledged (descending), loop iterations. -/
def ccWalk : List CcPkt → List (Nat × Nat) → List Nat × Nat
  | [], _ => ([], 0)
  | _ :: _, [] => ([], 0)
  | p :: ps, r :: rs =>
    if p.pn < r.1 then
      let x := ccWalk (p :: ps) rs
      (x.1, x.2 + 1)
    else
      let x := ccWalk ps (r :: rs)
      ((if p.pn ≤ r.2 ∧ ¬ p.acked then [p.pn] else []) ++ x.1, x.2 + 1)
termination_by ps rs => ps.length + rs.length

/-- UNCHANGED loop: one iteration per acknowledged packet number (plus the inner `while`). -/
def ccWalkOldCost (rs : List (Nat × Nat)) : Nat := (pnsDesc rs).length

/-- the packets at or below the binary-search index, downwards: those with `pn ≤ largest`, or the front one -/
def ccStart (sent : List CcPkt) (largest : Nat) : List CcPkt :=
  match (sent.filter (·.pn ≤ largest)).reverse with
  | [] => sent.take 1
  | l => l

structure AckSt where
  /-- qcongestion `sent_packets` of this epoch, ascending pn -/
  cc : List CcPkt := []
  rj : RcvdJournal.State := {}
  sj : SentFrames.State := {}
  deriving Repr

def markAcked (cc : List CcPkt) (pns : List Nat) : List CcPkt :=
  cc.map fun p => if pns.contains p.pn then { p with acked := true } else p

/-- front pops of `on_ack_rcvd` (`Acked`; `Retransmitted` is not modelled) -/
def popAcked : List CcPkt → List CcPkt
  | [] => []
  | p :: ps => if p.acked then popAcked ps else p :: ps

/-- per-pn cost of `SentJournal::on_packet_acked`: the `take_while(idx < pn)` prefix + 1 -/
def touchCost (s : SentFrames.State) (pn : Nat) : Nat := (s.recs.take (pn - s.offset)).length + 1

def sendSideCost (s : SentFrames.State) (pns : List Nat) : Nat := (pns.map (touchCost s)).sum

inductive AckObs
  | frames (newlyAcked : List Nat) (fs : List Nat)   -- cc's newly acknowledged pns, frames reported by the journal
  deriving Repr

/-- The dispatcher arm `Frame::Ack` of all three spaces + `Ack*Space::recv_frame`, FIXED code, call for call:
`validate` → `cc.on_ack_rcvd` → `rcvd_journal.on_rcvd_ack` → `update_largest` → collect → `on_packet_acked`*.
The last three run in the piped task, in this order. -/
def handleAck (s : AckSt) (f : AckFrame) : Out (AckSt × AckObs) × Cost :=
  match f.iter with
  | none => (.err .frameEncoding, ⟨f.ranges.length + 1, 0⟩)
  | some rs =>
    let cV : Cost := ⟨f.ranges.length + 1, 0⟩
    -- qcongestion
    let w := if s.cc.isEmpty then ([], 0) else ccWalk (ccStart s.cc f.largest) rs
    let cc1 := popAcked (markAcked s.cc w.1)
    let cC : Cost := ⟨w.2 + (s.cc.length - cc1.length) + 1, 0⟩
    -- rcvd journal: `ranges` collected, `packet_include_ack` filtered, every record visited, rotation
    let cR : Cost := ⟨s.rj.incl.length * rs.length + s.rj.incl.length + 2 * s.rj.cells.length + 1, rs.length⟩
    match RcvdJournal.onRcvdAck s.rj f with
    | none => (.panic, cV + cC + cR)      -- unreachable: `iter` is `some`
    | some rj1 =>
      -- sent journal (piped task)
      if ¬ SentFrames.updateLargestOk s.sj f.largest then
        (.err .protocolViolation, cV + cC + cR + Cost.one)
      else
        let pns := pnsDesc rs
        let cS : Cost := ⟨sendSideCost s.sj pns + s.sj.recs.length + 1, pns.length⟩
        match SentFrames.step s.sj (.ack f) with
        | (sj1, .frames fs) => (.ok ({ cc := cc1, rj := rj1, sj := sj1 }, .frames w.1 fs), cV + cC + cR + cS)
        | _ => (.panic, cV + cC + cR + cS)

/-- UNCHANGED code: cost of the first consumer alone on a well-formed frame (no validation, every pn visited) -/
def ackOldCcCost (s : AckSt) (f : AckFrame) : Option Nat :=
  match f.iter with
  | none => none            -- panic (dev) / wrapped ranges (release)
  | some rs => some (if s.cc.isEmpty then 0 else ccWalkOldCost rs)

def ackOldRjCost (f : AckFrame) : Option Nat := (f.iter).map fun rs => (pnsDesc rs).length

/-- UNCHANGED dispatcher (no validation; both first consumers visit every acknowledged packet number):
outcome and iterations up to the point where the frame is rejected / the handler fails. -/
def handleAckOld (s : AckSt) (f : AckFrame) : Out Unit × Nat :=
  match f.iter with
  | none => (.panic, 0)           -- dev profile: `attempt to subtract with overflow` inside the first consumer
  | some rs =>
    let c := (if s.cc.isEmpty then 0 else (pnsDesc rs).length) + (pnsDesc rs).length
    if ¬ SentFrames.updateLargestOk s.sj f.largest then (.err .protocolViolation, c) else (.ok (), c + (pnsDesc rs).length)

/-! ## packet number arrival (`decode_pn` → `on_rcvd_pn`) -/

/-- `decode_pn` with the FIXED gap test, then `on_rcvd_pn`; cells = records appended by `IndexDeque::insert`. -/
def handlePn (fixed : Bool) (s : RcvdJournal.State) (e : Pn.PacketNumber) (elic : Bool) (pto : Nat) :
    Out RcvdJournal.State × Cost :=
  match Pn.decode e s.largest with
  | .panic _ => (.panic, Cost.one)
  | .ok pn =>
    if pn < s.offset then (.drop, Cost.one)
    else if fixed ∧ pn - s.largest > maxPnGap then (.drop, Cost.one)
    else if ¬ (s.cell pn).isEmpty then (.drop, Cost.one)
    else
      match RcvdJournal.onRcvdPn s pn elic pto with
      | none => (.panic, Cost.one)
      | some s' => (.ok s', ⟨1, s'.cells.length - s.cells.length⟩)

/-! ## NEW_CONNECTION_ID / RETIRE_CONNECTION_ID / set_limit -/

open GmQuic.Cid in
/-- ids held by the cells (`allocated_cids`): `arrange_idle_cid` may retire all but the newest of a cell -/
def allocTotal (s : Remote) : Nat := (s.cells.map (·.alloc.length)).sum

open GmQuic.Cid in
/-- RETIRE_CONNECTION_ID frames `retire_prior_to(tomb)` queues for the numbers `ready_cells.offset()..tomb`
(upper bound: the applied ones are retired through their cells) -/
def retireQueued (s : Remote) (tomb : Nat) : Nat := tomb - s.roff

open GmQuic.Cid in
/-- `recv_new_cid_frame`.
`fixed = true`: /repo HEAD — C14's tree `.exact` (no pre-test on `seq - retire_prior_to`: deleted by 58494fa; the number
of active ids counted after the frame was processed decides alone) with the sequence-gap test of
`fix-C04-newcid-seq-gap.diff` in front of the insert.
`fixed = false`: the pinned tree (`.pinned`: only the pre-test on the frame's two fields, no gap test, no count).
cells = table growth + RETIRE_CONNECTION_ID frames queued (upper bound); iters = tables walked (insert, drain,
count of active ids, `arrange_idle_cid`). -/
def handleNewCid (fixed : Bool) (s : Remote) (seq rpt : Nat) (cid : Cid) : Out Remote × Cost :=
  if ¬ fixed ∧ seq - rpt > s.limit then (.err .connectionIdLimit, Cost.one)
  else if seq < s.coff then (.ok s, Cost.one)
  else if fixed ∧ seq - (s.coff + s.cdq.length) > max maxSeqGap s.limit then (.err .connectionIdLimit, Cost.one)
  else
    let grow := s.insertCost seq
    let c : Cost := ⟨s.cdq.length + grow + s.ready.length + s.pending.length + 1,
                     grow + retireQueued s rpt + allocTotal s⟩
    match Remote.recvNewCid (if fixed then .exact else .pinned) s seq rpt cid with
    | .errLimit _ => (.err .connectionIdLimit, c)
    | .discarded => (.ok s, Cost.one)
    | .accepted s' => (.ok s', c)
    | .panic _ => (.panic, c)

open GmQuic.Cid in
/-- `recv_retire_cid_frame` (C14's `Local.retire`, fixed error kind); one id issued at most. -/
def handleRetireCid (l : Local) (seq : Nat) (c : Cid) : Out Local × Cost :=
  match l.retire seq c with
  | .errUnissued => (.err .protocolViolation, Cost.one)
  | .noop => (.ok l, Cost.one)
  | .retired l' _ _ => (.ok l', ⟨l.dq.length + 1, 1⟩)

open GmQuic.Cid in
/-- ids issued by `set_limit(n)` (peer's active_connection_id_limit) -/
def setLimitIssued (fixed : Bool) (l : Local) (n : Nat) : Nat :=
  (if fixed then min n maxIssuedCids else n) - l.largest

open GmQuic.Cid in
def handleSetLimit (fixed : Bool) (l : Local) (next n : Nat) : Out Local × Cost :=
  if l.limit.isSome then (.panic, Cost.one)
  else if n < 2 then (.err .transportParameter, Cost.one)
  else
    let k := setLimitIssued fixed l n
    let x := l.issueN next k
    (.ok { x.1 with limit := some n }, ⟨k + 1, 2 * k⟩)

/-! ## stream frames, flow control, CRYPTO -/

open GmQuic.StreamRules GmQuic.Sid in
def ekOf : StreamRules.ErrKind → EK
  | .streamLimit => .streamLimit
  | .streamState => .streamState
  | .finalSize => .finalSize
  | .flowControl => .flowControl

open GmQuic.StreamRules GmQuic.Sid in
/-- streams the frame makes `try_accept_sid` create (0 unless the id is peer-initiated, new and within the limit) -/
def created (e : Endpoint) (k : FrameKind) (sidv : Nat) : Nat :=
  match codeGate k (sidRole sidv != e.role) (sidDir sidv) with
  | .accept =>
    match (e.rem.step std (.accept sidv)).2 with
    | .new a b _ => sidIdx b + 1 - sidIdx a
    | _ => 0
  | _ => 0

open GmQuic.StreamRules GmQuic.Sid in
/-- `DataStreams::recv_data` / `recv_stream_control` for the stream-addressed frames (C12's `Endpoint.step`).
cells = streams created implicitly (two halves + listener slot each); iters = the same + 1.
The receive buffer's own work is counted by `handleCrypto` (same `RecvBuf`). -/
def handleStreamFrame (e : Endpoint) (k : FrameKind) (sidv a b : Nat) (fin : Bool) : Out Endpoint × Cost :=
  let n := created e k sidv
  match e.step (.frame k sidv a b fin) with
  | (e', .ok _ _) => (.ok e', ⟨n + 1, 3 * n⟩)
  | (_, .err ek) => (.err (ekOf ek), ⟨n + 1, 3 * n⟩)
  | (_, _) => (.panic, ⟨n + 1, 3 * n⟩)

open GmQuic.StreamRules GmQuic.Sid in
def handleMaxStreams (e : Endpoint) (d : Dir) (v : Nat) : Out Endpoint × Cost :=
  match e.step (.maxStreams d v) with
  | (e', .ok _ _) => (.ok e', Cost.one)
  | (_, _) => (.panic, Cost.one)

open GmQuic.StreamRules GmQuic.Sid in
def handleStreamsBlocked (e : Endpoint) (d : Dir) (v : Nat) : Out Endpoint × Cost :=
  match e.step (.streamsBlocked d v) with
  | (e', .ok _ _) => (.ok e', ⟨1, 1⟩)
  | (_, _) => (.panic, Cost.one)

/-- MAX_DATA: `SendControler::increase_limit` -/
def handleMaxData (s : Flow.SendCtl) (m : Nat) : Out Flow.SendCtl × Cost :=
  match s.step (.maxdata m) with
  | (s', .done) => (.ok s', Cost.one)
  | (_, _) => (.panic, Cost.one)

/-- connection-level accounting of fresh stream bytes: `FlowController::on_new_rcvd` -/
def handleNewRcvd (s : Flow.RecvCtl) (n : Nat) : Out Flow.RecvCtl × Cost :=
  match s.onNewRcvd n with
  | (s', .ok _ _) => (.ok s', ⟨1, 1⟩)
  | (_, .flowControl) => (.err .flowControl, Cost.one)
  | (_, .panic _) => (.panic, Cost.one)

/-- CRYPTO (and the data part of STREAM): `RecvBuf::recv`; iters = the segment loop's fuel (C08) + bytes copied,
cells = at most one new segment. -/
def handleCrypto (s : RecvBuf.State) (off : Nat) (data : Wire.Bytes) : Out RecvBuf.State × Cost :=
  (.ok (RecvBuf.recv s off data).1, ⟨RecvBuf.loopFuel s.segs + data.length, 1⟩)

/-! ## whole-connection step -/

structure St where
  ack : AckSt := {}
  rcid : Cid.Remote := Cid.Remote.init 2
  lcid : Cid.Local
  ep : StreamRules.Endpoint
  fsend : Flow.SendCtl := Flow.SendCtl.init 0
  frecv : Flow.RecvCtl := Flow.RecvCtl.init 0
  crypto : RecvBuf.State := {}
  /-- next id `gen_unique_cid` will return (abstract) -/
  nextCid : Nat := 0

def mapOut {σ τ} (f : σ → τ) : Out σ → Out τ
  | .ok s => .ok (f s) | .err k => .err k | .drop => .drop | .panic => .panic

open GmQuic.StreamRules in
/-- frame dispatch of the 1-RTT space (`space/data.rs`); frames without a data-dependent handler cost one step. -/
def step (st : St) : Frame → Out St × Cost
  | .ack largest delay first ranges _ =>
    let r := handleAck st.ack ⟨largest, delay, first, ranges⟩
    (mapOut (fun x => { st with ack := x.1 }) r.1, r.2)
  | .newConnectionId seq rpt cid _ =>
    let r := handleNewCid true st.rcid seq rpt (.ext (Wire.beVal cid))
    (mapOut (fun x => { st with rcid := x }) r.1, r.2)
  | .retireConnectionId seq =>
    let r := handleRetireCid st.lcid seq (.ext st.nextCid)
    (mapOut (fun x => { st with lcid := x, nextCid := st.nextCid + 1 }) r.1, r.2)
  | .maxData n =>
    let r := handleMaxData st.fsend n
    (mapOut (fun x => { st with fsend := x }) r.1, r.2)
  | .streamCtl (.maxStreams uni n) =>
    let r := handleMaxStreams st.ep (if uni then .uni else .bi) n
    (mapOut (fun x => { st with ep := x }) r.1, r.2)
  | .streamCtl (.streamsBlocked uni n) =>
    let r := handleStreamsBlocked st.ep (if uni then .uni else .bi) n
    (mapOut (fun x => { st with ep := x }) r.1, r.2)
  | .streamCtl (.resetStream sid _ fs) =>
    let r := handleStreamFrame st.ep .resetStream sid fs 0 false
    (mapOut (fun x => { st with ep := x }) r.1, r.2)
  | .streamCtl (.stopSending sid _) =>
    let r := handleStreamFrame st.ep .stopSending sid 0 0 false
    (mapOut (fun x => { st with ep := x }) r.1, r.2)
  | .streamCtl (.maxStreamData sid n) =>
    let r := handleStreamFrame st.ep .maxStreamData sid n 0 false
    (mapOut (fun x => { st with ep := x }) r.1, r.2)
  | .streamCtl (.streamDataBlocked sid n) =>
    let r := handleStreamFrame st.ep .streamDataBlocked sid n 0 false
    (mapOut (fun x => { st with ep := x }) r.1, r.2)
  | .stream sid off _ _ fin data =>
    let r := handleStreamFrame st.ep .stream sid off data.length fin
    (mapOut (fun x => { st with ep := x }) r.1, r.2 + ⟨data.length, 0⟩)
  | .crypto off _ data =>
    let r := handleCrypto st.crypto off data
    (mapOut (fun x => { st with crypto := x }) r.1, r.2)
  | _ => (.ok st, Cost.one)

/-! ## sizes -/

/-- state already held, in cells -/
def sizeAck (s : AckSt) : Nat := s.cc.length + s.rj.cells.length + s.rj.incl.length + s.sj.recs.length
def sizeRcid (s : Cid.Remote) : Nat :=
  s.cdq.length + s.ready.length + s.pending.length + (s.coff - s.roff) + s.limit + allocTotal s
def size (st : St) : Nat :=
  sizeAck st.ack + sizeRcid st.rcid + st.lcid.dq.length + st.crypto.segs.length

/-- bytes of the frame on the wire (header as declared by `encoding_size` + data) -/
def encodedLen (f : Frame) : Nat := Codec.sizeOf f + Codec.dataLen f

/-- streams the endpoint has promised to accept but not yet created (local configuration, advertised in
`initial_max_streams_*` / MAX_STREAMS): implicit opening is bounded by it, not by the frame. -/
def headroom (e : StreamRules.Endpoint) : Nat :=
  (e.rem.max.bi + 1 - e.rem.unalloc.bi) + (e.rem.max.uni + 1 - e.rem.unalloc.uni)

end GmQuic.Cost
