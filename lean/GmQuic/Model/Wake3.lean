import GmQuic.Model.Wake
import GmQuic.Model.RecvBuf
/-! C16, stream-level instances: the sending half (`Writer` / `Outgoing` over `Sender::{Ready,Sending,DataSent,…}`,
three waker slots) and the receiving half (`Reader` / `Incoming` over `Recver::{Recv,SizeKnown,DataRcvd,…}`, one slot),
both as seen through a `DataStreams` (qrecovery/src/{send,recv,streams}). -/
namespace GmQuic.Wake

/-! ## 9. stream sender: `writable_waker`, `flush_waker`, `shutdown_waker` across Ready → Sending → DataSent → DataRcvd,
reset and connection error.  Frames are emitted by `DataStreams::try_load_data_into` (one `pick_up` per call here: a
single stream, nothing declared lost) and acknowledged oldest first, so the send buffer is described by four
counters: `written`, `maxData` (`SendBuf::max_data`), `sent`, `acked` (= `SendBuf::offset`; `is_all_rcvd ⇔ acked = written`).
`Writer`'s methods take `&mut self`: one owner, which is task 0 (`cancel` is an action OF that task). -/
namespace Snd

inductive Phase where
  | ready | sending | dataSent | dataRcvd | resetSent | connErr
  deriving DecidableEq, Repr

structure State where
  phase : Phase
  written : Nat
  maxData : Nat
  sent : Nat
  acked : Nat
  finAcked : Bool
  unacked : List (Nat × Nat × Bool)   -- emitted and not yet acknowledged frames (start, end, fin), oldest first
  ww : Option Wid     -- writable_waker
  fw : Option Wid     -- flush_waker
  sw : Option Wid     -- shutdown_waker (also: "shutdown requested")
  dsClosed : Bool     -- DataStreams::on_conn_error happened: output/input are `Err`, frames are ignored
  deriving DecidableEq, Repr

inductive Kind where
  | write (n : Nat) | flush | shutdown
  deriving DecidableEq, Repr

inductive Op where
  | poll (t : Tid) (w : Wid) (k : Kind)
  | window (v : Nat)       -- MAX_STREAM_DATA
  | load                   -- try_load_data_into
  | ack                    -- on_data_acked(oldest unacknowledged emitted frame)
  | stop                   -- STOP_SENDING → be_stopped
  | cancel                 -- Writer::cancel by the owner
  | connError
  | dropfut (t : Tid)
  deriving DecidableEq, Repr

def live (p : Phase) : Bool := p == .ready || p == .sending

/-- `wake_all` of Ready/Sending (writable, flush, shutdown) and of DataSent (flush, shutdown; it has no writable slot) -/
def wakeAll (s : State) : List Wid :=
  (if s.phase == .dataSent then [] else takeWake s.ww) ++ takeWake s.fw ++ takeWake s.sw

def step (s : State) : Op → State × Obs
  | .poll _ w (.write n) =>
    if live s.phase then
      if s.sw.isSome then (s, ⟨.err, []⟩)                                   -- EosSent
      else if s.maxData > s.written then ({ s with written := s.written + n }, ⟨.ready 0, []⟩)
      else ({ s with ww := some w }, ⟨.pending, []⟩)
    else (s, ⟨.err, []⟩)
  | .poll _ w .flush =>
    if live s.phase then
      if s.acked = s.written then (s, ⟨.ready 0, []⟩) else ({ s with fw := some w }, ⟨.pending, []⟩)
    else if s.phase = .dataSent then ({ s with fw := some w }, ⟨.pending, []⟩)
    else if s.phase = .dataRcvd then (s, ⟨.ready 0, []⟩)
    else (s, ⟨.err, []⟩)
  | .poll _ w .shutdown =>
    if live s.phase || s.phase == .dataSent then ({ s with sw := some w }, ⟨.pending, []⟩)
    else if s.phase = .dataRcvd then (s, ⟨.ready 0, []⟩)
    else (s, ⟨.err, []⟩)
  | .window v =>
    if !s.dsClosed && live s.phase && v > s.maxData then
      if v > s.written then ({ s with maxData := v, ww := none }, ⟨.none, takeWake s.ww⟩)
      else ({ s with maxData := v }, ⟨.none, []⟩)
    else (s, ⟨.none, []⟩)
  | .load =>
    if !s.dsClosed && live s.phase then
      let hi := min s.written s.maxData
      if s.sent < hi then
        let fin := s.sw.isSome && hi == s.written
        ({ s with sent := hi, unacked := s.unacked ++ [(s.sent, hi, fin)],
                  phase := if fin then .dataSent else .sending,
                  ww := if fin then none else s.ww },          -- SendingSender::upgrade drops writable_waker
         ⟨.none, []⟩)
      else if s.sw.isSome && s.sent == s.written then
        ({ s with unacked := s.unacked ++ [(s.sent, s.sent, true)], phase := .dataSent, ww := none }, ⟨.none, []⟩)
      else ({ s with phase := .sending }, ⟨.none, []⟩)
    else (s, ⟨.none, []⟩)
  | .ack =>
    match s.unacked with
    | [] => (s, ⟨.none, []⟩)
    | (_, b, fin) :: rest =>
      if s.dsClosed then ({ s with unacked := rest }, ⟨.none, []⟩)
      else if s.phase = .sending then
        if b = s.written then ({ s with unacked := rest, acked := b, fw := none }, ⟨.none, takeWake s.fw⟩)
        else ({ s with unacked := rest, acked := b }, ⟨.none, []⟩)
      else if s.phase = .dataSent then
        let fa := s.finAcked || fin
        if b = s.written && fa then
          ({ s with unacked := rest, acked := b, finAcked := fa, fw := none, sw := none, phase := .dataRcvd },
           ⟨.none, takeWake s.fw ++ takeWake s.sw⟩)
        else ({ s with unacked := rest, acked := b, finAcked := fa }, ⟨.none, []⟩)
      else ({ s with unacked := rest }, ⟨.none, []⟩)
  | .stop =>
    if !s.dsClosed && (live s.phase || s.phase == .dataSent) then
      ({ s with phase := .resetSent, ww := none, fw := none, sw := none }, ⟨.none, wakeAll s⟩)
    else (s, ⟨.none, []⟩)
  | .cancel =>
    if live s.phase || s.phase == .dataSent then
      -- the old sender (with its wakers) is dropped without waking: the caller is the owner itself
      ({ s with phase := .resetSent, ww := none, fw := none, sw := none }, ⟨.none, []⟩)
    else (s, ⟨.none, []⟩)
  | .connError =>
    if s.dsClosed then (s, ⟨.none, []⟩)
    else if live s.phase || s.phase == .dataSent then
      ({ s with phase := .connErr, ww := none, fw := none, sw := none, dsClosed := true }, ⟨.none, wakeAll s⟩)
    else ({ s with dsClosed := true }, ⟨.none, []⟩)
  | .dropfut _ => (s, ⟨.none, []⟩)

def init (maxData : Nat) : State := ⟨.ready, 0, maxData, 0, 0, false, [], none, none, none, false⟩

def proto (maxData : Nat) : WaitProto where
  σ := State
  Op := Op
  init := init maxData
  step := step
  pollBy := fun | .poll t w _ => some (t, w) | _ => none
  dropBy := fun | .dropfut t => some t | .cancel => some 0 | _ => none
  close := .connError

end Snd

/-! ## 10. stream receiver: `read_waker` across Recv → SizeKnown → DataRcvd → DataRead, RESET_STREAM and connection
error.  The reassembly buffer is C08's model (`GmQuic.RecvBuf`).
`fixed = false`: the pinned `DataStreams::recv_stream_control` REMOVES the stream from the input map before
`Incoming::recv_reset` validates the final size, so after an invalid RESET_STREAM `on_conn_error` no longer reaches the
reader; `fixed = true`: repo_patches/fix-C16-reset-validate-before-remove.diff. -/
namespace Rcv

inductive Phase where
  | recv | sizeKnown | dataRcvd | dataRead | resetRcvd | resetRead | connErr
  deriving DecidableEq, Repr

structure State where
  phase : Phase
  buf : RecvBuf.State
  finalSize : Nat
  largest : Nat          -- Recv::largest (largest data end seen; separate from RecvBuf::largest_offset)
  maxData : Nat          -- Recv::max_stream_data
  waker : Option Wid
  inMap : Bool           -- the stream is still in DataStreams' input map
  dsClosed : Bool
  deriving Repr

inductive Op where
  | poll (t : Tid) (w : Wid) (cap : Nat)            -- Reader::poll_read with `cap` bytes of room
  | data (off : Nat) (len : Nat) (fin : Bool)       -- STREAM frame (zero bytes)
  | reset (final : Nat)                             -- RESET_STREAM
  | connError
  | dropfut (t : Tid)
  deriving DecidableEq, Repr

def waiting (p : Phase) : Bool := p == .recv || p == .sizeKnown

def allRcvd (b : RecvBuf.State) (final : Nat) : Bool := b.nread + RecvBuf.available b == final

def step (fixed : Bool) (s : State) : Op → State × Obs
  | .poll _ w cap =>
    if waiting s.phase then
      if !RecvBuf.isReadable s.buf then ({ s with waker := some w }, ⟨.pending, []⟩)
      else
        let r := RecvBuf.tryRead s.buf cap
        -- Recv only: window update `nread + 1_000_000 > max_stream_data → max := nread + 2_000_000`
        let md := if s.phase == .recv && r.1.nread + 1000000 > s.maxData && r.1.nread + 2000000 > s.maxData
                  then r.1.nread + 2000000 else s.maxData
        ({ s with buf := r.1, maxData := md }, ⟨.ready r.2.length, []⟩)
    else if s.phase = .dataRcvd then
      let r := RecvBuf.tryRead s.buf cap
      ({ s with buf := r.1, phase := if r.1.segs.isEmpty then .dataRead else .dataRcvd }, ⟨.ready r.2.length, []⟩)
    else if s.phase = .dataRead then (s, ⟨.ready 0, []⟩)
    else if s.phase = .resetRcvd then ({ s with phase := .resetRead }, ⟨.err, []⟩)
    else (s, ⟨.err, []⟩)
  | .data off len fin =>
    if s.dsClosed || !s.inMap then (s, ⟨.none, []⟩)
    else if s.phase = .recv then
      if fin then
        -- determin_size: wakes the reader first, unconditionally
        let wk := takeWake s.waker
        let s1 := { s with waker := none }
        if s1.buf.largest > off + len then (s1, ⟨.err, wk⟩)
        else if off + len > s1.maxData then (s1, ⟨.err, wk⟩)
        else
          let b := (RecvBuf.recv s1.buf off (List.replicate len 0)).1
          if allRcvd b (off + len) then
            ({ s1 with buf := b, finalSize := off + len, phase := .dataRcvd, inMap := false }, ⟨.none, wk⟩)
          else ({ s1 with buf := b, finalSize := off + len, phase := .sizeKnown }, ⟨.none, wk⟩)
      else if off + len > s.maxData then (s, ⟨.err, []⟩)
      else
        let b := (RecvBuf.recv s.buf off (List.replicate len 0)).1
        let lg := max s.largest (off + len)
        if RecvBuf.isReadable b then ({ s with buf := b, largest := lg, waker := none }, ⟨.none, takeWake s.waker⟩)
        else ({ s with buf := b, largest := lg }, ⟨.none, []⟩)
    else if s.phase = .sizeKnown then
      if off + len > s.finalSize then (s, ⟨.err, []⟩)
      else if fin && off + len != s.finalSize then (s, ⟨.err, []⟩)
      else
        let b := (RecvBuf.recv s.buf off (List.replicate len 0)).1
        let wk1 := if RecvBuf.isReadable b then takeWake s.waker else []
        let slot := if RecvBuf.isReadable b then none else s.waker
        if allRcvd b s.finalSize then
          -- upgrade(): wake_reader() once more
          ({ s with buf := b, waker := none, phase := .dataRcvd, inMap := false }, ⟨.none, wk1 ++ takeWake slot⟩)
        else ({ s with buf := b, waker := slot }, ⟨.none, wk1⟩)
    else (s, ⟨.none, []⟩)
  | .reset final =>
    if s.dsClosed || !s.inMap then (s, ⟨.none, []⟩)
    else if s.phase = .recv then
      if final < s.largest then ({ s with inMap := fixed }, ⟨.err, []⟩)
      else ({ s with inMap := false, phase := .resetRcvd, waker := none }, ⟨.none, takeWake s.waker⟩)
    else if s.phase = .sizeKnown then
      if final ≠ s.finalSize then ({ s with inMap := fixed }, ⟨.err, []⟩)
      else ({ s with inMap := false, phase := .resetRcvd, waker := none }, ⟨.none, takeWake s.waker⟩)
    else ({ s with inMap := false }, ⟨.panic, []⟩)    -- Incoming::recv_reset: `_ => unreachable!()` (not reachable: not in the map)
  | .connError =>
    if s.dsClosed then (s, ⟨.none, []⟩)
    else if s.inMap && waiting s.phase then
      ({ s with dsClosed := true, phase := .connErr, waker := none }, ⟨.none, takeWake s.waker⟩)
    else ({ s with dsClosed := true }, ⟨.none, []⟩)
  | .dropfut _ => (s, ⟨.none, []⟩)

def init (maxData : Nat) : State := ⟨.recv, {}, 0, 0, maxData, none, true, false⟩

def proto (fixed : Bool) (maxData : Nat) : WaitProto where
  σ := State
  Op := Op
  init := init maxData
  step := step fixed
  pollBy := fun | .poll t w _ => some (t, w) | _ => none
  dropBy := fun | .dropfut t => some t | _ => none
  close := .connError

end Rcv
end GmQuic.Wake
