/-!
C16: `Wakers::combine_with` (qbase/src/util/wakers.rs) — the multi-waiter helper used by qinterface for the UDP socket's
`poll_recv` / `poll_send`: any number of tasks share one resource; each call REGISTERS the caller's waker in the list and
THEN polls the resource with the combined waker (`Wakers` itself, whose `wake` = `wake_all`).  The register-then-poll
order is the protocol, so a call is two steps (`start`, `finish`) and a notifier may run between any two steps of any
tasks.  `regFirst = true` is the code as it is; `false` is the reordering (poll, then register only if Pending).
Waker identity = task identity here (`register` de-duplicates by `will_wake`).  No imports.
-/
namespace GmQuic.Wake.Wks

inductive TPc where
  | idle | mid | asleep
  deriving DecidableEq, Repr

structure State where
  list : List Nat          -- registered callers
  resW : Bool              -- the resource holds the combined waker (inner poll returned Pending since the last notify)
  ready : Bool             -- the resource is ready (one-shot: a Ready inner poll consumes it)
  pc : Nat → TPc
  woken : Nat → Bool       -- the task's waker was woken since its current call started

def init : State := ⟨[], false, false, fun _ => .idle, fun _ => false⟩

inductive Op where
  | start (t : Nat) | finish (t : Nat)
  | notify               -- the resource becomes ready and wakes the waker it holds (= Wakers::wake_all)
  | dropAll              -- the `Wakers` is dropped: `Drop for WakerVec` wakes everybody
  deriving DecidableEq, Repr

def set {α : Type} (f : Nat → α) (t : Nat) (v : α) : Nat → α := fun u => if u = t then v else f u

def register (s : State) (t : Nat) : State :=
  { s with list := if t ∈ s.list then s.list else s.list ++ [t] }

/-- inner poll with the combined waker; `nxtPending` is where the task goes when it is Pending -/
def inner (s : State) (t : Nat) (nxtPending : TPc) : State :=
  if s.ready then { s with ready := false, pc := set s.pc t .idle }
  else { s with resW := true, pc := set s.pc t nxtPending }

def wakeAll (s : State) : State :=
  { s with list := [], woken := fun u => if u ∈ s.list then true else s.woken u }

def step (regFirst : Bool) (s : State) : Op → State
  | .start t =>
    if s.pc t = .mid then s
    else
      let s0 := { s with woken := set s.woken t false }
      if regFirst then { register s0 t with pc := set s.pc t .mid }
      else inner s0 t .mid
  | .finish t =>
    if s.pc t = .mid then
      if regFirst then inner s t .asleep
      else { register s t with pc := set s.pc t .asleep }
    else s
  | .notify =>
    let s1 := { s with ready := true }
    if s.resW then wakeAll { s1 with resW := false } else s1
  | .dropAll => wakeAll s

def run (regFirst : Bool) (sched : List Op) : State := sched.foldl (step regFirst) init

def asleep (s : State) (t : Nat) : Prop := s.pc t = .asleep
def wakePending (s : State) (t : Nat) : Prop := s.woken t = true
def cond (s : State) : Prop := s.ready = true

end GmQuic.Wake.Wks
