import GmQuic.Gen.CcConsts
/-!
# C13 — model of `qcongestion` (loss detection + NewReno), integer part

Branch-by-branch transliteration of
`qcongestion/src/congestion.rs` (`CongestionController::{init, on_packet_sent, on_datagram_rcvd, on_ack_rcvd,
set_loss_detection_timer, on_loss_detection_timeout, get_loss_time_and_epoch, get_pto_time_and_epoch,
discard_epoch}`, `ArcCC::{do_tick, on_pkt_sent, on_ack_rcvd, on_pkt_rcvd}`),
`packets.rs` (`PacketSpace::{update_largest_acked_packet, on_ack_rcvd, no_ack_eliciting_in_flight,
detect_lost_packets, discard}`), `algorithm/new_reno.rs` (all of `NewReno`) and `rtt.rs::base_pto`
(integer `Duration` arithmetic).

* Time is a `Nat` of **nanoseconds** since the start of the case (tokio paused clock).
* Everything computed with `f32`/`f64` (`Rtt::{update, loss_delay, try_backoff_rtt}`, the pacer) is an
  *input*: the harness reads `loss_delay`, `smoothed_rtt`, `rttvar` from the implementation before and after
  each operation (`Inp`), the model only decides *which* of the two is in force at each use.
* `Option<Instant>` = `Option Nat`; `usize::MAX` ssthresh is the literal `2^64-1`.
* Panics of the dev profile are explicit `Except.error site` outcomes (`cwnd - mds`, `bytes_in_flight -=`,
  `1 << pto_count`, `.unwrap()` of `time_of_last_ack_eliciting_packet`, `assert!(epoch != Data)`, `mtu * 10` in u16).
* Sent lists are assumed sorted by strictly increasing packet number (C07); `binary_search_by` is modelled by its
  specification on sorted lists (`bsearch`).  The per-pn walk of `PacketSpace::on_ack_rcvd` is modelled by the
  equivalent single pass over the sent list from the back (same order of `on_packet_acked` calls).
-/
namespace GmQuic.Recovery
open GmQuic.Gen

inductive PSt | I | A | R
deriving DecidableEq, Repr, Inhabited

structure Pkt where
  pn : Nat
  ts : Nat
  elic : Bool
  cc : Bool
  size : Nat
  st : PSt
deriving DecidableEq, Repr, Inhabited

structure Space where
  la : Option Nat := none      -- largest_acked_packet
  tl : Option Nat := none      -- time_of_last_ack_eliciting_packet
  lt : Option Nat := none      -- loss_time
  sent : List Pkt := []
  mad : Nat := 0               -- PacketSpace::max_ack_delay
  ce : Nat := 0                -- NewReno::ecn_ce_counters[epoch]
  need : Nat := 0              -- need_send_ack_eliciting_packets[epoch]
deriving Repr, Inhabited

structure St where
  now : Nat := 0
  mds : Nat := 1200
  cwnd : Nat := 12000
  ssth : Nat := 18446744073709551615
  bytes : Nat := 0
  rs : Option Nat := none      -- congestion_recovery_start_time
  timer : Option Nat := none
  pto : Nat := 0
  mad : Nat := 0
  s0 : Space := {}
  s1 : Space := {}
  s2 : Space := {}
  server : Bool := false
  hsKey : Bool := false
  hsAck : Bool := false
  confirmed : Bool := false
  aaLimit : Bool := true
  disc0 : Bool := false        -- discarded_epochs[Initial]
  disc1 : Bool := false        -- discarded_epochs[Handshake]
deriving Repr, Inhabited

/-- float-derived inputs, read from the implementation before (`0`) and after (`1`) the operation -/
structure Inp where
  ld0 : Nat
  ld1 : Nat
  srtt0 : Nat
  rttvar0 : Nat
  srtt1 : Nat
  rttvar1 : Nat
deriving Repr, Inhabited

def getSp (s : St) : Nat → Space
  | 0 => s.s0
  | 1 => s.s1
  | _ => s.s2

def setSp (s : St) (e : Nat) (sp : Space) : St :=
  match e with
  | 0 => { s with s0 := sp }
  | 1 => { s with s1 := sp }
  | _ => { s with s2 := sp }

/-- `NewReno::new` + `CongestionController::init` -/
def initSt (server : Bool) (mtu mad : Nat) : Except String St :=
  if mtu * initWindowDatagrams ≥ 65536 then .error "mul:u16" else
  if mtu * initWindowMinDatagrams ≥ 65536 then .error "mul:u16" else
  .ok { mds := mtu, cwnd := min (mtu * initWindowDatagrams) (max (mtu * initWindowMinDatagrams) initWindowBytes),
        mad := mad, s2 := { mad := mad }, server := server }

/-! ## NewReno -/

def inRecovery (s : St) (sentTime : Nat) : Bool :=
  match s.rs with
  | some r => sentTime ≤ r
  | none => false

/-- `NewReno::on_packet_acked`, first half: leave flight -/
def ackBytes (s : St) (p : Pkt) : St :=
  if p.st == PSt.I then { s with bytes := s.bytes - p.size } else s

/-- `NewReno::on_packet_acked`, second half: window growth -/
def ackGrow (s : St) (p : Pkt) : St :=
  if inRecovery s p.ts then s else
  if s.cwnd < s.ssth then { s with cwnd := s.cwnd + p.size }
  else { s with cwnd := s.cwnd + s.mds * p.size / s.cwnd }

/-- `NewReno::on_packet_acked` -/
def onPacketAcked (s : St) (p : Pkt) : St :=
  if !p.cc then s else ackGrow (ackBytes s p) p

/-- `NewReno::on_congestion_event` -/
def onCongestionEvent (s : St) (sentTime : Nat) : Except String St :=
  if inRecovery s sentTime then .ok s else
  if s.cwnd < s.mds then .error "sub:cwnd-mds" else
  let ssth := s.cwnd - s.mds
  .ok { s with rs := some s.now, ssth := ssth, cwnd := max ssth (minWindowDatagrams * s.mds) }

/-- the loop of `NewReno::on_packets_lost`: `(bytes_in_flight, sent_time_last_loss)` -/
def lostFold : List Pkt → Nat → Option Nat → Nat × Option Nat
  | [], bytes, t => (bytes, t)
  | p :: ps, bytes, t =>
    if p.cc then
      lostFold ps (bytes - p.size) (match t with | some x => some (max x p.ts) | none => some p.ts)
    else lostFold ps bytes t

/-- the `persistent_lost` branch of `NewReno::on_packets_lost` -/
def persistentCollapse (s : St) : St :=
  { s with ssth := s.cwnd / 2 ^ persistentShift,
           cwnd := max (s.cwnd / 2 ^ persistentShift) (minWindowDatagramsPersistent * s.mds), rs := none }

/-- `NewReno::on_packets_lost` -/
def onPacketsLost (s : St) (lost : List Pkt) (persistent : Bool) : Except String St :=
  let r := lostFold lost s.bytes none
  let s1 := { s with bytes := r.1 }
  match (match r.2 with
         | some time => onCongestionEvent s1 time
         | none => .ok s1) with
  | .error e => .error e
  | .ok s2 => .ok (if persistent then persistentCollapse s2 else s2)

/-- `NewReno::remove_from_bytes_in_flight` (unchecked `-=`) -/
def removeFromBytes : List Pkt → Nat → Except String Nat
  | [], bytes => .ok bytes
  | p :: ps, bytes =>
    if p.cc && p.st != PSt.R then
      if bytes < p.size then .error "sub:bytes" else removeFromBytes ps (bytes - p.size)
    else removeFromBytes ps bytes

/-! ## PacketSpace -/

def noElic (sp : Space) : Bool :=
  sp.sent.all fun p => !p.elic || p.st != PSt.I

def noElicAll (s : St) : Bool := noElic s.s0 && noElic s.s1 && noElic s.s2

/-- `binary_search_by(|p| p.pn.cmp(&x)).unwrap_or_else(|i| i.saturating_sub(1))` on a list sorted by pn -/
def bsearch (l : List Pkt) (x : Nat) : Nat :=
  match l.findIdx? (fun p => p.pn == x) with
  | some i => i
  | none => (l.countP fun p => p.pn < x) - 1

structure AckAcc where
  incl : Bool := false
  largest : Option (Nat × Nat) := none

/-- the range walk of `PacketSpace::on_ack_rcvd`, from the back of the list (descending pn) -/
def ackWalk (inAck : Nat → Bool) : List Pkt → St → AckAcc → List Pkt × St × AckAcc
  | [], s, a => ([], s, a)
  | p :: ps, s, a =>
    let (ps', s', a') := ackWalk inAck ps s a
    if inAck p.pn && p.st != PSt.A then
      let s'' := onPacketAcked s' p
      let lg := match a'.largest with
        | some (n, t) => if n < p.pn then some (p.pn, p.ts) else some (n, t)
        | none => some (p.pn, p.ts)
      ({ p with st := PSt.A } :: ps', s'', { incl := a'.incl || p.elic, largest := lg })
    else (p :: ps', s', a')

def trimFront : List Pkt → List Pkt
  | [] => []
  | p :: ps => if p.st == PSt.A || p.st == PSt.R then trimFront ps else p :: ps

/-- the filter/map pass of `detect_lost_packets`: new list, lost `(idx, pkt)`, new loss_time -/
def lossWalk (lostSentTime ld largestIndex : Nat) : List Pkt → Nat → Option Nat →
    List Pkt × List (Nat × Pkt) × Option Nat
  | [], _, lt => ([], [], lt)
  | p :: ps, idx, lt =>
    if p.st == PSt.I then
      if p.ts < lostSentTime || largestIndex ≥ idx + packetThreshold then
        let p' := { p with st := PSt.R }
        let (ps', lost, lt') := lossWalk lostSentTime ld largestIndex ps (idx + 1) lt
        (p' :: ps', (idx, p') :: lost, lt')
      else
        let time := p.ts + ld
        let lt1 := match lt with | some t => some (min t time) | none => some time
        let (ps', lost, lt') := lossWalk lostSentTime ld largestIndex ps (idx + 1) lt1
        (p :: ps', lost, lt')
    else
      let (ps', lost, lt') := lossWalk lostSentTime ld largestIndex ps (idx + 1) lt
      (p :: ps', lost, lt')

/-- the `try_fold` computing `persistent_lost` -/
def persistentFold : List Nat → Option Nat → Nat → Bool
  | [], _, _ => false
  | idx :: rest, prev, count =>
    let lostCount := match prev with
      | some p => if idx - p == 1 then count + 1 else 0
      | none => 0
    if lostCount + 1 ≥ persistentLossThreshold then true
    else persistentFold rest (some idx) lostCount

/-- `PacketSpace::detect_lost_packets`: returns the lost packet numbers -/
def detectLost (s : St) (e : Nat) (ld : Nat) : Except String (St × List Nat) :=
  let sp := getSp s e
  let w := lossWalk (s.now - ld - sp.mad) ld (bsearch sp.sent (sp.la.getD 0)) sp.sent 0 none
  let s1 := setSp s e { sp with sent := w.1, lt := w.2.2 }
  if w.2.1.isEmpty then .ok (s1, []) else
  match onPacketsLost s1 (w.2.1.map (·.2)) (persistentFold (w.2.1.map (·.1)) none 0) with
  | .error err => .error err
  | .ok s2 => .ok (s2, w.2.1.map (·.2.pn))

/-! ## CongestionController -/

def peerCompleted (s : St) : Bool := s.server || s.hsAck || s.confirmed

/-- `Rtt::base_pto` (integer `Duration` arithmetic; `1 << pto_count` is `u32`) -/
def basePto (srtt rttvar n : Nat) : Nat :=
  (srtt + max (rttvarFactor * rttvar) (granularityMs * 1000000)) * 2 ^ n

/-- `get_loss_time_and_epoch` (`min_by_key` keeps the first of equal minima) -/
def lossTimeAndEpoch (s : St) : Option (Nat × Nat) :=
  let step (acc : Option (Nat × Nat)) (e : Nat) : Option (Nat × Nat) :=
    match (getSp s e).lt, acc with
    | none, acc => acc
    | some t, none => some (t, e)
    | some t, some (t0, e0) => if t < t0 then some (t, e) else some (t0, e0)
  step (step (step none 0) 1) 2

/-- one iteration of the loop in `get_pto_time_and_epoch` for a space with its duration -/
def ptoCandidate (sp : Space) (duration e : Nat) (acc : Option (Nat × Nat)) : Except String (Option (Nat × Nat)) :=
  if noElic sp then .ok acc else
  match sp.tl with
  | none => .error "unwrap:tl"
  | some tl =>
    .ok (match acc with
         | none => some (tl + duration, e)
         | some (t0, e0) => if tl + duration < t0 then some (tl + duration, e) else some (t0, e0))

/-- `get_pto_time_and_epoch` -/
def ptoTimeAndEpoch (s : St) (srtt rttvar : Nat) : Except String (Option (Nat × Nat)) :=
  if s.pto ≥ 32 then .error "shl:pto_count" else
  let d := basePto srtt rttvar s.pto
  if noElicAll s then .ok (some (s.now + d, if s.hsKey then 1 else 0)) else
  (ptoCandidate s.s0 d 0 none).bind fun a0 =>
  (ptoCandidate s.s1 d 1 a0).bind fun a1 =>
  if noElic s.s2 then .ok a1 else
  -- Skip Application Data until handshake confirmed.
  if !s.confirmed then .ok a1 else
  ptoCandidate s.s2 (d + s.mad * 2 ^ s.pto) 2 a1

/-- `set_loss_detection_timer` -/
def setTimer (s : St) (srtt rttvar : Nat) : Except String St :=
  match lossTimeAndEpoch s with
  | some (t, _) => .ok { s with timer := some t }
  | none =>
    if s.aaLimit then .ok { s with timer := none }
    else if noElicAll s && peerCompleted s then .ok { s with timer := none }
    else do
      let r ← ptoTimeAndEpoch s srtt rttvar
      pure { s with timer := r.map (·.1) }

def addNeed (s : St) (e : Nat) : St :=
  let sp := getSp s e
  setSp s e { sp with need := sp.need + 1 }

def bumpPto (s : St) : St := { s with pto := s.pto + 1 }

def lostOut (e : Nat) (lost : List Nat) : List (Nat × List Nat) :=
  if lost.isEmpty then [] else [(e, lost)]

/-- the PTO branch of `on_loss_detection_timeout` before `pto_count += 1` -/
def armProbe (s : St) (i : Inp) : Except String St :=
  if noElicAll s then .ok (if s.hsKey then addNeed s 1 else addNeed s 0)
  else (ptoTimeAndEpoch s i.srtt0 i.rttvar0).bind fun r =>
    match r with
    | some (_, e) => .ok (addNeed s e)
    | none => .ok s

/-- `on_loss_detection_timeout`; lost = `(epoch, pns)` handed to `may_loss` -/
def onTimeout (s : St) (i : Inp) : Except String (St × List (Nat × List Nat)) :=
  match lossTimeAndEpoch s with
  | some (_, e) =>
    (detectLost s e i.ld0).bind fun r =>
    (setTimer r.1 i.srtt1 i.rttvar1).bind fun s2 =>
    .ok (s2, lostOut e r.2)
  | none =>
    (armProbe s i).bind fun s1 =>
    (setTimer (bumpPto s1) i.srtt1 i.rttvar1).bind fun s2 =>
    .ok (s2, [])

def isDiscarded (s : St) : Nat → Bool
  | 0 => s.disc0
  | _ => s.disc1

def markDiscarded (s : St) : Nat → St
  | 0 => { s with disc0 := true }
  | _ => { s with disc1 := true }

/-- state after `PacketSpace::discard` and the resets of `discard_epoch`, before `set_loss_detection_timer`:
`pto_count` is reset only the first time the space is discarded -/
def discardReset (s : St) (e : Nat) (bytes : Nat) : St :=
  let sp := getSp s e
  let s1 := setSp { s with bytes := bytes } e { sp with sent := [], tl := none, lt := none }
  let s2 := { s1 with timer := none }
  if isDiscarded s e then s2 else markDiscarded { s2 with pto := 0 } e

/-- `PacketSpace::discard` + `CongestionController::discard_epoch` -/
def discardEpoch (s : St) (e : Nat) (srtt rttvar : Nat) : Except String St :=
  if e ≥ 2 then .error "assert:epoch!=Data" else
  (removeFromBytes ((getSp s e).sent.filter fun p => p.st == PSt.I) s.bytes).bind fun bytes =>
  setTimer (discardReset s e bytes) srtt rttvar

/-- the `if in_flight { … }` block of `on_packet_sent` before `set_loss_detection_timer` -/
def sentInflight (s : St) (ld : Nat) (e : Nat) (elic : Bool) (size : Nat) : St :=
  let sp := getSp s e
  let sp := if elic then { sp with tl := some s.now, need := sp.need - 1 } else sp
  let sp := match sp.lt with
    | some _ => sp
    | none => { sp with lt := some (s.now + ld) }
  setSp { s with bytes := s.bytes + size } e sp

def pushPkt (s : St) (e : Nat) (pkt : Pkt) : St :=
  let sp := getSp s e
  setSp s e { sp with sent := sp.sent ++ [pkt] }

/-- `ArcCC::on_pkt_sent` = `on_packet_sent` + the client's `discard_epoch(Initial)` on every Handshake packet -/
def onPktSent (s : St) (i : Inp) (e pn : Nat) (elic infl : Bool) (size : Nat) : Except String St :=
  let pkt : Pkt := { pn := pn, ts := s.now, elic := elic, cc := infl, size := size, st := PSt.I }
  (if infl then setTimer (sentInflight s i.ld0 e elic size) i.srtt0 i.rttvar0 else .ok s).bind fun s1 =>
  let s2 := pushPkt s1 e pkt
  if e == 1 && !s2.server then discardEpoch s2 0 i.srtt1 i.rttvar1 else .ok s2

/-- an ACK frame as the harness sends it: largest, descending inclusive ranges `(lo, hi)`, optional ECN-CE count -/
structure Ack where
  largest : Nat
  ranges : List (Nat × Nat)
  ce : Option Nat

def inRanges (rs : List (Nat × Nat)) (pn : Nat) : Bool :=
  rs.any fun r => r.1 ≤ pn && pn ≤ r.2

/-- `update_largest_acked_packet` -/
def updLargest (s : St) (e : Nat) (largest : Nat) : St :=
  let sp := getSp s e
  setSp s e { sp with la := match sp.la with | some n => some (max n largest) | none => some largest }

/-- the server's `discard_epoch(Initial)` after a Handshake ACK (`ArcCC::on_ack_rcvd`) -/
def ackPost (i : Inp) (e : Nat) (s : St) (lost : List (Nat × List Nat)) : Except String (St × List (Nat × List Nat)) :=
  if e == 1 && s.server then (discardEpoch s 0 i.srtt1 i.rttvar1).bind fun s' => .ok (s', lost)
  else .ok (s, lost)

/-- `process_ecn` -/
def processEcn (s : St) (e : Nat) (ce : Option Nat) (lts : Nat) : Except String St :=
  match ce with
  | some ce =>
    let sp := getSp s e
    if ce > sp.ce then onCongestionEvent (setSp s e { sp with ce := ce }) lts else .ok s
  | none => .ok s

def resetPto (s : St) : St := if peerCompleted s then { s with pto := 0 } else s

/-- `PacketSpace::on_ack_rcvd`: the walk, then the front trim -/
def spaceOnAck (s : St) (e : Nat) (a : Ack) : St × AckAcc :=
  let w := ackWalk (inRanges a.ranges) (getSp s e).sent s {}
  let sp := getSp w.2.1 e
  (setSp w.2.1 e { sp with sent := trimFront w.1 }, w.2.2)

/-- `ArcCC::on_ack_rcvd` = `CongestionController::on_ack_rcvd` + the server's `discard_epoch(Initial)` on a Handshake ACK -/
def onAckRcvd (s : St) (i : Inp) (e : Nat) (a : Ack) : Except String (St × List (Nat × List Nat)) :=
  let s0 := updLargest s e a.largest
  if (getSp s0 e).sent.isEmpty then ackPost i e s0 [] else
  let r := spaceOnAck s0 e a
  match r.2.largest with
  | none => ackPost i e r.1 []
  | some (lpn, lts) =>
    (processEcn r.1 e a.ce lts).bind fun s1 =>
    (detectLost s1 e (if lpn == a.largest && r.2.incl then i.ld1 else i.ld0)).bind fun d =>
    (setTimer (resetPto d.1) i.srtt1 i.rttvar1).bind fun s2 =>
    ackPost i e s2 (lostOut e d.2)

def tooMany (s : St) : Option Nat := if s.pto > maxPtoCount then some s.pto else none

/-- `ArcCC::do_tick` (timer part): `some n` = `Err(TooManyPtos(n))` -/
def doTick (s : St) (i : Inp) : Except String (St × List (Nat × List Nat) × Option Nat) :=
  match s.timer with
  | some t =>
    if t ≤ s.now then (onTimeout s i).bind fun r => .ok (r.1, r.2, tooMany r.1)
    else .ok (s, [], none)
  | none => .ok (s, [], none)

/-- `ArcCC::on_pkt_rcvd` (ack-eliciting) → `on_datagram_rcvd` -/
def onDatagramRcvd (s : St) (i : Inp) : Except String (St × List (Nat × List Nat)) :=
  if s.aaLimit then
    (setTimer s i.srtt0 i.rttvar0).bind fun s1 =>
    match s1.timer with
    | some t => if t < s1.now then onTimeout s1 i else .ok (s1, [])
    | none => .ok (s1, [])
  else .ok (s, [])

/-- `ArcCC::send_quota`: the pacer's token count (a float-derived input) is the whole answer;
`cwnd` enters only through the pacer's capacity and refill rate, `bytes_in_flight` not at all. -/
def sendQuota (s : St) (pacerTokens : Nat) : Option Nat :=
  if pacerTokens ≥ s.mds then some pacerTokens else none

/-! ## operations -/

inductive Op
  | sent (e pn : Nat) (elic infl : Bool) (size : Nat)
  | ack (e : Nat) (a : Ack)
  | tick (dt : Nat)
  | rcvd
  | discard (e : Nat)
  | hskey | hsack | confirmed | grant | limit

structure Out where
  lost : List (Nat × List Nat) := []
  tooMany : Option Nat := none

def advance (s : St) (dt : Nat) : St := { s with now := s.now + dt }

def step (s : St) (i : Inp) : Op → Except String (St × Out)
  | .sent e pn elic infl size => (onPktSent s i e pn elic infl size).bind fun s' => .ok (s', {})
  | .ack e a => (onAckRcvd s i e a).bind fun r => .ok (r.1, { lost := r.2 })
  | .tick dt => (doTick (advance s dt) i).bind fun r => .ok (r.1, { lost := r.2.1, tooMany := r.2.2 })
  | .rcvd => (onDatagramRcvd s i).bind fun r => .ok (r.1, { lost := r.2 })
  | .discard e => (discardEpoch s e i.srtt1 i.rttvar1).bind fun s' => .ok (s', {})
  | .hskey => .ok ({ s with hsKey := true }, {})
  | .hsack => .ok ({ s with hsAck := true }, {})
  | .confirmed => .ok ({ s with confirmed := true }, {})
  | .grant => .ok ({ s with aaLimit := false }, {})
  | .limit => .ok ({ s with aaLimit := true }, {})

/-- bytes of the packets still outstanding in a space (`Inflight ∧ count_for_cc`) -/
def outstanding : List Pkt → Nat
  | [] => 0
  | p :: ps => (if p.st == PSt.I && p.cc then p.size else 0) + outstanding ps

def outstandingAll (s : St) : Nat := outstanding s.s0.sent + outstanding s.s1.sent + outstanding s.s2.sent

end GmQuic.Recovery

namespace GmQuic.Recovery

/-- fold of `step` over a history; every operation comes with its float-derived inputs -/
def run : St → List (Inp × Op) → Except String St
  | s, [] => .ok s
  | s, (i, op) :: rest => (step s i op).bind fun r => run r.1 rest

/-- probe-timeout interval of a space for `pto_count = n` (`get_pto`, and the duration used by `get_pto_time_and_epoch`) -/
def ptoInterval (srtt rttvar mad n : Nat) (data : Bool) : Nat :=
  basePto srtt rttvar n + (if data then mad * 2 ^ n else 0)

end GmQuic.Recovery
