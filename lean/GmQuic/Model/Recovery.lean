import GmQuic.Gen.CcConsts
/-!
# C13 — model of `qcongestion` (loss detection + NewReno), integer part

Branch-by-branch transliteration of
`qcongestion/src/congestion.rs` (`CongestionController::{init, on_packet_sent, on_datagram_rcvd, on_ack_rcvd,
set_loss_detection_timer, on_loss_detection_timeout, get_loss_time_and_epoch, get_pto_time_and_epoch,
discard_epoch}`, `ArcCC::{do_tick, on_pkt_sent, on_ack_rcvd, on_pkt_rcvd}`),
`packets.rs` (`PacketSpace::{update_largest_acked_packet, on_ack_rcvd, no_ack_eliciting_in_flight,
detect_lost_packets, discard}`), `algorithm/new_reno.rs` (all of `NewReno`) and `rtt.rs::base_pto`
(integer `Duration` arithmetic).

* Time is a `Nat` of **nanoseconds** since the start of the case (tokio paused clock).
* Everything computed with `f32`/`f64` (`Rtt::{update, loss_delay, try_backoff_rtt}`, the pacer) is an
  *input*: the harness reads `loss_delay`, `smoothed_rtt`, `rttvar` from the implementation before and after
  each operation (`Inp`), the model only decides *which* of the two is in force at each use.
* `Option<Instant>` = `Option Nat`; `usize::MAX` ssthresh is the literal `2^64-1`.
* Panics of the dev profile are explicit `Except.error site` outcomes (`cwnd - mds`, `bytes_in_flight -=`,
  `1 << pto_count`, `.unwrap()` of `time_of_last_ack_eliciting_packet`, `assert!(epoch != Data)`, `mtu * 10` in u16).
* Sent lists are assumed sorted by strictly increasing packet number (C07); `binary_search_by` is modelled by its
  specification on sorted lists (`bsearch`).  The per-pn walk of `PacketSpace::on_ack_rcvd` is modelled by the
  equivalent single pass over the sent list from the back (same order of `on_packet_acked` calls).
-/
namespace GmQuic.Recovery
open GmQuic.Gen

inductive PSt | I | A | R
deriving DecidableEq, Repr, Inhabited

structure Pkt where
  pn : Nat
  ts : Nat
  elic : Bool
  cc : Bool
  size : Nat
  st : PSt
deriving DecidableEq, Repr, Inhabited

structure Space where
  la : Option Nat := none      -- largest_acked_packet
  tl : Option Nat := none      -- time_of_last_ack_eliciting_packet
  lt : Option Nat := none      -- loss_time
  sent : List Pkt := []
  mad : Nat := 0               -- PacketSpace::max_ack_delay
  ce : Nat := 0                -- NewReno::ecn_ce_counters[epoch]
  need : Nat := 0              -- need_send_ack_eliciting_packets[epoch]
deriving Repr, Inhabited

structure St where
  now : Nat := 0
  mds : Nat := 1200
  cwnd : Nat := 12000
  ssth : Nat := 18446744073709551615
  bytes : Nat := 0
  rs : Option Nat := none      -- congestion_recovery_start_time
  timer : Option Nat := none
  pto : Nat := 0
  mad : Nat := 0
  s0 : Space := {}
  s1 : Space := {}
  s2 : Space := {}
  server : Bool := false
  hsKey : Bool := false
  hsAck : Bool := false
  confirmed : Bool := false
  aaLimit : Bool := true
deriving Repr, Inhabited

/-- float-derived inputs, read from the implementation before (`0`) and after (`1`) the operation -/
structure Inp where
  ld0 : Nat
  ld1 : Nat
  srtt0 : Nat
  rttvar0 : Nat
  srtt1 : Nat
  rttvar1 : Nat
deriving Repr, Inhabited

def getSp (s : St) : Nat → Space
  | 0 => s.s0
  | 1 => s.s1
  | _ => s.s2

def setSp (s : St) (e : Nat) (sp : Space) : St :=
  match e with
  | 0 => { s with s0 := sp }
  | 1 => { s with s1 := sp }
  | _ => { s with s2 := sp }

/-- `NewReno::new` + `CongestionController::init` -/
def initSt (server : Bool) (mtu mad : Nat) : Except String St :=
  if mtu * initWindowDatagrams ≥ 65536 then .error "mul:u16" else
  if mtu * initWindowMinDatagrams ≥ 65536 then .error "mul:u16" else
  .ok { mds := mtu, cwnd := min (mtu * initWindowDatagrams) (max (mtu * initWindowMinDatagrams) initWindowBytes),
        mad := mad, s2 := { mad := mad }, server := server }

/-! ## NewReno -/

def inRecovery (s : St) (sentTime : Nat) : Bool :=
  match s.rs with
  | some r => sentTime ≤ r
  | none => false

/-- `NewReno::on_packet_acked` -/
def onPacketAcked (s : St) (p : Pkt) : St :=
  if !p.cc then s else
  let s := if p.st == PSt.I then { s with bytes := s.bytes - p.size } else s
  if inRecovery s p.ts then s else
  if s.cwnd < s.ssth then { s with cwnd := s.cwnd + p.size }
  else { s with cwnd := s.cwnd + s.mds * p.size / s.cwnd }

/-- `NewReno::on_congestion_event` -/
def onCongestionEvent (s : St) (sentTime : Nat) : Except String St :=
  if inRecovery s sentTime then .ok s else
  if s.cwnd < s.mds then .error "sub:cwnd-mds" else
  let ssth := s.cwnd - s.mds
  .ok { s with rs := some s.now, ssth := ssth, cwnd := max ssth (minWindowDatagrams * s.mds) }

/-- the loop of `NewReno::on_packets_lost`: `(bytes_in_flight, sent_time_last_loss)` -/
def lostFold : List Pkt → Nat → Option Nat → Nat × Option Nat
  | [], bytes, t => (bytes, t)
  | p :: ps, bytes, t =>
    if p.cc then
      lostFold ps (bytes - p.size) (match t with | some x => some (max x p.ts) | none => some p.ts)
    else lostFold ps bytes t

/-- `NewReno::on_packets_lost` -/
def onPacketsLost (s : St) (lost : List Pkt) (persistent : Bool) : Except String St := do
  let (bytes, t) := lostFold lost s.bytes none
  let s := { s with bytes := bytes }
  let s ← match t with
    | some time => onCongestionEvent s time
    | none => pure s
  if persistent then
    let ssth := s.cwnd / 2 ^ persistentShift
    pure { s with ssth := ssth, cwnd := max ssth (minWindowDatagramsPersistent * s.mds), rs := none }
  else pure s

/-- `NewReno::remove_from_bytes_in_flight` (unchecked `-=`) -/
def removeFromBytes : List Pkt → Nat → Except String Nat
  | [], bytes => .ok bytes
  | p :: ps, bytes =>
    if p.cc && p.st != PSt.R then
      if bytes < p.size then .error "sub:bytes" else removeFromBytes ps (bytes - p.size)
    else removeFromBytes ps bytes

/-! ## PacketSpace -/

def noElic (sp : Space) : Bool :=
  sp.sent.all fun p => !p.elic || p.st != PSt.I

def noElicAll (s : St) : Bool := noElic s.s0 && noElic s.s1 && noElic s.s2

/-- `binary_search_by(|p| p.pn.cmp(&x)).unwrap_or_else(|i| i.saturating_sub(1))` on a list sorted by pn -/
def bsearch (l : List Pkt) (x : Nat) : Nat :=
  match l.findIdx? (fun p => p.pn == x) with
  | some i => i
  | none => (l.countP fun p => p.pn < x) - 1

structure AckAcc where
  incl : Bool := false
  largest : Option (Nat × Nat) := none

/-- the range walk of `PacketSpace::on_ack_rcvd`, from the back of the list (descending pn) -/
def ackWalk (inAck : Nat → Bool) : List Pkt → St → AckAcc → List Pkt × St × AckAcc
  | [], s, a => ([], s, a)
  | p :: ps, s, a =>
    let (ps', s', a') := ackWalk inAck ps s a
    if inAck p.pn && p.st != PSt.A then
      let s'' := onPacketAcked s' p
      let lg := match a'.largest with
        | some (n, t) => if n < p.pn then some (p.pn, p.ts) else some (n, t)
        | none => some (p.pn, p.ts)
      ({ p with st := PSt.A } :: ps', s'', { incl := a'.incl || p.elic, largest := lg })
    else (p :: ps', s', a')

def trimFront : List Pkt → List Pkt
  | [] => []
  | p :: ps => if p.st == PSt.A || p.st == PSt.R then trimFront ps else p :: ps

/-- the filter/map pass of `detect_lost_packets`: new list, lost `(idx, pkt)`, new loss_time -/
def lossWalk (lostSentTime ld largestIndex : Nat) : List Pkt → Nat → Option Nat →
    List Pkt × List (Nat × Pkt) × Option Nat
  | [], _, lt => ([], [], lt)
  | p :: ps, idx, lt =>
    if p.st == PSt.I then
      if p.ts < lostSentTime || largestIndex ≥ idx + packetThreshold then
        let p' := { p with st := PSt.R }
        let (ps', lost, lt') := lossWalk lostSentTime ld largestIndex ps (idx + 1) lt
        (p' :: ps', (idx, p') :: lost, lt')
      else
        let time := p.ts + ld
        let lt1 := match lt with | some t => some (min t time) | none => some time
        let (ps', lost, lt') := lossWalk lostSentTime ld largestIndex ps (idx + 1) lt1
        (p :: ps', lost, lt')
    else
      let (ps', lost, lt') := lossWalk lostSentTime ld largestIndex ps (idx + 1) lt
      (p :: ps', lost, lt')

/-- the `try_fold` computing `persistent_lost` -/
def persistentFold : List Nat → Option Nat → Nat → Bool
  | [], _, _ => false
  | idx :: rest, prev, count =>
    let lostCount := match prev with
      | some p => if idx - p == 1 then count + 1 else 0
      | none => 0
    if lostCount + 1 ≥ persistentLossThreshold then true
    else persistentFold rest (some idx) lostCount

/-- `PacketSpace::detect_lost_packets`: returns the lost packet numbers -/
def detectLost (s : St) (e : Nat) (ld : Nat) : Except String (St × List Nat) := do
  let sp := getSp s e
  let lostSentTime := s.now - ld - sp.mad
  let largestIndex := bsearch sp.sent (sp.la.getD 0)
  let (sent', lost, lt') := lossWalk lostSentTime ld largestIndex sp.sent 0 none
  let persistent := persistentFold (lost.map (·.1)) none 0
  let s := setSp s e { sp with sent := sent', lt := lt' }
  let s ← if lost.isEmpty then pure s else onPacketsLost s (lost.map (·.2)) persistent
  pure (s, lost.map (·.2.pn))

/-! ## CongestionController -/

def peerCompleted (s : St) : Bool := s.server || s.hsAck || s.confirmed

/-- `Rtt::base_pto` (integer `Duration` arithmetic; `1 << pto_count` is `u32`) -/
def basePto (srtt rttvar n : Nat) : Nat :=
  srtt + max (rttvarFactor * rttvar) (granularityMs * 1000000) * 2 ^ n

/-- `get_loss_time_and_epoch` (`min_by_key` keeps the first of equal minima) -/
def lossTimeAndEpoch (s : St) : Option (Nat × Nat) :=
  let step (acc : Option (Nat × Nat)) (e : Nat) : Option (Nat × Nat) :=
    match (getSp s e).lt, acc with
    | none, acc => acc
    | some t, none => some (t, e)
    | some t, some (t0, e0) => if t < t0 then some (t, e) else some (t0, e0)
  step (step (step none 0) 1) 2

/-- `get_pto_time_and_epoch` -/
def ptoTimeAndEpoch (s : St) (srtt rttvar : Nat) : Except String (Option (Nat × Nat)) := do
  if s.pto ≥ 32 then throw "shl:pto_count"
  let duration := basePto srtt rttvar s.pto
  if noElicAll s then
    return some (s.now + duration, if s.hsKey then 1 else 0)
  let mut ptoTime : Option (Nat × Nat) := none
  -- Initial
  if !noElic s.s0 then
    match s.s0.tl with
    | none => throw "unwrap:tl"
    | some tl => ptoTime := some (tl + duration, 0)
  -- Handshake
  if !noElic s.s1 then
    match s.s1.tl with
    | none => throw "unwrap:tl"
    | some tl =>
      let t := tl + duration
      ptoTime := match ptoTime with
        | none => some (t, 1)
        | some (t0, e0) => if t < t0 then some (t, 1) else some (t0, e0)
  -- Data
  if !noElic s.s2 then
    if !s.confirmed then return ptoTime
    let duration := duration + s.mad * 2 ^ s.pto
    match s.s2.tl with
    | none => throw "unwrap:tl"
    | some tl =>
      let t := tl + duration
      ptoTime := match ptoTime with
        | none => some (t, 2)
        | some (t0, e0) => if t < t0 then some (t, 2) else some (t0, e0)
  return ptoTime

/-- `set_loss_detection_timer` -/
def setTimer (s : St) (srtt rttvar : Nat) : Except String St :=
  match lossTimeAndEpoch s with
  | some (t, _) => .ok { s with timer := some t }
  | none =>
    if s.aaLimit then .ok { s with timer := none }
    else if noElicAll s && peerCompleted s then .ok { s with timer := none }
    else do
      let r ← ptoTimeAndEpoch s srtt rttvar
      pure { s with timer := r.map (·.1) }

def addNeed (s : St) (e : Nat) : St :=
  let sp := getSp s e
  setSp s e { sp with need := sp.need + 1 }

/-- `on_loss_detection_timeout`; lost = `(epoch, pns)` handed to `may_loss` -/
def onTimeout (s : St) (i : Inp) : Except String (St × List (Nat × List Nat)) := do
  match lossTimeAndEpoch s with
  | some (_, e) =>
    let (s, lost) ← detectLost s e i.ld0
    let s ← setTimer s i.srtt1 i.rttvar1
    pure (s, if lost.isEmpty then [] else [(e, lost)])
  | none =>
    let s ←
      if noElicAll s then
        pure (if s.hsKey then addNeed s 1 else addNeed s 0)
      else do
        let r ← ptoTimeAndEpoch s i.srtt0 i.rttvar0
        match r with
        | some (_, e) => pure (addNeed s e)
        | none => pure s
    let s := { s with pto := s.pto + 1 }
    let s ← setTimer s i.srtt1 i.rttvar1
    pure (s, [])

/-- `PacketSpace::discard` + `CongestionController::discard_epoch` -/
def discardEpoch (s : St) (e : Nat) (srtt rttvar : Nat) : Except String St := do
  if e ≥ 2 then throw "assert:epoch!=Data"
  let sp := getSp s e
  let bytes ← removeFromBytes (sp.sent.filter fun p => p.st == PSt.I) s.bytes
  let s := { s with bytes := bytes }
  let s := setSp s e { sp with sent := [], tl := none, lt := none }
  let s := { s with timer := none, pto := 0 }
  setTimer s srtt rttvar

/-- `ArcCC::on_pkt_sent` = `on_packet_sent` + the client's `discard_epoch(Initial)` on every Handshake packet -/
def onPktSent (s : St) (i : Inp) (e pn : Nat) (elic infl : Bool) (size : Nat) : Except String St := do
  let pkt : Pkt := { pn := pn, ts := s.now, elic := elic, cc := infl, size := size, st := PSt.I }
  let s ←
    if infl then do
      let sp := getSp s e
      let sp := if elic then { sp with tl := some s.now, need := sp.need - 1 } else sp
      let s := setSp s e sp
      let s := { s with bytes := s.bytes + size }
      let sp := getSp s e
      let sp := match sp.lt with
        | some _ => sp
        | none => { sp with lt := some (s.now + i.ld0) }
      let s := setSp s e sp
      setTimer s i.srtt0 i.rttvar0
    else pure s
  let sp := getSp s e
  let s := setSp s e { sp with sent := sp.sent ++ [pkt] }
  if e == 1 && !s.server then discardEpoch s 0 i.srtt1 i.rttvar1 else pure s

/-- an ACK frame as the harness sends it: largest, descending inclusive ranges `(lo, hi)`, optional ECN-CE count -/
structure Ack where
  largest : Nat
  ranges : List (Nat × Nat)
  ce : Option Nat

def inRanges (rs : List (Nat × Nat)) (pn : Nat) : Bool :=
  rs.any fun r => r.1 ≤ pn && pn ≤ r.2

/-- `ArcCC::on_ack_rcvd` = `CongestionController::on_ack_rcvd` + the server's `discard_epoch(Initial)` on a Handshake ACK -/
def onAckRcvd (s : St) (i : Inp) (e : Nat) (a : Ack) : Except String (St × List (Nat × List Nat)) := do
  let sp := getSp s e
  let sp := { sp with la := match sp.la with | some n => some (max n a.largest) | none => some a.largest }
  let s := setSp s e sp
  let post (s : St) (lost : List (Nat × List Nat)) : Except String (St × List (Nat × List Nat)) := do
    if e == 1 && s.server then
      let s ← discardEpoch s 0 i.srtt1 i.rttvar1
      pure (s, lost)
    else pure (s, lost)
  if sp.sent.isEmpty then post s [] else
  let (sent', s, acc) := ackWalk (inRanges a.ranges) sp.sent s {}
  let sp := getSp s e
  let s := setSp s e { sp with sent := trimFront sent' }
  match acc.largest with
  | none => post s []
  | some (lpn, lts) =>
    let rttUpdated := lpn == a.largest && acc.incl
    let s ← match a.ce with
      | some ce =>
        let sp := getSp s e
        if ce > sp.ce then onCongestionEvent (setSp s e { sp with ce := ce }) lts else pure s
      | none => pure s
    let (s, lost) ← detectLost s e (if rttUpdated then i.ld1 else i.ld0)
    let s := if peerCompleted s then { s with pto := 0 } else s
    let s ← setTimer s i.srtt1 i.rttvar1
    post s (if lost.isEmpty then [] else [(e, lost)])

/-- `ArcCC::do_tick` (timer part): `some n` = `Err(TooManyPtos(n))` -/
def doTick (s : St) (i : Inp) : Except String (St × List (Nat × List Nat) × Option Nat) :=
  match s.timer with
  | some t =>
    if t ≤ s.now then do
      let (s', lost) ← onTimeout s i
      pure (s', lost, if s'.pto > maxPtoCount then some s'.pto else none)
    else pure (s, [], none)
  | none => pure (s, [], none)

/-- `ArcCC::on_pkt_rcvd` (ack-eliciting) → `on_datagram_rcvd` -/
def onDatagramRcvd (s : St) (i : Inp) : Except String (St × List (Nat × List Nat)) := do
  if s.aaLimit then
    let s ← setTimer s i.srtt0 i.rttvar0
    match s.timer with
    | some t => if t < s.now then onTimeout s i else pure (s, [])
    | none => pure (s, [])
  else pure (s, [])

/-- `ArcCC::send_quota`: the pacer's token count (a float-derived input) is the whole answer;
`cwnd` enters only through the pacer's capacity and refill rate, `bytes_in_flight` not at all. -/
def sendQuota (s : St) (pacerTokens : Nat) : Option Nat :=
  if pacerTokens ≥ s.mds then some pacerTokens else none

/-! ## operations -/

inductive Op
  | sent (e pn : Nat) (elic infl : Bool) (size : Nat)
  | ack (e : Nat) (a : Ack)
  | tick (dt : Nat)
  | rcvd
  | discard (e : Nat)
  | hskey | hsack | confirmed | grant | limit

structure Out where
  lost : List (Nat × List Nat) := []
  tooMany : Option Nat := none

def step (s : St) (i : Inp) : Op → Except String (St × Out)
  | .sent e pn elic infl size => do
    let s ← onPktSent s i e pn elic infl size
    pure (s, {})
  | .ack e a => do
    let (s, lost) ← onAckRcvd s i e a
    pure (s, { lost := lost })
  | .tick dt => do
    let (s, lost, tm) ← doTick { s with now := s.now + dt } i
    pure (s, { lost := lost, tooMany := tm })
  | .rcvd => do
    let (s, lost) ← onDatagramRcvd s i
    pure (s, { lost := lost })
  | .discard e => do
    let s ← discardEpoch s e i.srtt1 i.rttvar1
    pure (s, {})
  | .hskey => pure ({ s with hsKey := true }, {})
  | .hsack => pure ({ s with hsAck := true }, {})
  | .confirmed => pure ({ s with confirmed := true }, {})
  | .grant => pure ({ s with aaLimit := false }, {})
  | .limit => pure ({ s with aaLimit := true }, {})

/-- bytes of the packets still outstanding in a space (`Inflight ∧ count_for_cc`) -/
def outstanding : List Pkt → Nat
  | [] => 0
  | p :: ps => (if p.st == PSt.I && p.cc then p.size else 0) + outstanding ps

def outstandingAll (s : St) : Nat := outstanding s.s0.sent + outstanding s.s1.sent + outstanding s.s2.sent

end GmQuic.Recovery
