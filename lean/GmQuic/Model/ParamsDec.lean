import GmQuic.Model.Params
import GmQuic.Model.Res
import GmQuic.Model.Frame
import GmQuic.Gen.C03Tables
/-!
C03 — the peer's transport-parameter blob, parser level, transliterated step by step from
`qbase/src/param/io.rs` (`be_raw_parameter`, `be_parameter_value`, `check_value_consumed`,
`Parameters::<R>::parse_from_bytes`, `ServerParameters::try_from_remembered_bytes`),
`qbase/src/param/preferred_address.rs` `be_preferred_address`, `qbase/src/token.rs` `be_reset_token`,
with an explicit `.panic` arm at every `from_slice` / `copy_from_slice` / slice index / `try_into().unwrap()`.
The table, `belong_to` and `set` (validation) are C18's (`Model/Params.lean` over the generated `Gen/Params`).
The code modelled is the one with `fix: malformed peer transport parameters …` applied.  Core-only.
-/
namespace GmQuic.ParamsDec
open GmQuic.Wire GmQuic.Codec GmQuic.Params GmQuic.Gen.Params

/-- outcome of the transport-parameter parsers: every `Err` is a `param::Error` (→ one QuicError kind) -/
inductive TRes (α : Type) where
  | ok (a : α)
  | err (why : String)
  | panic (site : String)
  deriving Repr, DecidableEq

/-- `be_reset_token`: complete `take(16)` then `ResetToken::new` (`bytes.try_into().unwrap()`). -/
def pResetToken : P Bytes := fun bs =>
  (pTakeC 16 bs).bind fun t r =>
  if t.length != 16 then .panic "qbase/src/token.rs:ResetToken::new:try_into().unwrap()" else .ok t r

/-- `be_preferred_address` -/
def pPreferred : P Bytes := fun bs =>
  (pTakeS 6 bs).bind fun v4 r =>
  if v4.length < 6 then .panic "qbase/src/param/preferred_address.rs:buf[..4]/buf[5]" else
  (pTakeS 18 r).bind fun v6 r =>
  if v6.length < 18 then .panic "qbase/src/param/preferred_address.rs:buf[..16]/buf[17]" else
  (pCid r).bind fun cid r =>
  (pResetToken r).bind fun tok r => .ok (v4 ++ v6 ++ [UInt8.ofNat cid.length] ++ cid ++ tok) r

/-- `be_parameter_value(input, id)`: value and the bytes it left -/
def pValue (ty : Ty) : P PVal := fun inp =>
  match ty with
  | .varint => (pVarint inp).map .varint
  | .duration => (pVarint inp).map .dur
  | .boolean => .ok .tru inp
  | .bytes => .ok (.bytes inp) []
  | .resetToken => (pResetToken inp).map .token
  | .connectionId =>
    if inp.length > GmQuic.Gen.C03.maxCidSize then .err (.nom .tooLarge)
    else if inp.length > 20 then .panic "qbase/src/cid/connection_id.rs:from_slice:len>20"
    else .ok (.cid inp) []
  | .preferredAddress => (pPreferred inp).map .pref

/-- one iteration of the `while !buf.is_empty()` loop; `none` in the `ok` = the parameter was ignored -/
def parseOne (r : Role) (buf : Bytes) (acc : PMap) : TRes (PMap × Bytes) :=
  -- be_raw_parameter: id, then length_data(be_varint)
  match pVarint buf with
  | .panic s => .panic s
  | .err _ => .err "IncompleteParameterId"
  | .ok id b1 =>
    match (pVarint b1).bind (fun n r => pTakeS n r) with
    | .panic s => .panic s
    | .err _ => .err "IncompleteParameterId"
    | .ok value rest =>
      match row? id with
      | none => .ok (acc, rest)                                   -- unknown id: `continue`
      | some row =>
        if !belongTo row.id r then .err "WrongRole" else
        match pValue row.ty value with
        | .panic s => .panic s
        | .err _ => .err "IncompleteParameterId"                  -- handle_nom_error
        | .ok v remain =>
          if !remain.isEmpty then .err "IncompleteValue" else      -- check_value_consumed
          match setRow r acc row v with
          | .error _ => .err "Set"
          | .ok acc' => .ok (acc', rest)

def parseLoopR (r : Role) : Nat → Bytes → PMap → TRes PMap
  | 0, _, _ => .panic "out of fuel"
  | fuel + 1, buf, acc =>
    if buf.isEmpty then .ok acc else
    match parseOne r buf acc with
    | .ok (acc', rest) => parseLoopR r fuel rest acc'
    | .err w => .err w
    | .panic s => .panic s

/-- `Parameters::<R>::parse_from_bytes(buf)` where `R` = the SENDER's role -/
def parseFromBytes (r : Role) (buf : Bytes) : TRes PMap :=
  match parseLoopR r (buf.length + 1) buf [] with
  | .ok m => if (required r).all m.has then .ok m else .err "LackParameterId"
  | .err w => .err w
  | .panic s => .panic s

/-- `ServerParameters::try_from_remembered_bytes(buf)` (stored bytes of an earlier connection; no required-set check) -/
def rememberedFromBytes (buf : Bytes) : TRes PMap := parseLoopR .server (buf.length + 1) buf []

/-- the connection error a parse failure becomes (`impl From<param::Error> for QuicError`, generated) -/
def errKind (_why : String) : String := GmQuic.Gen.C03.paramErrKind

end GmQuic.ParamsDec
