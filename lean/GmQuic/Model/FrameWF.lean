import GmQuic.Model.Frame
/-!
Well-formedness of frame values: exactly the constraints the Rust types / constructors / RFC field
ranges impose (`VarInt < 2^62`, `ConnectionId ≤ 20`, `[u8; 8]`, `ResetToken = [u8; 16]`, `u16` port …)
plus the checks the decoders perform (`retire_prior_to ≤ seq`, non-empty cid, `MAX_STREAMS ≤ 2^60`,
`offset + length ≤ 2^62 − 1`) plus, for the data frames, `data.len() == frame.length`.
Decidable (`Bool`).
-/
namespace GmQuic.Codec
open GmQuic.Wire GmQuic.Gen

def v62 (n : Nat) : Bool := decide (n < 2 ^ 62)

def wfAddr (a : SockAddr) : Bool :=
  decide (a.port < 2 ^ 16) && decide (a.ip < (if a.v6 then 2 ^ 128 else 2 ^ 32))

def wfRangesB (rs : List (Nat × Nat)) : Bool := rs.all fun p => v62 p.1 && v62 p.2

def wfKind : EKind → Bool
  | .named i => decide (i < errKindCount)
  | .crypto x => decide (x < 256)

/-- `ErrorFrameType::Ext(v)` is the normal form only for numbers that are not in the table
(the decoder answers `V1` for those that are). -/
def wfFty : ErrFty → Bool
  | .v1 _ => true
  | .ext v => v62 v && (frameTypeOfNat v).isNone

def wfCtl : StreamCtl → Bool
  | .resetStream sid code fs => v62 sid && v62 code && v62 fs
  | .stopSending sid code => v62 sid && v62 code
  | .maxStreamData sid n => v62 sid && v62 n
  | .maxStreams _ n => decide (n ≤ maxStreamsLimit)
  | .streamDataBlocked sid n => v62 sid && v62 n
  | .streamsBlocked _ n => v62 n

def wf : Frame → Bool
  | .padding | .ping | .handshakeDone => true
  | .ack l d f rs ecn =>
    v62 l && v62 d && v62 f && wfRangesB rs && v62 rs.length &&
      (match ecn with | none => true | some (a, b, c) => v62 a && v62 b && v62 c)
  | .closeApp code reason => v62 code && decide (reason.length < 2 ^ 14) && validUtf8 reason
  | .closeQuic kind fty reason =>
    wfKind kind && wfFty fty && decide (reason.length < 2 ^ 14) && validUtf8 reason
  | .newToken t => decide (t.length < 2 ^ 32)
  | .maxData n | .dataBlocked n | .retireConnectionId n | .removeAddress n => v62 n
  | .newConnectionId seq rpt cid tok =>
    v62 seq && decide (rpt ≤ seq) && decide (0 < cid.length) && decide (cid.length ≤ maxCidSize) &&
      decide (tok.length = resetTokenSize)
  | .pathChallenge d | .pathResponse d => decide (d.length = 8)
  | .streamCtl c => wfCtl c
  | .stream sid off len _ _ data =>
    v62 sid && decide (data.length = len) && decide (off + len ≤ varintMax) && decide (len < 2 ^ 32)
  | .crypto off len data => decide (data.length = len) && decide (off + len ≤ varintMax)
  | .datagram _ len data => decide (data.length = len) && v62 len
  | .addAddress seq a tire nat => v62 seq && wfAddr a && v62 tire && decide (nat ≤ 5)
  | .punchMeNow l r a tire nat => v62 l && v62 r && wfAddr a && v62 tire && decide (nat ≤ 5)
  | .punchHello a b c | .punchDone a b c => v62 a && v62 b && v62 c

/-- frames whose encoding says where it ends (the others extend to the end of the packet) -/
def delimited : Frame → Bool
  | .stream _ _ _ lenBit _ _ => lenBit
  | .datagram withLen _ _ => withLen
  | _ => true

end GmQuic.Codec
