import GmQuic.Model.Sid
import GmQuic.Model.StreamWindow
/-!
Stream-direction and final-size rules of `qrecovery`:

* `codeGate` — the role/direction test at the head of every arm of `DataStreams::recv_data` /
  `DataStreams::recv_stream_control` (`streams/raw.rs`): STREAM_STATE_ERROR, `try_accept_sid`, or fall through;
* `checksCreated` — the arms in which a locally initiated id is then compared with
  `LocalStreamIds::opened_streams` (`check_local_created`: STREAM, STOP_SENDING, MAX_STREAM_DATA);
* `resetRx` — `Recv::recv_reset`, `SizeKnown::recv_reset` (`recv/recver.rs`) as dispatched by
  `Incoming::recv_reset`; the STREAM side (`Recv::determin_size`, `Recv::recv`, `SizeKnown::recv`) is
  `StreamWindow.RecvHalf.rx true` (C11's model of the tree with the FIN-limit fix, reused unchanged);
* `Endpoint` — one `DataStreams`: `StreamIds` (C12's `Sid.Local` / `Sid.Remote`), the input set
  (`ArcInput`: stream id ↦ receiving half), the listener queues; operations = local opens and every peer
  frame kind.  Sending halves are not modelled (C09/C11): STOP_SENDING / MAX_STREAM_DATA stop after the gate.

Core-only imports: linked into the native driver.
-/
namespace GmQuic.StreamRules
open GmQuic.Sid
open GmQuic.StreamWindow (RecvHalf RxObs Phase)

inductive FrameKind | stream | resetStream | stopSending | maxStreamData | streamDataBlocked
deriving Repr, DecidableEq

inductive Gate
  | accept        -- peer-initiated id: `try_accept_sid` (limit check + implicit open)
  | pass          -- locally initiated id, direction fine: fall through to the stream lookup
  | streamState   -- `QuicError(ErrorKind::StreamState)`
deriving Repr, DecidableEq

/-- `peerInit` = `sid.role() != self.role`. -/
def codeGate (k : FrameKind) (peerInit : Bool) (d : Dir) : Gate :=
  match k with
  | .stream | .resetStream | .streamDataBlocked =>
    -- "对方必须是发送端": the peer must be the sender
    if peerInit then .accept else if d = .uni then .streamState else .pass
  | .stopSending | .maxStreamData =>
    -- "对方必须是接收端": the peer must be the receiver
    if peerInit then (if d = .uni then .streamState else .accept) else .pass

/-- The arms of `recv_data` / `recv_stream_control` that call `check_local_created` for a locally initiated
stream id (after the direction test): `sid.id() >= opened_streams(dir)` ⇒ STREAM_STATE_ERROR. -/
def checksCreated : FrameKind → Bool
  | .stream | .stopSending | .maxStreamData => true
  | .resetStream | .streamDataBlocked => false

inductive ErrKind | streamLimit | streamState | finalSize | flowControl
deriving Repr, DecidableEq

/-! ## RESET_STREAM on a receiving half -/

inductive ResetObs
  | sync (n : Nat)   -- `Ok(final_size - largest)` / `Ok(())` ↦ 0
  | finalSize
  | flowControl      -- `Recv::recv_reset`: `final_size > max_stream_data`
deriving Repr, DecidableEq

/-- `Incoming::recv_reset`; `none` = the `unreachable!()` arm (state after all data was received: the
stream has left the input set, `DataStreams` never gets here). -/
def resetRx (h : RecvHalf) (final : Nat) : Option ResetObs :=
  match h.phase with
  | .recv =>
    if final < h.largest then some .finalSize
    else if final > h.msd then some .flowControl
    else some (.sync (final - h.largest))
  | .sizeKnown fs => if final ≠ fs then some .finalSize else some (.sync 0)
  | .done => none

/-! ## one endpoint -/

structure Windows where
  bidiLocal : Nat
  bidiRemote : Nat
  uni : Nat
deriving Repr

structure Endpoint where
  role : Role
  loc : Local
  rem : Remote CtrlSt
  win : Windows
  /-- `ArcInput`: receiving halves still in the set -/
  inputs : List (Nat × RecvHalf) := []
  /-- `Listener::{bi_streams, uni_streams}` -/
  listenBi : List Nat := []
  listenUni : List Nat := []
  /-- ghost: every stream handed to the application by `accept_bi` / `accept_uni` -/
  offered : List Nat := []
  /-- `ArcParameters`: the peer's transport parameters were handed over (`recv_remote_params`) -/
  gotParams : Bool := true
  /-- … and the peer's source connection id is known (`initial_scid_from_peer_need_equal`) -/
  gotScid : Bool := true
  /-- `Parameters::is_remote_params_ready` (= both, authenticated): until then `get_remote` is `None`,
  `poll_ready` is `Pending` -/
  ready : Bool := true
  /-- the peer's `initial_max_streams_{bidi,uni}`, applied by `revise_params(false, …)` when ready -/
  peerLim : Per := ⟨0, 0⟩

def lookup (l : List (Nat × RecvHalf)) (s : Nat) : Option RecvHalf := (l.find? (·.1 == s)).map (·.2)
def remove (l : List (Nat × RecvHalf)) (s : Nat) : List (Nat × RecvHalf) := l.filter (·.1 != s)
def update (l : List (Nat × RecvHalf)) (s : Nat) (h : RecvHalf) : List (Nat × RecvHalf) :=
  l.map fun x => if x.1 == s then (s, h) else x

inductive EOp
  | open_ (d : Dir)
  | frame (k : FrameKind) (s : Nat) (a b : Nat) (fin : Bool)
      -- stream: a = offset, b = length; resetStream: a = final size; maxStreamData / streamDataBlocked: a = value
  | maxStreams (d : Dir) (v : Nat)
  | streamsBlocked (d : Dir) (v : Nat)
  | drain        -- the application accepts everything the listener holds
  | acceptBi     -- one poll of `accept_bi(&params)`
  | acceptUni    -- one poll of `accept_uni()`
  | rparams      -- `Parameters::recv_remote_params(peer parameters)`
  | rscid        -- `Parameters::initial_scid_from_peer_need_equal(cid)`
deriving Repr

inductive EObs
  | sid (s : Nat)
  | pending (sb : Nat)
  | exhausted
  | ok (n : Nat) (ms : List (Dir × Nat))     -- `Ok(n)` + MAX_STREAMS frames emitted
  | err (k : ErrKind)
  | offered (bi uni : List Nat)
  | accepted (s : Option Nat)     -- `Poll::Ready(Ok((sid, ..)))` / `Poll::Pending`
  | pendingParams                 -- `open_*` waiting for the peer's parameters: nothing allocated, no frame
  | params (ready : Bool)
  | panic
deriving Repr, DecidableEq

/-- `try_accept_bi_sid` / `try_accept_uni_sid`: `none` = `ExceedLimitError`, `some (e, ms, panicked)`. -/
def Endpoint.acceptSid (e : Endpoint) (s : Nat) : Option (Endpoint × List (Dir × Nat) × Bool) :=
  let (r', o) := e.rem.step std (.accept s)
  match o with
  | .exceed _ => none
  | .panic => some ({ e with rem := r' }, [], true)
  | .old => some ({ e with rem := r' }, [], false)
  | .done _ => some ({ e with rem := r' }, [], false)   -- not an answer of `accept`
  | .new a b f =>
    let d := sidDir s
    let ids := idsFrom e.rem.role d (sidIdx a) (sidIdx b + 1 - sidIdx a)
    let w := match d with | .bi => e.win.bidiRemote | .uni => e.win.uni
    let e1 := { e with rem := r', inputs := e.inputs ++ ids.map fun i => (i, RecvHalf.mk0 w) }
    let e2 := match d with
      | .bi => { e1 with listenBi := e1.listenBi ++ ids }
      | .uni => { e1 with listenUni := e1.listenUni ++ ids }
    some (e2, (f.map fun m => (d, m)).toList, false)

/-- `s.shutdown_receive(); if s.is_terminated() { remote.on_end_of_stream(sid) }` for a stream whose
sending half (if any) is still open: only peer-initiated unidirectional streams terminate here. -/
def Endpoint.shutRecv (e : Endpoint) (s : Nat) : Endpoint × List (Dir × Nat) × Bool :=
  if sidDir s = .uni ∧ sidRole s ≠ e.role then
    let (r', o) := e.rem.step std (.eos s)
    match o with
    | .done (some m) => ({ e with rem := r' }, [(sidDir s, m)], false)
    | .panic => ({ e with rem := r' }, [], true)
    | _ => ({ e with rem := r' }, [], false)
  else (e, [], false)

def rxErr : RxObs → Option ErrKind
  | .flowControl => some .flowControl
  | .finalSize => some .finalSize
  | .fresh _ => none

/-- What happens behind the gate. -/
def Endpoint.deliver (e : Endpoint) (ms : List (Dir × Nat)) (k : FrameKind) (s a b : Nat) (fin : Bool) :
    Endpoint × EObs :=
  match k with
  | .stream =>
    match lookup e.inputs s with
    | none => (e, .ok 0 ms)
    | some h =>
      let (h', o) := h.rx true a b fin
      match o with
      | .flowControl => (e, .err .flowControl)
      | .finalSize => (e, .err .finalSize)
      | .fresh n =>
        if h'.phase = .done then
          let e1 := { e with inputs := remove e.inputs s }
          let (e2, ms2, p) := e1.shutRecv s
          if p then (e2, .panic) else (e2, .ok n (ms ++ ms2))
        else ({ e with inputs := update e.inputs s h' }, .ok n ms)
  | .resetStream =>
    match lookup e.inputs s with
    | none => (e, .ok 0 ms)
    | some h =>
      -- `incoming.recv_reset(reset)?` validates first; only an accepted reset removes the stream
      match resetRx h a with
      | none => (e, .panic)
      | some .finalSize => (e, .err .finalSize)
      | some .flowControl => (e, .err .flowControl)
      | some (.sync n) =>
        let e1 := { e with inputs := remove e.inputs s }
        let (e2, ms2, p) := e1.shutRecv s
        if p then (e2, .panic) else (e2, .ok n (ms ++ ms2))
  | _ => (e, .ok 0 ms)

/-- The connection's reaction to "remote parameters ready": `DataStreams::revise_params(false, peer)`. -/
def Endpoint.becomeReady (e : Endpoint) : Endpoint × EObs :=
  if e.gotParams && e.gotScid && !e.ready then
    let (l', o) := e.loc.step (.revise false e.peerLim.bi e.peerLim.uni)
    if o = .panic then ({ e with loc := l', ready := true }, .panic)
    else ({ e with loc := l', ready := true }, .params true)
  else (e, .params e.ready)

def Endpoint.step (e : Endpoint) : EOp → Endpoint × EObs
  | .acceptBi =>
    -- `Listener::poll_accept_bi_stream`: the send window comes from the peer's parameters, so they are
    -- looked up FIRST (`ready!(params.poll_ready(cx))`); only then is the queue popped
    if !e.ready then (e, .accepted none)
    else
      match e.listenBi with
      | [] => (e, .accepted none)
      | s :: t => ({ e with listenBi := t, offered := e.offered ++ [s] }, .accepted (some s))
  | .acceptUni =>
    match e.listenUni with
    | [] => (e, .accepted none)
    | s :: t => ({ e with listenUni := t, offered := e.offered ++ [s] }, .accepted (some s))
  | .rparams =>
    if e.gotParams then (e, .panic)          -- `assert!(self.client.is_empty())`
    else { e with gotParams := true }.becomeReady
  | .rscid =>
    if e.gotScid then (e, .panic)            -- `assert!(initial_scid.replace(cid).is_none())`
    else { e with gotScid := true }.becomeReady
  | .open_ d =>
    -- `poll_open_{bi,uni}_stream`: no remembered parameters and `get_remote` = `None` ⇒
    -- `ready!(params.poll_ready(cx))` before anything is allocated
    if !e.ready then (e, .pendingParams) else
    let (l', o) := e.loc.step (.alloc d)
    match o with
    | .sid s =>
      let e1 := { e with loc := l' }
      match d with
      | .bi => ({ e1 with inputs := e1.inputs ++ [(s, RecvHalf.mk0 e.win.bidiLocal)] }, .sid s)
      | .uni => (e1, .sid s)
    | .pending sb => ({ e with loc := l' }, .pending sb)
    | .exhausted => ({ e with loc := l' }, .exhausted)
    | _ => ({ e with loc := l' }, .panic)
  | .frame k s a b fin =>
    match codeGate k (sidRole s != e.role) (sidDir s) with
    | .streamState => (e, .err .streamState)
    | .pass =>
      -- locally initiated id: `check_local_created(sid, local.opened_streams(dir), ..)`;
      -- `opened_streams` locks the `LocalStreamIds` mutex (`unwrap`: panics when poisoned)
      if checksCreated k then
        if e.loc.poisoned then (e, .panic)
        else if sidIdx s ≥ e.loc.openedStreams (sidDir s) then (e, .err .streamState)
        else e.deliver [] k s a b fin
      else e.deliver [] k s a b fin
    | .accept =>
      match e.acceptSid s with
      | none => (e, .err .streamLimit)
      | some (e1, _, true) => (e1, .panic)
      | some (e1, ms, false) => e1.deliver ms k s a b fin
  | .maxStreams d v =>
    let (l', o) := e.loc.step (.maxStreams d v)
    ({ e with loc := l' }, if o = .panic then .panic else .ok 0 [])
  | .streamsBlocked d v =>
    let (r', o) := e.rem.step std (.blocked d v)
    match o with
    | .done f => ({ e with rem := r' }, .ok 0 (f.map fun m => (d, m)).toList)
    | _ => ({ e with rem := r' }, .panic)
  | .drain =>
    -- `accept_bi` until Pending (nothing while the parameters are not ready), then `accept_uni` until Pending
    let bi := if e.ready then e.listenBi else []
    ({ e with listenBi := if e.ready then [] else e.listenBi, listenUni := [],
              offered := e.offered ++ bi ++ e.listenUni },
     .offered bi e.listenUni)

def Endpoint.run (e : Endpoint) (ops : List EOp) : Endpoint := ops.foldl (fun e op => (e.step op).1) e

/-- `DataStreams::new` + `revise_params(false, peer parameters)` (wiring of `qconnection/src/builder.rs`
without remembered parameters). -/
def Endpoint.new (role : Role) (localBi localUni peerBi peerUni : Nat) (win : Windows) (k : CtrlSt) :
    Option Endpoint :=
  match Local.new role 0 0 with
  | none => none
  | some l0 =>
    match (l0.step (.revise false peerBi peerUni)).2 with
    | .panic => none
    | _ =>
      some { role := role, loc := (l0.step (.revise false peerBi peerUni)).1,
             rem := Remote.new role.peer localBi localUni k, win := win }

/-- `DataStreams::new` with the peer's parameters NOT yet received (a server always; a client without
remembered parameters): `revise_params` happens when they become ready (`Endpoint.becomeReady`). -/
def Endpoint.newLate (role : Role) (localBi localUni peerBi peerUni : Nat) (win : Windows) (k : CtrlSt) :
    Option Endpoint :=
  match Local.new role 0 0 with
  | none => none
  | some l0 =>
    some { role := role, loc := l0, rem := Remote.new role.peer localBi localUni k, win := win,
           gotParams := false, gotScid := false, ready := false, peerLim := ⟨peerBi, peerUni⟩ }

end GmQuic.StreamRules
