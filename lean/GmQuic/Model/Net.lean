import GmQuic.Model.Stream
import GmQuic.Model.Pn
/-!
C02 — the abstract stack of one connection under an adversarial network.

Composition, no new protocol code:
* per direction `d` (client→server, server→client) and stream id: one C01 `Stream` (sending half at the source
  endpoint of `d`, receiving half at the sink endpoint) — `Model/Stream.lean`, unchanged;
* DATAGRAM payloads of direction `d` (`dgSent` = accepted by the sending application, `dgRcvd` = handed to the
  receiving flow);
* a packet layer: a packet = (packet number, frames) sealed by an abstract AEAD (`Crypto`, hypotheses only:
  `open (seal p) = some p`, `open c = some p → c = seal p`, honest packets have zero reserved bits); the sink
  de-duplicates packet numbers with the C07/C10 receive journal `Pn.Rcvd`, unchanged;
* the adversary owns the network: `recv d c` hands ANY ciphertext `c` to the sink of direction `d`, at any
  time, any number of times — this subsumes drop (never named), delay / reorder, duplicate, replay, truncate
  and bit-flip (`Adv.tamper i f` = any function of an observed datagram), inject (`Adv.inject c`).

STREAM and DATAGRAM frames reach the handlers ONLY through `recv`.  The effect of every other frame on a stream
(ACK ⇒ `ack/lose`, MAX_STREAM_DATA, STOP_SENDING, RESET_STREAM and its ack) and every local call (write, shutdown,
pick, read, cancel, stop, connection error) is a C01 `Stream.Op`, applied through `app` at ARBITRARY times — an
over-approximation of any packet-level carriage of those frames, sound because C01 already quantifies over "any
emitted reset / any ack of any emitted frame at any time".

The order of the reserved-bit check relative to authentication is a parameter (`Order`): `beforeAuth` is
what `qbase/src/packet/decrypt.rs` + `qconnection/src/space/*` did (DESIGN §7 item 26), `afterAuth` is RFC 9001 §5.4.

The second half of the file is the APPLICATION PROJECTION used by the driver (`Drv/C02.lean`) to validate the
end-to-end simulator's transcript as a trace: per stream direction `written / fin / nread / eof`, canonical
content `genByte`, running Adler-style sums.

Core-only imports: linked into the native driver.
-/

namespace GmQuic.Net
open GmQuic.RecvBuf (Bytes)

inductive Dir | c2s | s2c
deriving DecidableEq, Repr

inductive PFrame
  | stream (sid : Nat) (f : Stream.Frame)
  | dgram (data : Bytes)
  /-- ACK, MAX_*, RESET_STREAM, … — their effect is covered by `Op.app` (see the header) -/
  | other (tag : Nat)
deriving DecidableEq, Repr

structure Packet where
  pn : Nat
  frames : List PFrame
deriving DecidableEq, Repr

/-- Abstract packet protection over an arbitrary ciphertext type `C` (bytes in reality).  Only hypotheses, no
axioms: every theorem is stated for an arbitrary `Crypto C`. -/
structure Crypto (C : Type) where
  sealP : Dir → Packet → C
  openP : Dir → C → Option Packet
  /-- the two reserved bits of the first byte are non-zero once header protection is removed -/
  reserved : Dir → C → Bool
  open_seal : ∀ d p, openP d (sealP d p) = some p
  open_inj : ∀ d c p, openP d c = some p → c = sealP d p
  seal_reserved : ∀ d p, reserved d (sealP d p) = false

inductive Order | beforeAuth | afterAuth
deriving DecidableEq, Repr

def upd {α : Type} (f : Dir → α) (d : Dir) (v : α) : Dir → α := fun x => if x = d then v else f x
def upd2 {α : Type} (f : Dir → Nat → α) (d : Dir) (k : Nat) (v : α) : Dir → Nat → α :=
  fun x y => if x = d ∧ y = k then v else f x y

structure Net (C : Type) where
  streams : Dir → Nat → Stream.Stream
  /-- packets sealed by the source of `d`, in order; `wire d` = their ciphertexts -/
  sent : Dir → List Packet := fun _ => []
  wire : Dir → List C := fun _ => []
  nextPn : Dir → Nat := fun _ => 0
  rcvd : Dir → Pn.Rcvd := fun _ => {}
  /-- ghost: packets whose frames reached the frame handlers of the sink of `d`, in order -/
  delivered : Dir → List Packet := fun _ => []
  dgSent : Dir → List Bytes := fun _ => []
  dgRcvd : Dir → List Bytes := fun _ => []
  /-- connection error raised by the sink of `d` while processing a datagram -/
  connErr : Dir → Option String := fun _ => none

def Net.init (C : Type) (sw rw : Nat) : Net C := { streams := fun _ _ => Stream.Stream.init sw rw }

inductive Op (C : Type)
  /-- a local call / a non-STREAM frame effect on stream (`d`, `sid`): any C01 op except `deliver` -/
  | app (d : Dir) (sid : Nat) (op : Stream.Op)
  /-- the sending application queues a datagram -/
  | dgSend (d : Dir) (data : Bytes)
  /-- the source of `d` assembles and seals a packet; frames it could not have produced are left out -/
  | send (d : Dir) (frames : List PFrame)
  /-- the adversary hands ciphertext `c` to the sink of `d` -/
  | recv (d : Dir) (c : C)
  /-- receive-journal rotation at the sink of `d` -/
  | slide (d : Dir) (n : Nat)

def isLocal : Stream.Op → Bool
  | .deliver _ => false
  | _ => true

/-- what `Stream.step s (.deliver i)` does with `emitted[i] = f` -/
def rxFrame (s : Stream.Stream) (f : Stream.Frame) : Stream.Stream :=
  let (r, res) := s.rcv.rx f
  { s with rcv := r, rxErr := Stream.noteErr s.rxErr res }

/-- frames the source of `d` can put into a packet: STREAM frames it emitted, datagrams its application queued -/
def legal {C : Type} (σ : Net C) (d : Dir) : PFrame → Bool
  | .stream sid f => decide (f ∈ (σ.streams d sid).emitted)
  | .dgram x => decide (x ∈ σ.dgSent d)
  | .other _ => true

def handle {C : Type} (d : Dir) (σ : Net C) : PFrame → Net C
  | .stream sid f => { σ with streams := upd2 σ.streams d sid (rxFrame (σ.streams d sid) f) }
  | .dgram x => { σ with dgRcvd := upd σ.dgRcvd d (σ.dgRcvd d ++ [x]) }
  | .other _ => σ

/-- an authenticated, fresh packet: register the number, hand every frame to its handler -/
def dispatch {C : Type} (σ : Net C) (d : Dir) (p : Packet) : Net C :=
  p.frames.foldl (handle d)
    { σ with rcvd := upd σ.rcvd d ((σ.rcvd d).onRcvd p.pn), delivered := upd σ.delivered d (σ.delivered d ++ [p]) }

def fresh (r : Pn.Rcvd) (pn : Nat) : Bool := decide (r.offset ≤ pn) && !r.seen pn

def protoViolation {C : Type} (σ : Net C) (d : Dir) : Net C :=
  { σ with connErr := upd σ.connErr d (some "PROTOCOL_VIOLATION") }

/-- the sink of `d` processes datagram `c` (one QUIC packet per datagram) -/
def recvStep {C : Type} (K : Crypto C) (ord : Order) (σ : Net C) (d : Dir) (c : C) : Net C :=
  if (σ.connErr d).isSome then σ else
  if ord = .beforeAuth ∧ K.reserved d c = true then protoViolation σ d else
  match K.openP d c with
  | none => σ                                        -- AEAD failure: dropped silently
  | some p =>
    if K.reserved d c = true then protoViolation σ d  -- authenticated packet with reserved bits set
    else if fresh (σ.rcvd d) p.pn then dispatch σ d p
    else σ                                           -- TooOld / Duplicate: dropped

def step {C : Type} (K : Crypto C) (ord : Order) (σ : Net C) : Op C → Net C
  | .app d sid op =>
    if isLocal op then { σ with streams := upd2 σ.streams d sid ((σ.streams d sid).step op) } else σ
  | .dgSend d x => { σ with dgSent := upd σ.dgSent d (σ.dgSent d ++ [x]) }
  | .send d frames =>
    let p : Packet := ⟨σ.nextPn d, frames.filter (legal σ d)⟩
    { σ with sent := upd σ.sent d (σ.sent d ++ [p]), wire := upd σ.wire d (σ.wire d ++ [K.sealP d p]),
             nextPn := upd σ.nextPn d (σ.nextPn d + 1) }
  | .recv d c => recvStep K ord σ d c
  | .slide d n => { σ with rcvd := upd σ.rcvd d ((σ.rcvd d).slide n) }

def run {C : Type} (K : Crypto C) (ord : Order) (σ : Net C) (ops : List (Op C)) : Net C :=
  ops.foldl (step K ord) σ

/-- INT-CTXT as a condition on the adversary: a ciphertext that authenticates was put on the wire by the peer.
(`open_inj` alone only says ciphertexts are canonical; that the adversary cannot compute `seal` of a packet of
its own without the key is the AEAD's integrity — assumed, see docs/C02.md.) -/
def opAuthentic {C : Type} (K : Crypto C) (σ : Net C) : Op C → Prop
  | .recv d c => (K.openP d c).isSome → c ∈ σ.wire d
  | _ => True

def NoForgery {C : Type} (K : Crypto C) (ord : Order) : Net C → List (Op C) → Prop
  | _, [] => True
  | σ, op :: rest => opAuthentic K σ op ∧ NoForgery K ord (step K ord σ op) rest

/-! ### the named adversary moves, all instances of `recv` -/

inductive Adv (C : Type)
  /-- deliver observed datagram `i` of direction `d` (again): delay, reorder, duplicate, replay -/
  | deliver (d : Dir) (i : Nat)
  /-- deliver `f` of observed datagram `i`: truncation, bit flips, any rewriting -/
  | tamper (d : Dir) (i : Nat) (f : C → C)
  /-- deliver arbitrary bytes -/
  | inject (d : Dir) (c : C)

def Adv.toOp {C : Type} (σ : Net C) : Adv C → Option (Op C)
  | .deliver d i => (σ.wire d)[i]?.map (Op.recv d)
  | .tamper d i f => (σ.wire d)[i]?.map (fun c => Op.recv d (f c))
  | .inject d c => some (Op.recv d c)

/-! ## application projection (what the simulator's transcript is validated against) -/

/-- canonical content of a stream with key `key` (same function as `harness2/src/c02.rs gen_byte`) -/
def genByte (key i : Nat) : Nat := (i * 131 + key * 7 + (i / 256) * 31 + (i / 65536) * 17) % 251

/-- Adler-style running sums over `n` canonical bytes from offset `off` -/
def sumsFrom (key : Nat) : Nat → Nat → Nat × Nat → Nat × Nat
  | _, 0, as => as
  | off, n + 1, (a, s) =>
    let a' := (a + genByte key off) % 65521
    sumsFrom key (off + 1) n (a', (s + a') % 65521)

/-- one stream direction as the two applications see it -/
structure AppDir where
  key : Nat := 0
  opened : Bool := false
  written : Nat := 0
  fin : Bool := false
  nread : Nat := 0
  a : Nat := 1
  s : Nat := 0
  eof : Bool := false
deriving Repr

/-- A read of `n` bytes with resulting sums `(a, s)` is legal iff the bytes exist at the writer (`read_is_prefix`:
`nread + n ≤ written`) and they are the canonical bytes at that offset. -/
def AppDir.readOk (x : AppDir) (n a s : Nat) : Bool :=
  x.opened && !x.eof && decide (x.nread + n ≤ x.written) && (sumsFrom x.key x.nread n (x.a, x.s) == (a, s))

/-- EOF is legal iff the writer shut down and everything was read (`eof_only_at_end`). -/
def AppDir.eofOk (x : AppDir) : Bool := x.opened && x.fin && decide (x.nread = x.written)

/-- terminal connection errors the abstract stack allows between two honest endpoints: application close, or
loss of the only path (idle timeout / persistent loss).  Never a transport error (`no_error_from_tampering`). -/
def allowedTerm (k : String) : Bool := k == "app" || k == "quic:Application" || k == "quic:NoViablePath" || k == "quic:None"

end GmQuic.Net
