import GmQuic.Model.Params
/-!
C05 — ENCODER of transport-parameter sets (`qbase/src/param/io.rs`: `put_parameter_id`,
`put_*_parameter`, `put_parameter`, `put_parameters`), the counterpart of C18's `parse` model
(`Model/Params.lean`, reused unchanged).  A `Parameters<R>` map is an association list with one binding
per id; `put_parameters` iterates the `HashMap` in an unspecified order, so the encoder is defined for
*a given order* and the theorems hold for every order.
-/
namespace GmQuic.Params
open GmQuic.Gen.Params GmQuic.Wire

/-- `put_parameter(id, value)`; the length prefix is the value's own `encoding_size()`. -/
def encParam (id : Nat) (v : PVal) : Bytes :=
  encVarint id ++
  match v with
  | .varint n => encVarint (varintSize n) ++ encVarint n
  | .dur ms => encVarint (varintSize ms) ++ encVarint ms      -- `VarInt::from_u128(as_millis()).expect(..)`
  | .tru => encVarint 0
  | .bytes b => encVarint b.length ++ b
  | .cid c => UInt8.ofNat c.length :: c                       -- `put_connection_id`: a `u8` length
  | .token t => encVarint 16 ++ t                             -- `ResetToken::encoding_size()`
  | .pref b => encVarint b.length ++ b                        -- `PreferredAddress::encoding_size()` (see Model/Addr)

/-- `put_parameters` for the iteration order `m` -/
def putParams (m : PMap) : Bytes := (m.map fun e => encParam e.1 e.2).flatten

/-- values the Rust types can hold (`VarInt`, `Duration` whose milliseconds fit a VarInt, `ConnectionId`,
`ResetToken`, a structurally valid `PreferredAddress` image) -/
def wfVal : PVal → Bool
  | .varint n => decide (n < 2 ^ 62)
  | .dur ms => decide (ms < 2 ^ 62)
  | .tru => true
  | .bytes b => decide (b.length < 2 ^ 62)
  | .cid c => decide (c.length ≤ 20)
  | .token t => decide (t.length = 16)
  | .pref b => decide (b.length < 2 ^ 62) && (parseValue .preferredAddress b == some (.pref b))

/-- ids pairwise distinct (it is a map) -/
def distinctIds : PMap → Bool
  | [] => true
  | e :: tl => !(tl.any fun x => x.1 == e.1) && distinctIds tl

/-- a parameter set that `Parameters<R>` can hold and that is complete for the role -/
def wfSet (r : Role) (m : PMap) : Bool :=
  distinctIds m && m.all (fun e => accepts r e.1 e.2 && wfVal e.2) && (required r).all m.has

end GmQuic.Params
