import GmQuic.Model.Res
import GmQuic.Model.Frame
import GmQuic.Gen.C03Tables
/-!
C03 — UDP datagram → QUIC packets, transliterated arm by arm from

* `qbase/src/packet/type.rs`  `be_packet_type`, `type/long.rs` `parse_long_type`, `type/long/v1.rs` `TryFrom<u8>`
* `qbase/src/cid/connection_id.rs` `be_connection_id` (= `Codec.pCid`, C05), `ConnectionId::from_slice`
* `qbase/src/packet/header.rs` `be_header`, `header/long.rs` `be_version_negotiation / be_retry / be_initial`,
  `LongHeaderBuilder::parse`, `header/short.rs` `be_one_rtt_header`
* `qbase/src/packet/io.rs` `be_payload`, `be_packet`
* `qbase/src/packet.rs` `impl Iterator for PacketReader`
* `qtraversal/src/packet.rs` `be_header_type / be_stun_header / be_forward_header / be_header`,
  `qbase/src/net/addr.rs` `be_endpoint_addr`, and the three-way switch of the receive task in
  `qtraversal/src/route.rs` (the first thing run on every datagram; QUIC goes to `PacketReader::new(pkt, 8)`).

Every place where the Rust has `unreachable!`, an `unwrap`, a `usize` subtraction, a slice index or a
`split_to` on a path reachable from input is an explicit `.panic site` arm; Props/C03 proves them dead.
The code modelled is the one with `fix: a malformed long header …` applied (be_header's nom Error is
mapped to `IncompleteHeader`, not `unreachable!`).  Core-only.
-/
namespace GmQuic.PacketDec
open GmQuic.Wire GmQuic.Codec

/-- `packet::r#type::long::Type` (+ the four V1 types). -/
inductive LongTy | vn | initial | zeroRtt | handshake | retry
  deriving DecidableEq, Repr, Inhabited

/-- `packet::r#type::Type` (`spin` = `SpinBit::One`). -/
inductive PTy | long (t : LongTy) | short (spin : Bool)
  deriving DecidableEq, Repr, Inhabited

/-- `packet::error::Error` as far as the parsers produce it. -/
inductive PErr
  | unsupportedVersion (v : Nat)
  | invalidFixedBit
  | incompleteType
  | incompleteHeader (t : PTy)
  | underSampling (t : PTy) (n : Nat)
  deriving DecidableEq, Repr, Inhabited

/-- three-way result of the packet-level parsers -/
inductive PRes (α : Type) where
  | ok (a : α) (rest : Bytes)
  | err (e : PErr)
  | panic (site : String)
  deriving Repr, DecidableEq

/-- `packet::header::Header` -/
inductive Hdr
  | vn (dcid scid : Bytes) (versions : List Nat)
  | retry (dcid scid token integrity : Bytes)
  | initial (dcid scid token : Bytes)
  | zeroRtt (dcid scid : Bytes)
  | handshake (dcid scid : Bytes)
  | oneRtt (spin : Bool) (dcid : Bytes)
  deriving DecidableEq, Repr, Inhabited

/-- `packet::Packet`: `VN`/`Retry` carry only the header, `Data(DataPacket{header, bytes, offset})`. -/
inductive Packet
  | ctl (h : Hdr)
  | data (h : Hdr) (bytes : Bytes) (offset : Nat)
  deriving DecidableEq, Repr, Inhabited

/-- `MAX_CID_SIZE` (generated from connection_id.rs) -/
def maxCid : Nat := GmQuic.Gen.C03.maxCidSize
/-- the `payload_len < 20` sampling minimum of `be_payload` (generated from packet/io.rs) -/
def minSampleLong : Nat := GmQuic.Gen.C03.minSampleLong
/-- the `remain.len() < 20` sampling minimum of the 1-RTT arm of `be_packet` (generated from packet/io.rs) -/
def minSampleShort : Nat := GmQuic.Gen.C03.minSampleShort

/-! ### packet type -/

/-- `v1::Type::try_from(ty)` after the fixed-bit test: `value & 0x30`, last arm `unreachable!()`. -/
def v1Type (b : Nat) : Option LongTy :=
  match (b / 16) % 4 with
  | 0 => some .initial
  | 1 => some .zeroRtt
  | 2 => some .handshake
  | 3 => some .retry
  | _ => none   -- `_ => unreachable!()`  (packet/type/long/v1.rs)

/-- `be_packet_type` with `be_packet`'s `map_err` applied (Incomplete ⇒ `IncompleteType`,
`Error(e)` ⇒ `e`, Failure ⇒ `unreachable!`, which no sub-parser produces). -/
def bePacketType : Bytes → PRes PTy
  | [] => .err .incompleteType
  | b :: r =>
    if b.toNat < 128 then .ok (.short ((b.toNat / 32) % 2 == 1)) r
    else if r.length < 4 then .err .incompleteType
    else
      let v := beVal (r.take 4)
      let r' := r.drop 4
      if v == 0 then .ok (.long .vn) r'
      else if v == 1 then
        if (b.toNat / 64) % 2 == 0 then .err .invalidFixedBit
        else match v1Type b.toNat with
          | some t => .ok (.long t) r'
          | none => .panic "qbase/src/packet/type/long/v1.rs:try_from:unreachable"
      else .err (.unsupportedVersion v)

/-! ### headers (nom level: `Codec.Res`) -/

/-- `many_till(be_u32, eof)` (streaming `be_u32`): a trailing 1–3 bytes is `Incomplete`. -/
def pVersions : Bytes → Res (List Nat)
  | [] => .ok [] []
  | a :: b :: c :: d :: r =>
    match pVersions r with
    | .ok vs rest => .ok (beVal [a, b, c, d] :: vs) rest
    | .err k => .err k
    | .panic s => .panic s
  | _ => .err .incomplete

/-- `length_data(be_varint)` (streaming take). -/
def pLengthData : P Bytes := fun bs =>
  (pVarint bs).bind fun n r => pTakeS n r

/-- `LongHeaderBuilder{dcid, scid}.parse(ty, input)` -/
def pLongSpecific (t : LongTy) (dcid scid : Bytes) : P Hdr := fun bs =>
  match t with
  | .vn => (pVersions bs).map (Hdr.vn dcid scid)
  | .retry =>
    if bs.length < 16 then .err .incomplete
    else
      -- `let token_length = input.len() - 16; take(token_length)`; returns `&[][..]` as remain
      (pTakeS (bs.length - 16) bs).bind fun token integrity => .ok (.retry dcid scid token integrity) []
  | .initial => (pLengthData bs).map (Hdr.initial dcid scid)
  | .zeroRtt => .ok (.zeroRtt dcid scid) bs
  | .handshake => .ok (.handshake dcid scid) bs

/-- `be_header(packet_type, dcid_len, input)`.  Short header: streaming `take(dcid_len)` then
`ConnectionId::from_slice`, which panics (debug_assert / slice index) above 20 bytes. -/
def beHeader (t : PTy) (dcidLen : Nat) : P Hdr := fun bs =>
  match t with
  | .long lt =>
    (pCid bs).bind fun dcid r =>
    (pCid r).bind fun scid r => pLongSpecific lt dcid scid r
  | .short spin =>
    (pTakeS dcidLen bs).bind fun dcid r =>
    if dcid.length > maxCid then .panic "qbase/src/cid/connection_id.rs:from_slice:len>20"
    else .ok (.oneRtt spin dcid) r

/-! ### payload, packet -/

/-- `be_payload(pkty, datagram, remain_len)`: result `(bytes, offset)`, rest = what is left in `datagram`. -/
def bePayload (t : PTy) (dg : Bytes) (remainLen : Nat) : PRes (Bytes × Nat) :=
  if remainLen > dg.length then .panic "qbase/src/packet/io.rs:be_payload:datagram.len()-remain_len" else
  let input := dg.drop (dg.length - remainLen)
  match pLengthData input with
  | .err .incomplete => .err (.incompleteHeader t)
  | .err _ => .panic "qbase/src/packet/io.rs:be_payload:unreachable"
  | .panic s => .panic s
  | .ok payload remain =>
    if payload.length < minSampleLong then .err (.underSampling t payload.length) else
    if remain.length > dg.length then .panic "qbase/src/packet/io.rs:be_payload:datagram.len()-remain.len()" else
    let packetLength := dg.length - remain.length
    -- `datagram.split_to(packet_length)` (panics beyond len: excluded by the line above)
    if payload.length > packetLength then .panic "qbase/src/packet/io.rs:be_payload:packet_length-payload_len" else
    .ok (dg.take packetLength, packetLength - payload.length) (dg.drop packetLength)

/-- `be_packet(datagram, dcid_len)`; `rest` = the datagram after the call. -/
def bePacket (dg : Bytes) (dcidLen : Nat) : PRes Packet :=
  match bePacketType dg with
  | .err e => .err e
  | .panic s => .panic s
  | .ok t remain =>
    match beHeader t dcidLen remain with
    | .err _ => .err (.incompleteHeader t)    -- Incomplete and (since the fix) Error alike
    | .panic s => .panic s
    | .ok hdr remain =>
      match hdr with
      | .vn .. | .retry .. => .ok (.ctl hdr) []           -- `datagram.clear()`
      | .initial .. | .zeroRtt .. | .handshake .. =>
        (match bePayload t dg remain.length with
         | .ok (bytes, off) rest => .ok (.data hdr bytes off) rest
         | .err e => .err e
         | .panic s => .panic s)
      | .oneRtt .. =>
        if remain.length < minSampleShort then .err (.underSampling t remain.length)
        else if remain.length > dg.length then .panic "qbase/src/packet/io.rs:be_packet:bytes.len()-remain_len"
        else .ok (.data hdr dg (dg.length - remain.length)) []

/-- One call of `<PacketReader as Iterator>::next` on a reader whose buffer is `bs`. -/
inductive RdStep
  /-- `None`: the buffer is empty -/
  | eof
  /-- `Some(Ok(packet))`, buffer afterwards -/
  | pkt (p : Packet) (rest : Bytes)
  /-- `Some(Err(error))`, buffer afterwards (`self.raw_bytes.clear()`) -/
  | dropped (e : PErr) (rest : Bytes)
  | panic (site : String)
  deriving Repr, DecidableEq

def PacketReader.next (bs : Bytes) (dcidLen : Nat) : RdStep :=
  if bs.isEmpty then .eof else
  match bePacket bs dcidLen with
  | .ok p rest => .pkt p rest
  | .err e => .dropped e []
  | .panic s => .panic s

/-- What a `for x in PacketReader::new(bs, dcidLen)` loop sees, item by item. -/
inductive Item | pkt (p : Packet) | err (e : PErr) | panic (site : String) | outOfFuel
  deriving Repr, DecidableEq

/-- the iterator driven `fuel` times -/
def PacketReader.run : Nat → Bytes → Nat → List Item
  | 0, _, _ => [.outOfFuel]
  | fuel + 1, bs, d =>
    match PacketReader.next bs d with
    | .eof => []
    | .pkt p rest => .pkt p :: PacketReader.run fuel rest d
    | .dropped e rest => .err e :: PacketReader.run fuel rest d
    | .panic s => [.panic s]

/-- the whole datagram; `bs.length + 1` calls always suffice (`Props.C03.reader_terminates`). -/
def PacketReader.all (bs : Bytes) (d : Nat) : List Item := PacketReader.run (bs.length + 1) bs d

/-! ### the pre-QUIC demultiplexer (`qtraversal`) -/

/-- `qbase::net::addr::EndpointAddr` -/
inductive Endpoint | direct (a : SockAddr) | agent (agent outer : SockAddr)
  deriving DecidableEq, Repr, Inhabited

/-- `be_endpoint_addr(input, relay, family)` -/
def pEndpoint (relay v6 : Bool) : P Endpoint := fun bs =>
  if relay then
    (pSockAddr v6 bs).bind fun a r => (pSockAddr v6 r).bind fun o r => .ok (.agent a o) r
  else (pSockAddr v6 bs).map .direct

/-- `EndpointAddr::encoding_size` (`None` = the `unimplemented!` arm: mixed families) -/
def Endpoint.encSize : Endpoint → Option Nat
  | .direct a => some (if a.v6 then 18 else 6)
  | .agent a o => if a.v6 == o.v6 then some (if a.v6 then 36 else 12) else none

inductive THdr
  | stun (version : Nat)
  | forward (first : Nat) (src dst : Endpoint)
  deriving DecidableEq, Repr, Inhabited

/-- `qtraversal::packet::be_header` (`be_header_type` + `be_stun_header` / `be_forward_header`);
every integer parser here is nom *streaming* except the socket addresses (complete). -/
def tHeader : P THdr := fun bs =>
  match bs with
  | [] => .err .incomplete
  | first :: r =>
    let f := first.toNat
    if f / 2 == 0x61 then            -- first & 0b1111_1110 == 0b1100_0010
      if r.length < 4 then .err .incomplete else
      if beVal (r.take 4) == 0 then
        let r := r.drop 4
        (pU8S r).bind fun _ r => (pU8S r).bind fun _ r =>
        if r.length < 2 then .err .incomplete else .ok (.stun (beVal (r.take 2))) (r.drop 2)
      else .err (.nom .alt)
    else if f / 32 == 3 then         -- first & 0b1110_0000 == 0b0110_0000
      (pU8S r).bind fun flag r =>
      let v6 := (flag / 4) % 2 == 1
      (pEndpoint ((flag / 2) % 2 == 1) v6 r).bind fun src r =>
      (pEndpoint (flag % 2 == 1) v6 r).bind fun dst r => .ok (.forward flag src dst) r
    else .err (.nom .alt)

/-- `ForwardHeader::encoding_size(&pathway)` (`pathway = PathWay::new(src, dst)`: local = src, remote = dst) -/
def forwardEncSize (src dst : Endpoint) : Option Nat :=
  match dst with
  | .direct _ => some 0
  | .agent .. =>
    match src.encSize, dst.encSize with
    | some a, some b => some (1 + 1 + a + b)
    | _, _ => none

def stunHeaderSize : Nat := 9

/-- `qtraversal::nat::msg::be_packet` (= `qprotocol::stun::msg::be_packet`, the same file) on what
`deliver_stun_packet` passes it, outcome class only: streaming `be_u16`; the 16-byte transaction id
(`split_at(16)` panics when fewer bytes are left — guarded since `fix-C03-stun-short-message`); the type must be
BINDING_REQUEST (0x0001) or BINDING_RESPONSE (0x0101); `many0(be_attr)` cannot fail (an attribute error ends
the list, every attribute consumes at least its type byte) and its value is not modelled. -/
def stunMsg (body : Bytes) : Res Unit :=
  if body.length < 2 then .err .incomplete else
  let typ := beVal (body.take 2)
  let remain := body.drop 2
  if remain.length < 16 then .err .incomplete else
  if 16 > remain.length then .panic "qtraversal/src/nat/msg.rs:be_packet:split_at(16)" else
  if typ == 0x0001 || typ == 0x0101 then .ok () [] else .err (.nom .alt)

/-- What the receive task of `qtraversal/src/route.rs` does with one datagram (the forwarder's
`should_forward` branch re-sends the datagram unchanged and is not a decoder). -/
inductive Demux
  /-- `deliver_quic_packet(pkt)`: `PacketReader::new(pkt, 8)` -/
  | quic (pkt : Bytes)
  /-- `deliver_stun_packet`: `pkt.split_off(9)` then `nat::msg::be_packet` -/
  | stun (version : Nat) (body : Bytes)
  /-- `deliver_forward_packet`: `pkt.split_off(encoding_size)` delivered as QUIC; `hdrLen` = bytes `be_header` consumed -/
  | forward (src dst : Endpoint) (hdrLen : Nat) (inner : Bytes)
  | panic (site : String)
  deriving Repr, DecidableEq

def demux (bs : Bytes) : Demux :=
  match tHeader bs with
  | .err _ => .quic bs
  | .panic s => .panic s
  | .ok (.stun v) _ => .stun v (bs.drop stunHeaderSize)
  | .ok (.forward _ src dst) rest =>
    match forwardEncSize src dst with
    | none => .panic "qbase/src/net/addr.rs:encoding_size:unimplemented"
    | some n => .forward src dst (bs.length - rest.length) (bs.drop n)

/-- the QUIC connection-ID length the deployed receive task parses short headers with -/
def deployedDcidLen : Nat := GmQuic.Gen.C03.deployedDcidLen

end GmQuic.PacketDec
