import GmQuic.Model.Pn
/-!
C06 — executable model of QUIC packet protection as gm-quic does it.

Sender  : `qbase/src/packet/io.rs` `PacketWriter::{new_long,new_short}` + `encrypt_and_protect_packet`,
          `packet/encrypt.rs` `{encode_long_first_byte, encode_short_first_byte, encrypt_packet, protect_header}`.
Receiver: `packet/decrypt.rs` `{remove_protection_of_long_packet, remove_protection_of_short_packet, decrypt_packet}`,
          `qinterface/src/component/route/packet.rs` `CipherPacket::{decrypt_long_packet, decrypt_short_packet}`,
          `packet/keys.rs` `OneRttPacketKeys::{get_remote, update}`, `packet/type.rs` (`SpecificBits::pn_len`,
          reserved-bit masks), `packet/signal.rs` (key-phase bit 0x04).
rustls  : the header-protection application `xor_in_place` of rustls' ring provider (which of the first-byte
          bits are masked, pn length taken from the *unmasked* first byte, only `pn_len` pn bytes xor-ed) is
          transliterated here (`hpBits`, `xorPn`); the AEAD and the mask function are PARAMETERS (`Aead`, `Hp`).

The header *fields* (version, connection ids, token) are an opaque byte list `hdrRest` — their codecs are C05's.
The receiver takes what `be_packet` produced: the packet bytes and the payload offset; the packet type is
re-derived from the first byte (`typeOfFirst`, = `be_packet_type` for version 1).

`reservedBeforeOpen = true` is the order of the unchanged tree (reserved bits checked right after header-protection
removal, before the AEAD open; failure = PROTOCOL_VIOLATION connection error); `false` is the order of RFC 9001
§5.4.1 / the fix (checked after successful decryption).  Core-only imports.
-/
namespace GmQuic.Protect
open GmQuic.Wire GmQuic.Pn

/-- `rustls::quic::PacketKey` for a family of keys `K`: `aseal k pn aad plaintext = ciphertext ++ tag`. -/
structure Aead (K : Type) where
  tagLen : Nat
  aseal : K → Nat → Bytes → Bytes → Bytes
  aopen : K → Nat → Bytes → Bytes → Option Bytes

/-- `rustls::quic::HeaderProtectionKey`: 16-byte sample ↦ mask (5 bytes for every real suite). -/
structure Hp (H : Type) where
  mask : H → Bytes → Bytes

inductive PType
  | initial | zeroRtt | handshake | oneRtt
  deriving DecidableEq, Repr

/-- `be_packet_type` on the first byte (version 1): `none` = not a data packet (Retry) or `InvalidFixedBit`. -/
def typeOfFirst (f : UInt8) : Option PType :=
  if f &&& 0x80 = 0 then some .oneRtt
  else if f &&& 0x40 = 0 then none
  else if f &&& 0x30 = 0x00 then some .initial
  else if f &&& 0x30 = 0x10 then some .zeroRtt
  else if f &&& 0x30 = 0x20 then some .handshake
  else none

/-- rustls `xor_in_place`: `0x0f` for the long form, `0x1f` for the short form. -/
def hpBits (first : UInt8) : UInt8 := if first &&& 0x80 = 0x80 then 0x0f else 0x1f

/-- xor the first `n` bytes of `pn` with the mask bytes (`zip … take(pn_len)`; a missing mask byte = no change). -/
def xorPn : Nat → Bytes → Bytes → Bytes
  | 0, _, pn => pn
  | _ + 1, _, [] => []
  | n + 1, m, b :: pn => (b ^^^ m.headD 0) :: xorPn n m.tail pn

/-- `LONG_RESERVED_MASK` / `SHORT_RESERVED_MASK`. -/
def reservedMask (ty : PType) : UInt8 := if ty = .oneRtt then 0x18 else 0x0c

/-! ### Sender -/

structure TxPkt where
  ptype : PType
  hdr0 : UInt8          -- first byte as `put_header` wrote it (form, fixed, type / spin bits; low bits zero)
  hdrRest : Bytes       -- rest of the header (long: version … token, WITHOUT the Length field; short: dcid)
  pn : Nat              -- actual packet number (AEAD nonce input)
  enc : PacketNumber    -- truncated packet number written on the wire
  keyPhase : Bool
  body : Bytes
  deriving Repr

inductive TxRes
  | ok (pkt : Bytes) (off : Nat)
  | panic
  deriving DecidableEq, Repr

/-- `encode_long_first_byte` / `encode_short_first_byte` (`with_pn_len`, `set_key_phase`, `|=`). -/
def encodeFirst (t : TxPkt) : UInt8 :=
  let bits := UInt8.ofNat (size t.enc - 1)
  if t.ptype = .oneRtt then
    t.hdr0 ||| (if t.keyPhase then bits ||| 0x04 else bits &&& 0xfb)
  else t.hdr0 ||| bits

/-- the 2-byte Length field (`encode_varint(.., EncodeBytes::Two)`), long headers only -/
def lenField (tagLen : Nat) (t : TxPkt) : Bytes :=
  if t.ptype = .oneRtt then [] else encVarintW 2 (size t.enc + t.body.length + tagLen)

/-- the associated data: the whole header with the *unprotected* first byte and packet number -/
def aadOf (tagLen : Nat) (t : TxPkt) : Bytes :=
  encodeFirst t :: (t.hdrRest ++ lenField tagLen t) ++ put t.enc

def payloadOffset (tagLen : Nat) (t : TxPkt) : Nat := 1 + (t.hdrRest ++ lenField tagLen t).length

/-- `encrypt_and_protect_packet`. -/
def protect {K H : Type} (A : Aead K) (P : Hp H) (k : K) (hk : H) (t : TxPkt) : TxRes :=
  let pnLen := size t.enc
  let total := pnLen + t.body.length + A.tagLen
  if total < 20 then .panic                                  -- `assert!(payload_len + tag_len >= 20)`
  else if t.ptype ≠ .oneRtt ∧ 2 ^ 14 ≤ total then .panic     -- `assert!(value.0 < 1 << 14)` in `encode_varint`
  else
    let first := encodeFirst t
    let pnb := put t.enc
    let ct := A.aseal k t.pn (aadOf A.tagLen t) t.body
    let sample := ((pnb ++ ct).drop 4).take 16
    if sample.length < 16 then .panic                        -- `&sample[..sample_len]`
    else
      let m := P.mask hk sample
      if m.length < 5 then .panic                            -- rustls: "packet number too long" → `unwrap()`
      else
        let first' := first ^^^ (m.headD 0 &&& hpBits first)
        let n := (first &&& 3).toNat + 1                     -- masking: pn length bits *before* masking
        .ok (first' :: (t.hdrRest ++ lenField A.tagLen t) ++ xorPn n m.tail pnb ++ ct) (payloadOffset A.tagLen t)

/-- `PadTo20` (`Package::dump` on the writer): nothing for an empty packet, else zero padding up to
`payload_len + tag_len = 20`. -/
def padTo20 (tagLen pnLen : Nat) (body : Bytes) : Bytes :=
  if body.length = 0 then body
  else if pnLen + body.length + tagLen < 20 then body ++ List.replicate (20 - (pnLen + body.length + tagLen)) 0
  else body

/-! ### Receiver -/

/-- the buffer as `remove_protection_of_*` splits it: `pre_data[0]`, rest of `pre_data`, `max_pn_buf`, the rest -/
structure Split where
  first : UInt8
  mid : Bytes
  pn4 : Bytes
  tail : Bytes
  deriving DecidableEq, Repr

/-- `none` = an index / slice panic (`pre_data[0]` with offset 0, `split_at_mut(4)`, `sample[..16]`); `be_packet`
guarantees `1 ≤ off` and `off + 20 ≤ len`. -/
def split (buf : Bytes) (off : Nat) : Option Split :=
  match buf with
  | [] => none
  | f :: r =>
    if off = 0 ∨ r.length + 1 < off + 20 then none
    else some ⟨f, r.take (off - 1), (r.drop (off - 1)).take 4, r.drop (off - 1 + 4)⟩

def Split.join (s : Split) : Bytes := s.first :: (s.mid ++ s.pn4 ++ s.tail)

/-- header protection removed (`decrypt_in_place` of the header key on first byte + 4 pn bytes) -/
structure Unmasked where
  first : UInt8     -- unmasked first byte
  pn4 : Bytes       -- the four bytes after unmasking `pnLen` of them
  pnLen : Nat
  deriving DecidableEq, Repr

def unmask (m : Bytes) (sp : Split) : Unmasked :=
  let first' := sp.first ^^^ (m.headD 0 &&& hpBits sp.first)
  let n := (first' &&& 3).toNat + 1                          -- unmasking: pn length bits *after* unmasking
  ⟨first', xorPn n m.tail sp.pn4, n⟩

def Unmasked.aad (u : Unmasked) (sp : Split) : Bytes := u.first :: sp.mid ++ u.pn4.take u.pnLen
def Unmasked.ct (u : Unmasked) (sp : Split) : Bytes := u.pn4.drop u.pnLen ++ sp.tail

inductive Drop
  | notData        -- Retry / fixed bit: never reaches a packet space
  | hpFail         -- header-protection key returned an error
  | invalidPn      -- `decode_pn`: too old / duplicate
  | decryptFail    -- AEAD open failed
  deriving DecidableEq, Repr

inductive Outcome
  | accepted (ty : PType) (pn : Nat) (keyPhase : Bool) (aad : Bytes) (body : Bytes)
  | dropped (why : Drop)
  | connError      -- `Some(Err(QuicError PROTOCOL_VIOLATION))`
  | panic
  deriving DecidableEq, Repr

/-- `OneRttPacketKeys`: `cur_phase`, `remote[2]`, `local`; `gen` counts `Secrets::next_packet_keys` calls. -/
structure OneRtt (K : Type) where
  cur : Bool
  gen : Nat
  remote0 : Option K
  remote1 : Option K
  localK : K

structure RxCfg (K H : Type) where
  reservedBeforeOpen : Bool
  hpKey : PType → H
  longKey : PType → K
  next : Nat → K × K          -- generation ↦ (remote, local) of `Secrets::next_packet_keys`

def OneRtt.remote {K : Type} (s : OneRtt K) (kp : Bool) : Option K := if kp then s.remote1 else s.remote0

/-- `OneRttPacketKeys::update`. -/
def OneRtt.update {K H : Type} (c : RxCfg K H) (s : OneRtt K) : OneRtt K :=
  let cur := !s.cur
  let (r, l) := c.next s.gen
  { cur := cur, gen := s.gen + 1,
    remote0 := if cur then s.remote0 else some r,
    remote1 := if cur then some r else s.remote1,
    localK := l }

/-- `OneRttPacketKeys::get_remote` (`none` = the `unwrap()` panics). NB: updates BEFORE authentication. -/
def OneRtt.getRemote {K H : Type} (c : RxCfg K H) (s : OneRtt K) (kp : Bool) : OneRtt K × Option K :=
  let s' := if kp ≠ s.cur ∧ (s.remote kp).isNone then s.update c else s
  (s', s'.remote kp)

/-- `OneRttPacketKeys::phase_out`: `self.remote[(!self.cur_phase).as_index()].take()`. -/
def OneRtt.phaseOut {K : Type} (s : OneRtt K) : OneRtt K :=
  if s.cur then { s with remote0 := none } else { s with remote1 := none }

/-- which packet key the receiver uses -/
def rxKey {K H : Type} (c : RxCfg K H) (s : OneRtt K) (ty : PType) (kp : Bool) : OneRtt K × Option K :=
  if ty = .oneRtt then s.getRemote c kp else (s, some (c.longKey ty))

/-- `take_pn_len(pn_len)(max_pn_buf).unwrap()` then the `pn_decoder` closure (the space's
`RcvdJournal::decode_pn`, `Rcvd.decodePn` in the model). -/
def rxPn (dec : PacketNumber → DecodePn) (u : Unmasked) : Option DecodePn :=
  match Pn.take u.pnLen u.pn4 with
  | .ok e _ => some (dec e)
  | _ => none

/-- `CipherPacket::decrypt_{long,short}_packet` on what `be_packet` delivered. -/
def receive {K H : Type} (A : Aead K) (P : Hp H) (c : RxCfg K H) (dec : PacketNumber → DecodePn)
    (s : OneRtt K) (buf : Bytes) (off : Nat) : Outcome × OneRtt K :=
  match split buf off with
  | none => (.panic, s)
  | some sp =>
    match typeOfFirst sp.first with
    | none => (.dropped .notData, s)
    | some ty =>
      let m := P.mask (c.hpKey ty) (sp.tail.take 16)
      if m.length < 5 then (.dropped .hpFail, s)
      else
        let u := unmask m sp
        let resv := u.first &&& reservedMask ty
        if c.reservedBeforeOpen ∧ resv ≠ 0 then (.connError, s)      -- `pn_len()?` → `Some(Err(..))`
        else
          match rxPn dec u with
          | none => (.panic, s)
          | some (.panic _) => (.panic, s)
          | some .tooOld => (.dropped .invalidPn, s)
          | some .duplicate => (.dropped .invalidPn, s)
          | some (.ok pn) =>
            let kp := u.first &&& 0x04 ≠ 0
            match rxKey c s ty kp with
            | (s', none) => (.panic, s')
            | (s', some k) =>
              match A.aopen k pn (u.aad sp) (u.ct sp) with
              | none => (.dropped .decryptFail, s')
              | some body =>
                if ¬ c.reservedBeforeOpen ∧ resv ≠ 0 then (.connError, s')  -- fixed order: after authentication
                else (.accepted ty pn kp (u.aad sp) body, s')

/-- flip bit `i` (bit 0 = most significant bit of byte 0) -/
def flipBit (i : Nat) (bs : Bytes) : Bytes :=
  bs.modify (i / 8) (· ^^^ UInt8.ofNat (2 ^ (7 - i % 8)))

/-! ### The transparent keyed toy cipher the harness plugs into the real code (`harness/src/c06.rs`) -/

def m64 : Nat := 2 ^ 64

def fnv (start : Nat) (bs : Bytes) : Nat :=
  bs.foldl (fun h b => ((h ^^^ b.toNat) * 0x100000001b3) % m64) start

def ksByte (k pn i : Nat) : UInt8 :=
  UInt8.ofNat ((((k + pn * 31 + i * 7 + 1) % m64) * 0x9E3779B97F4A7C15 % m64) / 2 ^ 56)

def ksXor (k pn : Nat) : Nat → Bytes → Bytes
  | _, [] => []
  | i, b :: bs => (b ^^^ ksByte k pn i) :: ksXor k pn (i + 1) bs

def toyTag (k pn : Nat) (aad p : Bytes) : Bytes :=
  let msg := beBytes 8 k ++ beBytes 8 pn ++ beBytes 8 aad.length ++ aad ++ p
  beBytes 8 (fnv 0xcbf29ce484222325 msg) ++ beBytes 8 (fnv 0x84222325cbf29ce4 msg)

def toyAead : Aead Nat where
  tagLen := 16
  aseal k pn aad p := ksXor k pn 0 p ++ toyTag k pn aad p
  aopen k pn aad c :=
    if c.length < 16 then none
    else
      let p := ksXor k pn 0 (c.take (c.length - 16))
      if toyTag k pn aad p = c.drop (c.length - 16) then some p else none

def toyHp : Hp Nat where
  mask h sample := (beBytes 8 (fnv 0xcbf29ce484222325 (beBytes 8 h ++ sample))).take 5

end GmQuic.Protect
