import GmQuic.Model.Wake
import GmQuic.Model.RecvBuf
/-! C16: the crypto stream (qrecovery/src/crypto.rs): `CryptoStreamWriter::poll_flush` vs `CryptoStreamOutgoing::
{try_load_data_into, on_data_acked}`, and `CryptoStreamReader::poll_read` vs `CryptoStreamIncoming::recv_frame`.
Neither half has a close / error operation. -/
namespace GmQuic.Wake

/-! ## 13. crypto stream, sending half.  `poll_write` never blocks (it always buffers); `poll_flush` stores
`flush_waker` — which the pinned code (`fixed = false`) NEVER wakes: `on_data_acked` only looks at `writable_waker`
(never set).  repo_patches/fix-C16-crypto-flush-waker.diff (`fixed = true`) wakes it when everything is acknowledged.
Both polls `assert!` that a stored waker is the caller's (explicit `panic`). -/
namespace CrW

structure State where
  written : Nat
  sent : Nat
  acked : Nat
  unacked : List (Nat × Nat)
  fw : Option Wid
  deriving DecidableEq, Repr

inductive Op where
  | poll (t : Tid) (w : Wid) (n : Option Nat)   -- some n: poll_write of n bytes; none: poll_flush
  | load | ack
  | dropfut (t : Tid)
  deriving DecidableEq, Repr

def compat (slot : Option Wid) (w : Wid) : Bool :=
  match slot with | none => true | some o => o == w

def step (fixed : Bool) (s : State) : Op → State × Obs
  | .poll _ w (some n) =>
    if !compat s.fw w then (s, ⟨.panic, []⟩)
    else ({ s with written := s.written + n }, ⟨.ready n, []⟩)
  | .poll _ w none =>
    if !compat s.fw w then (s, ⟨.panic, []⟩)
    else if s.acked = s.written then (s, ⟨.ready 0, []⟩)
    else ({ s with fw := some w }, ⟨.pending, []⟩)
  | .load =>
    if s.sent < s.written then ({ s with sent := s.written, unacked := s.unacked ++ [(s.sent, s.written)] }, ⟨.none, []⟩)
    else (s, ⟨.none, []⟩)
  | .ack =>
    match s.unacked with
    | [] => (s, ⟨.none, []⟩)
    | (_, b) :: rest =>
      if fixed && b == s.written then ({ s with unacked := rest, acked := b, fw := none }, ⟨.none, takeWake s.fw⟩)
      else ({ s with unacked := rest, acked := b }, ⟨.none, []⟩)
  | .dropfut _ => (s, ⟨.none, []⟩)

def proto (fixed : Bool) : WaitProto where
  σ := State
  Op := Op
  init := ⟨0, 0, 0, [], none⟩
  step := step fixed
  pollBy := fun | .poll t w _ => some (t, w) | _ => none
  dropBy := fun | .dropfut t => some t | _ => none
  close := .dropfut 0      -- there is no close operation

end CrW

/-! ## 14. crypto stream, receiving half: one slot; a different waker while one is stored trips the `assert!`. -/
namespace CrR

structure State where
  buf : RecvBuf.State
  waker : Option Wid
  deriving Repr

inductive Op where
  | poll (t : Tid) (w : Wid) (cap : Nat)
  | recv (off len : Nat)
  | dropfut (t : Tid)
  deriving DecidableEq, Repr

def step (s : State) : Op → State × Obs
  | .poll _ w cap =>
    if !CrW.compat s.waker w then (s, ⟨.panic, []⟩)
    else if RecvBuf.isReadable s.buf then
      let r := RecvBuf.tryRead s.buf cap
      ({ s with buf := r.1 }, ⟨.ready r.2.length, []⟩)
    else ({ s with waker := some w }, ⟨.pending, []⟩)
  | .recv off len =>
    let b := (RecvBuf.recv s.buf off (List.replicate len 0)).1
    if RecvBuf.isReadable b then (⟨b, none⟩, ⟨.none, takeWake s.waker⟩) else (⟨b, s.waker⟩, ⟨.none, []⟩)
  | .dropfut _ => (s, ⟨.none, []⟩)

def proto : WaitProto where
  σ := State
  Op := Op
  init := ⟨{}, none⟩
  step := step
  pollBy := fun | .poll t w _ => some (t, w) | _ => none
  dropBy := fun | .dropfut t => some t | _ => none
  close := .dropfut 0      -- there is no close operation

end CrR
end GmQuic.Wake
