/-!
# C17 — the object graph poisoned by `Components::enter_closing / enter_draining`

`Components::enter_closing` calls, in this order and each under the object's own mutex,
`data_streams.on_conn_error`, `datagram_flow.on_conn_error`, `tls_handshake.on_conn_error`,
`parameters.on_conn_error`.  The model has one op per call (`errDs`, `errDg`, `errPr`; TLS needs a rustls session
and is outside this model) so that histories may put application operations *between* them.

Transliterated per object (qrecovery/src/streams/{raw,io,listener}.rs, send/{outgoing,writer,sender}.rs,
recv/{incoming,reader,recver}.rs, qdatagram/src/{reader,writer}.rs, qbase/src/{param.rs,sid/local_sid.rs}):

* `ds`  the three `Result<_,Error>` tables of `DataStreams` (output, input, listener) — always poisoned together
  (`DataStreams::on_conn_error` returns early if any is already `Err`);
* every `Sender` / `Recver` cell has its OWN `Result`: `Outgoing::on_conn_error` wakes writable/flush/shutdown
  and poisons only in `Ready | Sending | DataSent`; `Incoming::on_conn_error` wakes the reader and poisons only in
  `Recv | SizeKnown`; the terminal states keep answering with their own result;
* listener wakers (`bi_waker`, `uni_waker`), `LocalStreamIds.wakers[dir]` (the wait point of an `open` blocked on the
  stream limit), `Parameters.wakers` (wait point of `remote_ready`, and of `open_*` / `accept_bi` before the peer's
  parameters arrived; woken by `Drop` when the cell is overwritten), the datagram reader's `read_waker`.

`fixedSid = true` is the code with `repo_patches/fix-C17-wake-stream-id-waiters.diff` (DataStreams::on_conn_error
also wakes the parked stream-id allocators); `false` is the code as found.

Traffic that moves a stream from state to state is abstracted into `mkSnd st full` / `mkRcv st` (a stream that
has reached `st`; `full` = send window exhausted); the wake-up protocol under normal traffic is C16's subject.
-/
namespace GmQuic.Poison

inductive SSt where | ready | sending | dataSent | dataRcvd | resetSent | resetRcvd
  deriving DecidableEq, Repr, Inhabited
inductive RSt where | recv | sizeKnown | dataRcvd | dataRead | resetRcvd | resetRead
  deriving DecidableEq, Repr, Inhabited

def SSt.live : SSt → Bool | .ready | .sending | .dataSent => true | _ => false
def RSt.live : RSt → Bool | .recv | .sizeKnown => true | _ => false

structure Snd where
  st : SSt
  full : Bool
  poison : Option Nat := none
  wW : Bool := false
  wF : Bool := false
  wS : Bool := false
  deriving DecidableEq, Repr, Inhabited

structure Rcv where
  st : RSt
  poison : Option Nat := none
  wR : Bool := false
  deriving DecidableEq, Repr, Inhabited

/-- identity of a waiter (a counting waker of the harness) -/
inductive Lab where
  | w (i : Nat) | f (i : Nat) | s (i : Nat) | r (i : Nat) | ab | au | ob | ou | dg | pr
  deriving DecidableEq, Repr, Inhabited

inductive Res where
  | pending | ok | data | eof | es | err (e : Nat) | fail | skip | already | two (a b : Option Nat)
  deriving DecidableEq, Repr, Inhabited

def streamLimit : Nat := 6

structure G where
  fixedSid : Bool := true
  ready : Bool := true
  ds : Option Nat := none
  dg : Option Nat := none
  pr : Option Nat := none
  snds : List Snd := []
  rcvs : List Rcv := []
  qBi : Nat := 0
  qUni : Nat := 0
  wAb : Bool := false
  wAu : Bool := false
  openedBi : Nat := 0
  openedUni : Nat := 0
  sidOb : Bool := false
  sidOu : Bool := false
  pOb : Bool := false
  pOu : Bool := false
  pAb : Bool := false
  pPr : Bool := false
  dgQ : Nat := 0
  wDg : Bool := false
  /-- units of application data accepted (successful `write`, `send_bytes`) -/
  accepted : Nat := 0
  /-- units handed to the application (stream data, accepted / opened streams, datagrams) -/
  delivered : Nat := 0
  deriving DecidableEq, Repr, Inhabited

inductive Op where
  | mkSnd (st : SSt) (full : Bool) | mkRcv (st : RSt) | queue (bi : Bool) | exhaust | params
  | write (i : Nat) | flush (i : Nat) | shutdown (i : Nat) | read (i : Nat)
  | acceptBi | acceptUni | openBi | openUni | ready | dgRecv | dgSend | dgNew | dgIn
  | errDs (e : Nat) | errDg (e : Nat) | errPr (e : Nat)
  deriving DecidableEq, Repr, Inhabited

structure Out where
  res : Res
  woken : List Lab := []
  deriving DecidableEq, Repr, Inhabited

def setAt {α} (l : List α) (i : Nat) (x : α) : List α := l.set i x

def flag (b : Bool) (l : Lab) : List Lab := if b then [l] else []

/-- `Outgoing::on_conn_error` on stream `i` -/
def poisonSnd (e : Nat) (i : Nat) (s : Snd) : Snd × List Lab :=
  if s.poison.isNone ∧ s.st.live then
    ({ s with poison := some e, wW := false, wF := false, wS := false },
      flag s.wW (.w i) ++ flag s.wF (.f i) ++ flag s.wS (.s i))
  else (s, [])

/-- `Incoming::on_conn_error` on stream `i` -/
def poisonRcv (e : Nat) (i : Nat) (r : Rcv) : Rcv × List Lab :=
  if r.poison.isNone ∧ r.st.live then ({ r with poison := some e, wR := false }, flag r.wR (.r i))
  else (r, [])

def poisonSnds (e : Nat) : Nat → List Snd → List Snd × List Lab
  | _, [] => ([], [])
  | i, s :: rest =>
    let a := poisonSnd e i s
    let b := poisonSnds e (i + 1) rest
    (a.1 :: b.1, a.2 ++ b.2)

def poisonRcvs (e : Nat) : Nat → List Rcv → List Rcv × List Lab
  | _, [] => ([], [])
  | i, r :: rest =>
    let a := poisonRcv e i r
    let b := poisonRcvs e (i + 1) rest
    (a.1 :: b.1, a.2 ++ b.2)

/-- `DataStreams::on_conn_error` -/
def errDs (g : G) (e : Nat) : G × Out :=
  if g.ds.isSome then (g, { res := .ok }) else
  let s := poisonSnds e 0 g.snds
  let r := poisonRcvs e 0 g.rcvs
  let sid := if g.fixedSid then flag g.sidOb .ob ++ flag g.sidOu .ou else []
  ({ g with ds := some e, snds := s.1, rcvs := r.1, wAb := false, wAu := false,
            sidOb := if g.fixedSid then false else g.sidOb, sidOu := if g.fixedSid then false else g.sidOu },
   { res := .ok, woken := s.2 ++ r.2 ++ flag g.wAb .ab ++ flag g.wAu .au ++ sid })

def sndOp (g : G) (i : Nat) (k : Nat) : G × Out :=
  match g.snds[i]? with
  | none => (g, { res := .fail })
  | some s =>
    match s.poison with
    | some e => (g, { res := .err e })
    | none =>
      match k, s.st with
      -- poll_write
      | 0, .ready | 0, .sending =>
        if s.wS then (g, { res := .es })
        else if s.full then ({ g with snds := setAt g.snds i { s with wW := true } }, { res := .pending })
        else ({ g with accepted := g.accepted + 1 }, { res := .ok })
      | 0, _ => (g, { res := .es })
      -- poll_flush (the streams made by `mkSnd` always hold unacknowledged data)
      | 1, .ready | 1, .sending | 1, .dataSent =>
        ({ g with snds := setAt g.snds i { s with wF := true } }, { res := .pending })
      | 1, .dataRcvd => (g, { res := .ok })
      | 1, _ => (g, { res := .es })
      -- poll_shutdown
      | _, .ready | _, .sending | _, .dataSent =>
        ({ g with snds := setAt g.snds i { s with wS := true } }, { res := .pending })
      | _, .dataRcvd => (g, { res := .ok })
      | _, _ => (g, { res := .es })

def readOp (g : G) (i : Nat) : G × Out :=
  match g.rcvs[i]? with
  | none => (g, { res := .fail })
  | some r =>
    match r.poison with
    | some e => (g, { res := .err e })
    | none =>
      match r.st with
      | .recv | .sizeKnown => ({ g with rcvs := setAt g.rcvs i { r with wR := true } }, { res := .pending })
      | .dataRcvd => ({ g with rcvs := setAt g.rcvs i { r with st := .dataRead }, delivered := g.delivered + 1 }, { res := .data })
      | .dataRead => (g, { res := .eof })
      | .resetRcvd => ({ g with rcvs := setAt g.rcvs i { r with st := .resetRead } }, { res := .es })
      | .resetRead => (g, { res := .es })

def step (g : G) : Op → G × Out
  | .mkSnd st full =>
    if g.ds.isSome ∨ ¬ g.ready ∨ g.pr.isSome ∨ streamLimit ≤ g.openedUni then (g, { res := .fail })
    else
      let i := g.snds.length
      -- `mk` for DataSent parks the shutdown waiter; for DataRcvd it parked it and the acknowledgements woke it
      ({ g with snds := g.snds ++ [{ st := st, full := full, wS := st = .dataSent }], openedUni := g.openedUni + 1 },
       { res := .ok, woken := if st = .dataRcvd then [.s i] else [] })
  | .mkRcv st =>
    if g.ds.isSome then (g, { res := .fail })
    else if 0 < g.qUni then (g, { res := .skip })
    else ({ g with rcvs := g.rcvs ++ [{ st := st }], wAu := false, delivered := g.delivered + 1 },
          { res := .ok, woken := flag g.wAu .au })
  | .queue bi =>
    if g.ds.isSome then (g, { res := .ok })
    else if bi then ({ g with qBi := g.qBi + 1, wAb := false }, { res := .ok, woken := flag g.wAb .ab })
    else ({ g with qUni := g.qUni + 1, wAu := false }, { res := .ok, woken := flag g.wAu .au })
  | .exhaust =>
    if g.ds.isNone ∧ g.ready ∧ g.pr.isNone then ({ g with openedBi := streamLimit, openedUni := streamLimit }, { res := .ok })
    else (g, { res := .ok })
  | .params =>
    if g.ready then (g, { res := .already })
    else match g.pr with
      | some e => (g, { res := .err e })
      | none =>
        ({ g with ready := true, pOb := false, pOu := false, pAb := false, pPr := false },
         { res := .ok, woken := flag g.pAb .ab ++ flag g.pOb .ob ++ flag g.pOu .ou ++ flag g.pPr .pr })
  | .write i => sndOp g i 0
  | .flush i => sndOp g i 1
  | .shutdown i => sndOp g i 2
  | .read i => readOp g i
  | .acceptBi =>
    match g.ds with
    | some e => (g, { res := .err e })
    | none =>
      match g.pr with
      | some e => (g, { res := .err e })
      | none =>
        if ¬ g.ready then ({ g with pAb := true }, { res := .pending })
        else if 0 < g.qBi then ({ g with qBi := g.qBi - 1, delivered := g.delivered + 1 }, { res := .ok })
        else ({ g with wAb := true }, { res := .pending })
  | .acceptUni =>
    match g.ds with
    | some e => (g, { res := .err e })
    | none =>
      if 0 < g.qUni then ({ g with qUni := g.qUni - 1, delivered := g.delivered + 1 }, { res := .ok })
      else ({ g with wAu := true }, { res := .pending })
  | .openBi =>
    match g.ds with
    | some e => (g, { res := .err e })
    | none =>
      match g.pr with
      | some e => (g, { res := .err e })
      | none =>
        if ¬ g.ready then ({ g with pOb := true }, { res := .pending })
        else if streamLimit ≤ g.openedBi then ({ g with sidOb := true }, { res := .pending })
        else ({ g with openedBi := g.openedBi + 1, delivered := g.delivered + 1 }, { res := .ok })
  | .openUni =>
    match g.ds with
    | some e => (g, { res := .err e })
    | none =>
      match g.pr with
      | some e => (g, { res := .err e })
      | none =>
        if ¬ g.ready then ({ g with pOu := true }, { res := .pending })
        else if streamLimit ≤ g.openedUni then ({ g with sidOu := true }, { res := .pending })
        else ({ g with openedUni := g.openedUni + 1, delivered := g.delivered + 1 }, { res := .ok })
  | .ready =>
    match g.pr with
    | some e => (g, { res := .err e })
    | none => if g.ready then (g, { res := .ok }) else ({ g with pPr := true }, { res := .pending })
  | .dgRecv =>
    match g.dg with
    | some e => (g, { res := .err e })
    | none =>
      if 0 < g.dgQ then ({ g with dgQ := g.dgQ - 1, delivered := g.delivered + 1 }, { res := .data })
      else ({ g with wDg := true }, { res := .pending })
  | .dgSend =>
    match g.dg with
    | some e => (g, { res := .err e })
    | none => ({ g with accepted := g.accepted + 1 }, { res := .ok })
  | .dgNew => (g, { res := .two g.dg g.dg })
  | .dgIn =>
    match g.dg with
    | some e => (g, { res := .err e })
    | none => ({ g with dgQ := g.dgQ + 1, wDg := false }, { res := .ok, woken := flag g.wDg .dg })
  | .errDs e => errDs g e
  | .errDg e =>
    if g.dg.isSome then (g, { res := .ok })
    else ({ g with dg := some e, wDg := false, dgQ := 0 }, { res := .ok, woken := flag g.wDg .dg })
  | .errPr e =>
    if g.pr.isSome then (g, { res := .ok })
    else ({ g with pr := some e, pOb := false, pOu := false, pAb := false, pPr := false },
          { res := .ok, woken := flag g.pAb .ab ++ flag g.pOb .ob ++ flag g.pOu .ou ++ flag g.pPr .pr })

def run (g : G) (ops : List Op) : G := ops.foldl (fun g o => (step g o).1) g

end GmQuic.Poison
