/-!
`qbase::frame::FrameType` and the packet types `belongs_to` distinguishes.  The numbers, the
`belongs_to` table and `specs` are NOT here: they are generated from `qbase/src/frame.rs` into
`Gen/FrameTable.lean` on every run (xlate/gen_frametable.py).  Flag payloads are `Bool`s:
`ack ecn` (Ecn::Exist), `stream off len fin` (Offset::NonZero, Len::Explicit, Fin::Yes),
`maxStreams uni` / `streamsBlocked uni` (Dir::Uni), `connectionClose app` (Layer::App),
`datagram withLen` (the Rust payload is `u8`, only ever `ty & 1` / `encode_len as u8`),
`addAddress v6` / `punchMeNow v6` (Family::V6).
-/
namespace GmQuic.Codec

inductive FrameType
  | padding | ping | ack (ecn : Bool) | resetStream | stopSending | crypto | newToken
  | stream (off len fin : Bool) | maxData | maxStreamData | maxStreams (uni : Bool)
  | dataBlocked | streamDataBlocked | streamsBlocked (uni : Bool) | newConnectionId
  | retireConnectionId | pathChallenge | pathResponse | connectionClose (app : Bool)
  | handshakeDone | datagram (withLen : Bool)
  | addAddress (v6 : Bool) | removeAddress | punchMeNow (v6 : Bool) | punchHello | punchDone
  deriving DecidableEq, Repr, Inhabited

/-- `packet::r#type::Type` as far as `belongs_to` looks at it. -/
inductive PktType | initial | handshake | zeroRtt | oneRtt | retry | versionNegotiation
  deriving DecidableEq, Repr, Inhabited

def PktType.isI : PktType → Bool | .initial => true | _ => false
def PktType.isH : PktType → Bool | .handshake => true | _ => false
def PktType.isO : PktType → Bool | .zeroRtt => true | _ => false
def PktType.isL : PktType → Bool | .oneRtt => true | _ => false

/-- `ErrorKind` (qbase/src/error.rs): `named i` = the i-th fieldless variant in declaration order of
the generated table, `crypto x` = `ErrorKind::Crypto(x)`. -/
inductive EKind | named (idx : Nat) | crypto (x : Nat)
  deriving DecidableEq, Repr, Inhabited

end GmQuic.Codec
