import GmQuic.Model.Wake
/-! C16, further mutex-based instances: `Parameters::{poll_ready, recv_remote_params}` behind `ArcParameters`,
`KeysState` / `OneRttKeysState` futures, `DatagramReader`. -/
namespace GmQuic.Wake

/-! ## 6. `ArcParameters::remote_ready` → `Parameters::poll_ready` (qbase/src/param.rs): `Vec<Waker>` (any number
of waiters), drained by `wake_all` when the peer's parameters are received AND authenticated against the
peer's initial source connection id.  `ArcParameters::on_conn_error` replaces the whole `Parameters` by `Err`;
the waiters are woken through `impl Drop for Parameters { fn drop(&mut self) { self.wake_all() } }`. -/
namespace Params

structure State where
  rcvd : Bool          -- peer parameters stored
  scid : Bool          -- initial_scid_from_peer_need_equal called
  ready : Bool         -- state == CLIENT_READY | SERVER_READY
  wakers : List Wid
  closed : Bool
  deriving DecidableEq, Repr

inductive Op where
  | poll (t : Tid) (w : Wid)     -- remote_ready() future polled
  | recvParams                   -- lock_guard()?.recv_remote_params(matching parameters)
  | scid                         -- lock_guard()?.initial_scid_from_peer_need_equal(matching cid)
  | connError
  | dropfut (t : Tid)
  deriving DecidableEq, Repr

def step (s : State) : Op → State × Obs
  | .poll _ w =>
    if s.closed then (s, ⟨.err, []⟩)
    else if s.ready then (s, ⟨.ready 0, []⟩)
    else ({ s with wakers := s.wakers ++ [w] }, ⟨.pending, []⟩)
  | .recvParams =>
    if s.closed then (s, ⟨.err, []⟩)
    else if s.rcvd then (s, ⟨.panic, []⟩)          -- assert!(self.server.is_empty())
    else if s.scid then ({ s with rcvd := true, ready := true, wakers := [] }, ⟨.none, s.wakers⟩)
    else ({ s with rcvd := true }, ⟨.none, []⟩)
  | .scid =>
    if s.closed then (s, ⟨.err, []⟩)
    else if s.scid then (s, ⟨.panic, []⟩)          -- assert!(initial_scid.replace(cid).is_none())
    else if s.rcvd then ({ s with scid := true, ready := true, wakers := [] }, ⟨.none, s.wakers⟩)
    else ({ s with scid := true }, ⟨.none, []⟩)
  | .connError =>
    if s.closed then (s, ⟨.none, []⟩)
    else ({ s with closed := true, wakers := [] }, ⟨.none, s.wakers⟩)   -- Drop for Parameters
  | .dropfut _ => (s, ⟨.none, []⟩)

def proto : WaitProto where
  σ := State
  Op := Op
  init := ⟨false, false, false, [], false⟩
  step := step
  pollBy := fun | .poll t w => some (t, w) | _ => none
  dropBy := fun | .dropfut t => some t | _ => none
  close := .connError

end Params

/-! ## 7. `KeysState<K>` (`ArcKeys::get_remote_keys`, `ArcZeroRttKeys::get_decrypt_keys`) and `OneRttKeysState`
(`ArcOneRttKeys::get_remote_keys`) — qbase/src/packet/keys.rs; the two state machines are the same.
One waker slot; a poll with a different waker while one is stored hits `unreachable!` (explicit `panic`);
`set` on a non-pending state hits `unreachable!` as well. -/
namespace Keys

inductive State where
  | pending (w : Option Wid) | ready | invalid
  deriving DecidableEq, Repr

inductive Op where
  | poll (t : Tid) (w : Wid)
  | set            -- set_keys
  | invalid        -- invalid()
  | dropfut (t : Tid)
  deriving DecidableEq, Repr

def step (oneRtt : Bool) (s : State) : Op → State × Obs
  | .poll _ w =>
    match s with
    | .pending (some old) => if old != w then (s, ⟨.panic, []⟩) else (.pending (some w), ⟨.pending, []⟩)
    | .pending none => (.pending (some w), ⟨.pending, []⟩)
    | .ready => (s, ⟨.ready 0, []⟩)
    | .invalid => (s, ⟨.done, []⟩)
  | .set =>
    match s with
    | .pending w => (.ready, ⟨.none, takeWake w⟩)
    | _ => (s, ⟨.panic, []⟩)
  | .invalid =>
    match s with
    | .pending w => (.invalid, ⟨.none, takeWake w⟩)
    | .ready => (.invalid, ⟨.none, []⟩)
    -- `KeysState::invalid`: `Invalid => None`; `ArcOneRttKeys::invalid`: `Invalid => unreachable!()`
    | .invalid => if oneRtt then (s, ⟨.panic, []⟩) else (.invalid, ⟨.none, []⟩)
  | .dropfut _ => (s, ⟨.none, []⟩)

def proto (oneRtt : Bool) : WaitProto where
  σ := State
  Op := Op
  init := .pending none
  step := step oneRtt
  pollBy := fun | .poll t w => some (t, w) | _ => none
  dropBy := fun | .dropfut t => some t | _ => none
  close := .invalid

end Keys

/-! ## 8. `DatagramReader::poll_recv` / `DatagramIncoming::{recv_datagram, on_conn_error}` (qdatagram/src/reader.rs):
one waker slot overwritten by every Pending poll. -/
namespace Dgram

structure State where
  queue : List Nat
  waker : Option Wid
  closed : Bool
  deriving DecidableEq, Repr

inductive Op where
  | poll (t : Tid) (w : Wid)
  | recv (v : Nat)
  | connError
  | dropfut (t : Tid)
  deriving DecidableEq, Repr

def step (s : State) : Op → State × Obs
  | .poll _ w =>
    if s.closed then (s, ⟨.err, []⟩)
    else match s.queue with
      | v :: rest => ({ s with queue := rest }, ⟨.ready v, []⟩)
      | [] => ({ s with waker := some w }, ⟨.pending, []⟩)
  | .recv v =>
    if s.closed then (s, ⟨.err, []⟩)
    else ({ s with queue := s.queue ++ [v], waker := none }, ⟨.none, takeWake s.waker⟩)
  | .connError =>
    if s.closed then (s, ⟨.none, []⟩)
    else ({ s with closed := true, waker := none }, ⟨.none, takeWake s.waker⟩)
  | .dropfut _ => (s, ⟨.none, []⟩)

def proto : WaitProto where
  σ := State
  Op := Op
  init := ⟨[], none, false⟩
  step := step
  pollBy := fun | .poll t w => some (t, w) | _ => none
  dropBy := fun | .dropfut t => some t | _ => none
  close := .connError

end Dgram
end GmQuic.Wake
