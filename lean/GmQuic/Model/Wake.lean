/-!
C16 — generic waiter/notifier protocol (`WaitProto`) and the bookkeeping of who is asleep.

A protocol instance is a transliteration of one hand-written waker protocol of gm-quic at the granularity of
its lock-protected methods (`std::sync::Mutex`: one method = one atomic step; DESIGN §5).  Every step returns
the poll result (`Res`) and the list of `Waker::wake()` calls it made, identified by waker (`Wid`).

Tasks and wakers are distinct notions: a task (`Tid`) polls with some waker (`Wid`); it may poll again with a
*different* waker (then only the new one counts), drop its future, and several tasks may poll the same object.

`Run` adds — independently of any instance — the set of *sleepers*: tasks whose last poll returned `Pending`
and none of whose wakers was woken since (`asleep ∧ ¬ wakePending` of DESIGN Appendix A).
A *lost wake-up* is a sleeper whose own poll, repeated now, would not return `Pending` (`P.cond`).
No imports (linked into the native driver).
-/
namespace GmQuic.Wake

abbrev Wid := Nat
abbrev Tid := Nat

/-- Result of one operation on the real object. `none`: not a poll. `done`: `Ready(None)` / closed. -/
inductive Res where
  | none | pending | ready (v : Nat) | done | err | panic
  deriving DecidableEq, Repr, Inhabited

structure Obs where
  res : Res
  wakes : List Wid
  deriving DecidableEq, Repr, Inhabited

structure WaitProto where
  σ : Type
  Op : Type
  init : σ
  step : σ → Op → σ × Obs
  /-- `some (t, w)`: the op is a poll of the waiting future by task `t` with waker `w`. -/
  pollBy : Op → Option (Tid × Wid)
  /-- `some t`: the op drops task `t`'s future (it stops waiting). -/
  dropBy : Op → Option Tid
  /-- the close / fail / reset operation of the object. -/
  close : Op

structure Sleeper (Op : Type) where
  t : Tid
  w : Wid
  op : Op

variable (P : WaitProto)

/-- Sleepers after an op with observation `o`: the polling / dropping task's old entry is superseded, a
`Pending` poll adds an entry, every woken waker's entries are removed (a wake during one's own poll counts). -/
def nextSlp (l : List (Sleeper P.Op)) (op : P.Op) (o : Obs) : List (Sleeper P.Op) :=
  let l1 : List (Sleeper P.Op) := match P.pollBy op with
    | some (t, w) =>
      let l' : List (Sleeper P.Op) := l.filter (fun s => s.t != t)
      if o.res = Res.pending then (Sleeper.mk t w op) :: l' else l'
    | none =>
      match P.dropBy op with
      | some t => l.filter (fun s => s.t != t)
      | none => l
  l1.filter (fun s => !o.wakes.contains s.w)

structure Run where
  st : P.σ
  slp : List (Sleeper P.Op)

def Run.init : Run P := ⟨P.init, []⟩

def Run.step (r : Run P) (op : P.Op) : Run P :=
  let so := P.step r.st op
  ⟨so.1, nextSlp P r.slp op so.2⟩

def run (sched : List P.Op) : Run P := sched.foldl (Run.step P) (Run.init P)

/-- the awaited condition of a sleeper holds: its poll, repeated now, would not be `Pending`. -/
def cond (s : P.σ) (x : Sleeper P.Op) : Prop := (P.step s x.op).2.res ≠ .pending

/-- Proof obligations of an instance for the schedules whose ops satisfy `ok`. -/
structure Sound (ok : P.Op → Prop) where
  Inv : P.σ → List (Sleeper P.Op) → Prop
  init : Inv P.init []
  pres : ∀ s l op, ok op → Inv s l → Inv (P.step s op).1 (nextSlp P l op (P.step s op).2)
  safe : ∀ s l x, Inv s l → x ∈ l → (P.step s x.op).2.res = .pending

/-- additionally: the close operation wakes every sleeper. -/
structure CloseSound (ok : P.Op → Prop) extends Sound P ok where
  closeWakes : ∀ s l x, Inv s l → x ∈ l → x.w ∈ (P.step s P.close).2.wakes

/-! ## helpers shared by the instances -/

/-- `if let Some(w) = slot.take() { w.wake() }` -/
def takeWake (slot : Option Wid) : List Wid :=
  match slot with
  | some w => [w]
  | none => []

/-! ## 1. `AsyncDeque` (qbase/src/util/async_deque.rs) — one waker slot; a second, different waker while one is
stored panics ("Multiple tasks are attempting to wait on the same AsyncDeque"). -/
namespace Deque

structure State where
  queue : Option (List Nat)
  waker : Option Wid
  deriving DecidableEq, Repr

inductive Op where
  | poll (t : Tid) (w : Wid)      -- poll_pop / poll_next
  | pushBack (v : Nat)
  | pushFront (v : Nat)
  | extend (vs : List Nat)
  | close
  | dropfut (t : Tid)
  deriving DecidableEq, Repr

def step (s : State) : Op → State × Obs
  | .poll _ w =>
    match s.queue with
    | some q =>
      match q with
      | v :: rest => ({ s with queue := some rest }, ⟨.ready v, []⟩)
      | [] =>
        match s.waker with
        | some old =>
          if old != w then (s, ⟨.panic, []⟩)
          else ({ s with waker := some w }, ⟨.pending, []⟩)
        | none => ({ s with waker := some w }, ⟨.pending, []⟩)
    | none => (s, ⟨.done, []⟩)
  | .pushBack v =>
    match s.queue with
    | some q => (⟨some (q ++ [v]), none⟩, ⟨.none, takeWake s.waker⟩)
    | none => (s, ⟨.none, []⟩)
  | .pushFront v =>
    match s.queue with
    | some q => (⟨some (v :: q), none⟩, ⟨.none, takeWake s.waker⟩)
    | none => (s, ⟨.none, []⟩)
  | .extend vs =>
    match s.queue with
    | some q => (⟨some (q ++ vs), none⟩, ⟨.none, takeWake s.waker⟩)
    | none => (s, ⟨.none, []⟩)
  | .close => (⟨none, none⟩, ⟨.none, takeWake s.waker⟩)
  | .dropfut _ => (s, ⟨.none, []⟩)

def proto : WaitProto where
  σ := State
  Op := Op
  init := ⟨some [], none⟩
  step := step
  pollBy := fun | .poll t w => some (t, w) | _ => none
  dropBy := fun | .dropfut t => some t | _ => none
  close := .close

end Deque

/-! ## 2. `Receiving` / `ArcReceiving` (qbase/src/lib.rs, poll in qbase/src/frame/io.rs).
`fixed = false`: the pinned code — `poll` ignores `cx`: `Pending => Poll::Pending` (no waker stored),
`Waiting(waker)` keeps the OLD waker.  `fixed = true`: repo_patches/fix-C16-receiving-waker.diff — both
branches store `cx.waker().clone()`. -/
namespace Receiving

inductive State where
  | pending | waiting (w : Wid) | rcvd (v : Nat) | read | reset
  deriving DecidableEq, Repr

inductive Op where
  | poll (t : Tid) (w : Wid)
  | recv (v : Nat)       -- recv_frame
  | reset
  | dropfut (t : Tid)
  deriving DecidableEq, Repr

def step (fixed : Bool) (s : State) : Op → State × Obs
  | .poll _ w =>
    match s with
    | .pending => (if fixed then .waiting w else .pending, ⟨.pending, []⟩)
    | .waiting old => (if fixed then .waiting w else .waiting old, ⟨.pending, []⟩)
    | .rcvd v => (.read, ⟨.ready v, []⟩)
    | .read => (.read, ⟨.done, []⟩)
    | .reset => (.reset, ⟨.err, []⟩)
  | .recv v =>
    match s with
    | .pending => (.rcvd v, ⟨.none, []⟩)
    | .waiting w => (.rcvd v, ⟨.none, [w]⟩)
    -- `_ => ()` after `std::mem::take(self)`: the state is left at the default, `Pending`
    | _ => (.pending, ⟨.none, []⟩)
  | .reset =>
    match s with
    | .waiting w => (.reset, ⟨.none, [w]⟩)
    | _ => (.reset, ⟨.none, []⟩)
  | .dropfut _ => (s, ⟨.none, []⟩)

def proto (fixed : Bool) : WaitProto where
  σ := State
  Op := Op
  init := .pending
  step := step fixed
  pollBy := fun | .poll t w => some (t, w) | _ => none
  dropBy := fun | .dropfut t => some t | _ => none
  close := .reset

end Receiving

/-! ## 3. `SendWaker` (qbase/src/net/tx.rs): 16-bit state word (`bit = 1`: condition satisfied since the last
wait), one waker slot replaced unless `will_wake`. -/
namespace SendWaker

structure State where
  waker : Option Wid
  bits : BitVec 16
  deriving DecidableEq, Repr

inductive Op where
  | poll (t : Tid) (w : Wid) (sig : BitVec 16)   -- poll_wait_for(cx, signals)
  | wakeBy (sig : BitVec 16)
  | dropfut (t : Tid)
  deriving DecidableEq, Repr

def step (s : State) : Op → State × Obs
  | .poll _ w sig =>
    if s.bits &&& sig = 0 then
      -- `Some(old) if old.will_wake(cx.waker()) => {}`, `_ => self.waker = Some(cx.waker().clone())`
      (⟨some w, ~~~sig⟩, ⟨.pending, []⟩)
    else
      (⟨s.waker, 0⟩, ⟨.ready 0, []⟩)
  | .wakeBy sig =>
    (⟨s.waker, s.bits ||| sig⟩,
     ⟨.none, if s.bits ||| sig ≠ s.bits then (match s.waker with | some w => [w] | none => []) else []⟩)
  | .dropfut _ => (s, ⟨.none, []⟩)

/-- `SendWaker` has no close operation of its own; a wake with every signal plays that role. -/
def proto : WaitProto where
  σ := State
  Op := Op
  init := ⟨none, 0⟩
  step := step
  pollBy := fun | .poll t w _ => some (t, w) | _ => none
  dropBy := fun | .dropfut t => some t | _ => none
  close := .wakeBy (~~~0)

end SendWaker

/-! ## 4. opening a stream: `DataStreams::poll_open_{bi,uni}_stream` → `LocalStreamIds::poll_alloc_sid`
(qrecovery/src/streams/raw.rs, qbase/src/sid/local_sid.rs): a `VecDeque<Waker>` per direction (any number of
waiters; every Pending poll pushes one more clone), drained by `increase_limit`.  After `on_conn_error` the
`output.guard()?` at the top of `poll_open_*` answers `Err`.  The pinned code (`fixed = false`) does not touch
the stream-id wakers in `on_conn_error`; repo_patches/fix-C16-sid-wake-on-error.diff (`fixed = true`) drains
and wakes them there. -/
namespace LocalSid

structure State where
  max : Nat × Nat
  unalloc : Nat × Nat
  wakers : List Wid × List Wid
  closed : Bool
  deriving DecidableEq, Repr

inductive Op where
  | poll (t : Tid) (w : Wid) (dir : Bool)        -- poll_open_{bi,uni}_stream(cx); dir = true: Uni
  | maxStreams (dir : Bool) (v : Nat)            -- MAX_STREAMS frame → increase_limit
  | connError                                    -- DataStreams::on_conn_error
  | dropfut (t : Tid)
  deriving DecidableEq, Repr

def sel {α : Type} (p : α × α) (dir : Bool) : α := if dir then p.2 else p.1
def upd {α : Type} (p : α × α) (dir : Bool) (v : α) : α × α := if dir then (p.1, v) else (v, p.2)

/-- `MAX_STREAMS_LIMIT` = 2^60 -/
def limit : Nat := 2 ^ 60

def step (fixed : Bool) (s : State) : Op → State × Obs
  | .poll _ w dir =>
    let u := sel s.unalloc dir
    if s.closed then (s, ⟨.err, []⟩)    -- `self.output.guard()?`
    else if u > limit then (s, ⟨.done, []⟩)
    else if u < sel s.max dir then ({ s with unalloc := upd s.unalloc dir (u + 1) }, ⟨.ready u, []⟩)
    else ({ s with wakers := upd s.wakers dir (sel s.wakers dir ++ [w]) }, ⟨.pending, []⟩)
  | .maxStreams dir v =>
    if sel s.max dir < v then
      ({ s with max := upd s.max dir v, wakers := upd s.wakers dir [] }, ⟨.none, sel s.wakers dir⟩)
    else (s, ⟨.none, []⟩)
  | .connError =>
    if s.closed then (s, ⟨.none, []⟩)   -- `Err(_) => return`
    else if fixed then ({ s with wakers := ([], []), closed := true }, ⟨.none, s.wakers.1 ++ s.wakers.2⟩)
    else ({ s with closed := true }, ⟨.none, []⟩)
  | .dropfut _ => (s, ⟨.none, []⟩)

def proto (fixed : Bool) : WaitProto where
  σ := State
  Op := Op
  init := ⟨(0, 0), (0, 0), ([], []), false⟩
  step := step fixed
  pollBy := fun | .poll t w _ => some (t, w) | _ => none
  dropBy := fun | .dropfut t => some t | _ => none
  close := .connError

end LocalSid

end GmQuic.Wake
