/-!
# C20 — a model of serde's derived `Serialize` / `Deserialize` for the JSON data format

`Schema` describes what `#[derive(Serialize, Deserialize)]` + the serde attributes used in `qevent/src/**`
generate for a Rust type (the translator `xlate/gen_qevent.py` produces one `Schema` per derived type);
`ser` / `de` are the generic serialiser / deserialiser, `wf` the decidable well-formedness check and
`hasType` says that a generic value `Val` is a value of the type described by a schema.

What a schema constructor stands for (Rust side → JSON side):
* `bool`, `int lo hi` (uN / iN: exact integer, range-checked when parsed), `flt` (f32/f64: opaque token; an integer
  token is accepted as a float as serde does), `str`, `hex pfx len` (`serde_with::hex::Hex`: the fixed prefix `pfx` (empty for Hex) followed by a lower-case hex
  string, `len` = fixed byte length of `[u8; n]`; `hex "crypto_error_0x1" (some 1)` is the hand-written CryptoError), `any` (`serde_json::Value`);
* `opt s` (`Option<T>` in value position: `null` / the value), `seq s len` (`Vec<T>`, `[T; n]`), `map`
  (`HashMap<String, Value>`);
* `struct fs rest`: named fields in declaration order; `rest = true` when the LAST field is a
  `#[serde(flatten)] HashMap<String, Value>` collecting every key no other field claims;
  field kinds: `req` (always written, required when read), `opt` (`Option<T>` under `skip_serializing_none`: omitted
  when `None`; missing or `null` reads as `None`), `optNull` (`Option<T>` written as `null`), `skipEmpty d`
  (`skip_serializing_if = "Vec::is_empty" / "HashMap::is_empty"`; `d` = a `default` is declared so that a missing key
  reads as empty — without it serde answers `missing field`), `flat` (`#[serde(flatten)]` of a struct or of an
  adjacently tagged enum: its keys are spliced into the parent object and it is read from the parent object);
* `unitEnum names` (enum of unit variants → the variant's serialized name as a string);
* `untagged alts` (`#[serde(untagged)]`, also used for "unit variants + one `#[serde(untagged)]` catch-all variant":
  the alternatives are tried in order when reading);
* `adjacent tag content alts` (`#[serde(tag = t, content = c)]`, newtype variants);
* `internal tag alts` (`#[serde(tag = t)]`, struct variants: every alternative is a closed `struct`);
* `refine s p` (`#[serde(try_from = "Unchecked…")]`: read as `s`, then a validation `p` of the parsed text's fields may
  reject; written as `s`).
Transparent / newtype structs are the schema of their inner type.  Names are the *serialized* names (the translator
applies `rename_all` / `rename`).
-/
namespace GmQuic.Model.Json

inductive Json where
  | null
  | bool (b : Bool)
  | int (n : Int)
  | flt (tok : String)
  | str (s : String)
  | arr (xs : List Json)
  | obj (kvs : List (String × Json))

inductive FKind where
  | req | opt | optNull | skipEmpty (dflt : Bool) | flat
  deriving DecidableEq, Repr

mutual
inductive Schema where
  | bool | int (lo hi : Int) | flt | str | hex (pfx : String) (len : Option Nat) | any
  | opt (s : Schema)
  | seq (s : Schema) (len : Option Nat)
  | map
  | struct (fs : Fields) (rest : Bool)
  | unitEnum (names : List String)
  | untagged (alts : Fields)
  | adjacent (tag content : String) (alts : Fields)
  | internal (tag : String) (alts : Fields)
  | refine (s : Schema) (p : Json → Bool)
inductive Fields where
  | nil
  | cons (name : String) (kind : FKind) (s : Schema) (tl : Fields)
end

/-- Generic values.  `rcd vs rest`: field values in declaration order + the flattened rest map;
`var i v`: variant `i` with payload `v` (`none` for a unit variant). -/
inductive Val where
  | bool (b : Bool) | int (n : Int) | flt (tok : String) | str (s : String)
  | json (j : Json)
  | none | some (v : Val)
  | list (vs : List Val)
  | map (kvs : List (String × Json))
  | rcd (vs : List Val) (rest : List (String × Json))
  | var (i : Nat) (v : Val)

abbrev Kvs := List (String × Json)

def lookup (k : String) : Kvs → Option Json
  | [] => none
  | (k', j) :: tl => if k' = k then some j else lookup k tl

def keys (o : Kvs) : List String := o.map (·.1)

def objKvs : Json → Kvs
  | .obj kvs => kvs
  | _ => []

/-- JSON kinds: 0 null, 1 bool, 2 integer, 3 float, 4 string, 5 array, 6 object. -/
def kindOf : Json → Nat
  | .null => 0 | .bool _ => 1 | .int _ => 2 | .flt _ => 3 | .str _ => 4 | .arr _ => 5 | .obj _ => 6

def isHexChar (c : Char) : Bool := (c.isDigit) || (c.toNat ≥ 97 && c.toNat ≤ 102)

def isHex (pfx : String) (s : String) (len : Option Nat) : Bool :=
  let ps := pfx.toList
  let cs := s.toList.drop ps.length
  s.toList.take ps.length == ps &&
  cs.all isHexChar && cs.length % 2 == 0 && (match len with | none => true | some n => cs.length == 2 * n)

def lenOk (len : Option Nat) (n : Nat) : Bool :=
  match len with | none => true | some k => n == k

def isEmptyVal : Val → Bool
  | .list [] => true
  | .map [] => true
  | _ => false

def intTok (n : Int) : String := toString n ++ ".0"

def nthName : List String → Nat → String
  | [], _ => ""
  | a :: _, 0 => a
  | _ :: tl, i + 1 => nthName tl i

def nameIdx (n : String) : List String → Nat → Option Nat
  | [], _ => none
  | x :: tl, k => if x = n then some k else nameIdx n tl (k + 1)

mutual
/-- keys a flattenable schema may write into its parent object -/
def namesOf : Schema → List String
  | .struct fs _ => allNames fs
  | .adjacent t c _ => [t, c]
  | _ => []
def allNames : Fields → List String
  | .nil => []
  | .cons name kind s tl => (match kind with | .flat => namesOf s | _ => [name]) ++ allNames tl
end

def altNames : Fields → List String
  | .nil => []
  | .cons name _ _ tl => name :: altNames tl

def altName : Fields → Nat → String
  | .nil, _ => ""
  | .cons name _ _ _, 0 => name
  | .cons _ _ _ tl, i + 1 => altName tl i

/- which JSON kinds a value of the schema can serialise to (over-approximation); `de` rejects every other kind -/
mutual
def shape : Schema → List Nat
  | .bool => [1] | .int _ _ => [2] | .flt => [2, 3] | .str => [4] | .hex _ _ => [4]
  | .any => [0, 1, 2, 3, 4, 5, 6]
  | .opt s => 0 :: shape s
  | .seq _ _ => [5]
  | .map => [6] | .struct _ _ => [6] | .adjacent _ _ _ => [6] | .internal _ _ => [6]
  | .unitEnum _ => [4]
  | .untagged alts => shapeAlts alts
  | .refine s _ => shape s
def shapeAlts : Fields → List Nat
  | .nil => []
  | .cons _ _ s tl => shape s ++ shapeAlts tl
end

def flattenable : Schema → Bool
  | .struct _ false => true
  | .adjacent _ _ _ => true
  | _ => false

def closedStruct : Schema → Bool
  | .struct _ false => true
  | _ => false

def emptyOf : Schema → Val
  | .map => .map []
  | _ => .list []

/-! ## serialiser -/
mutual
def ser : Schema → Val → Json
  | .bool, v => (match v with | .bool b => .bool b | _ => .null)
  | .int _ _, v => (match v with | .int n => .int n | _ => .null)
  | .flt, v => (match v with | .flt t => .flt t | _ => .null)
  | .str, v => (match v with | .str s => .str s | _ => .null)
  | .hex _ _, v => (match v with | .str s => .str s | _ => .null)
  | .any, v => (match v with | .json j => j | _ => .null)
  | .opt s, v => (match v with | .some x => ser s x | _ => .null)
  | .seq s _, v => (match v with | .list vs => .arr (vs.map (ser s)) | _ => .null)
  | .map, v => (match v with | .map kvs => .obj kvs | _ => .null)
  | .struct fs _, v => (match v with | .rcd vs r => .obj (serFields fs vs ++ r) | _ => .null)
  | .unitEnum names, v => (match v with | .var i _ => .str (nthName names i) | _ => .null)
  | .untagged alts, v => (match v with | .var i x => serAlt alts i x | _ => .null)
  | .adjacent t c alts, v =>
      (match v with | .var i x => .obj [(t, .str (altName alts i)), (c, serAlt alts i x)] | _ => .null)
  | .internal t alts, v =>
      (match v with | .var i x => .obj ((t, .str (altName alts i)) :: objKvs (serAlt alts i x)) | _ => .null)
  | .refine s _, v => ser s v
def serFields : Fields → List Val → Kvs
  | .nil, _ => []
  | .cons name kind s tl, vs =>
      match vs with
      | [] => []
      | v :: vs' =>
        (match kind with
          | .req => [(name, ser s v)]
          | .opt => (match v with | .some x => [(name, ser s x)] | _ => [])
          | .optNull => (match v with | .some x => [(name, ser s x)] | _ => [(name, .null)])
          | .skipEmpty _ => if isEmptyVal v then [] else [(name, ser s v)]
          | .flat => objKvs (ser s v))
        ++ serFields tl vs'
def serAlt : Fields → Nat → Val → Json
  | .nil, _, _ => .null
  | .cons _ _ s tl, i, v => (match i with | 0 => ser s v | j + 1 => serAlt tl j v)
end

/-! ## deserialiser -/
def optOf (r : Option Val) : Option Val := r.map Val.some

mutual
def de : Schema → Json → Option Val
  | .bool, j => (match j with | .bool b => some (.bool b) | _ => none)
  | .int lo hi, j => (match j with | .int n => if lo ≤ n ∧ n ≤ hi then some (.int n) else none | _ => none)
  | .flt, j => (match j with | .flt t => some (.flt t) | .int n => some (.flt (intTok n)) | _ => none)
  | .str, j => (match j with | .str s => some (.str s) | _ => none)
  | .hex pfx len, j => (match j with | .str s => if isHex pfx s len then some (.str s) else none | _ => none)
  | .any, j => some (.json j)
  | .opt s, j => (match j with | .null => some .none | j => optOf (de s j))
  | .seq s len, j =>
      (match j with
        | .arr xs => (match xs.mapM (de s) with
            | some vs => if lenOk len vs.length then some (.list vs) else none
            | none => none)
        | _ => none)
  | .map, j => (match j with | .obj kvs => if (keys kvs).Nodup then some (.map kvs) else none | _ => none)
  | .struct fs rest, j =>
      (match j with
        | .obj kvs =>
            if (keys kvs).Nodup then
              (match deFields fs kvs with
                | some vs => some (.rcd vs (if rest then kvs.filter (fun kv => !(allNames fs).contains kv.1) else []))
                | none => none)
            else none
        | _ => none)
  | .unitEnum names, j =>
      (match j with
        | .str s => (match nameIdx s names 0 with | some i => some (.var i .none) | none => none)
        | _ => none)
  | .untagged alts, j => deUntagged alts j 0
  | .adjacent t c alts, j =>
      (match j with
        | .obj kvs =>
            (match lookup t kvs, lookup c kvs with
              | some (.str n), some body => deByName alts n body 0
              | _, _ => none)
        | _ => none)
  | .internal t alts, j =>
      (match j with
        | .obj kvs =>
            (match lookup t kvs with
              | some (.str n) => deByName alts n (.obj kvs) 0
              | _ => none)
        | _ => none)
  | .refine s p, j => if p j then de s j else none
def deFields : Fields → Kvs → Option (List Val)
  | .nil, _ => some []
  | .cons name kind s tl, o =>
      match (match kind with
              | .req => (match lookup name o with | some j => de s j | none => none)
              | .opt => (match lookup name o with | none => some .none | some .null => some .none | some j => optOf (de s j))
              | .optNull => (match lookup name o with | none => some .none | some .null => some .none | some j => optOf (de s j))
              | .skipEmpty d => (match lookup name o with
                                  | none => if d then some (emptyOf s) else none
                                  | some j => de s j)
              | .flat => de s (.obj o)) with
      | some v => (match deFields tl o with | some vs => some (v :: vs) | none => none)
      | none => none
def deUntagged : Fields → Json → Nat → Option Val
  | .nil, _, _ => none
  | .cons _ _ s tl, j, k => (match de s j with | some v => some (.var k v) | none => deUntagged tl j (k + 1))
def deByName : Fields → String → Json → Nat → Option Val
  | .nil, _, _, _ => none
  | .cons name _ s tl, n, j, k =>
      if name = n then (match de s j with | some v => some (.var k v) | none => none) else deByName tl n j (k + 1)
end

/-! ## typing of values -/
/-- `#[serde(untagged)]` reads with the FIRST alternative that accepts: variant `i` reads back as itself only when no
earlier alternative accepts what it wrote. -/
def earlierReject : Fields → Nat → Json → Bool
  | .cons _ _ s tl, i + 1, j => (de s j).isNone && earlierReject tl i j
  | _, _, _ => true

def disjointB (a b : List String) : Bool := a.all (fun x => !b.contains x)

mutual
def hasType : Schema → Val → Bool
  | .bool, v => (match v with | .bool _ => true | _ => false)
  | .int lo hi, v => (match v with | .int n => decide (lo ≤ n ∧ n ≤ hi) | _ => false)
  | .flt, v => (match v with | .flt _ => true | _ => false)
  | .str, v => (match v with | .str _ => true | _ => false)
  | .hex pfx len, v => (match v with | .str s => isHex pfx s len | _ => false)
  | .any, v => (match v with | .json _ => true | _ => false)
  | .opt s, v => (match v with | .none => true | .some x => hasType s x | _ => false)
  | .seq s len, v => (match v with | .list vs => vs.all (hasType s) && lenOk len vs.length | _ => false)
  | .map, v => (match v with | .map kvs => decide (keys kvs).Nodup | _ => false)
  | .struct fs rest, v =>
      (match v with
        | .rcd vs r => typedFields fs vs &&
            (if rest then decide (keys r).Nodup && disjointB (keys r) (allNames fs) else r.isEmpty)
        | _ => false)
  | .unitEnum names, v => (match v with | .var i .none => decide (i < names.length) | _ => false)
  | .untagged alts, v => (match v with | .var i x => typedAlt alts i x && earlierReject alts i (serAlt alts i x) | _ => false)
  | .adjacent _ _ alts, v => (match v with | .var i x => typedAlt alts i x | _ => false)
  | .internal _ alts, v => (match v with | .var i x => typedAlt alts i x | _ => false)
  | .refine s p, v => hasType s v && p (ser s v)
def typedFields : Fields → List Val → Bool
  | .nil, vs => vs.isEmpty
  | .cons _ kind s tl, vs =>
      match vs with
      | [] => false
      | v :: vs' =>
        (match kind with
          | .req => hasType s v
          | .opt => (match v with | .none => true | .some x => hasType s x | _ => false)
          | .optNull => (match v with | .none => true | .some x => hasType s x | _ => false)
          | .skipEmpty _ => hasType s v
          | .flat => hasType s v)
        && typedFields tl vs'
def typedAlt : Fields → Nat → Val → Bool
  | .nil, _, _ => false
  | .cons _ _ s tl, i, v => (match i with | 0 => hasType s v | j + 1 => typedAlt tl j v)
end

/-! ## well-formedness of a schema (decidable; evaluated on the generated table) -/
def skippable : Schema → Bool
  | .seq _ none => true
  | .map => true
  | _ => false

def kindOk (kind : FKind) (s : Schema) : Bool :=
  match kind with
  | .req => true
  | .opt => !(shape s).contains 0
  | .optNull => !(shape s).contains 0
  | .skipEmpty d => d && skippable s
  | .flat => flattenable s

def disjointN (a b : List Nat) : Bool := a.all (fun x => !b.contains x)

mutual
def wf : Schema → Bool
  | .bool => true | .int _ _ => true | .flt => true | .str => true | .hex _ _ => true | .any => true | .map => true
  | .opt s => wf s && !(shape s).contains 0
  | .seq s _ => wf s
  | .struct fs _ => wfFields fs && decide (allNames fs).Nodup
  | .unitEnum names => decide names.Nodup
  | .untagged alts => wfAlts alts
  | .adjacent t c alts => decide (t ≠ c) && wfAlts alts && decide (altNames alts).Nodup
  | .internal t alts => wfAlts alts && wfInternal t alts && decide (altNames alts).Nodup
  | .refine s _ => wf s
def wfFields : Fields → Bool
  | .nil => true
  | .cons _ kind s tl => wf s && kindOk kind s && wfFields tl
def wfAlts : Fields → Bool
  | .nil => true
  | .cons _ _ s tl => wf s && wfAlts tl
/-- untagged: the kinds an alternative can produce are rejected by every EARLIER alternative -/
def wfDisjoint : Fields → Bool
  | .nil => true
  | .cons _ _ s tl => disjointN (shape s) (shapeAlts tl) && wfDisjoint tl
/-- internally tagged: alternatives are closed structs that do not use the tag as a key -/
def wfInternal : String → Fields → Bool
  | _, .nil => true
  | t, .cons _ _ s tl => closedStruct s && !(namesOf s).contains t && wfInternal t tl
end

/- static sufficient condition for "every typed value is canonical": wherever `#[serde(untagged)]` occurs, the JSON kinds an
alternative can produce are rejected by all earlier alternatives (`wfDisjoint`). -/
mutual
def strict : Schema → Bool
  | .opt s => strict s
  | .seq s _ => strict s
  | .struct fs _ => strictFields fs
  | .untagged alts => strictFields alts && wfDisjoint alts
  | .adjacent _ _ alts => strictFields alts
  | .internal _ alts => strictFields alts
  | .refine s _ => strict s
  | _ => true
def strictFields : Fields → Bool
  | .nil => true
  | .cons _ _ s tl => strict s && strictFields tl
end

end GmQuic.Model.Json
