import GmQuic.Model.Frame
/-!
`put_frame(ConnectionCloseFrame)` into a BOUNDED buffer (`remaining_mut() = rem`): after writing type and
codes the Rust truncates the reason to
`reason.len().min(self.remaining_mut().saturating_sub(len_size))` with
`len_size = VarInt::from_u32(reason.len() as u32).encoding_size()` (room is kept for the length varint that is
written next: fix-C05-close-truncation; before the fix it was `reason.len().min(self.remaining_mut())` and the
truncation path always panicked).  `bytes::BufMut` panics when a `put_*` does not fit.
-/
namespace GmQuic.Codec
open GmQuic.Wire GmQuic.Gen

/-- type + error code(s) (+ frame type for the transport layer) -/
def closeHead : Frame → Bytes
  | .closeApp code _ => encType (.connectionClose true) ++ encVarint code
  | .closeQuic kind fty _ =>
    encType (.connectionClose false) ++ (encVarint (natOfErrKind kind) ++ encVarint (natOfErrFty fty))
  | _ => []

def closeReason : Frame → Bytes
  | .closeApp _ r | .closeQuic _ _ r => r
  | _ => []

/-- the writer on a buffer with `rem` bytes of room; `ok () bytes` = what was written -/
def encCloseBounded (rem : Nat) (f : Frame) : Res Unit :=
  let head := closeHead f
  if rem < head.length then .panic "BufMut::put_*: advance out of bounds (type / codes)" else
  let r1 := rem - head.length
  let reason := closeReason f
  let lenSize := varintSize (reason.length % 2 ^ 32)       -- `VarInt::from_u32(reason.len() as u32).encoding_size()`
  let len := min reason.length (r1 - lenSize)              -- `remaining_mut().saturating_sub(len_size)`
  let lenb := encVarint (len % 2 ^ 32)
  if r1 < lenb.length + len then .panic "BufMut::put_slice: advance out of bounds (length + reason)"
  else .ok () (head ++ (lenb ++ reason.take len))

end GmQuic.Codec
