import GmQuic.Model.Frame
/-!
`put_frame(ConnectionCloseFrame)` into a BOUNDED buffer (`remaining_mut() = rem`): the Rust truncates
the reason to `reason.len().min(self.remaining_mut())` *after* writing type and codes but *before*
writing the length varint.  `bytes::BufMut` panics when a `put_*` does not fit.
-/
namespace GmQuic.Codec
open GmQuic.Wire GmQuic.Gen

/-- type + error code(s) (+ frame type for the transport layer) -/
def closeHead : Frame → Bytes
  | .closeApp code _ => encType (.connectionClose true) ++ encVarint code
  | .closeQuic kind fty _ =>
    encType (.connectionClose false) ++ (encVarint (natOfErrKind kind) ++ encVarint (natOfErrFty fty))
  | _ => []

def closeReason : Frame → Bytes
  | .closeApp _ r | .closeQuic _ _ r => r
  | _ => []

/-- the writer on a buffer with `rem` bytes of room; `ok () bytes` = what was written -/
def encCloseBounded (rem : Nat) (f : Frame) : Res Unit :=
  let head := closeHead f
  if rem < head.length then .panic "BufMut::put_*: advance out of bounds (type / codes)" else
  let r1 := rem - head.length
  let reason := closeReason f
  let len := min reason.length r1
  let lenb := encVarint (len % 2 ^ 32)
  if r1 < lenb.length + len then .panic "BufMut::put_slice: advance out of bounds (length + reason)"
  else .ok () (head ++ (lenb ++ reason.take len))

end GmQuic.Codec
