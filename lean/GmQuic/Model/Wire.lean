/-
Wire primitives shared by every codec model: big-endian integers over `List UInt8` and the QUIC
variable-length integer (`qbase/src/varint.rs`: `be_varint`, `put_varint`, `VarInt::encoding_size`).
Core-only (no imports).
-/
namespace GmQuic.Wire

abbrev Bytes := List UInt8

/-- `w` big-endian bytes of `n` (the low `8w` bits), as `put_u8/put_u16/put_u32/put_u64` write them. -/
def beBytes : Nat → Nat → Bytes
  | 0, _ => []
  | w + 1, n => UInt8.ofNat (n / 256 ^ w % 256) :: beBytes w n

def beAcc (acc : Nat) (bs : Bytes) : Nat := bs.foldl (fun a b => a * 256 + b.toNat) acc

/-- Big-endian value of a byte string. -/
def beVal (bs : Bytes) : Nat := beAcc 0 bs

/-- `VarInt::encoding_size`. -/
def varintSize (v : Nat) : Nat :=
  if v < 2 ^ 6 then 1 else if v < 2 ^ 14 then 2 else if v < 2 ^ 30 then 4 else 8

/-- `put_varint` (minimal width).  Defined for every `v`; the Rust `unreachable!` for `v ≥ 2^62`
is represented by the caller-side well-formedness hypothesis `v < 2^62`. -/
def encVarint (v : Nat) : Bytes :=
  if v < 2 ^ 6 then beBytes 1 v
  else if v < 2 ^ 14 then beBytes 2 (1 * 2 ^ 14 + v)
  else if v < 2 ^ 30 then beBytes 4 (2 * 2 ^ 30 + v)
  else beBytes 8 (3 * 2 ^ 62 + v)

/-- `encode_varint(value, nbytes)` (explicit width; Rust asserts the value fits). -/
def encVarintW (w v : Nat) : Bytes :=
  match w with
  | 1 => beBytes 1 v
  | 2 => beBytes 2 (1 * 2 ^ 14 + v)
  | 4 => beBytes 4 (2 * 2 ^ 30 + v)
  | _ => beBytes 8 (3 * 2 ^ 62 + v)

/-- `be_varint`: `none` = `nom::Err::Incomplete`. The prefix (top two bits of the first byte) gives
the width `2^prefix`; the value is the remaining `8·width − 2` bits. -/
def decVarint : Bytes → Option (Nat × Bytes)
  | [] => none
  | b :: rest =>
    let w := 2 ^ (b.toNat / 64)
    if rest.length + 1 < w then none
    else some (beVal (b :: rest.take (w - 1)) % 2 ^ (8 * w - 2), rest.drop (w - 1))

end GmQuic.Wire
