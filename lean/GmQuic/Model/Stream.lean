import GmQuic.Model.RecvBuf
/-!
C01 — one QUIC stream direction end to end: the sending half (`qrecovery/src/send/{sender,outgoing,writer}.rs`),
the adversarial network, and the receiving half (`qrecovery/src/recv/{recver,incoming,reader}.rs`,
`streams/raw.rs` dispatch) on top of the C08 reassembly buffer.

* The send buffer's colour map (`BufMap`, C09's subject) is kept abstractly as a per-byte status
  `unsent / inflight / lost / acked`; *which* range a `pick` takes is the implementation's choice (relational
  mode): the model only says which ranges are legal (`Sender.pickOk`) and computes everything else
  (FIN flag, payload, state change) itself.
* The network is the adversary: `emitted` only grows, and `deliver i` / `ack i` / `lose i` may name any frame
  ever emitted, any number of times, in any order.  Dropping a frame is "never naming it".
* Connection errors raised by the receiving half for a frame (FlowControl / FinalSize) are recorded in the
  ghost field `rxErr`; `Props/C01.lean` proves that none is ever raised against this sender.

Core-only imports: linked into the native driver.
-/

namespace GmQuic.Stream
open GmQuic.RecvBuf (Bytes)

/-- `enum Sender` of `send/sender.rs`. -/
inductive SSt | ready | sending | dataSent | dataRcvd | resetSent | resetRcvd
deriving DecidableEq, Repr
/-- `enum FinState` of `DataSentSender`. -/
inductive FinSt | sent | lost | rcvd
deriving DecidableEq, Repr
/-- `enum Recver` of `recv/recver.rs`. -/
inductive RSt | recv | sizeKnown | dataRcvd | dataRead | resetRcvd | resetRead
deriving DecidableEq, Repr
/-- abstract colour of one written byte (`Color::{Pending, Flighting, Lost, Recved}`) -/
inductive BSt | unsent | inflight | lost | acked
deriving DecidableEq, Repr

structure Frame where
  off : Nat
  data : Bytes
  fin : Bool
deriving DecidableEq, Repr

def Frame.stop (f : Frame) : Nat := f.off + f.data.length

/-- `VARINT_MAX` -/
def varintMax : Nat := 2 ^ 62 - 1
/-- `threshold` of `Recv::poll_read` -/
def msdThreshold : Nat := 1000000

structure Sender where
  st : SSt := .ready
  written : Bytes := []
  status : Nat → BSt := fun _ => .unsent
  /-- `SendBuf::sent()`: bytes `[0, sentHi)` were emitted at least once -/
  sentHi : Nat := 0
  /-- `SendBuf::max_data` -/
  maxData : Nat := 0
  /-- `shutdown_waker.is_some()` in `Ready`/`Sending` (the FIN has been requested) -/
  shutdown : Bool := false
  fin : FinSt := .sent
  /-- final size carried by the RESET_STREAM frame (`ResetSent`/`ResetRcvd`) -/
  resetFinal : Nat := 0
  /-- `Err(conn_error)` replaced the state -/
  err : Bool := false
  /-- an `unreachable!()` of `Outgoing::{on_data_acked, may_loss_data}` (`Ready` state) was hit -/
  panicked : Bool := false
  /-- the endpoint's output table was replaced by `Err(conn_error)` (`DataStreams::on_conn_error`): transport
  notifications no longer reach the stream (only `on_reset_acked` can tell: all other ones are no-ops then anyway) -/
  closed : Bool := false

structure Recver where
  st : RSt := .recv
  buf : RecvBuf.State := {}
  finalSize : Nat := 0
  /-- `Recv::max_stream_data` -/
  maxSD : Nat := 0
  /-- `Recv::largest` -/
  largest : Nat := 0
  stopped : Bool := false
  /-- `Err(conn_error)` replaced the state -/
  err : Bool := false
  /-- the entry was removed from `DataStreams.input` (on entering `DataRcvd`, or by a RESET_STREAM frame) -/
  gone : Bool := false
  /-- the `unreachable!()` of `Incoming::recv_reset` was hit -/
  panicked : Bool := false

structure Stream where
  snd : Sender := {}
  rcv : Recver := {}
  /-- every STREAM frame ever emitted, in emission order -/
  emitted : List Frame := []
  /-- final sizes of the RESET_STREAM frames emitted -/
  resets : List Nat := []
  /-- number of STOP_SENDING frames emitted -/
  stops : Nat := 0
  /-- MAX_STREAM_DATA values emitted by the receiving half -/
  msds : List Nat := []
  /-- ghost: everything the reader has been handed -/
  out : Bytes := []
  /-- ghost: the reader has seen end-of-stream (`Ready(Ok)` with 0 bytes into a non-empty buffer) -/
  eof : Bool := false
  /-- ghost: connection error raised by the receiving half for a frame of this stream -/
  rxErr : Option String := none

/-- A fresh stream: `sw` = the sender's initial window (`SendBuf::max_data`), `rw` = the receiver's
(`Recv::max_stream_data`).  RFC 9000 §18.2 makes them the same transport parameter (C11). -/
def Stream.init (sw rw : Nat) : Stream := { snd := { maxData := sw }, rcv := { maxSD := rw } }

/-! ## sending half -/

def BSt.pickable : BSt → Bool
  | .unsent => true
  | .lost => true
  | _ => false

def Sender.live (s : Sender) : Bool :=
  !s.err && (s.st == .ready || s.st == .sending || s.st == .dataSent)

/-- all written bytes acknowledged (`SendBuf::is_all_rcvd`: the data queue has been drained) -/
def Sender.allAcked (s : Sender) : Prop := ∀ x, x < s.written.length → s.status x = .acked

instance (s : Sender) : Decidable s.allAcked := by unfold Sender.allAcked; infer_instance

/-- `Writer::write` (the non-blocking entry; the window is not consulted). -/
def Sender.write (s : Sender) (bs : Bytes) : Sender × String :=
  if s.err then (s, "err:Conn") else
  match s.st with
  | .ready | .sending =>
    if s.shutdown then (s, "err:EosSent") else ({ s with written := s.written ++ bs }, "ok")
  | .dataSent | .dataRcvd => (s, "err:EosSent")
  | .resetSent | .resetRcvd => (s, "err:Reset")

/-- `Writer::poll_ready`. -/
def Sender.pollReady (s : Sender) : String :=
  if s.err then "err:Conn" else
  match s.st with
  | .ready | .sending =>
    if s.shutdown then "err:EosSent" else if s.maxData > s.written.length then "ready" else "pending"
  | .dataSent | .dataRcvd => "err:EosSent"
  | .resetSent | .resetRcvd => "err:Reset"

/-- `Writer::poll_shutdown`. -/
def Sender.pollShutdown (s : Sender) : Sender × String :=
  if s.err then (s, "err:Conn") else
  match s.st with
  | .ready | .sending => ({ s with shutdown := true }, "pending")
  | .dataSent => (s, "pending")
  | .dataRcvd => (s, "ready")
  | .resetSent | .resetRcvd => (s, "err:Reset")

/-- `Writer::poll_flush`. -/
def Sender.pollFlush (s : Sender) : String :=
  if s.err then "err:Conn" else
  match s.st with
  | .ready | .sending => if s.allAcked then "ready" else "pending"
  | .dataSent => "pending"
  | .dataRcvd => "ready"
  | .resetSent | .resetRcvd => "err:Reset"

/-- Which ranges `Outgoing::try_load_data_into` may emit (the relation the implementation's choice is checked
against).  `len = 0` is the FIN-only frame; in `DataSent` it may be repeated (the code does so after
`may_loss_data` of an empty FIN frame: `BufMap` then holds a zero-length `Lost` run that `SendBuf::pick_up`
returns first, whatever `fin_state` is — even `Rcvd`, when another FIN-bearing frame was acknowledged in
between; `fin_state` is then left alone), and it MUST come when the FIN is marked lost (`finDue`). -/
def Sender.pickOk (s : Sender) (off len : Nat) : Prop :=
  s.live = true ∧
  if len = 0 then
    off = s.written.length ∧ s.sentHi = s.written.length ∧
      (if s.st = .dataSent then True else s.shutdown = true)
  else
    off + len ≤ s.written.length ∧ off + len ≤ s.maxData ∧
      (∀ k, k < len → (s.status (off + k)).pickable = true) ∧ off ≤ s.sentHi

instance (s : Sender) (off len : Nat) : Decidable (s.pickOk off len) := by
  unfold Sender.pickOk; infer_instance

/-- The FIN-only frame is due: everything was sent once, and the FIN was requested but never sent
(`Ready`/`Sending`) or is marked lost (`DataSent`). -/
def Sender.finDue (s : Sender) : Prop :=
  s.live = true ∧ s.sentHi = s.written.length ∧ (if s.st = .dataSent then s.fin = .lost else s.shutdown = true)

instance (s : Sender) : Decidable s.finDue := by unfold Sender.finDue; infer_instance

/-- A canonical legal pick, if there is one: the lowest pickable byte inside the window, else the FIN-only
frame when it is due.  `none` ⇔ the sender has nothing it must send. -/
def Sender.somePick (s : Sender) : Option (Nat × Nat) :=
  if s.live = true then
    match (List.range (min s.written.length s.maxData)).find? (fun x => (s.status x).pickable) with
    | some x => some (x, 1)
    | none => if s.finDue then some (s.written.length, 0) else none
  else none

/-- The FIN flag of the frame for range `[off, off+len)` (`Some(range.end) == total_size`). -/
def Sender.pickFin (s : Sender) (off len : Nat) : Bool :=
  if s.st = .dataSent then off + len == s.written.length
  else s.shutdown && off + len == s.written.length

def slice (bs : Bytes) (off len : Nat) : Bytes := (bs.drop off).take len

def setRange (f : Nat → BSt) (a b : Nat) (g : BSt → BSt) : Nat → BSt :=
  fun x => if a ≤ x ∧ x < b then g (f x) else f x

/-- Emit `[off, off+len)` (assumes `pickOk`). -/
def Sender.pick (s : Sender) (off len : Nat) : Sender × Frame :=
  let fin := s.pickFin off len
  let st' : SSt := if s.st = .dataSent then .dataSent else if fin then .dataSent else .sending
  let fin' : FinSt :=
    if s.st = .dataSent then (if len = 0 then (if s.fin = .rcvd then .rcvd else .sent) else s.fin) else .sent
  ({ s with st := st', fin := fin', status := setRange s.status off (off + len) (fun _ => .inflight),
            sentHi := max s.sentHi (off + len) },
   ⟨off, slice s.written off len, fin⟩)

/-- A load attempt that finds nothing on a `Ready` sender still performs `Ready → Sending`. -/
def Sender.touch (s : Sender) : Sender :=
  if !s.err && s.st == .ready then { s with st := .sending } else s

/-- `Outgoing::on_data_acked`. -/
def Sender.ack (s : Sender) (f : Frame) : Sender :=
  if s.err then s else
  match s.st with
  | .sending => { s with status := setRange s.status f.off f.stop (fun _ => .acked) }
  | .dataSent =>
    let s1 : Sender := { s with status := setRange s.status f.off f.stop (fun _ => .acked),
                                fin := if f.fin then .rcvd else s.fin }
    if s1.allAcked ∧ s1.fin = .rcvd then { s1 with st := .dataRcvd } else s1
  | .ready => { s with panicked := true }   -- `unreachable!("never send data before recv data")`
  | _ => s

def lostOf : BSt → BSt
  | .inflight => .lost
  | c => c

/-- `Outgoing::may_loss_data`. -/
def Sender.lose (s : Sender) (f : Frame) : Sender :=
  if s.err then s else
  match s.st with
  | .sending => { s with status := setRange s.status f.off f.stop lostOf }
  | .dataSent =>
    { s with status := setRange s.status f.off f.stop lostOf,
             fin := if f.fin ∧ s.fin ≠ .rcvd then .lost else s.fin }
  | .ready => { s with panicked := true }
  | _ => s

/-- `ArcSender::update_window` (MAX_STREAM_DATA received). -/
def Sender.updateWindow (s : Sender) (m : Nat) : Sender :=
  if s.err then s else
  match s.st with
  | .ready | .sending => if m > s.maxData then { s with maxData := m } else s
  | _ => s

/-- `Writer::cancel`: `some final` = a RESET_STREAM frame with that final size was emitted. -/
def Sender.cancel (s : Sender) : Sender × Option Nat :=
  if s.err then (s, none) else
  match s.st with
  | .ready | .sending | .dataSent => ({ s with st := .resetSent, resetFinal := s.sentHi }, some s.sentHi)
  | _ => (s, none)

/-- `Outgoing::be_stopped` (STOP_SENDING received). -/
def Sender.beStopped (s : Sender) : Sender × Option Nat :=
  if s.err then (s, none) else
  match s.st with
  | .ready | .sending => ({ s with st := .resetSent, resetFinal := s.sentHi }, some s.sentHi)
  | .dataSent => ({ s with st := .resetSent, resetFinal := s.written.length }, some s.written.length)
  | _ => (s, none)

/-- `Outgoing::on_reset_acked`. -/
def Sender.resetAcked (s : Sender) : Sender :=
  if s.closed then s else
  if s.err then s else
  match s.st with
  | .resetSent => { s with st := .resetRcvd }
  | _ => s

/-- `Outgoing::on_conn_error`. -/
def Sender.connError (s : Sender) : Sender :=
  if s.err then { s with closed := true } else
  match s.st with
  | .ready | .sending | .dataSent => { s with err := true, closed := true }
  | _ => { s with closed := true }

/-! ## receiving half -/

/-- `SizeKnown::is_all_rcvd`. -/
def Recver.allRcvd (r : Recver) : Bool :=
  r.buf.nread + RecvBuf.available r.buf == r.finalSize

/-- `DataStreams::recv_data` → `Incoming::recv_data`: new state and `Ok(fresh)` / `Err(kind)`. -/
def Recver.rx (r : Recver) (f : Frame) : Recver × Except String Nat :=
  if r.gone ∨ r.err then (r, .ok 0) else
  match r.st with
  | .recv =>
    if f.fin then
      -- `determin_size`
      if r.buf.largest > f.stop then (r, .error "FinalSize")
      else if f.stop > r.maxSD then (r, .error "FlowControl")
      else
        let (b, n) := RecvBuf.recv r.buf f.off f.data
        let r1 : Recver := { r with buf := b, finalSize := f.stop, st := .sizeKnown }
        if r1.allRcvd then ({ r1 with st := .dataRcvd, gone := true }, .ok n) else (r1, .ok n)
    else
      if f.stop > r.maxSD then (r, .error "FlowControl")
      else
        let (b, n) := RecvBuf.recv r.buf f.off f.data
        ({ r with buf := b, largest := max r.largest f.stop }, .ok n)
  | .sizeKnown =>
    if f.stop > r.finalSize then (r, .error "FinalSize")
    else if f.fin ∧ f.stop ≠ r.finalSize then (r, .error "FinalSize")
    else
      let (b, n) := RecvBuf.recv r.buf f.off f.data
      let r1 : Recver := { r with buf := b }
      if r1.allRcvd then ({ r1 with st := .dataRcvd, gone := true }, .ok n) else (r1, .ok n)
  | _ => (r, .ok 0)

inductive ReadRes
  | pending
  | data (bs : Bytes)
  | err (k : String)
deriving Repr, DecidableEq

/-- `Reader::poll_read` with `cap` bytes of room: new state, result, MAX_STREAM_DATA emitted. -/
def Recver.read (r : Recver) (cap : Nat) : Recver × ReadRes × Option Nat :=
  if r.err then (r, .err "Conn", none) else
  match r.st with
  | .recv =>
    if !RecvBuf.isReadable r.buf then (r, .pending, none)
    else
      let (b, o) := RecvBuf.tryRead r.buf cap
      if b.nread + msdThreshold > r.maxSD then
        let m := min (b.nread + msdThreshold * 2) varintMax
        if m > r.maxSD then ({ r with buf := b, maxSD := m }, .data o, some m)
        else ({ r with buf := b }, .data o, none)
      else ({ r with buf := b }, .data o, none)
  | .sizeKnown =>
    if !RecvBuf.isReadable r.buf then (r, .pending, none)
    else
      let (b, o) := RecvBuf.tryRead r.buf cap
      ({ r with buf := b }, .data o, none)
  | .dataRcvd =>
    let (b, o) := RecvBuf.tryRead r.buf cap
    ({ r with buf := b, st := if b.segs.isEmpty then .dataRead else .dataRcvd }, .data o, none)
  | .dataRead => (r, .data [], none)
  | .resetRcvd => ({ r with st := .resetRead }, .err "Reset", none)
  | .resetRead => (r, .err "Reset", none)

/-- `Reader::stop`: `true` = a STOP_SENDING frame was emitted. -/
def Recver.stop (r : Recver) : Recver × Bool :=
  if r.err then (r, false) else
  match r.st with
  | .recv | .sizeKnown => if r.stopped then (r, false) else ({ r with stopped := true }, true)
  | _ => (r, false)

/-- `DataStreams::recv_stream_control(ResetStream)` → `Incoming::recv_reset` → `Recv::recv_reset` /
`SizeKnown::recv_reset`.  The frame is validated FIRST (repair 40fb201): an invalid RESET_STREAM leaves the entry in the
input table (`gone` unchanged), a valid one removes it.  `Recv`: final size below the largest offset seen ⇒ FINAL_SIZE,
then final size beyond the advertised limit ⇒ FLOW_CONTROL (repair 2d10252; RFC 9000 §4.5), in that order. -/
def Recver.rxReset (r : Recver) (final : Nat) : Recver × Except String Nat :=
  if r.gone then (r, .ok 0) else
  if r.err then ({ r with gone := true }, .ok 0) else
  match r.st with
  | .recv =>
    if final < r.largest then (r, .error "FinalSize")
    else if final > r.maxSD then (r, .error "FlowControl")
    else ({ r with st := .resetRcvd, gone := true }, .ok (final - r.largest))
  | .sizeKnown =>
    if final ≠ r.finalSize then (r, .error "FinalSize")
    else ({ r with st := .resetRcvd, gone := true }, .ok 0)
  | _ => ({ r with panicked := true }, .ok 0)   -- `_ => unreachable!()` (before the removal)

/-- `Incoming::on_conn_error`. -/
def Recver.connError (r : Recver) : Recver :=
  if r.gone ∨ r.err then r else
  match r.st with
  | .recv | .sizeKnown => { r with err := true }
  | _ => r

/-! ## the stream: operations and histories -/

inductive Op
  | write (bs : Bytes)
  | shutdown
  /-- the implementation emitted `[off, off+len)`; illegal choices are ignored -/
  | pick (off len : Nat)
  | touch
  /-- the network hands emitted frame `i` to the receiver (any number of times, in any order) -/
  | deliver (i : Nat)
  | ack (i : Nat)
  | lose (i : Nat)
  | read (cap : Nat)
  | cancel
  | stop
  /-- a STOP_SENDING frame (one was emitted) reaches the sender -/
  | deliverStop
  /-- emitted RESET_STREAM frame `i` reaches the receiver -/
  | deliverReset (i : Nat)
  | ackReset
  /-- emitted MAX_STREAM_DATA frame `i` reaches the sender -/
  | deliverMsd (i : Nat)
  | connErrorSnd
  | connErrorRcv
deriving Repr

def noteErr (old : Option String) : Except String Nat → Option String
  | .error k => match old with | none => some k | some o => some o
  | .ok _ => old

def Stream.step (s : Stream) : Op → Stream
  | .write bs => { s with snd := (s.snd.write bs).1 }
  | .shutdown => { s with snd := s.snd.pollShutdown.1 }
  | .pick off len =>
    if s.snd.pickOk off len then
      let (snd', f) := s.snd.pick off len
      { s with snd := snd', emitted := s.emitted ++ [f] }
    else s
  | .touch => { s with snd := s.snd.touch }
  | .deliver i =>
    match s.emitted[i]? with
    | some f =>
      let (r, res) := s.rcv.rx f
      { s with rcv := r, rxErr := noteErr s.rxErr res }
    | none => s
  | .ack i =>
    match s.emitted[i]? with
    | some f => { s with snd := s.snd.ack f }
    | none => s
  | .lose i =>
    match s.emitted[i]? with
    | some f => { s with snd := s.snd.lose f }
    | none => s
  | .read cap =>
    let (r, res, m) := s.rcv.read cap
    let s1 : Stream := { s with rcv := r, msds := match m with | some v => s.msds ++ [v] | none => s.msds }
    match res with
    | .data bs => { s1 with out := s.out ++ bs, eof := s.eof || (bs.isEmpty && decide (cap > 0)) }
    | _ => s1
  | .cancel =>
    let (snd', r) := s.snd.cancel
    { s with snd := snd', resets := match r with | some v => s.resets ++ [v] | none => s.resets }
  | .stop =>
    let (r, b) := s.rcv.stop
    { s with rcv := r, stops := if b then s.stops + 1 else s.stops }
  | .deliverStop =>
    if s.stops = 0 then s else
    let (snd', r) := s.snd.beStopped
    { s with snd := snd', resets := match r with | some v => s.resets ++ [v] | none => s.resets }
  | .deliverReset i =>
    match s.resets[i]? with
    | some v =>
      let (r, res) := s.rcv.rxReset v
      { s with rcv := r, rxErr := noteErr s.rxErr res }
    | none => s
  | .ackReset => if s.resets.isEmpty then s else { s with snd := s.snd.resetAcked }
  | .deliverMsd i =>
    match s.msds[i]? with
    | some m => { s with snd := s.snd.updateWindow m }
    | none => s
  | .connErrorSnd => { s with snd := s.snd.connError }
  | .connErrorRcv => { s with rcv := s.rcv.connError }

def Stream.run (s : Stream) (ops : List Op) : Stream := ops.foldl Stream.step s

end GmQuic.Stream
