import GmQuic.Model.Flow
import GmQuic.Model.RecvBuf
/-!
Stream-level flow control of `qrecovery`:

* the *window-source table* of `streams/raw.rs` + `streams/listener.rs`: which transport parameter
  every stream half takes its initial window from (`codeWindow`);
* the per-stream send window (`SendBuf::max_data`, `update_window`) seen through what
  `DataStreams::try_load_data_into_once` may emit and what it charges to the connection credit
  (`SendHalf.emit`; the choice of the range is the implementation's — relational mode);
* the per-stream receive window (`Recv::max_stream_data`): limit checks of `Incoming::recv_data`
  in the `Recv` / `SizeKnown` / `DataRcvd` states (`RecvHalf.rx`) and the read-driven growth in
  `Recv::poll_read` (`RecvHalf.read`).  The reassembly buffer is the C08 model (`GmQuic.RecvBuf`).

`fixed : Bool` selects between the unchanged tree (`false`) and the tree with
`repo_patches/fix-C11-uni-window.diff` / `fix-C11-fin-limit.diff` applied (`true`).
Core-only imports: linked into the native driver.
-/

namespace GmQuic.StreamWindow
open GmQuic.Flow

/-! ## window-source table -/

inductive Wiring | client | server | client0rtt deriving Repr, DecidableEq
inductive Initiator | loc | rem deriving Repr, DecidableEq
inductive SDir | bi | uni deriving Repr, DecidableEq
inductive Side | send | recv deriving Repr, DecidableEq
/-- Whose transport parameters: the endpoint's own (`loc`) or the peer's (`rem`; for `client0rtt`
the remembered server parameters stand in for the peer's). -/
inductive Owner | loc | rem deriving Repr, DecidableEq
inductive PId | bidiLocal | bidiRemote | uni deriving Repr, DecidableEq

structure Src where
  owner : Owner
  pid : PId
deriving Repr, DecidableEq

/-- The table implemented by the code.
* `poll_open_bi_stream`: sender ← remote `InitialMaxStreamDataBidiRemote` (remembered or received),
  recver ← `self.initial_max_stream_data_bidi_local` (= local `…BidiLocal`, `DataStreams::new`).
* `poll_open_uni_stream`: sender ← remembered `InitialMaxStreamDataUni`, otherwise
  `params.get_remote(InitialMaxStreamDataBidiRemote)` (unchanged tree) / `…Uni` (fixed).
* `try_accept_bi_sid`: recver ← local `…BidiRemote`; sender created with 0 and raised by
  `Listener::poll_accept_bi_stream` to remote `…BidiLocal`.
* `try_accept_uni_sid`: recver ← local `…Uni`. -/
def codeWindow (fixed : Bool) (w : Wiring) : Initiator → SDir → Side → Option Src
  | .loc, .bi, .send => some ⟨.rem, .bidiRemote⟩
  | .loc, .bi, .recv => some ⟨.loc, .bidiLocal⟩
  | .loc, .uni, .send =>
      if w = .client0rtt ∨ fixed then some ⟨.rem, .uni⟩ else some ⟨.rem, .bidiRemote⟩
  | .loc, .uni, .recv => none
  | .rem, .bi, .send => some ⟨.rem, .bidiLocal⟩
  | .rem, .bi, .recv => some ⟨.loc, .bidiRemote⟩
  | .rem, .uni, .send => none
  | .rem, .uni, .recv => some ⟨.loc, .uni⟩

/-- The six initial stream-window parameters: `l` the endpoint's own, `r` the peer's. -/
structure P6 where
  l : PId → Nat
  r : PId → Nat

def P6.value (p : P6) (s : Src) : Nat :=
  match s.owner with
  | .loc => p.l s.pid
  | .rem => p.r s.pid

/-! ## sending half -/

structure SendHalf where
  maxData : Nat            -- `SendBuf::max_data`
  written : Nat := 0       -- `SendBuf::written`
  sentHi : Nat := 0        -- `BufMap::sent`: bytes `[0, sentHi)` have been emitted at least once
  finReq : Bool := false   -- `poll_shutdown` was called (final size = `written`)
  finSent : Bool := false  -- a FIN-bearing frame was emitted (`DataSent`: `update_window` ignored)
  emitted : List (Nat × Nat) := []  -- ghost: every emitted range
  granted : Nat            -- ghost: largest limit the peer has granted (initial window, MAX_STREAM_DATA)
  charged : Nat := 0       -- ghost: Σ of the amounts posted to the connection credit for this stream
deriving Repr

def SendHalf.init (w : Nat) : SendHalf := { maxData := w, granted := w }

/-- `ArcSender::update_window` (MAX_STREAM_DATA): only `Ready`/`Sending`, only increases. -/
def SendHalf.updateWindow (h : SendHalf) (m : Nat) : SendHalf :=
  let h := { h with granted := max h.granted m }
  if h.finSent then h else if m > h.maxData then { h with maxData := m } else h

/-- Is the STREAM frame `[a,b)` (+FIN) one that `try_load_data_into_once` may emit with `avail`
bytes of connection credit?  Returns the new state and the amount posted to the credit.
Fresh data always starts at `sentHi` (the `Pending` tail of the `BufMap`); everything else is a
retransmission (or the bare FIN) and is posted as 0. -/
def SendHalf.emit (h : SendHalf) (a b : Nat) (fin : Bool) (avail : Nat) : Option (SendHalf × Nat) :=
  if a ≤ b ∧ b ≤ h.maxData ∧ b ≤ h.written ∧ (fin → (h.finReq ∧ b = h.written)) then
    if a = h.sentHi ∧ a < b then
      if b - a ≤ avail then
        let h' : SendHalf :=
          { h with
            sentHi := b
            finSent := h.finSent || fin
            emitted := h.emitted ++ [(a, b)]
            charged := h.charged + (b - a) }
        some (h', b - a)
      else none
    else if b ≤ h.sentHi then
      some ({ h with finSent := h.finSent || fin, emitted := h.emitted ++ [(a, b)] }, 0)
    else none
  else none

/-! ## receiving half -/

inductive Phase
  | recv
  | sizeKnown (final : Nat)
  | done
deriving Repr, DecidableEq

structure RecvHalf where
  buf : RecvBuf.State := {}
  msd : Nat                 -- `Recv::max_stream_data`
  largest : Nat := 0        -- `Recv::largest`
  phase : Phase := .recv
  advertised : List Nat := []  -- ghost: MAX_STREAM_DATA values emitted
  init : Nat                -- ghost: initial window
deriving Repr

def RecvHalf.mk0 (w : Nat) : RecvHalf := { msd := w, init := w }

inductive RxObs
  | fresh (n : Nat)
  | flowControl
  | finalSize
deriving Repr, DecidableEq

def zeros (n : Nat) : List UInt8 := List.replicate n 0

def allRcvd (b : RecvBuf.State) (final : Nat) : Bool :=
  b.nread + RecvBuf.available b == final

/-- `Incoming::recv_data` for a frame `[off, off+len)` with/without FIN. -/
def RecvHalf.rx (fixed : Bool) (h : RecvHalf) (off len : Nat) (fin : Bool) : RecvHalf × RxObs :=
  let e := off + len
  match h.phase with
  | .recv =>
    if fin then
      -- `determin_size`
      if h.buf.largest > e then (h, .finalSize)
      else if fixed ∧ e > h.msd then (h, .flowControl)
      else
        -- `SizeKnown::recv` with `final_size = e`: both FinalSize tests pass
        let (b, n) := RecvBuf.recv h.buf off (zeros len)
        if allRcvd b e then ({ h with buf := b, phase := .done }, .fresh n)
        else ({ h with buf := b, phase := .sizeKnown e }, .fresh n)
    else
      -- `Recv::recv`
      if e > h.msd then (h, .flowControl)
      else
        let (b, n) := RecvBuf.recv h.buf off (zeros len)
        ({ h with buf := b, largest := max h.largest e }, .fresh n)
  | .sizeKnown fs =>
    if e > fs then (h, .finalSize)
    else if fin ∧ e ≠ fs then (h, .finalSize)
    else
      let (b, n) := RecvBuf.recv h.buf off (zeros len)
      if allRcvd b fs then ({ h with buf := b, phase := .done }, .fresh n)
      else ({ h with buf := b }, .fresh n)
  | .done => (h, .fresh 0)   -- stream removed from the input set: `Ok(0)`

def THRESHOLD : Nat := 1000000

inductive ReadObs
  | pending
  | read (n : Nat) (frame : Option Nat)
deriving Repr, DecidableEq

/-- The MAX_STREAM_DATA decision of `Recv::poll_read` after `nread` bytes were consumed:
new limit and the frame value if one is emitted. -/
def growWindow (msd nread : Nat) : Nat × Option Nat :=
  if nread + THRESHOLD > msd then
    let m := min (nread + THRESHOLD * 2) VARINT_MAX
    if m > msd then (m, some m) else (msd, none)
  else (msd, none)

/-- Install the buffer after a read and apply the MAX_STREAM_DATA decision. -/
def RecvHalf.grow (h : RecvHalf) (b : RecvBuf.State) : RecvHalf × Option Nat :=
  let g := growWindow h.msd b.nread
  ({ h with buf := b, msd := g.1, advertised := h.advertised ++ g.2.toList }, g.2)

/-- `Reader::poll_read` with `cap` bytes of room. -/
def RecvHalf.read (h : RecvHalf) (cap : Nat) : RecvHalf × ReadObs :=
  match h.phase with
  | .recv =>
    if !RecvBuf.isReadable h.buf then (h, .pending) else
    let r := RecvBuf.tryRead h.buf cap
    let hg := h.grow r.1
    (hg.1, .read r.2.length hg.2)
  | .sizeKnown _ =>
    if !RecvBuf.isReadable h.buf then (h, .pending) else
    let r := RecvBuf.tryRead h.buf cap
    ({ h with buf := r.1 }, .read r.2.length none)
  | .done =>
    let r := RecvBuf.tryRead h.buf cap
    ({ h with buf := r.1 }, .read r.2.length none)

def chunkLen (o : Option RecvBuf.Bytes) : Nat :=
  match o with
  | some d => d.length
  | none => 0

/-- `Reader::poll_next` (the `Stream` impl): hands out one whole segment.  `Recv::poll_next` has its
own copy of the MAX_STREAM_DATA code of `poll_read`. -/
def RecvHalf.next (h : RecvHalf) : RecvHalf × ReadObs :=
  match h.phase with
  | .recv =>
    if !RecvBuf.isReadable h.buf then (h, .pending) else
    let r := RecvBuf.tryNext h.buf
    let hg := h.grow r.1
    (hg.1, .read (chunkLen r.2) hg.2)
  | .sizeKnown _ =>
    if !RecvBuf.isReadable h.buf then (h, .pending) else
    let r := RecvBuf.tryNext h.buf
    ({ h with buf := r.1 }, .read (chunkLen r.2) none)
  | .done =>
    let r := RecvBuf.tryNext h.buf
    ({ h with buf := r.1 }, .read (chunkLen r.2) none)

/-! ## operation languages (the quantifier domains of the stream-level theorems) -/

inductive SOp where
  | write (n : Nat)
  | fin
  | msd (m : Nat)                                   -- MAX_STREAM_DATA received
  | emit (a b : Nat) (fin : Bool) (avail : Nat)     -- a frame the implementation chose to emit
deriving Repr

/-- A frame that is not a legal emission is not a step of the specification: state unchanged
(the driver reports it as `notok`). -/
def SendHalf.step (h : SendHalf) : SOp → SendHalf
  | .write n => if h.finReq then h else { h with written := h.written + n }
  | .fin => { h with finReq := true }
  | .msd m => h.updateWindow m
  | .emit a b fin avail =>
    match h.emit a b fin avail with
    | some (h', _) => h'
    | none => h

def SendHalf.run (w : Nat) (ops : List SOp) : SendHalf := ops.foldl SendHalf.step (SendHalf.init w)

/-- The limit the peer has granted after a history: initial window and every MAX_STREAM_DATA. -/
def grantedOf (w : Nat) (ops : List SOp) : Nat :=
  ops.foldl (fun g op => match op with | .msd m => max g m | _ => g) w

inductive ROp where
  | rx (off len : Nat) (fin : Bool)
  | read (cap : Nat)
deriving Repr

def RecvHalf.step (fixed : Bool) (h : RecvHalf) : ROp → RecvHalf
  | .rx off len fin => (h.rx fixed off len fin).1
  | .read cap => (h.read cap).1

def RecvHalf.run (fixed : Bool) (w : Nat) (ops : List ROp) : RecvHalf :=
  ops.foldl (RecvHalf.step fixed) (RecvHalf.mk0 w)

/-! ## the whole receiving state machine (`Recver`) with the application's actions

`RecvHalf` above is `Recver::{Recv, SizeKnown, DataRcvd/DataRead}` as the peer's STREAM frames and the
application's reads drive it.  `Rcvr` adds what else can happen to a receiving half:

* `Reader::stop(code)`: `stop_state` is set and one STOP_SENDING goes out — only in `Recv`/`SizeKnown`,
  only the first time; `determin_size` carries `stop_state` over.  **Nothing that handles incoming
  frames consults `stop_state`**: `Incoming::recv_data` / `Recv::recv` / `SizeKnown::recv` are the same
  code before and after (this is what `Rcvr.rx` says by delegating to `RecvHalf.rx` unchanged);
* RESET_STREAM (`DataStreams::recv_stream_control` → `Incoming::recv_reset`): the stream leaves the
  input set; in `Recv` the remainder `final_size - largest` is returned for the connection-level
  controller, in `SizeKnown` nothing more; later STREAM / RESET_STREAM frames find no stream: `Ok(0)`;
* dropping the `Reader`: logs, changes nothing;
* reads after a reset: `Err(Reset)`.

`rfix = true`: `Recv::recv_reset` additionally refuses a final size beyond `max_stream_data`
(FLOW_CONTROL_ERROR) — the current tree (fix-C11-reset-limit); `rfix = false` is the tree before that fix,
kept to state what the fix excludes. -/

structure Rcvr where
  half : RecvHalf
  stopped : Option Nat := none   -- `stop_state`
  rst : Option Nat := none       -- `Recver::ResetRcvd` / `ResetRead`: final size of the RESET_STREAM
  readerGone : Bool := false     -- ghost: the `Reader` was dropped
  charged : Nat := 0             -- ghost: Σ of the amounts handed to `on_new_rcvd` for this stream
  stops : Nat := 0               -- ghost: STOP_SENDING frames emitted
deriving Repr

def Rcvr.mk0 (w : Nat) : Rcvr := { half := RecvHalf.mk0 w }

/-- Still in `DataStreams::input` (`Recv` or `SizeKnown`)? -/
def Rcvr.live (r : Rcvr) : Bool := r.rst.isNone && r.half.phase != .done

/-- `DataStreams::recv_data` for this stream. -/
def Rcvr.rx (fixed : Bool) (r : Rcvr) (off len : Nat) (fin : Bool) : Rcvr × RxObs :=
  if r.rst.isSome then (r, .fresh 0)   -- removed from the input set by the RESET_STREAM: `Ok(0)`
  else
    let res := r.half.rx fixed off len fin
    match res.2 with
    | .fresh n => ({ r with half := res.1, charged := r.charged + n }, .fresh n)
    | o => ({ r with half := res.1 }, o)

inductive RstObs
  | sync (n : Nat)      -- `Ok(sync_fresh_data)`
  | finalSize
  | flowControl
deriving Repr, DecidableEq

/-- `DataStreams::recv_stream_control(RESET_STREAM)` for this stream. -/
def Rcvr.reset (rfix : Bool) (r : Rcvr) (final : Nat) : Rcvr × RstObs :=
  if r.rst.isSome then (r, .sync 0) else
  match r.half.phase with
  | .recv =>
    if final < r.half.largest then (r, .finalSize)
    else if rfix ∧ final > r.half.msd then (r, .flowControl)
    else ({ r with rst := some final, charged := r.charged + (final - r.half.largest) },
          .sync (final - r.half.largest))
  | .sizeKnown fs =>
    if final ≠ fs then (r, .finalSize) else ({ r with rst := some final }, .sync 0)
  | .done => (r, .sync 0)

/-- `Reader::stop(code)`: is a STOP_SENDING frame emitted? -/
def Rcvr.stop (r : Rcvr) (code : Nat) : Rcvr × Bool :=
  if r.rst.isSome then (r, false) else
  match r.half.phase with
  | .done => (r, false)
  | _ => if r.stopped.isSome then (r, false)
         else ({ r with stopped := some code, stops := r.stops + 1 }, true)

inductive RdObs
  | half (o : ReadObs)
  | resetErr
deriving Repr, DecidableEq

/-- `Reader::poll_read`. -/
def Rcvr.read (r : Rcvr) (cap : Nat) : Rcvr × RdObs :=
  if r.rst.isSome then (r, .resetErr)
  else
    let res := r.half.read cap
    ({ r with half := res.1 }, .half res.2)

/-- `Reader::poll_next`. -/
def Rcvr.next (r : Rcvr) : Rcvr × RdObs :=
  if r.rst.isSome then (r, .resetErr)
  else
    let res := r.half.next
    ({ r with half := res.1 }, .half res.2)

/-- Everything that can happen to a receiving half. -/
inductive AOp where
  | rx (off len : Nat) (fin : Bool)
  | read (cap : Nat)
  | next
  | stop (code : Nat)
  | reset (final : Nat)
  | dropReader
deriving Repr

def Rcvr.step (fixed rfix : Bool) (r : Rcvr) : AOp → Rcvr
  | .rx off len fin => (r.rx fixed off len fin).1
  | .read cap => (r.read cap).1
  | .next => r.next.1
  | .stop code => (r.stop code).1
  | .reset final => (r.reset rfix final).1
  | .dropReader => { r with readerGone := true }

def Rcvr.run (fixed rfix : Bool) (w : Nat) (ops : List AOp) : Rcvr :=
  ops.foldl (Rcvr.step fixed rfix) (Rcvr.mk0 w)

/-! ## the whole sending state machine (`Sender`) with cancel / STOP_SENDING

`Writer::cancel` and `Outgoing::be_stopped` (STOP_SENDING from the peer) move `Ready`/`Sending`/
`DataSent` to `ResetSent` and announce `final_size` = `sndbuf.sent()` (`written()` in `DataSent`, where
the two are equal) in a RESET_STREAM; afterwards `try_load_data_into` returns `Err` (no frame, nothing
charged), `update_window` and `write` do nothing. -/

structure Sndr where
  half : SendHalf
  rst : Option Nat := none   -- `Sender::ResetSent` / `ResetRcvd`: the final size announced
deriving Repr

def Sndr.init (w : Nat) : Sndr := { half := SendHalf.init w }

def Sndr.emit (s : Sndr) (a b : Nat) (fin : Bool) (avail : Nat) : Option (Sndr × Nat) :=
  if s.rst.isSome then none
  else match s.half.emit a b fin avail with
    | some (h', c) => some ({ s with half := h' }, c)
    | none => none

/-- `cancel` / `be_stopped`: the RESET_STREAM final size, `none` when already reset. -/
def Sndr.resetNow (s : Sndr) : Sndr × Option Nat :=
  if s.rst.isSome then (s, none)
  else
    let f := if s.half.finSent then s.half.written else s.half.sentHi
    ({ s with rst := some f }, some f)

def Sndr.updateWindow (s : Sndr) (m : Nat) : Sndr :=
  if s.rst.isSome then { s with half := { s.half with granted := max s.half.granted m } }
  else { s with half := s.half.updateWindow m }

inductive TOp where
  | half (op : SOp)
  | cancel
  | stopSending
deriving Repr

def Sndr.step (s : Sndr) : TOp → Sndr
  | .half (.msd m) => s.updateWindow m
  | .half (.emit a b fin avail) =>
    match s.emit a b fin avail with
    | some (s', _) => s'
    | none => s
  | .half op => if s.rst.isSome then s else { s with half := s.half.step op }
  | .cancel => s.resetNow.1
  | .stopSending => s.resetNow.1

def Sndr.run (w : Nat) (ops : List TOp) : Sndr := ops.foldl Sndr.step (Sndr.init w)

def grantedOfT (w : Nat) (ops : List TOp) : Nat :=
  ops.foldl (fun g op => match op with | .half (.msd m) => max g m | _ => g) w

/-! ## one packet-assembly step against the connection controller -/

/-- `DataStreams::try_load_data_into_once` as far as the connection credit is concerned:
`credit(cap)`, `post_sent(charge)`, drop. `none` = the lock got poisoned / closed. -/
def loadCtl (c : SendCtl) (cap charge : Nat) : SendCtl :=
  let (c1, o) := c.step (.credit cap)
  match o with
  | .credit _ _ =>
    let k := c1.credits.length - 1
    let (c2, _) := c1.step (.post k charge)
    (c2.step (.drop k)).1
  | _ => c1

/-- Credit available to the assembler: `min(max_data - sent_data, cap)`. -/
def availFor (c : SendCtl) (cap : Nat) : Nat := min (c.max - c.sent) cap

end GmQuic.StreamWindow
