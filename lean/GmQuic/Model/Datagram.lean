import GmQuic.Model.Wire
/-!
C19 — executable model of the unreliable-datagram path (RFC 9221) of gm-quic, transliterated
branch by branch from

* `qdatagram/src/writer.rs`  `DatagramOutgoing::{new_writer, try_load_data_into, on_conn_error}`,
                             `DatagramWriter::send_bytes`
* `qdatagram/src/reader.rs`  `DatagramIncoming::{new_reader, recv_datagram, on_conn_error}`,
                             `DatagramReader::poll_recv`
* `qbase/src/frame/datagram.rs` `DatagramFrame::encoding_size`, `put_data_frame`, `datagram_frame_with_flag`
* `qbase/src/frame/io.rs`    `complete_frame` (`FrameType::Datagram` arm), `be_frame`
* `qbase/src/packet/io.rs`   `Package::dump` for `(DatagramFrame, D)` (the space check before writing)

Core-only (linked into the native driver).  The model follows the code that exists, including the
places where it differs from RFC 9221 (see `docs/C19.md`).
-/
namespace GmQuic.Datagram
open GmQuic.Wire

/-! ## frame codec -/

/-- `VARINT_MAX + 1`: `VarInt::try_from(len)` fails from here on. -/
def varintLimit : Nat := 2 ^ 62

/-- `DatagramFrame::encoding_size` — the frame *header*: type byte + optional length varint. -/
def hdrSize (withLen : Bool) (len : Nat) : Nat :=
  1 + (if withLen then varintSize len else 0)

/-- `DatagramFrame::max_encoding_size`. -/
def hdrMax : Nat := 1 + 8

/-- frame type number: `FrameType::Datagram(flag) => 0x30 | flag`. -/
def frameType (withLen : Bool) : Nat := if withLen then 0x31 else 0x30

/-- `put_data_frame`: `put_frame_type` (a varint), optional `put_varint(len)`, `put_data`. -/
def encFrame (withLen : Bool) (payload : Bytes) : Bytes :=
  encVarint (frameType withLen) ++ (if withLen then encVarint payload.length else []) ++ payload

/-- what the loader writes into the packet: `put_bytes(0, pad)` then the frame. -/
def encLoaded (pad : Nat) (withLen : Bool) (payload : Bytes) : Bytes :=
  List.replicate pad (0 : UInt8) ++ encFrame withLen payload

/-- the frames the receive side of this model understands -/
inductive Frame where
  | padding
  | datagram (withLen : Bool) (payload : Bytes)
  deriving Repr, DecidableEq, Inhabited

inductive DecErr where
  /-- `be_frame_type` / `be_varint` ran out of input -/
  | incompleteType
  /-- `nom::Err::Incomplete` inside `complete_frame` → `Error::IncompleteFrame` -/
  | incompleteFrame
  /-- any frame type other than PADDING / DATAGRAM: outside this model -/
  | otherType (ty : Nat)
  deriving Repr, DecidableEq, Inhabited

/-- `be_frame` restricted to PADDING and DATAGRAM: the decoded frame and the unconsumed rest. -/
def decFrame (bs : Bytes) : Except DecErr (Frame × Bytes) :=
  match decVarint bs with
  | none => .error .incompleteType
  | some (ty, rest) =>
    if ty = 0x00 then .ok (.padding, rest)
    else if ty = 0x30 then
      -- no length: the data is the rest of the packet, nothing remains
      .ok (.datagram false rest, [])
    else if ty = 0x31 then
      match decVarint rest with
      | none => .error .incompleteFrame
      | some (len, rest') =>
        if len > rest'.length then .error .incompleteFrame
        else .ok (.datagram true (rest'.take len), rest'.drop len)
    else .error (.otherType ty)

/-- `FrameReader` iterated to the end of the payload (fuel = payload length; every successful
`be_frame` consumes at least the type byte).  Frames decoded before an error are kept: the receive
path dispatches frames as the iterator yields them. -/
def decAllFuel : Nat → Bytes → List Frame × Option DecErr
  | 0, bs => ([], if bs.isEmpty then none else some .incompleteType)
  | fuel + 1, bs =>
    if bs.isEmpty then ([], none)
    else match decFrame bs with
      | .error e => ([], some e)
      | .ok (f, rest) =>
        let (fs, e) := decAllFuel fuel rest
        (f :: fs, e)

def decAll (bs : Bytes) : List Frame × Option DecErr := decAllFuel bs.length bs

/-! ## sending side -/

/-- connection-level error stored by `on_conn_error` (only the kind is observable here) -/
inductive ConnErr where
  | protocolViolation
  | other
  deriving Repr, DecidableEq, Inhabited

/-- `Arc<Mutex<Result<RawDatagramWriter, Error>>>` -/
structure Sender where
  queue : List Bytes := []
  closed : Option ConnErr := none
  deriving Repr, DecidableEq, Inhabited

inductive WriterRes where
  | ok
  /-- `io::ErrorKind::Unsupported`: the peer advertised `max_datagram_frame_size = 0` -/
  | unsupported
  /-- the connection error (`io::ErrorKind::BrokenPipe`) -/
  | closed (e : ConnErr)
  deriving Repr, DecidableEq, Inhabited

/-- `DatagramOutgoing::new_writer(max_datagram_frame_size)` -/
def newWriter (s : Sender) (peerMax : Nat) : WriterRes :=
  match s.closed with
  | some e => .closed e
  | none => if peerMax = 0 then .unsupported else .ok

inductive SendRes where
  | queued
  /-- `io::ErrorKind::InvalidInput`: `1 + len_size + data.len() > max_datagram_frame_size` -/
  | refused
  | closed (e : ConnErr)
  deriving Repr, DecidableEq, Inhabited

/-- `DatagramWriter::send_bytes` for a writer created with the peer's limit `peerMax`. -/
def send (peerMax : Nat) (s : Sender) (data : Bytes) : Sender × SendRes :=
  match s.closed with
  | some e => (s, .closed e)
  | none =>
    -- the LARGEST encoding decides (fix-C19-frame-size-admission): `1 + varint(len) + len`, where
    -- `VarInt::try_from(len).map_or(8, encoding_size)` is `varintSize len` (8 from 2^30 on)
    if 1 + varintSize data.length + data.length > peerMax then (s, .refused)
    else ({ s with queue := s.queue ++ [data] }, .queued)

inductive LoadRes where
  /-- `Err(Signals::empty())`: connection closed -/
  | closed
  /-- `Err(Signals::TRANSPORT)`: nothing queued -/
  | empty
  /-- `Err(Signals::CONGESTION)`: the head datagram does not fit; it stays queued -/
  | noRoom
  /-- `Ok(())`: `pad` PADDING bytes, then one DATAGRAM frame -/
  | wrote (pad : Nat) (withLen : Bool) (payload : Bytes)
  /-- an `unwrap()` in the function would fire -/
  | panic (site : String)
  deriving Repr, DecidableEq, Inhabited

/-- the space test of `Package::dump` for `(DatagramFrame, D)`: header only, data not counted -/
def dumpHasRoom (remaining : Nat) (withLen : Bool) (len : Nat) : Bool :=
  remaining ≥ hdrMax || remaining ≥ hdrSize withLen len

/-- `DatagramOutgoing::try_load_data_into(packet)` with `packet.remaining_mut() = remaining`. -/
def tryLoad (remaining : Nat) (s : Sender) : Sender × LoadRes :=
  match s.closed with
  | some _ => (s, .closed)
  | none =>
    match s.queue with
    | [] => (s, .empty)
    | data :: rest =>
      let available := remaining
      let maxEnc := available - data.length          -- saturating_sub
      if maxEnc = 0 then (s, .noRoom)
      else
        let s' := { s with queue := rest }             -- pop_front
        if data.length ≥ varintLimit then (s', .panic "VarInt::try_from(len).unwrap")
        else if maxEnc ≥ hdrSize true data.length then
          -- encode length
          if dumpHasRoom available true data.length then (s', .wrote 0 true data)
          else (s', .panic "dump(with_len).unwrap")
        else
          -- no length, pad in front so that the frame ends the packet
          let pad := maxEnc - hdrSize false data.length
          if dumpHasRoom (available - pad) false data.length then (s', .wrote pad false data)
          else (s', .panic "dump(without_len).unwrap")

def Sender.onConnError (s : Sender) (e : ConnErr) : Sender :=
  match s.closed with
  | some _ => s
  | none => { queue := [], closed := some e }

/-! ## receiving side -/

/-- `Arc<Mutex<Result<RawDatagarmReader, Error>>>` -/
structure Receiver where
  localMax : Nat
  queue : List Bytes := []
  /-- `read_waker.is_some()` -/
  waker : Bool := false
  closed : Option ConnErr := none
  deriving Repr, DecidableEq, Inhabited

inductive ReaderRes where
  | ok
  | unsupported
  | closed (e : ConnErr)
  deriving Repr, DecidableEq, Inhabited

/-- `DatagramIncoming::new_reader` -/
def newReader (r : Receiver) : ReaderRes :=
  match r.closed with
  | some e => .closed e
  | none => if r.localMax = 0 then .unsupported else .ok

inductive RecvRes where
  /-- queued; `wake` = a parked reader was woken -/
  | ok (wake : Bool)
  /-- `ErrorKind::ProtocolViolation` -/
  | protocolViolation
  | closed (e : ConnErr)
  deriving Repr, DecidableEq, Inhabited

/-- `DatagramIncoming::recv_datagram(frame, data)`; `frame.len` is `len` (what `be_frame` put there:
the decoded length field, or the rest of the packet for the no-length form). -/
def recvDatagram (r : Receiver) (withLen : Bool) (len : Nat) (data : Bytes) : Receiver × RecvRes :=
  match r.closed with
  | some e => (r, .closed e)
  | none =>
    if hdrSize withLen len + data.length > r.localMax then (r, .protocolViolation)
    else ({ r with queue := r.queue ++ [data], waker := false }, .ok r.waker)

inductive ReadRes where
  | dgram (payload : Bytes)
  | pending
  | closed (e : ConnErr)
  deriving Repr, DecidableEq, Inhabited

/-- `DatagramReader::poll_recv` -/
def read (r : Receiver) : Receiver × ReadRes :=
  match r.closed with
  | some e => (r, .closed e)
  | none =>
    match r.queue with
    | d :: rest => ({ r with queue := rest }, .dgram d)
    | [] => ({ r with waker := true }, .pending)

/-- `DatagramIncoming::on_conn_error`; the Bool = a parked reader was woken -/
def Receiver.onConnError (r : Receiver) (e : ConnErr) : Receiver × Bool :=
  match r.closed with
  | some _ => (r, false)
  | none => ({ r with queue := [], waker := false, closed := some e }, r.waker)

/-- feed one decoded frame to the receiving flow (what the `pipe` task of `space.rs` does) -/
def recvFrame (r : Receiver) : Frame → Receiver × Option RecvRes
  | .padding => (r, none)
  | .datagram withLen payload =>
    let (r', res) := recvDatagram r withLen payload.length payload
    (r', some res)

/-! ## packets: what one assembly pass writes, and what the receive path does with it -/

/-- one successful `try_load_data_into`: `pad` PADDING bytes and one DATAGRAM frame -/
structure Loaded where
  pad : Nat
  withLen : Bool
  payload : Bytes
  deriving Repr, DecidableEq, Inhabited

def Loaded.enc (l : Loaded) : Bytes := encLoaded l.pad l.withLen l.payload
def Loaded.size (l : Loaded) : Nat := l.pad + hdrSize l.withLen l.payload.length + l.payload.length

/-- the part of a packet payload written by the datagram loader -/
abbrev Pkt := List Loaded

def encPkt (p : Pkt) : Bytes := p.flatMap Loaded.enc

/-- `Repeat`-style use of the loader on one packet: call `try_load_data_into` up to `calls` times
while it succeeds, the space shrinking by what was written.  The `Option` is the non-`Ok` answer
that ended the loop (`none`: call budget used up). -/
def loadN : Nat → Nat → Sender → Sender × Pkt × Option LoadRes
  | 0, _, s => (s, [], none)
  | calls + 1, remaining, s =>
    match tryLoad remaining s with
    | (s', .wrote pad wl d) =>
      let l : Loaded := ⟨pad, wl, d⟩
      let (s'', p, e) := loadN calls (remaining - l.size) s'
      (s'', l :: p, e)
    | (s', r) => (s', [], some r)

/-- Dispatch decoded frames to the receiving flow the way the `pipe` task of
`qconnection/src/space.rs` does: in order, stopping at the first error.  Returns what each
dispatched frame answered. -/
def feed (r : Receiver) : List Frame → Receiver × List (Frame × Option RecvRes)
  | [] => (r, [])
  | f :: fs =>
    match recvFrame r f with
    | (r', none) => let (r'', out) := feed r' fs; (r'', (f, none) :: out)
    | (r', some (.ok w)) => let (r'', out) := feed r' fs; (r'', (f, some (.ok w)) :: out)
    | (r', some res) => (r', [(f, some res)])

/-- payloads the receiving flow accepted -/
def okPayloads : List (Frame × Option RecvRes) → List Bytes
  | [] => []
  | (.datagram _ d, some (.ok _)) :: rest => d :: okPayloads rest
  | _ :: rest => okPayloads rest

def sawPV (out : List (Frame × Option RecvRes)) : Bool :=
  out.any fun x => x.2 == some .protocolViolation

/-! ## histories: one sending flow, a lossy / reordering network, one receiving flow -/

inductive Op where
  /-- application hands a datagram to `DatagramWriter::send_bytes` -/
  | send (data : Bytes)
  /-- packet assembly: a packet with `remaining` bytes of room, the loader called ≤ `calls` times -/
  | load (remaining calls : Nat)
  /-- the network delivers in-flight packet number `k` (0 = oldest) -/
  | deliver (k : Nat)
  /-- the network loses in-flight packet number `k` -/
  | drop (k : Nat)
  /-- application polls `DatagramReader::poll_recv` -/
  | read
  /-- connection error on the sending / receiving endpoint -/
  | errSnd (e : ConnErr)
  | errRcv (e : ConnErr)
  deriving Repr, DecidableEq, Inhabited

inductive Obs where
  | send (r : SendRes)
  | load (p : Pkt) (e : Option LoadRes)
  | deliver (out : List (Frame × Option RecvRes)) (derr : Option DecErr) (wake : Bool)
  | noPacket
  | dropped
  | read (r : ReadRes)
  | err (wake : Bool)
  deriving Repr, Inhabited

structure Run where
  peerMax : Nat := 0
  snd : Sender := {}
  rcv : Receiver := { localMax := 0 }
  /-- packets in flight, oldest first -/
  net : List Pkt := []
  /-- ghost: datagrams accepted by `send`, in order -/
  accepted : List Bytes := []
  /-- ghost: packets put on the wire, in order -/
  wire : List Pkt := []
  /-- ghost: packets handed to the receiver, in delivery order -/
  delivered : List Pkt := []
  /-- ghost: packets lost -/
  lost : List Pkt := []
  /-- ghost: payloads the receiving flow queued, in order -/
  arrived : List Bytes := []
  /-- ghost: what the application read, in order -/
  readLog : List Bytes := []
  deriving Repr, Inhabited

def Run.config (peerMax localMax : Nat) : Run :=
  { peerMax := peerMax, rcv := { localMax := localMax } }

def Run.stepObs (r : Run) : Op → Run × Obs
  | .send d =>
    let (s', res) := send r.peerMax r.snd d
    ({ r with snd := s', accepted := if res = .queued then r.accepted ++ [d] else r.accepted }, .send res)
  | .load remaining calls =>
    let (s', p, e) := loadN calls remaining r.snd
    if p.isEmpty then ({ r with snd := s' }, .load p e)
    else ({ r with snd := s', net := r.net ++ [p], wire := r.wire ++ [p] }, .load p e)
  | .deliver k =>
    match r.net[k]? with
    | none => (r, .noPacket)
    | some p =>
      let (frames, derr) := decAll (encPkt p)
      let (rc, out) := feed r.rcv frames
      -- `pipe` turns a QUIC error into `Event::Failed`; the connection then calls `on_conn_error`
      let (rc', wake) := if sawPV out then rc.onConnError .protocolViolation else (rc, false)
      ({ r with rcv := rc', net := r.net.eraseIdx k, delivered := r.delivered ++ [p],
                arrived := r.arrived ++ okPayloads out }, .deliver out derr wake)
  | .drop k =>
    match r.net[k]? with
    | none => (r, .noPacket)
    | some p => ({ r with net := r.net.eraseIdx k, lost := r.lost ++ [p] }, .dropped)
  | .read =>
    let (rc, res) := read r.rcv
    ({ r with rcv := rc, readLog := match res with | .dgram d => r.readLog ++ [d] | _ => r.readLog }, .read res)
  | .errSnd e => ({ r with snd := r.snd.onConnError e }, .err false)
  | .errRcv e =>
    let (rc, wake) := r.rcv.onConnError e
    ({ r with rcv := rc }, .err wake)

def Run.step (r : Run) (op : Op) : Run := (r.stepObs op).1

def run (peerMax localMax : Nat) (ops : List Op) : Run :=
  ops.foldl Run.step (Run.config peerMax localMax)

/-! ## integration: what `Components::packages()` offers to the packet assembler
(`qconnection/src/path/burst.rs`, `impl Components { fn packages }`): the 0-RTT sources are
`Repeat(reliable_frames)`, `Repeat(data_streams.package(..))`, `// TODO: datagram`; the 1-RTT sources
are the crypto stream, `Repeat(reliable_frames)`, `Repeat(data_streams.package(..))` and — since
fix-C19-offer-datagrams — `Repeat(datagram_flow)` as the LAST source (`impl Package for DatagramFlow`,
qdatagram/src/lib.rs: one `dump` = one `try_load_data_into`, `Ok(EffectivePayload)`). -/

inductive Source where
  | crypto | reliableFrames | streams | datagrams
  deriving Repr, DecidableEq, Inhabited

def zeroRttSources : List Source := [.reliableFrames, .streams]
def oneRttSources : List Source := [.crypto, .reliableFrames, .streams, .datagrams]

/-- the datagram part of one assembly pass that has `remaining` bytes left for it (`Repeat`: the
loader is called until it answers `Err`; `remaining + 1` calls always suffice, each `Ok` writes
at least one byte) -/
def assembleDatagrams (sources : List Source) (remaining : Nat) (s : Sender) : Sender × Pkt :=
  if sources.contains .datagrams then
    let (s', p, _) := loadN (remaining + 1) remaining s
    (s', p)
  else (s, [])

end GmQuic.Datagram
