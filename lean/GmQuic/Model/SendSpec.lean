/-!
C09 — *specification layer* of the send buffer (`qrecovery/src/send/sndbuf.rs`, `SendBuf` + `BufMap`).

State: one colour per stream offset (`Color::{Pending, Flighting, Lost, Recved}`; the vocabulary of C01's
`Stream.BSt` is `unsent/inflight/lost/acked`), the coloured prefix `size` (`BufMap.1`, always
`min written max_data`), every byte ever written, the peer's window `maxData` and `base` (`SendBuf::offset`:
the data queue only retains bytes from `base` upwards).

`ack`, `lose`, `write`, `extend`, `resend`, `forget` are functions.  `pick_up` has legitimate freedom (how long
the returned range is, where a run is split), so it is a *relation* `pickOk`: the property theorems
(`Props/C09.lean`) are proved for every behaviour the relation allows; the correspondence run checks every
`pick_up` of the real code against `pickOk` and the index-juggling transliteration (`Model/BufMap.lean`) is proved
to stay inside it (`Lemmas/BufMapRefine.lean`).

Core-only imports (linked into the native driver).
-/
namespace GmQuic.SendSpec

/-- `enum Color` of `sndbuf.rs`. -/
inductive Colour | pending | flighting | lost | recved
deriving DecidableEq, Repr, Inhabited

/-- recolour `[a, b)` by `g`. -/
def setRange (f : Nat → Colour) (a b : Nat) (g : Colour → Colour) : Nat → Colour :=
  fun x => if a ≤ x ∧ x < b then g (f x) else f x

/-- effect of a loss report on one byte: only `Flighting` becomes `Lost`. -/
def lostOf : Colour → Colour
  | .flighting => .lost
  | c => c

/-- `least p n` = the least `x < n` with `p x`, or `n` when there is none. -/
def least (p : Nat → Bool) : Nat → Nat
  | 0 => 0
  | n + 1 =>
    let k := least p n
    if k < n then k else if p n then n else n + 1

structure SendSpec where
  colour : Nat → Colour := fun _ => .pending
  /-- coloured prefix (`BufMap::size`) -/
  size : Nat := 0
  /-- every byte ever written (`written() = data.length`) -/
  data : List UInt8 := []
  /-- `SendBuf::max_data` -/
  maxData : Nat := 0
  /-- `SendBuf::offset`: bytes below `base` have been released -/
  base : Nat := 0

/-- `SendBuf::with_capacity(cap)` -/
def SendSpec.init (cap : Nat) : SendSpec := { maxData := cap }

def SendSpec.written (s : SendSpec) : Nat := s.data.length

/-- the byte value the buffer can still produce at offset `x` (`none` = released / never written) -/
def SendSpec.byte (s : SendSpec) (x : Nat) : Option UInt8 := if s.base ≤ x then s.data[x]? else none

/-- `pick` looks at offsets below `min size send_window_size` -/
def SendSpec.win (s : SendSpec) : Nat := min s.size s.maxData

/-- `SendBuf::sent()`: first `Pending` offset of the coloured prefix -/
def SendSpec.sent (s : SendSpec) : Nat := least (fun x => s.colour x == .pending) s.size

/-- `SendBuf::is_all_rcvd()` (`data.is_empty()`: the queue is drained exactly when `offset = written`) -/
def SendSpec.allRcvd (s : SendSpec) : Prop := s.base = s.data.length

instance (s : SendSpec) : Decidable s.allRcvd := by unfold SendSpec.allRcvd; infer_instance

/-- `write(data)`: an empty write does nothing; otherwise the coloured prefix grows to `min written max_data`
(new bytes are `Pending`: the colour function is `pending` beyond `size` by invariant). -/
def SendSpec.write (s : SendSpec) (bs : List UInt8) : SendSpec :=
  if bs.isEmpty then s else
  { s with data := s.data ++ bs, size := min (s.data.length + bs.length) s.maxData }

/-- `extend(max_data)` (precondition `maxData ≤ m`, a `debug_assert`). -/
def SendSpec.extend (s : SendSpec) (m : Nat) : SendSpec :=
  { s with maxData := m, size := min s.data.length m }

/-- first offset of the coloured prefix that is not `Recved` (`BufMap::shift`) -/
def firstUnrecved (c : Nat → Colour) (size : Nat) : Nat := least (fun x => c x != .recved) size

/-- `on_data_acked(a..b)`: the range becomes `Recved`; `offset` advances to the first non-`Recved` byte. -/
def SendSpec.ack (s : SendSpec) (a b : Nat) : SendSpec :=
  let c := setRange s.colour a b (fun _ => .recved)
  { s with colour := c, base := max s.base (firstUnrecved c s.size) }

/-- `may_loss_data(a..b)`: `Flighting` bytes of the range become `Lost`, `Lost` and `Recved` stay. -/
def SendSpec.lose (s : SendSpec) (a b : Nat) : SendSpec :=
  { s with colour := setRange s.colour a b lostOf }

/-- `resend_flighting()` -/
def SendSpec.resend (s : SendSpec) : SendSpec :=
  { s with colour := fun x => lostOf (s.colour x) }

/-- `forget_sent_state()`: all colours forgotten, window reset to 0 (`offset` and the data queue stay). -/
def SendSpec.forget (s : SendSpec) : SendSpec :=
  { s with colour := fun _ => .pending, size := 0, maxData := 0 }

/-! ### `pick_up` as a relation -/

/-- offset `x` can be offered: `Lost`, or `Pending` when the connection-level flow limit is not zero. -/
def SendSpec.cand (s : SendSpec) (flow : Nat) (x : Nat) : Bool :=
  s.colour x == .lost || (s.colour x == .pending && decide (0 < flow))

/-- the least offerable offset inside the window, or `win` when there is none -/
def SendSpec.firstCand (s : SendSpec) (flow : Nat) : Nat := least (s.cand flow) s.win

inductive SendObs
  | unit
  | none
  | range (a b : Nat) (fresh : Bool)
deriving DecidableEq, Repr

/-- What `pick_up(pred, flow)` may answer in state `s`.
`range a b fresh`: non-empty, inside the window, starts at the least offerable offset (so `Lost` bytes come
before fresh ones), uniformly coloured `Pending` or `Lost`, not longer than the predicate's allowance at `a`
(and than `flow` for fresh data), `fresh` exactly when the colour is `Pending`.
`none`: there is nothing offerable inside the window or the predicate refuses the least offerable offset. -/
def pickOk (s : SendSpec) (pred : Nat → Option Nat) (flow : Nat) : SendObs → Prop
  | .range a b fresh =>
    a = s.firstCand flow ∧ a < s.win ∧ a < b ∧ b ≤ s.win ∧
    (∀ x, x < b → a ≤ x → s.colour x = s.colour a) ∧
    (match pred a with | some n => b - a ≤ n | none => False) ∧
    fresh = (s.colour a == .pending) ∧
    (s.colour a = .pending → b - a ≤ flow)
  | .none => s.firstCand flow = s.win ∨ pred (s.firstCand flow) = none
  | .unit => False

instance (s : SendSpec) (pred : Nat → Option Nat) (flow : Nat) (o : SendObs) : Decidable (pickOk s pred flow o) := by
  cases o <;> simp only [pickOk] <;> try infer_instance
  · split <;> infer_instance

/-- state after the observation of a `pick_up` -/
def SendSpec.picked (s : SendSpec) : SendObs → SendSpec
  | .range a b _ => { s with colour := setRange s.colour a b (fun _ => .flighting) }
  | _ => s

/-! ### operations, traces -/

inductive SendOp
  | write (bs : List UInt8)
  | extend (m : Nat)
  | pick (pred : Nat → Option Nat) (flow : Nat)
  | ack (a b : Nat)
  | lose (a b : Nat)
  | resend
  | forget

/-- a predicate never grants an empty allowance (both predicates in the code base,
`StreamFrame::estimate_max_capacity` and `CryptoFrame::estimate_max_capacity`, return `None` instead) and its
allowance fits the `u64` addition `start + allowance` of `BufMap::pick` -/
def PredDom (pred : Nat → Option Nat) : Prop := ∀ x n, pred x = some n → 0 < n ∧ n < 2 ^ 63

/-- an acknowledgement / loss report names a non-empty range of bytes that have been offered
(`debug_assert`s of `ack_rcvd` / `may_loss`: no `Pending` byte inside, not beyond the coloured prefix) -/
def RangeDom (s : SendSpec) (a b : Nat) : Prop :=
  a < b ∧ b ≤ s.size ∧ ∀ x, a ≤ x → x < b → s.colour x ≠ .pending

/-- One legal step of the specification: the operation, what the buffer answered, the next state.
Domain conditions: stream offsets stay below 2^62 (varint), `extend` never shrinks the window, ack/loss ranges
are `RangeDom`, `forget` (0-RTT rejected) happens only while nothing has been released (`base = 0`: a server that
rejects 0-RTT cannot have acknowledged 0-RTT data). -/
def stepOk (s : SendSpec) : SendOp → SendObs → SendSpec → Prop
  | .write bs, .unit, s' => s.data.length + bs.length < 2 ^ 62 ∧ s' = s.write bs
  | .extend m, .unit, s' => s.maxData ≤ m ∧ s' = s.extend m
  | .pick pred flow, o, s' => PredDom pred ∧ pickOk s pred flow o ∧ s' = s.picked o
  | .ack a b, .unit, s' => RangeDom s a b ∧ s' = s.ack a b
  | .lose a b, .unit, s' => RangeDom s a b ∧ s' = s.lose a b
  | .resend, .unit, s' => s' = s.resend
  | .forget, .unit, s' => s.base = 0 ∧ s' = s.forget
  | _, _, _ => False

/-- `Trace.Ok s₀ tr s`: `tr` is a history of operations with the buffer's answers, leading from `s₀` to `s`
by legal steps. -/
inductive Trace.Ok : SendSpec → List (SendOp × SendObs) → SendSpec → Prop
  | nil (s) : Trace.Ok s [] s
  | snoc {s₀ tr s op obs s'} : Trace.Ok s₀ tr s → stepOk s op obs s' → Trace.Ok s₀ (tr ++ [(op, obs)]) s'

/-- all bytes written during a history, in order -/
def writtenBytes : List (SendOp × SendObs) → List UInt8
  | [] => []
  | (.write bs, _) :: tr => bs ++ writtenBytes tr
  | _ :: tr => writtenBytes tr

/-- the ranges reported as fresh (new) data during a history -/
def freshRanges : List (SendOp × SendObs) → List (Nat × Nat)
  | [] => []
  | (_, .range a b true) :: tr => (a, b) :: freshRanges tr
  | _ :: tr => freshRanges tr

def NoForget (tr : List (SendOp × SendObs)) : Prop := ∀ e ∈ tr, match e.1 with | .forget => False | _ => True

/-- number of `Lost` bytes inside the window (termination measure of retransmission) -/
def lostCount (c : Nat → Colour) : Nat → Nat
  | 0 => 0
  | n + 1 => lostCount c n + (if c n = .lost then 1 else 0)

end GmQuic.SendSpec
