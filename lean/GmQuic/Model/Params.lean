import GmQuic.Gen.Params
import GmQuic.Model.Wire
/-!
C18 — transport parameters: executable model of

* `Parameters<Role>::set` = `ParameterId::belong_to` + derived `ParameterId::validate` (qbase/src/param/core.rs,
  qmacro/src/derive.rs) over the GENERATED table `Gen.Params.table`;
* `Parameters<Role>::get` (value or default, typed);
* `Parameters<Role>::parse_from_bytes` (qbase/src/param/io.rs) — with `repo_patches/fix-C18-parse-malformed.diff`
  every malformed value is an error (the pinned tree panics on several, DESIGN §7 #2–#4);
* `ServerParameters::is_0rtt_accepted`;
* the connection-level `Parameters` state machine (qbase/src/param.rs): `new_client/new_server`,
  `recv_remote_params`, `initial_scid_from_peer_need_equal`, `retry_scid_from_server_need_equal`,
  `authenticate_cids` (with `fix-C18-retry-scid.diff`), `poll_ready` + wakers, `is_remote_params_received/ready`,
  `remembered`, `negotiated_max_idle_timeout`; `ArcParameters::on_conn_error`; `IdleConfig::negotiate_max_idle_timeout`
  (qbase/src/time.rs).
Durations are whole milliseconds (the wire unit).  Core-only imports.
-/
namespace GmQuic.Params
open GmQuic.Gen.Params GmQuic.Wire

inductive Role | client | server
  deriving DecidableEq, Repr, Inhabited

def Role.peer : Role → Role
  | .client => .server
  | .server => .client

/-- `ParameterValue`. -/
inductive PVal
  | varint (n : Nat) | tru | bytes (b : Bytes) | dur (ms : Nat) | cid (b : Bytes) | token (b : Bytes) | pref (b : Bytes)
  deriving DecidableEq, Repr, Inhabited

def PVal.ty : PVal → Ty
  | .varint _ => .varint | .tru => .boolean | .bytes _ => .bytes | .dur _ => .duration
  | .cid _ => .connectionId | .token _ => .resetToken | .pref _ => .preferredAddress

/-- `ParameterId::try_from(VarInt)`: the row of a known id. -/
def row? (id : Nat) : Option Row := table.find? (fun r => r.id == id)

/-- `ParameterId::belong_to(role)`: `true` = `Ok(())`. -/
def belongTo (id : Nat) (r : Role) : Bool :=
  if serverOnly.contains id && r != .server then false
  else if clientOnly.contains id && r != .client then false
  else true

inductive SetErr | role | type | bounds
  deriving DecidableEq, Repr, Inhabited

/-- Is a number inside `lo..=hi`? -/
def inBound (b : Nat × Nat) (n : Nat) : Bool := b.1 ≤ n && n ≤ b.2

/-- Derived `ParameterId::validate` (qmacro `gen_validate`): no `bound` ⇒ nothing is checked (not even the
type); with a bound: the value must have the row's type (`InvalidValueType`), its number (`into_u64` /
`as_millis`) must be inside the range (`OutOfBounds`).  The derive refuses a bound on other types. -/
def validate (row : Row) (v : PVal) : Option SetErr :=
  match row.bound with
  | none => none
  | some b =>
    if v.ty != row.ty then some .type else
    match v with
    | .varint n => if inBound b n then none else some .bounds
    | .dur ms => if inBound b ms then none else some .bounds
    | _ => none

/-- `HashMap<ParameterId, ParameterValue>` as an association list (newest binding first, one per id). -/
abbrev PMap := List (Nat × PVal)

def PMap.insert (m : PMap) (id : Nat) (v : PVal) : PMap := (id, v) :: m.filter (fun e => e.1 != id)
def PMap.get? (m : PMap) (id : Nat) : Option PVal := (m.find? (fun e => e.1 == id)).map (·.2)
def PMap.has (m : PMap) (id : Nat) : Bool := m.any (fun e => e.1 == id)

/-- `Parameters<R>::set(id, value)` for a known id (`row`): `belong_to?; validate?; insert`. -/
def setRow (r : Role) (m : PMap) (row : Row) (v : PVal) : Except SetErr PMap :=
  if !belongTo row.id r then .error .role else
  match validate row v with
  | some e => .error e
  | none => .ok (m.insert row.id v)

/-- Does `set` accept (role, id, value)?  (`false` for an unknown id: `ParameterId::try_from` fails.) -/
def accepts (r : Role) (id : Nat) (v : PVal) : Bool :=
  match row? id with
  | none => false
  | some row => belongTo row.id r && v.ty == row.ty && (validate row v).isNone

def dfltVal : Ty × Nat → PVal
  | (.duration, n) => .dur n
  | (_, n) => .varint n

/-- `Parameters::get` before the typed conversion: the stored value, else the id's default. -/
def getVal (m : PMap) (id : Nat) : Option PVal :=
  match m.get? id with
  | some v => some v
  | none => (row? id).bind (fun row => row.dflt.map dfltVal)

def getVarint (m : PMap) (id : Nat) : Option Nat :=
  match getVal m id with | some (.varint n) => some n | _ => none
def getDur (m : PMap) (id : Nat) : Option Nat :=
  match getVal m id with | some (.dur n) => some n | _ => none
def getCid (m : PMap) (id : Nat) : Option Bytes :=
  match getVal m id with | some (.cid c) => some c | _ => none

/-! ## parse_from_bytes -/

/-- `be_parameter_value` + "the value consumes all its bytes" (fixed code: anything else is an error).
`none` = TRANSPORT_PARAMETER_ERROR. -/
def parseValue (ty : Ty) (inp : Bytes) : Option PVal :=
  match ty with
  | .varint => match decVarint inp with
    | some (n, []) => some (.varint n)
    | _ => none
  | .duration => match decVarint inp with
    | some (n, []) => some (.dur n)
    | _ => none
  | .boolean => if inp.isEmpty then some .tru else none
  | .bytes => some (.bytes inp)
  | .resetToken => if inp.length == 16 then some (.token inp) else none
  | .connectionId => if inp.length ≤ 20 then some (.cid inp) else none
  | .preferredAddress =>
    -- ipv4 4+2, ipv6 16+2, cid length byte (≤ 20), cid, reset token 16
    match inp.drop 24 with
    | [] => none
    | l :: rest => if l.toNat ≤ 20 && rest.length == l.toNat + 16 then some (.pref inp) else none

def required : Role → List Nat
  | .client => requiredClient
  | .server => requiredServer

/-- The `while !buf.is_empty()` loop of `parse_from_bytes` (fuel = an upper bound on the iterations; every
iteration consumes at least two bytes). -/
def parseLoop (r : Role) : Nat → Bytes → PMap → Option PMap
  | 0, _, _ => none
  | fuel + 1, buf, acc =>
    if buf.isEmpty then some acc else
    match decVarint buf with
    | none => none
    | some (id, b1) =>
      match decVarint b1 with
      | none => none
      | some (len, b2) =>
        if b2.length < len then none else
        match row? id with
        | none => parseLoop r fuel (b2.drop len) acc            -- unknown id: ignored
        | some row =>
          if !belongTo row.id r then none else
          match parseValue row.ty (b2.take len) with
          | none => none
          | some v =>
            match setRow r acc row v with
            | .error _ => none
            | .ok acc' => parseLoop r fuel (b2.drop len) acc'

/-- `Parameters<R>::parse_from_bytes`: `none` = `Err` (always kind TRANSPORT_PARAMETER_ERROR). -/
def parse (r : Role) (buf : Bytes) : Option PMap :=
  match parseLoop r (buf.length + 1) buf [] with
  | none => none
  | some m => if (required r).all m.has then some m else none

/-- `ServerParameters::is_0rtt_accepted(&self = remembered, new)`; `none` = `unreachable!` (a stored value of
the wrong type). -/
def zrttStep (old new : PMap) (acc : Option Bool) (id : Nat) : Option Bool :=
  match acc, getVarint old id, getVarint new id with
  | some a, some o, some n => some (a && decide (o ≤ n))
  | _, _, _ => none

def zeroRttAccepted (old new : PMap) : Option Bool :=
  zeroRttIds.foldl (zrttStep old new) (some true)

/-! ## idle timeout -/

/-- `Parameters::negotiated_max_idle_timeout` on two known values: `none` = `Duration::MAX` (disabled). -/
def negotiatedIdle (l r : Nat) : Option Nat :=
  if l == 0 && r == 0 then none
  else if l == 0 then some r
  else if r == 0 then some l
  else some (min l r)

/-- `IdleConfig::negotiate_max_idle_timeout(remote)`: new value of the `max_idle_timeout` field (0 = disabled). -/
def idleConfigNegotiate (l r : Nat) : Nat :=
  if r == 0 then l else if l == 0 then r else min l r

/-! ## the connection-level `Parameters` object -/

def idISCID : Nat := 15
def idODCID : Nat := 0
def idRSCID : Nat := 16
def idIdle : Nat := 1

/-- The part of `Parameters` that decides readiness (everything except wakers / remembered / local values). -/
structure Core where
  role : Role
  /-- the peer's parameter map; `[]` = `Arc::default()` = not received -/
  remote : PMap := []
  /-- `Requirements::Client::origin_dcid` -/
  odcid : Bytes := []
  initialScid : Option Bytes := none
  retryScid : Option Bytes := none
  /-- `state == CLIENT_READY | SERVER_READY` -/
  ready : Bool := false
  /-- `ArcParameters` turned into `Err` by `on_conn_error` -/
  dead : Bool := false
  /-- a panic happened while the `Mutex` of `ArcParameters` was held: every later `lock()` panics -/
  poisoned : Bool := false
  deriving Repr, Inhabited

def Core.received (s : Core) : Bool := !s.remote.isEmpty

inductive Op
  | recv (blob : Bytes)        -- lock_guard()? ; peer_role::parse_from_bytes(blob)? ; recv_remote_params(params)?
  | scid (c : Bytes)           -- initial_scid_from_peer_need_equal
  | retry (c : Bytes)          -- retry_scid_from_server_need_equal
  | poll                       -- poll_ready with a fresh waker
  | query                      -- observers only
  | connErr                    -- ArcParameters::on_conn_error
  deriving Repr, Inhabited, DecidableEq

inductive Obs
  | ok | errTP | errConn | panic (site : String) | pollReady | pollPending
  deriving Repr, Inhabited, DecidableEq

inductive Auth | notYet | ok | mismatch
  deriving DecidableEq, Repr

/-- `authenticate_cids`: `notYet` = `Ok(false)`, `ok` = `Ok(true)`, `mismatch` = `Err(TransportParameter)`;
`none` = `.expect("this value must be set")` panics (cannot happen for a map produced by `parse`). -/
def authenticate (s : Core) : Option Auth :=
  match s.initialScid with
  | none => some .notYet
  | some c =>
    match getCid s.remote idISCID with
    | none => none
    | some d =>
      if d != c then some .mismatch else
      match s.role with
      | .server => some .ok
      | .client =>
        if getCid s.remote idRSCID != s.retryScid then some .mismatch else
        match getCid s.remote idODCID with
        | none => none
        | some o => if o != s.odcid then some .mismatch else some .ok

def afterAuth (s : Core) : Core × Obs :=
  match authenticate s with
  | none => ({ s with poisoned := true }, .panic "authenticate_cids:expect")
  | some .notYet => (s, .ok)
  | some .ok => ({ s with ready := true }, .ok)
  | some .mismatch => (s, .errTP)

/-- One call on the shared `ArcParameters` (`lock_guard()?` first, as every caller does). -/
def cstep (s : Core) (op : Op) : Core × Obs :=
  if s.poisoned then (s, .panic "poisoned") else
  match op with
  | .connErr => ({ s with dead := true }, .ok)
  | .recv blob =>
    if s.dead then (s, .errConn) else
    match parse s.role.peer blob with
    | none => (s, .errTP)
    | some m =>
      if s.received then ({ s with poisoned := true }, .panic "recv_remote_params:assert_empty") else
      afterAuth { s with remote := m }
  | .scid c =>
    if s.dead then (s, .errConn) else
    match s.initialScid with
    | some _ => ({ s with initialScid := some c, poisoned := true }, .panic "initial_scid:assert_replace")
    | none =>
      let s := { s with initialScid := some c }
      if s.received then afterAuth s else (s, .ok)
  | .retry c =>
    if s.dead then (s, .errConn) else
    match s.role with
    | .client => ({ s with retryScid := some c }, .ok)
    | .server => ({ s with poisoned := true }, .panic "retry_scid:server")
  | .poll => if s.dead then (s, .errConn) else if s.ready then (s, .pollReady) else (s, .pollPending)
  | .query => if s.dead then (s, .errConn) else (s, .ok)

structure St where
  core : Core
  /-- local `max_idle_timeout` (ms; 0 when unset) -/
  localIdle : Nat := 0
  remembered : Bool := false
  /-- registered wakers / wakers woken so far -/
  wakers : Nat := 0
  wakes : Nat := 0
  deriving Repr, Inhabited

/-- `cstep` + the bookkeeping done at the two places where the state becomes READY
(`self.remembered.take(); self.wake_all()`) and in `poll_ready` (`wakers.push`). -/
def step (s : St) (op : Op) : St × Obs :=
  let r := cstep s.core op
  if r.1.ready && !s.core.ready then
    ({ s with core := r.1, remembered := false, wakes := s.wakes + s.wakers, wakers := 0 }, r.2)
  else if r.2 == .pollPending then ({ s with core := r.1, wakers := s.wakers + 1 }, r.2)
  else ({ s with core := r.1 }, r.2)

def crun (s : Core) : List Op → Core
  | [] => s
  | op :: ops => crun (cstep s op).1 ops

def cobs (s : Core) : List Op → List Obs
  | [] => []
  | op :: ops => (cstep s op).2 :: cobs (cstep s op).1 ops

def run (s : St) : List Op → St
  | [] => s
  | op :: ops => run (step s op).1 ops

/-- `negotiated_max_idle_timeout()`: `none` = `None` (remote side not READY), `some none` = `Duration::MAX`. -/
def St.negotiated (s : St) : Option (Option Nat) :=
  if !s.core.ready then none else
  match getDur s.core.remote idIdle with
  | none => none
  | some r => some (negotiatedIdle s.localIdle r)

end GmQuic.Params
