import GmQuic.Gen.Consts
import GmQuic.Gen.PnConsts
import GmQuic.Model.Wire
/-!
C07 — executable model of `qbase/src/packet/number.rs`, transliterated branch by branch.

* `encode`  = `PacketNumber::encode(pn, largest_acked)`   (u64 arithmetic, dev-profile overflow = panic)
* `decode`  = `PacketNumber::decode(self, expected)`      (the bit operations are `&&&`/`|||` on `Nat`,
              `!mask` is `u64::MAX - mask`; `Lemmas/Pn.lean` proves the div/mod form)
* `size`, `put` (= `put_packet_number`), `take` (= `take_pn_len(n)(input)`)

All literal numbers (thresholds, cast widths, window widths, sizes) come from `Gen/Consts.lean` and
`Gen/PnConsts.lean`, regenerated from the Rust source on every check run.

The in-memory value is modelled exactly: `U24` holds `pn as u32 & pnMask24` (the 24-bit mask of
fix-C07-u24-mask; before the fix `encode` stored all 32 bits of `pn as u32` and only `put_packet_number`
dropped the top byte — the translator then yields `pnMask24 = 2^32 − 1` and `decode_encode_inmem` stops
proving).  Core-only imports (linked into `gmq_model`).
-/
namespace GmQuic.Pn
open GmQuic.Gen GmQuic.Wire

/-- Where the Rust code panics (dev profile: arithmetic overflow panics). -/
inductive PanicSite
  | subOverflow    -- `pn - largest_acked`, `candidate - win` (u64 underflow)
  | mulOverflow    -- `(pn - largest_acked) * 2`
  | addOverflow    -- `candidate + win`, `expected + hwin`
  | tooLarge       -- `panic!("packet number too large to encode")`
  | unreachable    -- `take_pn_len(n)` with n ∉ 1..4
  deriving DecidableEq, Repr

inductive Res (α : Type)
  | ok (a : α)
  | panic (site : PanicSite)
  deriving DecidableEq, Repr

def Res.bind {α β : Type} : Res α → (α → Res β) → Res β
  | .ok a, f => f a
  | .panic s, _ => .panic s

/-- `enum PacketNumber { U8(u8), U16(u16), U24(u32), U32(u32) }` — payload as `Nat`. -/
inductive PacketNumber
  | u8 (x : Nat)
  | u16 (x : Nat)
  | u24 (x : Nat)
  | u32 (x : Nat)
  deriving DecidableEq, Repr

def u64Size : Nat := 2 ^ 64

/-- `PacketNumber::encode(pn, largest_acked)`; arguments are `u64` (`pn, la < 2^64`). -/
def encode (pn la : Nat) : Res PacketNumber :=
  if pn < la then .panic .subOverflow
  else if u64Size ≤ (pn - la) * pnRangeFactor then .panic .mulOverflow
  else
    let range := max ((pn - la) * pnRangeFactor) pnMinRange
    if range < pnThresh8 then .ok (.u8 (pn % 2 ^ pnCast8))
    else if range < pnThresh16 then .ok (.u16 (pn % 2 ^ pnCast16))
    else if range < pnThresh24 then .ok (.u24 ((pn % 2 ^ pnCast24) &&& pnMask24))
    else if range < pnThresh32 then .ok (.u32 (pn % 2 ^ pnCast32))
    else .panic .tooLarge

/-- `PacketNumber::size`. -/
def size : PacketNumber → Nat
  | .u8 _ => pnSize8
  | .u16 _ => pnSize16
  | .u24 _ => pnSize24
  | .u32 _ => pnSize32

/-- `(truncated, nbits)` of `decode`. -/
def parts : PacketNumber → Nat × Nat
  | .u8 x => (x, pnBits8)
  | .u16 x => (x, pnBits16)
  | .u24 x => (x, pnBits24)
  | .u32 x => (x, pnBits32)

/-- `let candidate = (expected & !mask) | truncated;` on `u64`. -/
def candidate (expected mask truncated : Nat) : Nat :=
  (expected &&& (u64Size - 1 - mask)) ||| truncated

/-- `PacketNumber::decode(self, expected)`; `expected` is a `u64`. -/
def decode (e : PacketNumber) (expected : Nat) : Res Nat :=
  let truncated := (parts e).1
  let nbits := (parts e).2
  let win := pnWinOne * 2 ^ nbits
  let hwin := win / pnHwinDiv
  let mask := win - pnMaskSub
  let cand := candidate expected mask truncated
  -- `expected.checked_sub(hwin).is_some_and(|x| candidate <= x)`
  if hwin ≤ expected ∧ cand ≤ expected - hwin then
    if cand + win < u64Size then .ok (cand + win) else .panic .addOverflow
  else if u64Size ≤ expected + hwin then .panic .addOverflow
  else if cand > expected + hwin ∧ cand > win then .ok (cand - win)
  else .ok cand

/-- `put_packet_number`. -/
def put : PacketNumber → Bytes
  | .u8 x => beBytes (pnPut8 / 8) x
  | .u16 x => beBytes (pnPut16 / 8) x
  | .u24 x => beBytes 1 (x / 2 ^ pnPut24Shift) ++ beBytes 2 x
  | .u32 x => beBytes (pnPut32 / 8) x

inductive TakeRes
  | ok (e : PacketNumber) (rest : Bytes)
  | err            -- nom `Err::Error(Eof)`: input shorter than the width
  | panic          -- `unreachable!()`
  deriving DecidableEq, Repr

def takeW (bits : Nat) (mk : Nat → PacketNumber) (input : Bytes) : TakeRes :=
  let w := bits / 8
  if input.length < w then .err else .ok (mk (beVal (input.take w))) (input.drop w)

/-- `take_pn_len(pn_len)(input)`. -/
def take (pnLen : Nat) (input : Bytes) : TakeRes :=
  match pnLen with
  | 1 => takeW pnTake1 .u8 input
  | 2 => takeW pnTake2 .u16 input
  | 3 => takeW pnTake3 .u24 input
  | 4 => takeW pnTake4 .u32 input
  | _ => .panic

/-- What the receiver holds after the packet number went over the wire:
`take_pn_len(e.size())(put_packet_number(e) ++ rest)`. -/
def viaWire (e : PacketNumber) (rest : Bytes) : TakeRes := take (size e) (put e ++ rest)

/-- The composition the unit tests use: `PacketNumber::encode(pn, la).decode(exp)` (no wire). -/
def decodeEncodeMem (pn la exp : Nat) : Res Nat := (encode pn la).bind (decode · exp)

/-- The composition the protocol uses: encode, write, parse with the announced length, decode. -/
def decodeEncodeWire (pn la exp : Nat) (rest : Bytes) : Res Nat :=
  (encode pn la).bind fun e =>
    match viaWire e rest with
    | .ok e' _ => decode e' exp
    | .err => .panic .unreachable
    | .panic => .panic .unreachable

/-! ### Receiver side: `RcvdJournal::decode_pn` over ⟨offset, cells⟩ (`cells[i]` = "pn offset+i is not `Empty`") -/

structure Rcvd where
  offset : Nat := 0
  cells : List Bool := []
  deriving Repr

inductive DecodePn
  | ok (pn : Nat)
  | tooOld
  | duplicate
  | panic (site : PanicSite)
  deriving DecidableEq, Repr

def Rcvd.largest (r : Rcvd) : Nat := r.offset + r.cells.length

/-- `IndexDeque::get(pn)` then `Some(State::Empty) | None => false`, any other state `=> true`. -/
def Rcvd.seen (r : Rcvd) (pn : Nat) : Bool :=
  if r.offset ≤ pn ∧ pn < r.largest then r.cells.getD (pn - r.offset) false else false

/-- `RcvdJournal::decode_pn`. -/
def Rcvd.decodePn (r : Rcvd) (e : PacketNumber) : DecodePn :=
  match decode e r.largest with
  | .panic s => .panic s
  | .ok pn =>
    if pn < r.offset then .tooOld
    else if r.seen pn then .duplicate else .ok pn

/-- `RcvdJournal::on_rcvd_pn` restricted to the cell states: existing cell := received; beyond the end:
`IndexDeque::insert` pads with `Empty` and appends; below `offset`: `insert` returns `TooSmall`, ignored. -/
def Rcvd.onRcvd (r : Rcvd) (pn : Nat) : Rcvd :=
  if pn < r.offset then r
  else if pn < r.largest then { r with cells := r.cells.set (pn - r.offset) true }
  else { r with cells := r.cells ++ List.replicate (pn - r.largest) false ++ [true] }

/-- `rotate_queue` pops a prefix of cells (how many is decided by ack state and time — C10). -/
def Rcvd.slide (r : Rcvd) (n : Nat) : Rcvd :=
  let k := min n r.cells.length
  { offset := r.offset + k, cells := r.cells.drop k }

end GmQuic.Pn
