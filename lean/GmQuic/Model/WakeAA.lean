/-!
C16, atomics-based instance: `AntiAmplifier::{balance, on_rcvd, grant, abort, on_sent}` (qconnection/src/path/aa.rs)
together with the `SendWaker` the path's burst task sleeps on.  Modelled per atomic operation, sequentially
consistent (DESIGN §5); `SendWaker::{poll_wait_for, wake_by}` are mutex-protected and therefore one step each.

Threads: ONE waiter (the path's burst task: `balance()` … `Err(CREDIT)` … `wait_for(CREDIT)`), and any number of
concurrent invocations of the notifier methods `on_rcvd` (load state; fetch_add; wake_by), `grant` / `abort`
(compare_exchange; wake_by); the counters `rcvd1`, `rcvd2`, `cas2` say how many invocations are between two of
their atomic steps.  No imports.
-/
namespace GmQuic.Wake.AA

/-- waiter program counter: `balance()` = s0 (load state) → s1 (load credit) → s2 (load state again)
→ [s2w: `wake_by` when the re-check saw a change] ; s3 = about to call `poll_wait_for(CREDIT)`; asleep. -/
inductive WPc where
  | s0 | s1 | s2 | s2w | s3 | asleep
  deriving DecidableEq, Repr

structure State where
  credit : Nat
  st : Nat            -- 0 NORMAL, 1 GRANTED, 2 ABORTED
  bit : Bool          -- SendWaker.state & CREDIT
  registered : Bool   -- SendWaker.waker is the waiter's waker
  woken : Bool        -- the waiter's waker has been woken since it last returned Pending
  wpc : WPc
  rcvd1 : Nat         -- on_rcvd invocations after the state check, before fetch_add
  rcvd2 : Nat         -- on_rcvd invocations after fetch_add, before wake_by
  cas2 : Nat          -- grant/abort invocations after a successful compare_exchange, before wake_by
  deriving DecidableEq, Repr

def init : State := ⟨0, 0, false, false, false, .s0, 0, 0, 0⟩

inductive Op where
  | waiter                      -- the waiter's next atomic step (a no-op while asleep and not woken)
  | restart                     -- the waiter abandons the current round / wait (future dropped, spurious
                                -- restart of the burst loop) and starts over with `balance()`
  | onSent (k : Nat) (sawNormal : Bool)   -- waiter, between two `balance()` calls: state load + fetch_sub
  | rcvdLoad                    -- on_rcvd: `state.load() != NORMAL → return`
  | rcvdAdd (amt : Nat)         -- on_rcvd: `credit.fetch_add(amount * N)`
  | rcvdWake                    -- on_rcvd: `tx_waker.wake_by(CREDIT)`
  | cas (target : Bool)         -- grant (false) / abort (true): compare_exchange(NORMAL, …)
  | casWake                     -- grant / abort: `tx_waker.wake_by(CREDIT)`
  deriving DecidableEq, Repr

/-- `SendWaker::wake_by(CREDIT)`: wake the stored waker iff the bit is new; set the bit. -/
def wakeBy (s : State) : State :=
  { s with bit := true, woken := if !s.bit && s.registered then true else s.woken }

def step (s : State) : Op → State
  | .waiter =>
    match s.wpc with
    | .s0 => if s.st = 0 then { s with wpc := .s1 } else s            -- GRANTED/ABORTED: Ok(..), next round
    | .s1 => if s.credit = 0 then { s with wpc := .s2 } else { s with wpc := .s0 }   -- Ok(Some(credit))
    | .s2 => if s.st = 0 then { s with wpc := .s3 } else { s with wpc := .s2w }      -- Err(CREDIT) | re-check hit
    | .s2w => { wakeBy s with wpc := .s0 }
    | .s3 =>   -- poll_wait_for(CREDIT)
      if s.bit then { s with bit := false, wpc := .s0 }              -- Ready: state = WAITING
      else { s with registered := true, woken := false, wpc := .asleep }   -- state = !CREDIT, waker stored
    | .asleep => if s.woken then { s with wpc := .s3 } else s
  | .restart => { s with wpc := .s0 }
  | .onSent k sawNormal =>
    if s.wpc = .s0 ∧ sawNormal then { s with credit := s.credit - k } else s
  | .rcvdLoad => if s.st = 0 then { s with rcvd1 := s.rcvd1 + 1 } else s
  | .rcvdAdd amt =>
    if s.rcvd1 > 0 then { s with rcvd1 := s.rcvd1 - 1, credit := s.credit + amt, rcvd2 := s.rcvd2 + 1 } else s
  | .rcvdWake => if s.rcvd2 > 0 then { wakeBy s with rcvd2 := s.rcvd2 - 1 } else s
  | .cas target =>
    if s.st = 0 then { s with st := if target then 2 else 1, cas2 := s.cas2 + 1 } else s
  | .casWake => if s.cas2 > 0 then { wakeBy s with cas2 := s.cas2 - 1 } else s

def run (sched : List Op) : State := sched.foldl step init

/-- the waiter's last `poll_wait_for` answered Pending and it has not been re-polled -/
def asleep (s : State) : Prop := s.wpc = .asleep
def wakePending (s : State) : Prop := s.woken = true
/-- what the waiter waits for: credit, or the limit lifted / the path aborted -/
def cond (s : State) : Prop := s.credit > 0 ∨ s.st ≠ 0
/-- some notifier invocation is between its `set` (fetch_add / compare_exchange) and its `notify` (wake_by) -/
def notifierMidway (s : State) : Prop := s.rcvd2 > 0 ∨ s.cas2 > 0

end GmQuic.Wake.AA
