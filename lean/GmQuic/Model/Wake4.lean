import GmQuic.Model.Wake
/-! C16: stream `Listener` (accept_bi / accept_uni) and the `SendWakers::wake_all_by` fan-out. -/
namespace GmQuic.Wake

/-! ## 11. `Listener` behind `DataStreams::{accept_bi, accept_uni}` (qrecovery/src/streams/listener.rs): a queue and ONE
waker slot per direction, overwritten by every Pending poll.  A STREAM frame on remote stream index `k` makes
`try_accept_sid` create every stream up to `k` and push each to the listener (each push: `take()` + `wake()`). -/
namespace Listen

structure State where
  q : List Nat × List Nat        -- accepted-but-not-yet-taken stream indices (bi, uni)
  next : Nat × Nat               -- next stream index the peer has not opened yet
  wk : Option Wid × Option Wid   -- bi_waker, uni_waker
  limit : Nat                    -- streams the peer may open per direction
  closed : Bool
  deriving DecidableEq, Repr

inductive Op where
  | poll (t : Tid) (w : Wid) (dir : Bool)     -- dir = true: uni
  | arrive (dir : Bool) (k : Nat)             -- a frame on the peer-initiated stream with index k
  | connError
  | dropfut (t : Tid)
  deriving DecidableEq, Repr

def sel {α : Type} (p : α × α) (dir : Bool) : α := if dir then p.2 else p.1
def upd {α : Type} (p : α × α) (dir : Bool) (v : α) : α × α := if dir then (p.1, v) else (v, p.2)

def step (s : State) : Op → State × Obs
  | .poll _ w dir =>
    if s.closed then (s, ⟨.err, []⟩)
    else match sel s.q dir with
      | k :: rest => ({ s with q := upd s.q dir rest }, ⟨.ready k, []⟩)
      | [] => ({ s with wk := upd s.wk dir (some w) }, ⟨.pending, []⟩)
  | .arrive dir k =>
    if s.closed then (s, ⟨.none, []⟩)
    else if k ≥ s.limit then (s, ⟨.err, []⟩)
    else if k < sel s.next dir then (s, ⟨.none, []⟩)
    else
      ({ s with q := upd s.q dir (sel s.q dir ++ (List.range (k + 1 - sel s.next dir)).map (· + sel s.next dir)),
                next := upd s.next dir (k + 1), wk := upd s.wk dir none },
       ⟨.none, takeWake (sel s.wk dir)⟩)
  | .connError =>
    if s.closed then (s, ⟨.none, []⟩)
    else ({ s with closed := true, wk := (none, none) }, ⟨.none, takeWake s.wk.1 ++ takeWake s.wk.2⟩)
  | .dropfut _ => (s, ⟨.none, []⟩)

def proto (limit : Nat) : WaitProto where
  σ := State
  Op := Op
  init := ⟨([], []), (0, 0), (none, none), limit, false⟩
  step := step
  pollBy := fun | .poll t w _ => some (t, w) | _ => none
  dropBy := fun | .dropfut t => some t | _ => none
  close := .connError

end Listen

/-! ## 12. `SendWakers::wake_all_by` (qbase/src/net/tx.rs): the connection-level fan-out.  Every registered path has its
own `SendWaker` (instance 3) with its own waiting task; `wake_all_by(signals)` calls `wake_by(signals)` on every
registered path (round-robin start, irrelevant for who is woken).  Two paths here; the proof is per path. -/
namespace Fan

structure State where
  p : SendWaker.State × SendWaker.State     -- path 0, path 1
  reg : Bool × Bool                         -- inserted in the SendWakers map
  deriving DecidableEq, Repr

inductive Op where
  | poll (t : Tid) (w : Wid) (sig : BitVec 16)   -- task t IS path t's burst task (t < 2): poll_wait_for on its SendWaker
  | wakeAll (sig : BitVec 16)                    -- SendWakers::wake_all_by
  | insert (path : Bool) | remove (path : Bool)
  | dropfut (t : Tid)
  deriving DecidableEq, Repr

def step (s : State) : Op → State × Obs
  | .poll t w sig =>
    if t = 0 then
      let r := SendWaker.step s.p.1 (.poll t w sig)
      ({ s with p := (r.1, s.p.2) }, r.2)
    else
      let r := SendWaker.step s.p.2 (.poll t w sig)
      ({ s with p := (s.p.1, r.1) }, r.2)
  | .wakeAll sig =>
    let r0 := if s.reg.1 then SendWaker.step s.p.1 (.wakeBy sig) else (s.p.1, ⟨.none, []⟩)
    let r1 := if s.reg.2 then SendWaker.step s.p.2 (.wakeBy sig) else (s.p.2, ⟨.none, []⟩)
    ({ s with p := (r0.1, r1.1) }, ⟨.none, r0.2.wakes ++ r1.2.wakes⟩)
  | .insert path => ({ s with reg := if path then (s.reg.1, true) else (true, s.reg.2) }, ⟨.none, []⟩)
  | .remove path => ({ s with reg := if path then (s.reg.1, false) else (false, s.reg.2) }, ⟨.none, []⟩)
  | .dropfut _ => (s, ⟨.none, []⟩)

def proto : WaitProto where
  σ := State
  Op := Op
  init := ⟨(⟨none, 0⟩, ⟨none, 0⟩), (false, false)⟩
  step := step
  pollBy := fun | .poll t w _ => some (t, w) | _ => none
  dropBy := fun | .dropfut t => some t | _ => none
  close := .wakeAll (~~~0)

end Fan
end GmQuic.Wake
