import GmQuic.Model.StreamWindow
import GmQuic.Model.Sid
/-!
The remembered-parameters (0-RTT) path of `qrecovery::streams::DataStreams`, send side.

A resuming client builds `DataStreams` from the REMEMBERED server parameters: locally opened streams get
their send window from them (`poll_open_{bi,uni}_stream`, branch `params.remembered()`), the stream-count
limits are the remembered `initial_max_streams_*`.  When the handshake completes,
`DataStreams::revise_params(zero_rtt_rejected, fresh)` runs ONCE:

1. `opened_bidi/uni = stream_ids.local.opened_streams(dir)` = `min(unallocated, max)` — read FIRST;
2. `Output::revise_max_stream_data`: every outgoing stream with `sid.id() < opened_<dir>` gets
   `Outgoing::revise_max_stream_data(rejected, fresh window of its direction)`:
   `Ready`/`Sending`: `if rejected { sndbuf.forget_sent_state() }` (`BufMap` emptied, `max_data = 0`), then
   `update_window(m)` (raises only); reset states: nothing;
3. `stream_ids.local.revise_max_streams(rejected, fresh counts)` (C12's `Sid.Local.step (.revise ..)`).

Packet assembly (`try_load_data_into_once`) skips locally opened streams with `sid.id() ≥ opened_streams(dir)`
(`stream_allowed`), MAX_STREAMS re-admits them.

Not modelled: a stream already in `DataSent` (FIN emitted) at the moment of the revision
(`DataSentSender::revise_max_stream_data` uses `extend` instead of `update_window`); the generator does not
request a FIN before the handshake completes.  Core-only imports.
-/
namespace GmQuic.StreamWindow

/-- `SendBuf::forget_sent_state`; the ghosts start a new epoch: what was emitted / charged under the
remembered parameters is void after a rejection. -/
def SendHalf.forget (h : SendHalf) : SendHalf :=
  { h with sentHi := 0, maxData := 0, finSent := false, emitted := [], charged := 0 }

/-- `Outgoing::revise_max_stream_data(rejected, m)`.  Ghost `granted` = the limit the peer most recently
advertised for this stream: after a rejection ONLY the fresh value; after an accepted 0-RTT the fresh value
can only raise the remembered one (RFC 9000 §7.4.1). -/
def Sndr.revise (s : Sndr) (rej : Bool) (m : Nat) : Sndr :=
  if s.rst.isSome then s
  else
    let h0 := if rej then s.half.forget else s.half
    let g := if rej then m else max h0.granted m
    let h1 := if m > h0.maxData then { h0 with maxData := m } else h0
    { s with half := { h1 with granted := g } }

/-- A stream that `Output::revise_max_stream_data` does NOT visit (`sid.id() ≥ opened`): the code leaves it
alone, the peer's advertisement changes all the same. -/
def Sndr.reviseSkipped (s : Sndr) (rej : Bool) (m : Nat) : Sndr :=
  if s.rst.isSome then s
  else { s with half := { s.half with granted := if rej then m else max s.half.granted m } }

end GmQuic.StreamWindow

namespace GmQuic.StreamRevise
open GmQuic.StreamWindow GmQuic.Sid

/-- A locally opened stream with its sending half. -/
structure ZS where
  dir : Dir
  idx : Nat
  s : Sndr

structure ZEp where
  ids : Local
  ss : List ZS := []
  wb : Nat   -- send window a newly opened bidi stream gets (remembered, then fresh)
  wu : Nat

def ZEp.win (e : ZEp) : Dir → Nat | .bi => e.wb | .uni => e.wu

inductive ZOp
  | openS (d : Dir)
  | snd (d : Dir) (i : Nat) (op : TOp)
  | maxStreams (d : Dir) (v : Nat)
deriving Repr

/-- `stream_allowed` of `try_load_data_into_once`. -/
def ZEp.allowed (e : ZEp) (d : Dir) (i : Nat) : Bool := i < e.ids.openedStreams d

def isEmit : TOp → Bool
  | .half (.emit _ _ _ _) => true
  | _ => false

def ZEp.step (e : ZEp) : ZOp → ZEp
  | .openS d =>
    match (e.ids.step (.alloc d)).2 with
    | .sid _ =>
      { e with ids := (e.ids.step (.alloc d)).1,
               ss := e.ss ++ [⟨d, e.ids.unalloc.get d, Sndr.init (e.win d)⟩] }
    | _ => { e with ids := (e.ids.step (.alloc d)).1 }
  | .snd d i op =>
    if isEmit op && !e.allowed d i then e
    else { e with ss := e.ss.map fun z => if z.dir = d ∧ z.idx = i then { z with s := z.s.step op } else z }
  | .maxStreams d v => { e with ids := (e.ids.step (.maxStreams d v)).1 }

/-- `DataStreams::revise_params(rej, fresh)`: `fb`/`fu` the fresh stream windows, `mb`/`mu` the fresh counts. -/
def ZEp.revise (e : ZEp) (rej : Bool) (fb fu mb mu : Nat) : ZEp :=
  let ob := e.ids.openedStreams .bi
  let ou := e.ids.openedStreams .uni
  { ids := (e.ids.step (.revise rej mb mu)).1
    ss := e.ss.map fun z =>
      let o := match z.dir with | .bi => ob | .uni => ou
      let f := match z.dir with | .bi => fb | .uni => fu
      if z.idx < o then { z with s := z.s.revise rej f } else { z with s := z.s.reviseSkipped rej f }
    wb := fb
    wu := fu }

def ZEp.init (mb mu wb wu : Nat) : ZEp := { ids := { role := .client, max := ⟨mb, mu⟩ }, wb := wb, wu := wu }

def ZEp.run (e : ZEp) (ops : List ZOp) : ZEp := ops.foldl ZEp.step e

end GmQuic.StreamRevise
