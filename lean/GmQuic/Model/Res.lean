import GmQuic.Model.Wire
/-!
Three-way decoder result shared by the codec models (C05 encoders/decoders, C03 untrusted-input
theorems): `ok value rest | err kind | panic site`, plus the few nom primitives the gm-quic parsers
are built from, with nom's *streaming* / *complete* distinction kept (it decides whether `be_frame`
reports `IncompleteFrame` or `ParseError`).  Core-only.
-/
namespace GmQuic.Codec
open GmQuic.Wire

/-- `nom::error::ErrorKind` values that gm-quic parsers produce. -/
inductive NomCode | eof | tooLarge | verify | alt
  deriving DecidableEq, Repr, Inhabited

/-- Error kinds: the two nom-level outcomes of the inner parsers and the `frame::Error` variants
`be_frame` maps them to. -/
inductive ErrKind
  /-- `nom::Err::Incomplete` (streaming parsers: `be_varint`, `streaming::take`, `streaming::be_u8`) -/
  | incomplete
  /-- `nom::Err::Error(code)` -/
  | nom (code : NomCode)
  /-- `frame::Error::IncompleteType` -/
  | incompleteType
  /-- `frame::Error::InvalidType(v)` -/
  | invalidType (v : Nat)
  /-- `frame::Error::WrongType` -/
  | wrongType
  /-- `frame::Error::IncompleteFrame` -/
  | incompleteFrame
  /-- `frame::Error::ParseError(_, code.description())` -/
  | parseError (code : NomCode)
  deriving DecidableEq, Repr, Inhabited

inductive Res (α : Type) where
  | ok (a : α) (rest : Bytes)
  | err (k : ErrKind)
  | panic (site : String)
  deriving Repr

instance {α} [DecidableEq α] : DecidableEq (Res α) := by
  intro a b
  cases a <;> cases b <;> first
    | (apply isFalse; intro h; cases h; done)
    | skip
  · rename_i a r a' r'
    exact if h : a = a' ∧ r = r' then isTrue (by rw [h.1, h.2]) else isFalse (by intro e; cases e; exact h ⟨rfl, rfl⟩)
  · rename_i k k'
    exact if h : k = k' then isTrue (by rw [h]) else isFalse (by intro e; cases e; exact h rfl)
  · rename_i s s'
    exact if h : s = s' then isTrue (by rw [h]) else isFalse (by intro e; cases e; exact h rfl)

abbrev P (α : Type) := Bytes → Res α

@[inline] def Res.bind {α β} (r : Res α) (f : α → Bytes → Res β) : Res β :=
  match r with
  | .ok a rest => f a rest
  | .err k => .err k
  | .panic s => .panic s

@[inline] def Res.map {α β} (r : Res α) (f : α → β) : Res β :=
  match r with
  | .ok a rest => .ok (f a) rest
  | .err k => .err k
  | .panic s => .panic s

/-- `be_varint` (streaming). -/
def pVarint : P Nat := fun bs =>
  match decVarint bs with
  | none => .err .incomplete
  | some (v, rest) => .ok v rest

/-- `nom::bytes::streaming::take(n)`. -/
def pTakeS (n : Nat) : P Bytes := fun bs =>
  if bs.length < n then .err .incomplete else .ok (bs.take n) (bs.drop n)

/-- `nom::bytes::complete::take(n)`. -/
def pTakeC (n : Nat) : P Bytes := fun bs =>
  if bs.length < n then .err (.nom .eof) else .ok (bs.take n) (bs.drop n)

/-- `nom::number::streaming::be_u8`. -/
def pU8S : P Nat := fun bs =>
  match bs with
  | [] => .err .incomplete
  | b :: rest => .ok b.toNat rest

/-- `nom::number::complete::be_u16 / be_u32 / be_u128` (`w` bytes). -/
def pBeC (w : Nat) : P Nat := fun bs =>
  if bs.length < w then .err (.nom .eof) else .ok (beVal (bs.take w)) (bs.drop w)

end GmQuic.Codec
