/-!
# C17 — `IdleConfig` / `IdleTimer` (qbase/src/time.rs), time = `Nat` (ns of tokio's paused clock; `Duration / 2` is exact at ns, the harness advances whole µs)

Transliteration, branch by branch.  Every op carries the clock value `now` at which the (Mutex-protected, hence
atomic) method runs; `Instant::elapsed()` = `now - t`.  `Duration * u32` overflow (`heartbeat_interval *
(heartbeat_times + 1)`, > 2^32 heartbeats or a > 136-year interval) is not modelled.
-/
namespace GmQuic.Idle

structure Cfg where
  maxIdle : Nat      -- max_idle_timeout, 0 = disabled
  defer : Nat        -- defer_idle_timeout
  hb : Nat           -- heartbeat_interval
  deriving DecidableEq, Repr, Inhabited

def sec : Nat := 1000000000

/-- `IdleConfig::suitable_heartbeat_interval` -/
def suitableHb (maxIdle : Nat) : Nat :=
  if maxIdle = 0 then 30 * sec else min (max (maxIdle / 2) (1 * sec)) (30 * sec)

/-- `IdleConfig::new` -/
def Cfg.new (maxIdle defer : Nat) : Cfg := { maxIdle := maxIdle, defer := defer, hb := suitableHb maxIdle }

/-- `IdleConfig::negotiate_max_idle_timeout(remote)` -/
def Cfg.negotiate (c : Cfg) (remote : Nat) : Cfg :=
  let m := if remote = 0 then c.maxIdle else if c.maxIdle = 0 then remote else min c.maxIdle remote
  { c with maxIdle := m, hb := suitableHb m }

structure Timer where
  cfg : Cfg
  hbTimes : Nat := 0
  lastComm : Option Nat := none     -- last_effective_comm
  idleBegin : Option Nat := none    -- idle_begin_at
  /-- `sent_since_rcvd` (repo_patches/fix-C17-idle-restart-on-send.diff): an effective packet was sent since the
  last packet was received.  RFC 9000 §10.1: only the FIRST such send restarts the idle timer. -/
  sentSinceRcvd : Bool := false
  deriving DecidableEq, Repr, Inhabited

inductive Obs where
  | none | ping | timeout
  deriving DecidableEq, Repr, Inhabited

inductive Op where
  | sent (effective : Bool) (now : Nat)
  | rcvd (effective : Bool) (now : Nat)
  | health (now : Nat)
  | negotiate (remote : Nat)
  deriving DecidableEq, Repr, Inhabited

def Op.time : Op → Option Nat
  | .sent _ t => some t
  | .rcvd _ t => some t
  | .health t => some t
  | .negotiate _ => Option.none

/-- `IdleTimer::on_sent` (fixed code) -/
def onSent (t : Timer) (eff : Bool) (now : Nat) : Timer :=
  if eff then
    if t.sentSinceRcvd then t
    else { t with sentSinceRcvd := true, lastComm := some now, hbTimes := 0, idleBegin := none }
  else t

/-- `IdleTimer::on_sent` AS FOUND (before the fix): every effective send restarts the timer -/
def onSentOld (t : Timer) (eff : Bool) (now : Nat) : Timer :=
  if eff then { t with lastComm := some now, hbTimes := 0, idleBegin := none } else t

def onRcvd (t : Timer) (eff : Bool) (now : Nat) : Timer :=
  let t := { t with sentSinceRcvd := false }
  let t1 := if eff then { t with lastComm := some now, hbTimes := 0, idleBegin := none } else t
  if t1.idleBegin.isSome then { t1 with idleBegin := some now } else t1

/-- the tail of `health`: `idle_begin_at.is_some_and(|t| timeout_after(t))` -/
def timeoutCheck (t : Timer) (now : Nat) : Obs :=
  match t.idleBegin with
  | some b => if t.cfg.maxIdle ≠ 0 ∧ now - b > t.cfg.maxIdle then .timeout else .none
  | Option.none => .none

def health (t : Timer) (now : Nat) : Timer × Obs :=
  match t.lastComm with
  | some c =>
    let elapsed := now - c
    if elapsed > t.cfg.defer then
      if t.idleBegin.isNone then ({ t with idleBegin := some now }, .ping)
      else (t, timeoutCheck t now)
    else if elapsed > t.cfg.hb * (t.hbTimes + 1) then ({ t with hbTimes := t.hbTimes + 1 }, .ping)
    else (t, timeoutCheck t now)
  | Option.none => (t, timeoutCheck t now)

def step (t : Timer) : Op → Timer × Obs
  | .sent e now => (onSent t e now, .none)
  | .rcvd e now => (onRcvd t e now, .none)
  | .health now => health t now
  | .negotiate r => ({ t with cfg := t.cfg.negotiate r }, .none)

def run (t : Timer) (ops : List Op) : Timer := ops.foldl (fun t o => (step t o).1) t

/-- the code as found (only `on_sent` differs) -/
def stepOld (t : Timer) : Op → Timer × Obs
  | .sent e now => (onSentOld t e now, .none)
  | op => step t op

def runOld (t : Timer) (ops : List Op) : Timer := ops.foldl (fun t o => (stepOld t o).1) t

end GmQuic.Idle
