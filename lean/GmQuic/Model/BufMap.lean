import GmQuic.Model.SendSpec
/-!
C09 — *transliteration layer*: `BufMap` (`VecDeque<State>` + total size) and `SendBuf` of
`qrecovery/src/send/sndbuf.rs`, branch by branch, with the index juggling exactly as written.

* `State` = `(offset, colour)`; the deque is a `List Run`; `VecDeque::{get, get_mut().unwrap(), insert, drain}` are
  `setAt / insertAt / drain` with their panics explicit (`Except String`); every `debug_assert!` is an explicit
  `throw` (dev-profile semantics, the profile of the baseline test-suite).
* `usize` wrap-around idioms: `same_before(i)` stops at `i = 0` because `get(usize::MAX)` is `None`;
  `same_after(i.overflowing_sub(1).0, c).overflowing_add(1).0` is "the first index `≥ i` whose colour is not `c`"
  (`sameAfterP1`), also for `i = 0` where the Rust wraps through `usize::MAX`.
* `binary_search_by(offset.cmp(start))` on the strictly sorted deque = "number of runs with a smaller offset;
  `Ok` iff the run there has exactly this offset" (trusted, as in C08).
* `u64`/`usize` are `Nat`; the one unchecked addition (`start + allowance` in `pick`) has an explicit overflow
  outcome.

The run list is compared *exactly* with the `Debug` output of the real `SendBuf` after every operation of the
correspondence run; `Lemmas/BufMapRefine.lean` proves that these functions refine `Model/SendSpec.lean`.
Core-only imports.
-/
namespace GmQuic.BufMap
open GmQuic.SendSpec (Colour)

abbrev Run := Nat × Colour
abbrev Res := Except String

structure BufMap where
  runs : List Run := []
  size : Nat := 0
deriving Repr, DecidableEq

/-- abstraction of a run list: colour of offset `x`; `prev` = colour before the first run
(released bytes below the first run are `Recved`) -/
def colourAt : List Run → Colour → Nat → Colour
  | [], prev, _ => prev
  | (o, c) :: rest, prev, x => if x < o then prev else colourAt rest c x

/-- abstraction function: per-byte colours of the coloured prefix, `Pending` beyond it -/
def BufMap.abs (m : BufMap) (x : Nat) : Colour :=
  if x < m.size then colourAt m.runs .recved x else .pending

/-! ### `VecDeque` primitives with explicit panics -/

def setAt (l : List Run) (i : Nat) (r : Run) : Res (List Run) :=
  if i < l.length then pure (l.set i r) else throw "panic:get_mut.unwrap"

def insertAt (l : List Run) (i : Nat) (r : Run) : Res (List Run) :=
  if i ≤ l.length then pure (l.take i ++ r :: l.drop i) else throw "panic:insert-out-of-bounds"

/-- `drain(a..b)` -/
def drain (l : List Run) (a b : Nat) : Res (List Run) :=
  if a ≤ b ∧ b ≤ l.length then pure (l.take a ++ l.drop b) else throw "panic:drain-out-of-bounds"

/-- `same_before(index, color)` -/
def sameBefore (l : List Run) (col : Colour) : Nat → Nat
  | 0 => 0
  | i + 1 =>
    match l[i]? with
    | some (_, c) => if c = col then sameBefore l col i else i + 1
    | none => i + 1

def skipSame (col : Colour) : List Run → Nat → Nat
  | [], i => i
  | (_, c) :: rest, i => if c = col then skipSame col rest (i + 1) else i

/-- `same_after(next - 1, color) + 1` with the wrapping arithmetic of the source: the first index `≥ next`
whose colour differs from `col` (or the length). -/
def sameAfterP1 (l : List Run) (col : Colour) (next : Nat) : Nat := skipSame col (l.drop next) next

/-- `merge_after(index, color)` -/
def mergeAfter (l : List Run) (index : Nat) (col : Colour) : Res (List Run) :=
  let e := sameAfterP1 l col (index + 1)      -- = same_after + 1
  if index + 1 < e then drain l (index + 1) e else pure l

def lowerBound (a : Nat) : List Run → Nat
  | [] => 0
  | (o, _) :: rest => if o < a then lowerBound a rest + 1 else 0

/-- `binary_search_by(|s| s.offset().cmp(&a))`: `(true, idx)` = `Ok(idx)`, `(false, idx)` = `Err(idx)` -/
def bsearch (l : List Run) (a : Nat) : Bool × Nat :=
  let k := lowerBound a l
  match l[k]? with
  | some (o, _) => (o == a, k)
  | none => (false, k)

/-! ### `extend_to`, `sent` -/

def extendTo (m : BufMap) (pos : Nat) : Res BufMap :=
  if ¬ pos < 2 ^ 62 then throw "panic:extend_to:pos-overflow" else
  if pos < m.size then throw "panic:extend_to:pos-less-than-size" else
  if pos > m.size then
    let runs := match m.runs.getLast? with
      | some (_, .pending) => m.runs
      | _ => m.runs ++ [(m.size, .pending)]
    pure { runs := runs, size := pos }
  else pure m

def BufMap.sent (m : BufMap) : Nat :=
  match m.runs.getLast? with
  | some (o, .pending) => o
  | _ => m.size

/-! ### `pick` -/

/-- `Signals` accumulated by `pick` (`TRANSPORT` is always set) -/
structure Sig where
  written : Bool := true
  flowc : Bool := false
  cong : Bool := false
deriving Repr, DecidableEq

/-- `Signals::bits()`: CONGESTION = 1, FLOW_CONTROL = 2, TRANSPORT = 4, WRITTEN = 8 -/
def Sig.bits (s : Sig) : Nat :=
  4 + (if s.written then 8 else 0) + (if s.flowc then 2 else 0) + (if s.cong then 1 else 0)

/-- the `find` closure of `pick`: first run that may be sent, with the signals set on the way -/
def findPick (flow win : Nat) : List Run → Nat → Sig → Option (Nat × Run) × Sig
  | [], _, sg => (none, sg)
  | (o, c) :: rest, i, sg =>
    if o ≥ win then findPick flow win rest (i + 1) { sg with flowc := true }
    else match c with
      | .pending =>
        if flow ≠ 0 then (some (i, (o, c)), sg)
        else findPick flow win rest (i + 1) { sg with written := false, flowc := true }
      | .lost => (some (i, (o, c)), sg)
      | _ => findPick flow win rest (i + 1) sg

inductive PickRes
  | none (sig : Sig)
  | range (a b : Nat) (fresh : Bool)
deriving Repr, DecidableEq

def pick (m : BufMap) (pred : Nat → Option Nat) (flow win : Nat) : Res (BufMap × PickRes) :=
  match findPick flow win m.runs 0 {} with
  | (none, sg) => pure (m, .none sg)
  | (some (index, (start, color)), sg) =>
    match pred start with
    | none => pure (m, .none { sg with cong := true })
    | some available => do
      let allowance := if color = .lost then available else min available flow
      let runs1 ← setAt m.runs index (start, .flighting)          -- state.set_color(Flighting)
      let end0 := min (match runs1[index + 1]? with | some (o, _) => o | none => m.size) win
      let i := sameBefore runs1 .flighting index
      if start + allowance ≥ 2 ^ 64 then throw "panic:pick:start+allowance-overflow" else
      if start + allowance < end0 then
        let end1 := start + allowance
        let runs2 ← if i < index then setAt runs1 (i + 1) (end1, color) else insertAt runs1 (i + 1) (end1, color)
        let i := i + 1
        let runs3 ← if i < index then drain runs2 (i + 1) (index + 1) else pure runs2
        pure ({ m with runs := runs3 }, .range start end1 (color == .pending))
      else
        let runs2 ← mergeAfter runs1 index .flighting
        let runs3 ← if i < index then drain runs2 (i + 1) (index + 1) else pure runs2
        pure ({ m with runs := runs3 }, .range start end0 (color == .pending))

/-! ### the common tail of `ack_rcvd` / `may_loss`: overwrite-or-insert at start, at end, then drain -/

def splice (l : List Run) (ds de : Nat) (insS insE : Option Run) : Res (List Run) := do
  let (l, ds) ← match insS with
    | some r => do
      let l' ← if ds < de then setAt l ds r else insertAt l ds r
      pure (l', ds + 1)
    | none => pure (l, ds)
  let (l, ds) ← match insE with
    | some r => do
      let l' ← if ds < de then setAt l ds r else insertAt l ds r
      pure (l', ds + 1)
    | none => pure (l, ds)
  if ds < de then drain l ds de else pure l

/-! ### `ack_rcvd` -/

/-- the `loop` of `ack_rcvd` from `drain_end = de` (`rest = all.drop de`): final `(drain_end, pre_color, need_insert_at_end)` -/
def ackScan (b size : Nat) (all : List Run) : List Run → Nat → Colour → Res (Nat × Colour × Bool)
  | [], de, pre =>
    if b > size then throw "panic:ack_rcvd:range-over-size"
    else pure (de, pre, decide (b < size) && pre != .recved)
  | (o, c) :: rest, de, pre =>
    if o < b then
      if c = .pending then throw "panic:ack_rcvd:covers-pending"
      else ackScan b size all rest (de + 1) c
    else if o = b then pure (sameAfterP1 all .recved de, pre, false)
    else pure (de, pre, pre != .recved)

def ackRcvd (m : BufMap) (a b : Nat) : Res BufMap := do
  let (runs1, ds, nis, de0, pre0) ← match bsearch m.runs a with
    | (true, idx) =>
      match m.runs[idx]? with
      | none => throw "panic:get_mut.unwrap"
      | some (o, c) =>
        if c = .pending then throw "panic:ack_rcvd:covers-pending"
        else
          let runs1 := m.runs.set idx (o, .recved)
          pure (runs1, sameBefore runs1 .recved idx + 1, false, idx + 1, c)
    | (false, idx) =>
      if idx = 0 then pure (m.runs, 0, false, 0, Colour.recved)
      else match m.runs[idx - 1]? with
        | none => throw "panic:get.unwrap"
        | some (_, c) =>
          if c = .pending then throw "panic:ack_rcvd:covers-pending"
          else pure (m.runs, idx, c != .recved, idx, c)
  let (de, pre, nie) ← ackScan b m.size runs1 (runs1.drop de0) de0 pre0
  let runs2 ← splice runs1 ds de (if nis then some (a, .recved) else none) (if nie then some (b, pre) else none)
  pure { m with runs := runs2 }

/-- `shift`: pop leading `Recved` runs; returns the first non-`Recved` offset (or `size`) -/
def shift (m : BufMap) : BufMap × Nat :=
  let rec go : List Run → List Run × Option Nat
    | [] => ([], none)
    | (o, c) :: rest => if c = .recved then go rest else ((o, c) :: rest, some o)
  match go m.runs with
  | (runs, some o) => ({ m with runs := runs }, o)
  | (runs, none) => ({ m with runs := runs }, m.size)

/-! ### `may_loss`, `may_lost_from` -/

/-- the `loop` of `may_lost_from` from `idx`: recolours to `Lost` on the way.
Result: `(runs, idx, pre_color, need_insert_at_end, recurse_at)`; `recurse_at = some j` = the
`self.may_lost_from(j, end)` call made when a `Recved` run is met. -/
def mlfScan (e size : Nat) : List Run → List Run → Nat → Colour →
    Res (List Run × Nat × Colour × Bool × Option Nat)
  | done, [], idx, pre =>
    if e > size then throw "panic:may_lost_from:end-over-size"
    else pure (done.reverse, idx, pre, decide (e < size) && pre == .flighting, none)
  | done, (o, c) :: rest, idx, pre =>
    if o < e then
      if c = .pending then throw "panic:may_lost_from:covers-pending"
      else if c = .recved then pure (done.reverse ++ (o, c) :: rest, idx, c, false, some (idx + 1))
      else mlfScan e size ((o, .lost) :: done) rest (idx + 1) c
    else if o = e then
      let all := done.reverse ++ (o, c) :: rest
      pure (all, sameAfterP1 all .lost idx, pre, false, none)
    else pure (done.reverse ++ (o, c) :: rest, idx, pre, pre == .flighting, none)

/-- `may_lost_from(idx_start, end)`; the recursion depth is bounded by the number of runs (`fuel`) -/
def mayLostFrom : Nat → List Run → Nat → Nat → Nat → Res (List Run)
  | 0, _, _, _, _ => throw "out-of-fuel"
  | fuel + 1, runs, size, idxStart, e => do
    let (runs1, idx, pre, nie, recAt) ← mlfScan e size (runs.take idxStart).reverse (runs.drop idxStart) idxStart .recved
    let runs2 ← match recAt with
      | some j => mayLostFrom fuel runs1 size j e
      | none => pure runs1
    let (runs3, idxStart) ← if nie then do
        let l ← if idxStart + 1 < idx then setAt runs2 (idxStart + 1) (e, pre) else insertAt runs2 (idxStart + 1) (e, pre)
        pure (l, idxStart + 1)
      else pure (runs2, idxStart)
    if idxStart + 1 < idx then drain runs3 (idxStart + 1) idx else pure runs3

/-- the `loop` of `may_loss` from `drain_end = de`: `(drain_end, pre_color, need_insert_at_end, recurse_at)` -/
def lossScan (b size : Nat) (all : List Run) : List Run → Nat → Colour → Res (Nat × Colour × Bool × Option Nat)
  | [], de, pre =>
    if b > size then throw "panic:may_loss:range-over-size"
    else pure (de, pre, decide (b < size) && pre == .flighting, none)
  | (o, c) :: rest, de, pre =>
    if o < b then
      if c = .pending then throw "panic:may_loss:covers-pending"
      else if c = .recved then pure (de, pre, false, some (de + 1))
      else lossScan b size all rest (de + 1) c
    else if o = b then pure (sameAfterP1 all .lost de, pre, false, none)
    else pure (de, pre, pre == .flighting, none)

def mayLoss (m : BufMap) (a b : Nat) : Res BufMap := do
  let fuel := m.runs.length + 2
  match bsearch m.runs a with
  | (true, idx) =>
    match m.runs[idx]? with
    | none => throw "panic:get_mut.unwrap"
    | some (o, c) =>
      if c = .pending then throw "panic:may_loss:covers-pending"
      else if c = .recved then do
        let r ← mayLostFrom fuel m.runs m.size (idx + 1) b
        pure { m with runs := r }
      else
        let (runs1, ds) :=
          if c = .flighting then
            let runs1 := m.runs.set idx (o, .lost)
            (runs1, sameBefore runs1 .lost idx + 1)
          else (m.runs, idx + 1)
        mayLossTail m runs1 ds false (idx + 1) c a b fuel
  | (false, idx) =>
    if idx = 0 then do
      let r ← mayLostFrom fuel m.runs m.size idx b
      pure { m with runs := r }
    else match m.runs[idx - 1]? with
      | none => throw "panic:get.unwrap"
      | some (_, c) =>
        if c = .pending then throw "panic:may_loss:covers-pending"
        else if c = .recved then do
          let r ← mayLostFrom fuel m.runs m.size idx b
          pure { m with runs := r }
        else mayLossTail m m.runs idx (c == .flighting) idx c a b fuel
where
  mayLossTail (m : BufMap) (runs1 : List Run) (ds : Nat) (nis : Bool) (de0 : Nat) (pre0 : Colour) (a b fuel : Nat) :
      Res BufMap := do
    let (de, pre, nie, recAt) ← lossScan b m.size runs1 (runs1.drop de0) de0 pre0
    let runs2 ← match recAt with
      | some j => mayLostFrom fuel runs1 m.size j b
      | none => pure runs1
    let runs3 ← splice runs2 ds de (if nis then some (a, .lost) else none) (if nie then some (b, pre) else none)
    pure { m with runs := runs3 }

def BufMap.resend (m : BufMap) : BufMap :=
  { m with runs := m.runs.map fun (o, c) => if c = .flighting then (o, .lost) else (o, c) }

/-! ### `SendBuf` -/

structure SendBuf where
  offset : Nat := 0
  /-- lengths of the `Bytes` chunks of `data: VecDeque<Bytes>` -/
  chunks : List Nat := []
  maxData : Nat := 0
  state : BufMap := {}
deriving Repr, DecidableEq

def SendBuf.withCapacity (cap : Nat) : SendBuf := { maxData := cap }

def SendBuf.written (b : SendBuf) : Nat := b.offset + b.chunks.sum

def SendBuf.write (b : SendBuf) (n : Nat) : Res SendBuf :=
  if n ≠ 0 then do
    let st ← extendTo b.state (min (b.written + n) b.maxData)
    pure { b with state := st, chunks := b.chunks ++ [n] }
  else pure b

def SendBuf.forget (b : SendBuf) : SendBuf := { b with state := {}, maxData := 0 }

def SendBuf.extend (b : SendBuf) (m : Nat) : Res SendBuf :=
  if m < b.maxData then throw "panic:extend:reduce" else do
    let st ← extendTo b.state (min b.written m)
    pure { b with maxData := m, state := st }

def SendBuf.sent (b : SendBuf) : Nat := BufMap.sent b.state

def SendBuf.isAllRcvd (b : SendBuf) : Bool := b.chunks.isEmpty

def SendBuf.pickUp (b : SendBuf) (pred : Nat → Option Nat) (flow : Nat) : Res (SendBuf × PickRes) := do
  let (st, r) ← pick b.state pred flow b.maxData
  pure ({ b with state := st }, r)

/-- the `while` loop of `on_data_acked` over the chunk queue -/
def dropChunks : List Nat → Nat → List Nat
  | [], _ => []
  | c :: rest, n => if n = 0 then c :: rest else if n ≥ c then dropChunks rest (n - c) else (c - n) :: rest

def SendBuf.onDataAcked (b : SendBuf) (a e : Nat) : Res SendBuf := do
  let st ← ackRcvd b.state a e
  let (st, minUnrecved) := shift st
  if b.offset < minUnrecved then
    pure { b with state := st, offset := minUnrecved, chunks := dropChunks b.chunks (minUnrecved - b.offset) }
  else pure { b with state := st }

def SendBuf.mayLossData (b : SendBuf) (a e : Nat) : Res SendBuf := do
  let st ← mayLoss b.state a e
  pure { b with state := st }

def SendBuf.resendFlighting (b : SendBuf) : SendBuf := { b with state := b.state.resend }

/-! ### glue of the crypto stream sender (`qrecovery/src/crypto.rs`, `send::Sender::try_load_data` and
`CryptoStreamOutgoing::try_load_data_into`) -/

/-- `VarInt::encoding_size` -/
def varintSize (v : Nat) : Nat := if v < 64 then 1 else if v < 16384 then 2 else if v < 1073741824 then 4 else 8

/-- `CryptoFrame::estimate_max_capacity(capacity, offset)`; `some none` = `None`, `none` = `unreachable!` -/
def cryptoCapacity (capacity offset : Nat) : Option (Option Nat) :=
  let need := 1 + varintSize offset + 2
  if capacity < need then some none else
  let rem := capacity - need
  if rem ≤ 62 then some (some (rem + 1))
  else if rem ≤ 0x3FFF then some (some rem)
  else if rem ≤ 0x4001 then some (some 0x3FFF)
  else if rem ≤ 0x40000001 then some (some (rem - 2))
  else none

/-- `try_load_data_into(packet, force)` with `packet.remaining_mut() = cap`: frames loaded, `Ok`?, signal bits -/
def loadCrypto (b : SendBuf) (cap : Nat) (force : Bool) : Res (SendBuf × List (Nat × Nat) × Bool × Nat) :=
  let b := if force then b.resendFlighting else b
  let rec go : Nat → SendBuf → Nat → List (Nat × Nat) → Res (SendBuf × List (Nat × Nat) × Bool × Nat)
    | 0, _, _, _ => throw "out-of-fuel"
    | fuel + 1, b, cap, acc => do
      let pred := fun off => match cryptoCapacity cap off with | some r => r | none => none
      let (b', r) ← b.pickUp pred (2 ^ 64 - 1)
      match r with
      | .none sg => pure (b', acc.reverse, !acc.isEmpty, if acc.isEmpty then sg.bits else 0)
      | .range a e _ =>
        let used := 1 + varintSize a + varintSize (e - a) + (e - a)
        go fuel b' (cap - used) ((a, e) :: acc)
  go (cap + 2) b cap []

end GmQuic.BufMap
