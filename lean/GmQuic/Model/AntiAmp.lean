/-!
# C15 — anti-amplification budget of an unvalidated path

Transliteration of `qconnection/src/path/aa.rs` (`AntiAmplifier<3>`), `qconnection/src/path/util.rs`
(`Constraints`), the burst rule of `qconnection/src/path/burst.rs` (`Burst::burst`, `load_spaces`,
`load_ping`/`load_heartbeat`), `Path::{on_packet_rcvd, send_packets, grant_anti_amplification}`
(`qconnection/src/path.rs`) and the unconstrained CONNECTION_CLOSE sends of `termination.rs`.

* `credit` is the value of the `AtomicUsize` (a `Nat < U = 2^64`).  `fetch_sub` below zero wraps
  (atomics never panic) and sets the sticky flag `underflow`; `fetch_add` past `U` wraps and sets
  `overflow`; `amount * N` in `on_rcvd` is ordinary `usize` arithmetic: dev-profile panic outcome.
* every method is a sequence of atomic operations (`loadState`, `loadCredit`, `fetchAdd`, `fetchSub`,
  `cas`, `wake`); the method-level functions below are *defined* as the run-to-completion of the
  frames of the interleaving model (`Conc`), so the sequential correspondence run validates every
  atomic step's effect.
* `sig` is the CREDIT bit pending in the path's `ArcSendWaker` (set by `wake_by(Signals::CREDIT)`),
  the only part of the wake protocol C15 needs; the waker protocol itself is C16's.
-/
namespace GmQuic.AntiAmp

/-- `usize::MAX + 1` on the 64-bit target the baseline suite runs on. -/
def U : Nat := 18446744073709551616
/-- `DEFAULT_ANTI_FACTOR` (checked against the compiled constant on every run). -/
def N : Nat := 3

inductive St | normal | granted | aborted
  deriving DecidableEq, Repr, Inhabited

structure AA where
  credit : Nat := 0
  state : St := .normal
  sig : Bool := false
  underflow : Bool := false
  overflow : Bool := false
  deriving DecidableEq, Repr, Inhabited

/-! ## atomic operations -/
def AA.fetchAdd (a : AA) (k : Nat) : AA :=
  if a.credit + k < U then { a with credit := a.credit + k }
  else { a with credit := (a.credit + k) % U, overflow := true }

def AA.fetchSub (a : AA) (k : Nat) : AA :=
  if k ≤ a.credit then { a with credit := a.credit - k }
  else { a with credit := (a.credit + U - k % U) % U, underflow := true }

def AA.wake (a : AA) : AA := { a with sig := true }

/-- `state.compare_exchange(NORMAL, to)`. -/
def AA.cas (a : AA) (to : St) : AA × Bool :=
  if a.state = .normal then ({ a with state := to }, true) else (a, false)

/-- Result of `balance()`: `Ok(Some(usize::MAX))`, `Ok(None)`, `Err(Signals::CREDIT)`, `Ok(Some(c))`. -/
inductive Bal | unlimited | deactivated | wait | some (c : Nat)
  deriving DecidableEq, Repr, Inhabited

/-! ## frames: one in-flight method invocation, positioned before its next atomic operation -/
inductive Frame
  | rcvd0 (n : Nat)   -- before `state.load`
  | rcvd1 (n : Nat)   -- before `amount * N` + `credit.fetch_add`
  | rcvd2             -- before `tx_waker.wake_by(CREDIT)`
  | sent0 (n : Nat)   -- before `state.load`
  | sent1 (n : Nat)   -- before `credit.fetch_sub`
  | grant0 | grant1   -- before the CAS / before the wake
  | abort0 | abort1
  | bal0              -- before the first `state.load`
  | bal1              -- state was NORMAL: before `credit.load`
  | bal2              -- credit was 0: before the second `state.load`
  | bal3 (s : St)     -- second load saw `s ≠ NORMAL`: before `wake_by`
  deriving DecidableEq, Repr, Inhabited

/-- What a finished invocation returned. -/
inductive Ret | unit | panic | bal (b : Bal)
  deriving DecidableEq, Repr, Inhabited

/-- One atomic step of a frame: the new shared state and either the next frame or the return value. -/
def Frame.step (f : Frame) (a : AA) : AA × (Frame ⊕ Ret) :=
  match f with
  | .rcvd0 n => if a.state = .normal then (a, .inl (.rcvd1 n)) else (a, .inr .unit)
  | .rcvd1 n => if n * N < U then (a.fetchAdd (n * N), .inl .rcvd2) else (a, .inr .panic)
  | .rcvd2 => (a.wake, .inr .unit)
  | .sent0 n => if a.state = .normal then (a, .inl (.sent1 n)) else (a, .inr .unit)
  | .sent1 n => (a.fetchSub n, .inr .unit)
  | .grant0 => let (a', ok) := a.cas .granted; if ok then (a', .inl .grant1) else (a', .inr .unit)
  | .grant1 => (a.wake, .inr .unit)
  | .abort0 => let (a', ok) := a.cas .aborted; if ok then (a', .inl .abort1) else (a', .inr .unit)
  | .abort1 => (a.wake, .inr .unit)
  | .bal0 =>
    match a.state with
    | .granted => (a, .inr (.bal .unlimited))
    | .aborted => (a, .inr (.bal .deactivated))
    | .normal => (a, .inl .bal1)
  | .bal1 => if a.credit = 0 then (a, .inl .bal2) else (a, .inr (.bal (.some a.credit)))
  | .bal2 => if a.state = .normal then (a, .inr (.bal .wait)) else (a, .inl (.bal3 a.state))
  | .bal3 s => (a.wake, .inr (.bal (if s = .granted then .unlimited else .deactivated)))

/-- Run a frame to completion without interference (every method has at most 4 atomic steps). -/
def Frame.run : Nat → Frame → AA → AA × Ret
  | 0, _, a => (a, .unit)
  | fuel + 1, f, a =>
    match f.step a with
    | (a', .inl f') => Frame.run fuel f' a'
    | (a', .inr r) => (a', r)

/-! ## method granularity (what the sequential correspondence run compares) -/
def AA.onRcvd (a : AA) (n : Nat) : AA × Ret := Frame.run 4 (.rcvd0 n) a
def AA.onSent (a : AA) (n : Nat) : AA := (Frame.run 4 (.sent0 n) a).1
def AA.grant (a : AA) : AA := (Frame.run 4 .grant0 a).1
def AA.abort (a : AA) : AA := (Frame.run 4 .abort0 a).1
def AA.balance (a : AA) : AA × Bal :=
  match Frame.run 4 .bal0 a with
  | (a', .bal b) => (a', b)
  | (a', _) => (a', .wait)

/-! ## `Constraints` (qconnection/src/path/util.rs) -/
structure Cons where
  credit : Nat
  quota : Nat
  deriving DecidableEq, Repr, Inhabited

def Cons.constrain (c : Cons) (buf : Nat) : Nat := min (min buf c.credit) c.quota
def Cons.commit (c : Cons) (len : Nat) (inFlight : Bool) : Cons :=
  { credit := c.credit - len, quota := if inFlight then c.quota - len else c.quota }
def Cons.isAvailable (c : Cons) : Bool := c.credit > 0

/-! ## the burst rule -/

/-- Which variant of the burst code: the tree as found, or the repaired rule (`repo_patches/experimental-C15-burst-credit.diff`). -/
structure Rule where
  /-- padding of an Initial-bearing datagram is capped by the credit (as found: padded to the full buffer) -/
  capPad : Bool
  /-- later segments of one burst see the credit minus what the earlier segments and the forward
      header already use (as found: every segment re-reads the same `balance()`) -/
  carry : Bool
  /-- CONNECTION_CLOSE datagrams of the closing state are sent only within the credit (as found: always) -/
  guardClose : Bool
  deriving DecidableEq, Repr, Inhabited

def Rule.asFound : Rule := ⟨false, false, false⟩
def Rule.fixed : Rule := ⟨true, true, true⟩

/-- Environment of one segment (= one UDP datagram) of a burst. -/
structure Seg where
  /-- bytes available to QUIC packets: `min(max_segment_size, mtu) - rev` -/
  buf : Nat
  /-- size of the relay forward header in front of the packets (0 on direct pathways) -/
  rev : Nat
  /-- `cc.send_quota()` (0 stands for `Err(CONGESTION)`) -/
  quota : Nat
  /-- bytes the Initial space would write if unconstrained, and its in-flight flag -/
  initial : Nat × Bool
  /-- the same for the 0-RTT / Handshake / 1-RTT packets that follow in the datagram -/
  rest : List (Nat × Bool)
  /-- size the `load_ping` / `load_heartbeat` fallback packet would have if unconstrained -/
  fallback : Nat
  deriving DecidableEq, Repr, Inhabited

/-- `assemble` for each packet in turn: constrain the remaining buffer, write, commit.
    Returns the constraints left and the number of bytes written. -/
def loadPkts : Cons → Nat → List (Nat × Bool) → Cons × Nat
  | c, _, [] => (c, 0)
  | c, rem, (w, fl) :: ws =>
    let sz := min w (c.constrain rem)
    let (c', n) := loadPkts (c.commit sz fl) (rem - sz) ws
    (c', sz + n)

/-- Length handed to `send_packets` for one segment given the `balance()` result `c` and the bytes
    `spent` by earlier segments of the same burst; `0` = the segment produced nothing (`Err`). -/
def segLen (r : Rule) (c : Nat) (spent : Nat) (s : Seg) : Nat :=
  let limit := if r.carry then c - (spent + s.rev) else c
  if r.carry && limit = 0 then 0 else
  let c0 : Cons := ⟨limit, s.quota⟩
  let szI := min s.initial.1 (c0.constrain s.buf)
  let (_, rest) := loadPkts (c0.commit szI s.initial.2) (s.buf - szI) s.rest
  let written := szI + rest
  let len :=
    if szI > 0 then (if r.capPad then max written (min s.buf limit) else s.buf)
    else if written > 0 then written
    else min s.fallback (c0.constrain s.buf)
  if len = 0 then 0 else s.rev + len

/-- `Burst::burst`: segments are loaded while each is at least as long as the previous one; the
    first failing segment ends the burst.  Returns the datagram lengths. -/
def burstLens (r : Rule) (c : Nat) : Nat → Nat → List Seg → List Nat
  | _, _, [] => []
  | spent, last, s :: ss =>
    let l := segLen r c spent s
    if l = 0 then []
    else if l < last then [l]
    else l :: burstLens r c (spent + l) l ss

/-! ## the path: method-granularity histories -/
inductive AaOp
  | rcvd (n : Nat)            -- `Path::on_packet_rcvd(size = n)`
  | burst (segs : List Seg)   -- one `Burst::burst` + `Path::send_packets`
  | close (n : Nat)           -- a CONNECTION_CLOSE datagram of the closing state through `send_packets`
  | grant | abort
  | poll                      -- `balance()` alone (the sender going to sleep on `Err(CREDIT)`)
  deriving DecidableEq, Repr, Inhabited

structure PathSt where
  aa : AA := {}
  sentTotal : Nat := 0
  rcvdTotal : Nat := 0
  /-- the last `balance()` returned `Err(CREDIT)`: the sender waits for the CREDIT signal -/
  waiting : Bool := false
  panicked : Bool := false
  deriving DecidableEq, Repr, Inhabited

def PathSt.underflow (s : PathSt) : Bool := s.aa.underflow

def balNat : Bal → Option Nat
  | .unlimited => some (U - 1)
  | .some c => some c
  | _ => none

namespace Path
def init : PathSt := {}

def stepR (r : Rule) (s : PathSt) : AaOp → PathSt
  | .rcvd n =>
    match s.aa.onRcvd n with
    | (a, .panic) => { s with aa := a, rcvdTotal := s.rcvdTotal + n, panicked := true }
    | (a, _) => { s with aa := a, rcvdTotal := s.rcvdTotal + n }
  | .burst segs =>
    let (a, b) := s.aa.balance
    match balNat b with
    | none => { s with aa := a, waiting := b = .wait }
    | some c =>
      let total := (burstLens r c 0 0 segs).sum
      if total = 0 then { s with aa := a, waiting := false }
      else
        -- `send_packets`: `on_sent(Σ lens)`, then `balance()` (result only feeds the cc status)
        let a := a.onSent total
        { s with aa := a.balance.1, sentTotal := s.sentTotal + total, waiting := false }
  | .close n =>
    let ok :=
      if r.guardClose then
        match balNat s.aa.balance.2 with
        | some c => n ≤ c
        | none => false
      else true
    let a := if r.guardClose then s.aa.balance.1 else s.aa
    if ok && n > 0 then { s with aa := (a.onSent n).balance.1, sentTotal := s.sentTotal + n }
    else { s with aa := a }
  | .grant => { s with aa := s.aa.grant }
  | .abort => { s with aa := s.aa.abort }
  | .poll => let (a, b) := s.aa.balance; { s with aa := a, waiting := b = .wait }

/-- The tree as found (statement shape of DESIGN Appendix A). -/
def step : PathSt → AaOp → PathSt := stepR Rule.asFound
/-- A repaired burst rule (`Rule.fixed`): the design target the bound is proved for.  The experimental
    patch that implements it literally stalls the repo's handshake tests, see docs/C15.md. -/
def stepRepaired : PathSt → AaOp → PathSt := stepR Rule.fixed
end Path

def NotGranted (ops : List AaOp) : Prop := ∀ op ∈ ops, op ≠ AaOp.grant

/-! ## interleaving model: any number of concurrent `on_rcvd` / `grant` / `abort` invocations and the
single sending task (`balance`, then `on_sent` of at most the balance — "must only be called by one
at a time"), each advancing one atomic operation at a time in any order. -/

inductive Sender
  | idle
  | polling (f : Frame)       -- inside `balance()`
  | holding (c : Nat)         -- `balance()` returned an allowance of `c` (usize::MAX when granted)
  | sending (f : Frame)       -- inside `on_sent`
  | asleep                    -- `balance()` returned `Err(CREDIT)`: waiting for the CREDIT signal
  | stopped                   -- `balance()` returned `Ok(None)`: the burst task ended
  deriving DecidableEq, Repr, Inhabited

structure Conc where
  aa : AA := {}
  pool : List Frame := []     -- in-flight `on_rcvd` / `grant` / `abort`
  sender : Sender := .idle
  sentTotal : Nat := 0
  rcvdTotal : Nat := 0
  grantCalled : Bool := false
  deriving Repr, Inhabited

inductive COp
  | callRcvd (n : Nat) | callGrant | callAbort
  | stepPool (i : Nat)         -- one atomic step of the i-th in-flight invocation
  | senderStep (amt : Nat)     -- one atomic step of the sender (at `holding c` it sends `min amt c`)
  deriving DecidableEq, Repr, Inhabited

def stepAt : Nat → List Frame → AA → List Frame × AA
  | _, [], a => ([], a)
  | 0, f :: fs, a =>
    match f.step a with
    | (a', .inl f') => (f' :: fs, a')
    | (a', .inr _) => (fs, a')
  | i + 1, f :: fs, a => let (fs', a') := stepAt i fs a; (f :: fs', a')

def Conc.step (s : Conc) : COp → Conc
  | .callRcvd n => { s with pool := s.pool ++ [.rcvd0 n], rcvdTotal := s.rcvdTotal + n }
  | .callGrant => { s with pool := s.pool ++ [.grant0], grantCalled := true }
  | .callAbort => { s with pool := s.pool ++ [.abort0] }
  | .stepPool i => let (p, a) := stepAt i s.pool s.aa; { s with pool := p, aa := a }
  | .senderStep amt =>
    match s.sender with
    | .idle => { s with sender := .polling .bal0 }
    | .polling f =>
      match f.step s.aa with
      | (a, .inl f') => { s with aa := a, sender := .polling f' }
      | (a, .inr (.bal .unlimited)) => { s with aa := a, sender := .holding (U - 1) }
      | (a, .inr (.bal (.some c))) => { s with aa := a, sender := .holding c }
      | (a, .inr (.bal .wait)) => { s with aa := a, sender := .asleep }
      | (a, .inr _) => { s with aa := a, sender := .stopped }
    | .holding c =>
      let k := min amt c
      if k = 0 then { s with sender := .idle }
      else { s with sender := .sending (.sent0 k), sentTotal := s.sentTotal + k }
    | .sending f =>
      match f.step s.aa with
      | (a, .inl f') => { s with aa := a, sender := .sending f' }
      | (a, .inr _) => { s with aa := a, sender := .idle }
    | .asleep => if s.aa.sig then { s with aa := { s.aa with sig := false }, sender := .idle } else s
    | .stopped => s

end GmQuic.AntiAmp
