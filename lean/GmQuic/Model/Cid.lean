/-
C14 — executable model of `qbase/src/cid/local_cid.rs` (`LocalCids`) and `qbase/src/cid/remote_cid.rs`
(`RemoteCids`, `CidCell`), branch by branch, over the `IndexDeque` operations those files use
(`push_back`, `get`, `get_mut`, `insert`, `advance`, `drain_to`, `pop_front`, `reset_offset`).

Connection IDs are *names*: `gen n` = the n-th id produced by `gen_unique_cid` (the harness names the random
bytes by order of generation), `ext n` = an id chosen by the peer / the harness (initial DCID, peer-issued ids,
client-chosen original DCID).  Integers are `Nat`; the only `u64`/`VarInt` bounds that matter are explicit
outcomes (`debug_assert!` of `IndexDeque::drain_to`, `assert!`s of `CidCell`), sequence numbers are wire varints.

Core-only imports: this file is linked into the native driver.
-/
namespace GmQuic.Cid

inductive Cid where
  | gen (n : Nat)
  | ext (n : Nat)
  deriving DecidableEq, Repr, Inhabited

/-- NEW_CONNECTION_ID frame as emitted by `LocalCids` (reset token not modelled). -/
structure NewCid where
  seq : Nat
  rpt : Nat
  cid : Cid
  deriving DecidableEq, Repr

/-! ## `LocalCids` -/

/-- `cid_deque: IndexDeque<Option<(ConnectionId, ResetToken)>>` (= `off` + `dq`), `active_cid_limit`. -/
structure Local where
  off : Nat
  dq : List (Option Cid)
  limit : Option Nat
  deriving Repr

namespace Local

/-- `IndexDeque::largest()` -/
def largest (l : Local) : Nat := l.off + l.dq.length

/-- ids that are issued and not retired -/
def active (l : Local) : List Cid := l.dq.filterMap id

/-- `issue_new_cid` with the id `c` obtained from `gen_unique_cid`:
frame `(seq = largest, retire_prior_to = offset)`, `push_back(Some(c))`. -/
def issue (l : Local) (c : Cid) : Local × NewCid :=
  ({ l with dq := l.dq ++ [some c] }, ⟨l.largest, l.off, c⟩)

/-- `n` consecutive `issue_new_cid` calls, ids `gen next, gen (next+1), …` -/
def issueN (l : Local) (next : Nat) : Nat → Local × List NewCid
  | 0 => (l, [])
  | n + 1 =>
    let (l1, f) := l.issue (.gen next)
    let (l2, fs) := issueN l1 (next + 1) n
    (l2, f :: fs)

/-- `LocalCids::new(scid, …)`: `[Some scid, Some c1]`, frame `(1, 0, c1)`, limit unknown. -/
def new (scid c1 : Cid) : Local × NewCid :=
  ({ off := 0, dq := [some scid, some c1], limit := none }, ⟨1, 0, c1⟩)

inductive SetLimitRes where
  | panic                                   -- `debug_assert!(self.active_cid_limit.is_none())`
  | errTransportParameter                   -- limit < 2
  | ok (l : Local) (frames : List NewCid)   -- `frames.length` = number of loop iterations (C04 item 9)

/-- `MAX_ISSUED_ACTIVE_CIDS` of `local_cid.rs` (`fix-C04-setlimit-cap.diff`; checked against the source by C04's `consts` line) -/
def maxIssuedActiveCids : Nat := 64

/-- number of iterations of `for _ in largest()..active_cid_limit.min(MAX_ISSUED_ACTIVE_CIDS)` -/
def setLimitCost (l : Local) (n : Nat) : Nat := min n maxIssuedActiveCids - l.largest

def setLimit (l : Local) (next : Nat) (n : Nat) : SetLimitRes :=
  if l.limit.isSome then .panic
  else if n < 2 then .errTransportParameter
  else
    let (l', fs) := l.issueN next (setLimitCost l n)
    .ok { l' with limit := some n } fs

inductive RetireRes where
  | errUnissued                                    -- `seq >= largest()`
  | noop                                           -- slid out (`get_mut` = None) or already retired (`take()` = None)
  | retired (l : Local) (old : Cid) (f : NewCid)   -- one id retired, one issued

/-- leading `None`s: `iter().take_while(|v| v.is_none()).count()` -/
def leadingNone : List (Option Cid) → Nat
  | none :: rest => leadingNone rest + 1
  | _ => 0

/-- `recv_retire_cid_frame(seq)`; `c` = the id `gen_unique_cid` returns if one is issued. -/
def retire (l : Local) (seq : Nat) (c : Cid) : RetireRes :=
  if seq ≥ l.largest then .errUnissued
  else if seq < l.off then .noop
  else
    match l.dq[seq - l.off]? with
    | some (some old) =>
      let dq1 := l.dq.set (seq - l.off) none
      let n := leadingNone dq1
      let l1 : Local := { l with off := l.off + n, dq := dq1.drop n }
      let (l2, f) := l1.issue c
      .retired l2 old f
    | _ => .noop

inductive ErrKind where
  | connectionIdLimit | protocolViolation | transportParameter
  deriving DecidableEq, Repr

/-- error kind returned with `RetireRes.errUnissued`: the pinned tree says `ErrorKind::ConnectionIdLimit`; with
`repo_patches/fix-C14-retire-unissued-kind.diff` it is `ErrorKind::ProtocolViolation`. -/
def unissuedKind (fixed : Bool) : ErrKind := if fixed then .protocolViolation else .connectionIdLimit

/-- RFC 9000 §19.16: "Receipt of a RETIRE_CONNECTION_ID frame containing a sequence number greater than any
previously sent to the peer MUST be treated as a connection error of type PROTOCOL_VIOLATION." -/
def rfcUnissuedKind : ErrKind := .protocolViolation

/-- `clear()`: `drain_to(largest())`, `retire_cid` for every remaining id (deque order). -/
def clear (l : Local) : Local × List Cid :=
  ({ l with off := l.largest, dq := [] }, l.active)

end Local

/-! ## `CidCell` -/

structure Cell where
  alloc : List (Nat × Cid)      -- `allocated_cids`, front = newest
  retired : Bool
  inUse : Bool
  deriving Repr, DecidableEq

namespace Cell

def fresh : Cell := { alloc := [], retired := false, inUse := false }

/-- `while len > 1 { pop_back → RETIRE }`: keeps the front, returns the retired sequence numbers oldest first. -/
def shrink (a : List (Nat × Cid)) : List (Nat × Cid) × List Nat :=
  match a with
  | [] => ([], [])
  | x :: rest => ([x], (rest.map (·.1)).reverse)

/-- `assign(seq, cid)` (caller guarantees `!is_retired`, else `assert!` — see `Remote.arrange`). -/
def assign (c : Cell) (seq : Nat) (cid : Cid) : Cell × List Nat :=
  let a := (seq, cid) :: c.alloc
  if c.inUse then ({ c with alloc := a }, [])
  else
    let (a', fr) := shrink a
    ({ c with alloc := a' }, fr)

inductive BorrowRes where
  | gone                 -- `Ok(None)`: the cell is retired
  | wait                 -- `Err(Signals::CONNECTION_ID)`: nothing allocated yet
  | cid (c : Cid)

def borrow (c : Cell) : Cell × BorrowRes :=
  if c.retired then (c, .gone)
  else match c.alloc with
    | [] => (c, .wait)
    | (_, cid) :: _ => ({ c with inUse := true }, .cid cid)

/-- `renew()` (drop of a `BorrowedCid`): `none` = `assert!(self.is_using)` fails. -/
def renew (c : Cell) : Option (Cell × List Nat) :=
  if c.inUse then
    let (a', fr) := shrink c.alloc
    some ({ c with inUse := false, alloc := a' }, fr)
  else none

/-- `retire()`: RETIRE for every allocated id, newest first. -/
def retire (c : Cell) : Cell × List Nat :=
  if c.retired then (c, [])
  else ({ c with retired := true, alloc := [] }, c.alloc.map (·.1))

end Cell

/-! ## `RemoteCids` -/

/-- `cid_deque` (= `coff` + `cdq`), `ready_cells` (= `roff` + `ready`, cells by index into `cells`),
`pending_cells`, `active_cid_limit`, `cursor`; `cells` = every `ArcCidCell` ever created (creation order);
`frames` = RETIRE_CONNECTION_ID sequence numbers handed to `retired_cids.send_frame`, in order. -/
structure Remote where
  limit : Nat
  coff : Nat
  cdq : List (Option Cid)
  roff : Nat
  ready : List Nat
  pending : List Nat
  cursor : Nat
  cells : List Cell
  frames : List Nat
  deriving Repr

namespace Remote

def init (limit : Nat) : Remote :=
  { limit, coff := 0, cdq := [], roff := 0, ready := [], pending := [], cursor := 0, cells := [], frames := [] }

def cell (s : Remote) (i : Nat) : Cell := s.cells.getD i Cell.fresh

def setCell (s : Remote) (i : Nat) (c : Cell) : Remote := { s with cells := s.cells.set i c }

/-- `cid_deque.get(idx)` flattened: `Some(Some(..))` only -/
def cidAt (s : Remote) (idx : Nat) : Option Cid :=
  if idx < s.coff then none else (s.cdq[idx - s.coff]?).join

/-- `arrange_idle_cid`; recursion on the pending list (every iteration pops one cell or stops). -/
def arrangeGo (s : Remote) : List Nat → Remote
  | [] => { s with pending := [] }
  | c :: rest =>
    if (s.cell c).retired then arrangeGo s rest
    else match s.cidAt s.cursor with
      | some cid =>
        let (cl, fr) := (s.cell c).assign s.cursor cid
        let s1 := s.setCell c cl
        arrangeGo { s1 with ready := s1.ready ++ [c], cursor := s1.cursor + 1, frames := s1.frames ++ fr } rest
      | none => { s with pending := c :: rest }

def arrange (s : Remote) : Remote := arrangeGo s s.pending

/-- `apply_dcid()`: new cell index -/
def apply (s : Remote) : Remote × Nat :=
  let i := s.cells.length
  (arrange { s with cells := s.cells ++ [Cell.fresh], pending := s.pending ++ [i] }, i)

/-- the `for _ in offset..need_reassigned { pop_front … }` loop of `retire_prior_to` -/
def popReady (s : Remote) : Nat → Remote
  | 0 => s
  | n + 1 =>
    match s.ready with
    | [] => s       -- unreachable: `pop_front().unwrap()`; n ≤ ready.length by construction
    | c :: rest =>
      let s1 := { s with ready := rest, roff := s.roff + 1 }
      popReady (if (s.cell c).retired then s1 else { s1 with pending := s1.pending ++ [c] }) n

inductive Outcome (α : Type) where
  | ok (a : α)
  | panic (site : String)

/-- `retire_prior_to(tomb)` -/
def retirePriorTo (s : Remote) (tomb : Nat) : Outcome Remote :=
  if tomb ≤ s.roff then .ok s
  else if ¬ (s.coff ≤ tomb ∧ tomb ≤ s.coff + s.cdq.length) then .panic "drain_to"   -- debug_assert! in IndexDeque::drain_to
  else
    let k := tomb - s.coff
    let s := { s with cdq := s.cdq.drop k, coff := tomb, cursor := max s.cursor tomb }
    if s.ready.isEmpty then
      .ok { s with frames := s.frames ++ List.range' s.roff (tomb - s.roff), roff := tomb }
    else
      let applied := s.roff + s.ready.length
      let need := min applied tomb
      let s := popReady s (need - s.roff)
      if applied < tomb then
        .ok { s with roff := tomb, frames := s.frames ++ List.range' applied (tomb - applied) }
      else .ok s

/-- `IndexDeque::insert(seq, Some(cid))` for `seq ≥ coff`; second component = cells appended (C04 item 8) -/
def insertCid (s : Remote) (seq : Nat) (cid : Cid) : Remote × Nat :=
  let pos := seq - s.coff
  if pos < s.cdq.length then ({ s with cdq := s.cdq.set pos (some cid) }, 0)
  else ({ s with cdq := s.cdq ++ List.replicate (pos - s.cdq.length) none ++ [some cid] }, pos - s.cdq.length + 1)

/-- cells by which `recv_new_cid_frame(seq, …)` grows the table -/
def insertCost (s : Remote) (seq : Nat) : Nat := (insertCid s seq (.ext 0)).2

/-- ids the peer issued that are still usable: received, not below the retire-prior-to mark, and not retired by a
path (`CidCell::retire` of the ready cell holding it). -/
def retiredReady (s : Remote) : Nat := (s.ready.filter fun c => (s.cell c).retired).length
def activeCount (s : Remote) : Nat := (s.cdq.filterMap id).length - s.retiredReady

inductive NewCidRes where
  | errLimit (s : Remote)       -- CONNECTION_ID_LIMIT_ERROR (state as left behind)
  | discarded                   -- `Ok(None)`: seq below the offset
  | accepted (s : Remote)       -- `Ok(Some(token))`
  | panic (site : String)

/-- which `recv_new_cid_frame` is modelled:
* `pinned`  — the pinned tree: only the pre-test `seq - retire_prior_to > limit` on the frame's two fields;
* `counted` — with `repo_patches/fix-C14-remote-limit.diff`: the pre-test, and the number of active ids is counted
  after the frame has been processed;
* `exact`   — /repo HEAD: with `repo_patches/fix-C14-legal-issue.diff` on top (no pre-test: the count decides) and the
  sequence-gap test of `fix-C04-newcid-seq-gap.diff` in front of the insert. -/
inductive Tree where
  | pinned | counted | exact
  deriving DecidableEq, Repr

def Tree.pre : Tree → Bool
  | .exact => false
  | _ => true

def Tree.count : Tree → Bool
  | .pinned => false
  | _ => true

/-- the sequence-gap test of `fix-C04-newcid-seq-gap.diff` (committed before `fix-C14-legal-issue.diff`): part of `exact` -/
def Tree.gap : Tree → Bool
  | .exact => true
  | _ => false

/-- `MAX_SEQUENCE_GAP` of `remote_cid.rs` (checked against the source by C04's `consts` line) -/
def maxSequenceGap : Nat := 4096

/-- `seq.saturating_sub(cid_deque.largest()) > MAX_SEQUENCE_GAP.max(active_cid_limit)` -/
def farAhead (s : Remote) (seq : Nat) : Bool := decide (seq - (s.coff + s.cdq.length) > max maxSequenceGap s.limit)

/-- `recv_new_cid_frame` -/
/- The code tests `seq < offset` (discard) before the gap; both refusals leave the state as it is and the gap test
is guarded by `coff ≤ seq` here, so the order is immaterial and one branch serves both. -/
def recvNewCid (fixed : Tree) (s : Remote) (seq rpt : Nat) (cid : Cid) : NewCidRes :=
  if (fixed.pre && decide (seq - rpt > s.limit)) || (fixed.gap && decide (s.coff ≤ seq) && s.farAhead seq) then .errLimit s
  else if seq < s.coff then .discarded
  else
    let (s1, _) := s.insertCid seq cid
    match s1.retirePriorTo rpt with
    | .panic site => .panic site
    | .ok s2 =>
      if fixed.count && s2.activeCount > s2.limit then .errLimit s2
      else .accepted s2.arrange

inductive InitRes where
  | panic (site : String)
  | ok (s : Remote)

/-- `apply_initial_dcid(cid, cell)` -/
def applyInitial (s : Remote) (cid : Cid) (c : Nat) : InitRes :=
  if ¬ (s.cdq.isEmpty ∧ s.coff = 0 ∧ s.cursor = 0) then .panic "initial:not-first"
  else if ¬ s.pending.contains c then .panic "initial:cell-not-pending"
  else
    let s := { s with cdq := [some cid], pending := c :: s.pending.erase c }
    .ok s.arrange

/-- `ArcCidCell::borrow_cid` -/
def borrow (s : Remote) (c : Nat) : Remote × Cell.BorrowRes :=
  let (cl, r) := (s.cell c).borrow
  (s.setCell c cl, r)

/-- drop of a `BorrowedCid` -/
def release (s : Remote) (c : Nat) : Option Remote :=
  match (s.cell c).renew with
  | some (cl, fr) => some { s.setCell c cl with frames := s.frames ++ fr }
  | none => none

/-- `ArcCidCell::retire` -/
def retireCell (s : Remote) (c : Nat) : Remote :=
  let (cl, fr) := (s.cell c).retire
  { s.setCell c cl with frames := s.frames ++ fr }

/-- `latest_dcid()` -/
def latest (s : Remote) : Option Cid := (s.cdq.filterMap id).getLast?

end Remote


/-! ## histories of a `RemoteCids` with its cells -/

inductive ROp where
  | apply
  | initial (cid : Cid) (cell : Nat)
  | newcid (seq rpt : Nat) (cid : Cid)
  | borrow (cell : Nat)
  | release (cell : Nat)
  | retireCell (cell : Nat)
  deriving Repr

/-- `dead`: a panic happened (mutexes poisoned); `closed`: a connection error was returned (the connection is
being closed, no further frames are processed). -/
structure RRun where
  s : Remote
  dead : Bool := false
  closed : Bool := false
  /-- number of NEW_CONNECTION_ID frames accepted (`Ok(Some(_))`) -/
  accepted : Nat := 0
  deriving Repr

namespace RRun

def step (fixed : Remote.Tree) (r : RRun) (o : ROp) : RRun :=
  if r.dead || r.closed then r else
  match o with
  | .apply => { r with s := r.s.apply.1 }
  | .initial cid c =>
    match r.s.applyInitial cid c with
    | .ok s => { r with s := s }
    | .panic _ => { r with dead := true }
  | .newcid seq rpt cid =>
    match r.s.recvNewCid fixed seq rpt cid with
    | .errLimit s => { r with s := s, closed := true }
    | .discarded => r
    | .accepted s => { r with s := s, accepted := r.accepted + 1 }
    | .panic _ => { r with dead := true }
  | .borrow c => { r with s := (r.s.borrow c).1 }
  | .release c =>
    match r.s.release c with
    | some s => { r with s := s }
    | none => { r with dead := true }
  | .retireCell c => { r with s := r.s.retireCell c }

def run (fixed : Remote.Tree) (limit : Nat) (ops : List ROp) : RRun :=
  ops.foldl (step fixed) { s := Remote.init limit }

end RRun

end GmQuic.Cid
