/-!
C16: `CidCell::borrow_cid` (qbase/src/cid/remote_cid.rs) together with the path's `SendWaker`.  The burst task calls
`borrow_cid(tx_waker)` (cell mutex) and, on `Err(CONNECTION_ID)`, later `wait_for(CONNECTION_ID)` (SendWaker mutex):
TWO critical sections, so notifiers can run in between.  The notifiers `assign` (a NEW_CONNECTION_ID reached the
cell) and `retire` take the cell mutex and call `waker.take().wake_by(CONNECTION_ID)` inside it — one atomic step.
No imports.
-/
namespace GmQuic.Wake.Cid

inductive WPc where
  | c0        -- about to call borrow_cid
  | c1        -- got Err(CONNECTION_ID); about to call poll_wait_for(CONNECTION_ID)
  | asleep
  deriving DecidableEq, Repr

structure State where
  hasCid : Bool       -- allocated_cids is not empty
  retired : Bool
  cellWaker : Bool    -- CidCell.waker = Some(the path's ArcSendWaker)
  bit : Bool          -- SendWaker.state & CONNECTION_ID
  registered : Bool   -- SendWaker.waker is the burst task's waker
  woken : Bool
  wpc : WPc
  deriving DecidableEq, Repr

def init : State := ⟨false, false, false, false, false, false, .c0⟩

inductive Op where
  | waiter | restart
  | assign     -- CidCell::assign (new id for this cell)
  | retire     -- ArcCidCell::retire
  deriving DecidableEq, Repr

def wakeBy (s : State) : State :=
  { s with bit := true, woken := if !s.bit && s.registered then true else s.woken }

/-- `if let Some(waker) = self.waker.take() { waker.wake_by(CONNECTION_ID) }` -/
def takeWakeBy (s : State) : State :=
  if s.cellWaker then { wakeBy s with cellWaker := false } else s

def step (s : State) : Op → State
  | .waiter =>
    match s.wpc with
    | .c0 =>
      if s.retired then s                                   -- Ok(None)
      else if !s.hasCid then { s with cellWaker := true, wpc := .c1 }   -- Err(CONNECTION_ID)
      else s                                                -- Ok(Some(cid))
    | .c1 =>
      if s.bit then { s with bit := false, wpc := .c0 }
      else { s with registered := true, woken := false, wpc := .asleep }
    | .asleep => if s.woken then { s with wpc := .c1 } else s
  | .restart => { s with wpc := .c0 }
  | .assign => if s.retired then s else takeWakeBy { s with hasCid := true }   -- assert!(!is_retired)
  | .retire => if s.retired then s else takeWakeBy { s with retired := true, hasCid := false }

def run (sched : List Op) : State := sched.foldl step init

def asleep (s : State) : Prop := s.wpc = .asleep
def wakePending (s : State) : Prop := s.woken = true
def cond (s : State) : Prop := s.hasCid = true ∨ s.retired = true

end GmQuic.Wake.Cid
