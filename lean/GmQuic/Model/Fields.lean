import GmQuic.Model.Frame
/-!
Stand-alone field encoders that the Rust exposes as separate `put_*` functions
(`put_connection_id`, `put_streamid`, `put_reset_token`, `put_socket_addr`); the frame model inlines
them, the definitions here give them names for the per-field theorems of C05 (and for C03's reuse).
-/
namespace GmQuic.Codec
open GmQuic.Wire

/-- `put_connection_id`: length byte + bytes -/
def encCid (cid : Bytes) : Bytes := UInt8.ofNat cid.length :: cid
/-- `ConnectionId::encoding_size` -/
def cidSize (cid : Bytes) : Nat := 1 + cid.length
/-- `put_streamid` -/
def encStreamId (sid : Nat) : Bytes := encVarint sid
/-- `be_streamid` -/
def pStreamId : P Nat := pVarint
/-- `put_reset_token` -/
def encResetToken (t : Bytes) : Bytes := t
/-- `be_reset_token` (complete `take(16)`) -/
def pResetToken : P Bytes := pTakeC resetTokenSize

end GmQuic.Codec
