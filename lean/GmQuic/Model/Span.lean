import GmQuic.Model.Json
/-!
# C20 — the ambient `Span` (qevent/src/telemetry.rs) and the `event!` expansion (telemetry/macros.rs, macro_support.rs)

Transliteration:
* a span's `fields : HashMap<&'static str, serde_json::Value>`; `span!(@current | exporter, name = value, …)` clones the
  fields of the thread's current span and `insert`s the new ones (overwriting);
* `Span::load::<T>(name)`      — `panic!` when the field is missing or `serde_json::from_value::<T>` fails;
* `Span::try_load::<T>(name)`  — `None` in both cases;
* `macro_support::try_load_current_span::<T>(name)` — `None` when missing, `Some(from_value(..).unwrap())` otherwise, i.e. a
  PANIC when the field is present but is not a `T`;
* `event!(data, custom…)` → `build_and_emit_event`: `if !filter::event(scheme) { return }` BEFORE anything is built; then the
  builder gets `time`, `data`, the three `@load_known` fields `path`, `protocol_types`, `group_id` (each set only when the
  span has it), the custom fields (a map), and `build()`s the `Event`, which the span's exporter receives.
`T` is represented by the generated `Schema` of the Rust type and `from_value::<T>` by the model's `de`.
-/
namespace GmQuic.Model.Span
open GmQuic.Model.Json

abbrev SFields := List (String × Json)

def insert (k : String) (v : Json) (m : SFields) : SFields := (k, v) :: m.filter (fun kv => kv.1 ≠ k)

/-- `span!(…, f₁ = v₁, …)` on top of the current fields -/
def enter (cur : SFields) (adds : List (String × Json)) : SFields := adds.foldl (fun m kv => insert kv.1 kv.2 m) cur

inductive Out (α : Type) where
  | ok (a : α)
  | panic

/-- `Span::load` -/
def load (sch : Schema) (m : SFields) (name : String) : Out Val :=
  match lookup name m with
  | none => .panic
  | some j => (match de sch j with | some v => .ok v | none => .panic)

/-- `Span::try_load` -/
def tryLoad (sch : Schema) (m : SFields) (name : String) : Option Val :=
  match lookup name m with
  | none => none
  | some j => de sch j

/-- `macro_support::try_load_current_span` -/
def tryLoadCurrent (sch : Schema) (m : SFields) (name : String) : Out (Option Val) :=
  match lookup name m with
  | none => .ok none
  | some j => (match de sch j with | some v => .ok (some v) | none => .panic)

/-- the `@load_known` lines, in order; result: one optional value per known field -/
def loadKnown (m : SFields) : List (String × Schema) → Out (List Val)
  | [] => .ok []
  | (n, sch) :: tl =>
      match tryLoadCurrent sch m n with
      | .panic => .panic
      | .ok r =>
        (match loadKnown m tl with
          | .panic => .panic
          | .ok rs => .ok ((match r with | some v => Val.some v | none => Val.none) :: rs))

inductive EmitOut where
  | filtered
  | panic
  | emitted (ev : Val)

/-- `event!`: the emitted value is a record in the field order of `struct Event`
(time, data, path, time_format, protocol_types, group_id, system_info) + the custom-field map. -/
def emit (knowns : List (String × Schema)) (filterOk : Bool) (m : SFields) (time : String) (dataIdx : Nat) (data : Val)
    (custom : Kvs) : EmitOut :=
  if !filterOk then .filtered
  else match loadKnown m knowns with
    | .panic => .panic
    | .ok [p, pt, g] => .emitted (.rcd [.flt time, .var dataIdx data, p, .none, pt, g, .none] custom)
    | .ok _ => .panic   -- unreachable with the three known loads of the macro

/-! ## loggers with a storage (`handy::LegacySeqLogger<S: TelemetryStorage>`, `impl ExportEvent for UnboundedSender<Event>`)

`new_trace` calls `storage.join(file_name)` (returns a future), spawns the writer task that awaits that future and then
writes the header and every event received over an unbounded channel, and returns `span!(Arc::new(tx), group_id = …)`.
The storage may FAIL: the file cannot be created (directory missing / not a directory / removed / not writable), or the
sink answers an error on write or on flush.  Where a failure surfaces depends on the shape of the code, which the
translator extracts (`LoggerShape`): fallible work of `join` outside the future it returns runs on the stack of
`new_trace`'s caller. -/

inductive StorageResult where
  | ok | openFails | writeFails | flushFails
  deriving DecidableEq, Repr

structure LoggerShape where
  /-- `join` panics / unwraps outside the returned future -/
  joinEager : Bool
  /-- the storage future is awaited only inside the spawned writer task -/
  awaitsInTask : Bool
  /-- `new_trace` itself contains a panicking call outside the spawned task -/
  callerFallible : Bool
  /-- `emit` = `_ = tx.send(event)` (error of a closed channel ignored) -/
  sendErrorIgnored : Bool

inductive WriterOut where
  | running | panicked | endedWithError | notSpawned
  deriving DecidableEq, Repr

structure TraceOut where
  /-- a panic unwinds out of `new_trace` into the task that builds the connection -/
  callerPanics : Bool
  writer : WriterOut
  deriving DecidableEq, Repr

def newTrace (sh : LoggerShape) (st : StorageResult) : TraceOut :=
  if sh.callerFallible then { callerPanics := true, writer := .notSpawned }
  else match st with
  | .ok => { callerPanics := false, writer := .running }
  | .openFails =>
      if sh.joinEager || !sh.awaitsInTask then { callerPanics := true, writer := .notSpawned }
      else { callerPanics := false, writer := .panicked }     -- `unwrap_or_else(|e| panic!(..))` inside the writer task
  | .writeFails => { callerPanics := false, writer := .endedWithError }   -- `?` in the writer task
  | .flushFails => { callerPanics := false, writer := .endedWithError }

/-- `event!` under a span whose exporter is the channel sender of a logger whose storage behaved as `st` -/
def emitLogged (sh : LoggerShape) (st : StorageResult) (knowns : List (String × Schema)) (m : SFields) (time : String)
    (dataIdx : Nat) (data : Val) (custom : Kvs) : EmitOut :=
  let t := newTrace sh st
  if t.callerPanics then .panic
  else if t.writer != .running && !sh.sendErrorIgnored then .panic     -- `tx.send(..).unwrap()` on a closed channel
  else emit knowns true m time dataIdx data custom

/-- every known field that IS present in the span deserialises as its declared type -/
def contextWellTyped (knowns : List (String × Schema)) (m : SFields) : Prop :=
  ∀ p ∈ knowns, ∀ j, lookup p.1 m = some j → (de p.2 j).isSome = true

end GmQuic.Model.Span
