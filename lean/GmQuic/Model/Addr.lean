import GmQuic.Model.Frame
import GmQuic.Model.Fields
/-!
Address codecs outside the frames: `EndpointAddr` (`qbase/src/net/addr.rs`), `Link`
(`qbase/src/net/route.rs`), `PreferredAddress` (`qbase/src/param/preferred_address.rs`), all built
on `put_socket_addr` / `be_socket_addr` (modelled in `Model/Frame.lean`).
-/
namespace GmQuic.Codec
open GmQuic.Wire

inductive EndpointAddr | direct (a : SockAddr) | agent (agent outer : SockAddr)
  deriving DecidableEq, Repr, Inhabited

/-- `put_endpoint_addr` -/
def encEndpoint : EndpointAddr → Bytes
  | .direct a => encSockAddr a
  | .agent a o => encSockAddr a ++ encSockAddr o

/-- `EndpointAddr::encoding_size`; `none` = `unimplemented!()` (agent and outer of different families) -/
def endpointSize : EndpointAddr → Option Nat
  | .direct a => some (if a.v6 then 2 + 16 else 2 + 4)
  | .agent a o =>
    if a.v6 && o.v6 then some (2 + 16 + 2 + 16)
    else if !a.v6 && !o.v6 then some (2 + 4 + 2 + 4)
    else none

/-- `be_endpoint_addr(input, relay, family)` -/
def pEndpoint (relay : Nat) (v6 : Bool) : P EndpointAddr := fun bs =>
  if relay != 0 then
    (pSockAddr v6 bs).bind fun a r => (pSockAddr v6 r).bind fun o r => .ok (.agent a o) r
  else (pSockAddr v6 bs).bind fun a r => .ok (.direct a) r

structure Link where
  src : SockAddr
  dst : SockAddr
  deriving DecidableEq, Repr, Inhabited

/-- `put_link`: family byte of `src`, then both addresses -/
def encLink (l : Link) : Bytes :=
  UInt8.ofNat (if l.src.v6 then 1 else 0) :: (encSockAddr l.src ++ encSockAddr l.dst)

/-- `EncodeSize for Link` -/
def linkSize (l : Link) : Nat := 1 + sockAddrSize l.src + sockAddrSize l.dst
def linkMaxSize (_ : Link) : Nat := 1 + (2 + 16) + (2 + 16)

/-- `be_link` -/
def pLink : P Link := fun bs =>
  (pU8S bs).bind fun fam r =>
  if fam = 0 then (pSockAddr false r).bind fun s r => (pSockAddr false r).bind fun d r => .ok ⟨s, d⟩ r
  else if fam = 1 then (pSockAddr true r).bind fun s r => (pSockAddr true r).bind fun d r => .ok ⟨s, d⟩ r
  else .err (.nom .alt)

/-- `PreferredAddress` (the IPv4 and IPv6 addresses are written ip first, then port) -/
structure PrefAddr where
  ip4 : Nat
  port4 : Nat
  ip6 : Nat
  port6 : Nat
  cid : Bytes
  token : Bytes
  deriving DecidableEq, Repr, Inhabited

/-- `put_preferred_address` -/
def encPrefAddr (p : PrefAddr) : Bytes :=
  beBytes 4 p.ip4 ++ (beBytes 2 p.port4 ++ (beBytes 16 p.ip6 ++ (beBytes 2 p.port6 ++ (encCid p.cid ++ p.token))))

/-- `PreferredAddress::encoding_size` -/
def prefAddrSize (p : PrefAddr) : Nat := 6 + 18 + cidSize p.cid + resetTokenSize

/-- `be_preferred_address` (streaming `take(6)`, `take(18)`, `be_connection_id`, complete `be_reset_token`) -/
def pPrefAddr : P PrefAddr := fun bs =>
  (pTakeS 6 bs).bind fun a4 r =>
  (pTakeS 18 r).bind fun a6 r =>
  (pCid r).bind fun cid r =>
  (pTakeC resetTokenSize r).bind fun tok r =>
  .ok ⟨beVal (a4.take 4), beVal (a4.drop 4), beVal (a6.take 16), beVal (a6.drop 16), cid, tok⟩ r

def wfEndpoint : EndpointAddr → Bool
  | .direct a => decide (a.port < 2 ^ 16) && decide (a.ip < (if a.v6 then 2 ^ 128 else 2 ^ 32))
  | .agent a o =>
    decide (a.port < 2 ^ 16) && decide (a.ip < (if a.v6 then 2 ^ 128 else 2 ^ 32)) &&
    decide (o.port < 2 ^ 16) && decide (o.ip < (if o.v6 then 2 ^ 128 else 2 ^ 32)) && (a.v6 == o.v6)

def wfLink (l : Link) : Bool :=
  decide (l.src.port < 2 ^ 16) && decide (l.src.ip < (if l.src.v6 then 2 ^ 128 else 2 ^ 32)) &&
  decide (l.dst.port < 2 ^ 16) && decide (l.dst.ip < (if l.dst.v6 then 2 ^ 128 else 2 ^ 32)) && (l.src.v6 == l.dst.v6)

def wfPrefAddr (p : PrefAddr) : Bool :=
  decide (p.ip4 < 2 ^ 32) && decide (p.port4 < 2 ^ 16) && decide (p.ip6 < 2 ^ 128) && decide (p.port6 < 2 ^ 16) &&
  decide (p.cid.length ≤ maxCidSize) && decide (p.token.length = resetTokenSize)

end GmQuic.Codec
