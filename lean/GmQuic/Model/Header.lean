import GmQuic.Model.Frame
import GmQuic.Model.Fields
import GmQuic.Gen.HdrConsts
/-!
Packet-type byte and packet headers (`qbase/src/packet/type*`, `packet/header*`): ENCODERS
(`put_packet_type`, `put_header`, `put_specific`), the declared sizes (`Type::encoding_size`,
`EncodeHeader::size`) and — because branch c03 had not committed its header decoder when this was
written — a minimal transliteration of the DECODERS `be_packet_type` / `be_header` that the round-trip
theorems need (C03's `Model/PacketDec.lean` is the owner of the decoder side; replace this one by an
import when it lands).  Bit constants come from `Gen/HdrConsts.lean` (generated from the source).
-/
namespace GmQuic.Codec
open GmQuic.Wire GmQuic.Gen

/-- `packet::error::Error` variants reachable from the two parsers + nom outcomes of `be_header`. -/
inductive HErr
  | incomplete | unsupportedVersion (v : Nat) | invalidFixedBit | nom (c : NomCode)
  deriving DecidableEq, Repr, Inhabited

inductive HRes (α : Type) where
  | ok (a : α) (rest : Bytes)
  | err (e : HErr)
  | panic (site : String)
  deriving Repr

@[inline] def HRes.bind {α β} (r : HRes α) (f : α → Bytes → HRes β) : HRes β :=
  match r with
  | .ok a rest => f a rest
  | .err e => .err e
  | .panic s => .panic s

/-- nom results of the shared primitives seen as header results -/
def HRes.ofRes {α} : Res α → HRes α
  | .ok a r => .ok a r
  | .err .incomplete => .err .incomplete
  | .err (.nom c) => .err (.nom c)
  | .err _ => .err (.nom .alt)   -- not produced by the primitives used here
  | .panic s => .panic s

/-- `type::long::v1::Type` -/
inductive LongKind | initial | zeroRtt | handshake | retry
  deriving DecidableEq, Repr, Inhabited

/-- `packet::r#type::Type` -/
inductive PType | vn | v1 (k : LongKind) | short (spin : Bool)
  deriving DecidableEq, Repr, Inhabited

/-- `packet::header::Header` -/
inductive Header
  | vn (dcid scid : Bytes) (versions : List Nat)
  | retry (dcid scid token integrity : Bytes)
  | initial (dcid scid token : Bytes)
  | zeroRtt (dcid scid : Bytes)
  | handshake (dcid scid : Bytes)
  | oneRtt (spin : Bool) (dcid : Bytes)
  deriving DecidableEq, Repr, Inhabited

/-- `GetType::get_type` -/
def Header.type : Header → PType
  | .vn .. => .vn
  | .retry .. => .v1 .retry
  | .initial .. => .v1 .initial
  | .zeroRtt .. => .v1 .zeroRtt
  | .handshake .. => .v1 .handshake
  | .oneRtt spin _ => .short spin

/-- `From<v1::Type> for u8` -/
def LongKind.bits : LongKind → Nat
  | .initial => initialPacketType | .zeroRtt => zeroRttPacketType
  | .handshake => handshakePacketType | .retry => retryPacketType

/-- `put_packet_type` -/
def encPType : PType → Bytes
  | .vn => UInt8.ofNat longHeaderBit :: beBytes 4 vnVersionWritten
  | .v1 k => UInt8.ofNat (longHeaderBit ||| fixedBit ||| k.bits) :: beBytes 4 v1VersionWritten
  | .short spin => [UInt8.ofNat (shortHeaderBit ||| fixedBit ||| (if spin then spinBit else 0))]

/-- `Type::encoding_size` -/
def ptypeSize : PType → Nat
  | .short _ => shortTypeSize
  | _ => longTypeSize

/-- `put_header` for every header kind -/
def encHeader (h : Header) : Bytes :=
  encPType h.type ++
  match h with
  | .vn d s vs => encCid d ++ (encCid s ++ (vs.map (beBytes 4)).flatten)
  | .retry d s tok integ => encCid d ++ (encCid s ++ (tok ++ integ))
  | .initial d s tok => encCid d ++ (encCid s ++ (encVarint tok.length ++ tok))
  | .zeroRtt d s | .handshake d s => encCid d ++ encCid s
  | .oneRtt _ d => d

/-- `EncodeHeader::size` (implemented for Initial / 0-RTT / Handshake long headers and the 1-RTT header) -/
def headerSize : Header → Option Nat
  | .initial d s tok => some (1 + 4 + 1 + d.length + 1 + s.length + (varintSize tok.length + tok.length))
  | .zeroRtt d s | .handshake d s => some (1 + 4 + 1 + d.length + 1 + s.length + 0)
  | .oneRtt _ d => some (1 + d.length)
  | _ => none

/-! ### decoders (minimal; see the header comment) -/

/-- `nom::number::streaming::be_u32` -/
def pBeS (w : Nat) : Bytes → HRes Nat := fun bs =>
  if bs.length < w then .err .incomplete else .ok (beVal (bs.take w)) (bs.drop w)

/-- `TryFrom<u8> for v1::Type` -/
def longKindOfByte (b : Nat) : Option LongKind :=
  if b &&& fixedBit = 0 then none else
  let k := b &&& longPacketTypeMask
  if k = initialPacketType then some .initial
  else if k = zeroRttPacketType then some .zeroRtt
  else if k = handshakePacketType then some .handshake
  else some .retry

/-- `be_packet_type` -/
def decPType : Bytes → HRes PType
  | [] => .err .incomplete
  | b :: r =>
    if b.toNat &&& headerFormMask = 0 then .ok (.short (b.toNat &&& spinBit != 0)) r
    else
      (pBeS 4 r).bind fun v r =>
      if v = vnVersion then .ok .vn r
      else if v = v1Version then
        match longKindOfByte b.toNat with
        | none => .err .invalidFixedBit
        | some k => .ok (.v1 k) r
      else .err (.unsupportedVersion v)

/-- `many_till(be_u32, eof)` of `be_version_negotiation` (fuel = input length + 1) -/
def pVersions : Nat → Bytes → HRes (List Nat)
  | 0, _ => .err .incomplete
  | fuel + 1, bs =>
    if bs.isEmpty then .ok [] []
    else (pBeS 4 bs).bind fun v r => (pVersions fuel r).bind fun vs r => .ok (v :: vs) r

/-- `be_header(packet_type, dcid_len, input)` -/
def decHeaderBody (t : PType) (dcidLen : Nat) : Bytes → HRes Header := fun bs =>
  match t with
  | .short spin =>
    (HRes.ofRes (pTakeS dcidLen bs)).bind fun d r =>
    if dcidLen > maxCidSize then .panic "ConnectionId::from_slice: len > MAX_CID_SIZE" else .ok (.oneRtt spin d) r
  | .vn =>
    (HRes.ofRes (pCid bs)).bind fun d r => (HRes.ofRes (pCid r)).bind fun s r =>
    (pVersions (r.length + 1) r).bind fun vs r => .ok (.vn d s vs) r
  | .v1 .retry =>
    (HRes.ofRes (pCid bs)).bind fun d r => (HRes.ofRes (pCid r)).bind fun s r =>
    if r.length < 16 then .err .incomplete
    else .ok (.retry d s (r.take (r.length - 16)) (r.drop (r.length - 16))) []
  | .v1 .initial =>
    (HRes.ofRes (pCid bs)).bind fun d r => (HRes.ofRes (pCid r)).bind fun s r =>
    (HRes.ofRes (pVarint r)).bind fun len r => (HRes.ofRes (pTakeS len r)).bind fun tok r => .ok (.initial d s tok) r
  | .v1 .zeroRtt =>
    (HRes.ofRes (pCid bs)).bind fun d r => (HRes.ofRes (pCid r)).bind fun s r => .ok (.zeroRtt d s) r
  | .v1 .handshake =>
    (HRes.ofRes (pCid bs)).bind fun d r => (HRes.ofRes (pCid r)).bind fun s r => .ok (.handshake d s) r

/-- `be_packet_type` followed by `be_header` (how `be_packet` and the harness read a header) -/
def decHeader (dcidLen : Nat) : Bytes → HRes Header := fun bs =>
  (decPType bs).bind fun t r => decHeaderBody t dcidLen r

/-- values the Rust types can hold -/
def wfHeader : Header → Bool
  | .vn d s vs => decide (d.length ≤ maxCidSize) && decide (s.length ≤ maxCidSize) && vs.all (fun v => decide (v < 2 ^ 32))
  | .retry d s _ integ => decide (d.length ≤ maxCidSize) && decide (s.length ≤ maxCidSize) && decide (integ.length = 16)
  | .initial d s tok => decide (d.length ≤ maxCidSize) && decide (s.length ≤ maxCidSize) && decide (tok.length < 2 ^ 62)
  | .zeroRtt d s | .handshake d s => decide (d.length ≤ maxCidSize) && decide (s.length ≤ maxCidSize)
  | .oneRtt _ d => decide (d.length ≤ maxCidSize)

/-- headers whose encoding says where it ends (Retry and VN extend to the end of the datagram) -/
def Header.delimited : Header → Bool
  | .vn .. | .retry .. => false
  | _ => true

end GmQuic.Codec
