/-!
# C17 — `ArcConnState` (qconnection/src/state.rs) at the granularity of single atomic operations

Shared memory: the `AtomicU8` state code, the two `tokio::sync::SetOnce` cells (`handshaked`, `terminated`).
Any number `n` of threads, each running ONE entry point (`Closer`):

* `attempt`      `try_entry_attempted`: one `compare_exchange(0, 1)`, no loop;
* `handshaked`   `enter_handshaked`  = `update(6)` then `handshaked.set(()).expect(..)`;
* `closing e`    `enter_closing(e)`  = `update(7)` then `terminated.set(e).expect(..)`;
* `draining e`   `enter_draining(e)` = `update(8)` then, *unless the old state was Closing (7)*, `terminated.set(e).expect(..)`;
* `terminate`    `Event::Terminated` ⇒ `update(9)`.  The event is emitted by a task spawned inside
  `Components::enter_closing/enter_draining`, which run only after an `enter_closing/enter_draining` call on this
  object has returned (qconnection/src/events.rs, lib.rs); hence the thread is *enabled* only once the code is ≥ 7
  (before that a scheduled step of it stutters: the task does not exist yet).

`update(new)`: `old := load`; loop { if new ≤ old return None; CAS(old,new): Ok ⇒ return Some(decode old);
Err(cur) ⇒ old := cur }.  One model step = one atomic operation (load / CAS / SetOnce::set) together with the
thread-local computation that follows it.  Sequentially consistent (single location, AcqRel): DESIGN §5.
A failed `expect` is the explicit outcome `expectFailed := true`.
State codes are the literals of the `mapping!` table of state.rs (checked against `ArcConnState::current` +
`encode` by the correspondence run on every line).
-/
namespace GmQuic.ConnState

inductive Closer where
  | attempt
  | handshaked
  | closing (e : Nat)
  | draining (e : Nat)
  | terminate
  deriving DecidableEq, Repr, Inhabited

/-- program counter of one thread -/
inductive Pc where
  | start
  | loaded (old : Nat)   -- inside `update`, holding `old_state_code`; next atomic op: the CAS
  | won (old : Nat)      -- CAS succeeded; next atomic op: `SetOnce::set`
  | done (ret : Bool)    -- returned (`true` = `Some(old)` / `Ok(true)`)
  deriving DecidableEq, Repr, Inhabited

def Pc.isDone : Pc → Bool
  | .done _ => true
  | _ => false

structure Shared where
  code : Nat := 0
  handshaked : Bool := false
  terminated : Option Nat := none
  expectFailed : Bool := false
  /-- every value ever stored into the atomic, oldest first -/
  trace : List Nat := []
  deriving DecidableEq, Repr, Inhabited

def newCode : Closer → Nat
  | .attempt => 1
  | .handshaked => 6
  | .closing _ => 7
  | .draining _ => 8
  | .terminate => 9

def push (sh : Shared) (c : Nat) : Shared := { sh with code := c, trace := sh.trace ++ [c] }

/-- what the thread does right after its CAS succeeded with previous value `old` -/
def afterWin (c : Closer) (old : Nat) : Pc :=
  match c with
  | .handshaked => .won old
  | .closing _ => .won old
  | .draining _ => if old = 7 then .done true else .won old   -- `old_state != Closing`
  | _ => .done true

/-- one atomic operation of a thread running `c` -/
def stepPc (c : Closer) (sh : Shared) : Pc → Shared × Pc
  | .start =>
    match c with
    | .attempt => if sh.code = 0 then (push sh 1, .done true) else (sh, .done false)
    | .terminate => if sh.code < 7 then (sh, .start) else (sh, .loaded sh.code)
    | _ => (sh, .loaded sh.code)
  | .loaded old =>
    if newCode c ≤ old then (sh, .done false)
    else if sh.code = old then (push sh (newCode c), afterWin c old)
    else (sh, .loaded sh.code)
  | .won _ =>
    match c with
    | .handshaked =>
      if sh.handshaked then ({ sh with expectFailed := true }, .done true)
      else ({ sh with handshaked := true }, .done true)
    | .closing e =>
      if sh.terminated.isSome then ({ sh with expectFailed := true }, .done true)
      else ({ sh with terminated := some e }, .done true)
    | .draining e =>
      if sh.terminated.isSome then ({ sh with expectFailed := true }, .done true)
      else ({ sh with terminated := some e }, .done true)
    | _ => (sh, .done true)
  | .done r => (sh, .done r)

structure State (n : Nat) where
  sh : Shared
  pcs : Fin n → Pc

def init (n : Nat) : State n := { sh := {}, pcs := fun _ => .start }

def stepThread {n : Nat} (prog : Fin n → Closer) (s : State n) (i : Fin n) : State n :=
  let r := stepPc (prog i) s.sh (s.pcs i)
  { sh := r.1, pcs := fun j => if j = i then r.2 else s.pcs j }

abbrev State.code {n} (s : State n) : Nat := s.sh.code
abbrev State.terminated {n} (s : State n) : Option Nat := s.sh.terminated
abbrev State.handshaked {n} (s : State n) : Bool := s.sh.handshaked
abbrev State.expectFailed {n} (s : State n) : Bool := s.sh.expectFailed
abbrev State.stateCodeTrace {n} (s : State n) : List Nat := s.sh.trace
def State.allDone {n} (s : State n) : Prop := ∀ i, (s.pcs i).isDone = true

/-! ## Sequential use (what the correspondence run can exercise): one entry point run to completion -/

def runPc (c : Closer) : Nat → Shared → Pc → Shared × Pc
  | 0, sh, pc => (sh, pc)
  | f + 1, sh, pc =>
    if pc.isDone then (sh, pc) else
    let r := stepPc c sh pc
    if r.2 = pc ∧ r.1 = sh then (sh, pc) else runPc c f r.1 r.2

/-- run one call alone: at most load, CAS, set (+1 spare) -/
def call (c : Closer) (sh : Shared) : Shared × Pc := runPc c 4 sh .start

end GmQuic.ConnState
