import GmQuic.Gen.SidConsts
/-!
Stream-id bookkeeping of `qbase/src/sid.rs`, `sid/local_sid.rs`, `sid/remote_sid.rs`, `sid/handy.rs`,
transliterated branch by branch (panics explicit, dev profile = `debug_assert!` active).

* `sid` / `sidRole` / `sidDir` / `sidIdx` : `StreamId::{new, role, dir, id}` (bit layout read from the
  source by `xlate/gen_sidconsts.py`);
* `Local`  : `LocalStreamIds::{new, poll_alloc_sid, increase_limit, recv_max_streams_frame, revise_max_streams}`;
* `Remote` : `RemoteStreamIds::{try_accept_sid (+ the `NeedCreate` iterator), on_end_of_stream,
  recv_streams_blocked_frame}` over an ARBITRARY `ControlStreamsConcurrency` strategy (`Strategy κ`);
* `std`    : the two strategies of `sid/handy.rs` (`ConsistentConcurrency`, `DemandConcurrency`) and the
  harness-defined `eager` one (the only one that answers in `on_accept_streams`).

Every `Arc…` method locks a `std::sync::Mutex` and `unwrap`s: a panic inside poisons the lock and every
later call panics (`poisoned`).  Core-only imports: linked into the native driver.
-/
namespace GmQuic.Sid

def VARINT_MAX : Nat := 2^62 - 1
/-- `MAX_STREAMS_LIMIT` of `qbase/src/sid.rs` (generated). -/
def LIMIT : Nat := Gen.maxStreamsLimit

inductive Role | client | server deriving Repr, DecidableEq
inductive Dir | bi | uni deriving Repr, DecidableEq

def Role.bit : Role → Nat | .client => 0 | .server => 1
def Dir.bit : Dir → Nat | .bi => Gen.dirBi | .uni => Gen.dirUni
def Role.peer : Role → Role | .client => .server | .server => .client

/-- `StreamId::new(role, dir, id)` : `(((id << 1) | dir) << 1) | role`. -/
def sid (r : Role) (d : Dir) (idx : Nat) : Nat :=
  ((idx * 2 ^ Gen.sidDirShift + d.bit) * 2 ^ Gen.sidRoleShift) + r.bit
/-- `StreamId::role` -/
def sidRole (s : Nat) : Role := if s % (2 * Gen.sidRoleMask) / Gen.sidRoleMask = 0 then .client else .server
/-- `StreamId::dir` -/
def sidDir (s : Nat) : Dir := if s % (2 * Gen.sidDirMask) / Gen.sidDirMask = 0 then .bi else .uni
/-- `StreamId::id` -/
def sidIdx (s : Nat) : Nat := s / 2 ^ Gen.sidIdShift

/-- `[u64; 2]` indexed by `dir as usize`. -/
structure Per where
  bi : Nat
  uni : Nat
deriving Repr, DecidableEq

def Per.get (p : Per) : Dir → Nat | .bi => p.bi | .uni => p.uni
def Per.set (p : Per) (d : Dir) (v : Nat) : Per :=
  match d with
  | .bi => { p with bi := v }
  | .uni => { p with uni := v }

/-- The ids `NeedCreate { start = sid(role,dir,from), end = sid(role,dir,from+n-1) }` yields:
`start, start + 4, …` while `≤ end`. -/
def idsFrom (r : Role) (d : Dir) (frm n : Nat) : List Nat :=
  (List.range n).map fun k => sid r d (frm + k)

/-! ## LocalStreamIds -/

structure Local where
  role : Role
  max : Per
  unalloc : Per := ⟨0, 0⟩
  /-- number of wakers queued in `wakers[dir]` -/
  waiting : Per := ⟨0, 0⟩
  poisoned : Bool := false
  /-- ghost: every stream id handed out, in order -/
  opened : List Nat := []
  /-- ghost: `revise_max_streams(true, …)` happened (0-RTT rejected) -/
  rejected : Bool := false
deriving Repr

/-- `LocalStreamIds::new`; `none` = the `debug_assert!` ("Server cannot remember the parameters"). -/
def Local.new (role : Role) (mb mu : Nat) : Option Local :=
  if role = .client ∨ (mb = 0 ∧ mu = 0) then some { role := role, max := ⟨mb, mu⟩ } else none

/-- `LocalStreamIds::opened_streams`: the streams of the kind that may be used — those handed out AND within
the peer's limit (after a rejected 0-RTT the limit can be below the number handed out). -/
def Local.openedStreams (l : Local) (d : Dir) : Nat := min (l.unalloc.get d) (l.max.get d)

inductive LOp
  | alloc (d : Dir)
  | maxStreams (d : Dir) (v : Nat)             -- `recv_max_streams_frame`
  | revise (rejected : Bool) (bi uni : Nat)    -- `revise_max_streams`
deriving Repr

inductive LObs
  | sid (s : Nat)                 -- `Poll::Ready(Some(sid))`
  | exhausted                     -- `Poll::Ready(None)`
  | pending (blocked : Nat)       -- `Poll::Pending` + `STREAMS_BLOCKED(max)` sent
  | done (woken : Nat)
  | panic
deriving Repr, DecidableEq

/-- `increase_limit`: `none` = `assert!(val <= MAX_STREAMS_LIMIT)` failed; otherwise the new state and
the number of wakers woken. -/
def Local.increase (l : Local) (d : Dir) (v : Nat) : Option (Local × Nat) :=
  if v > LIMIT then none
  else if l.max.get d < v then
    some ({ l with max := l.max.set d v, waiting := l.waiting.set d 0 }, l.waiting.get d)
  else some (l, 0)

def Local.step (l : Local) : LOp → Local × LObs
  | .alloc d =>
    if l.poisoned then (l, .panic) else
    let max := l.max.get d
    let u := l.unalloc.get d
    if u > LIMIT then (l, .exhausted)
    else if u < max then
      ({ l with unalloc := l.unalloc.set d (u + 1), opened := l.opened ++ [sid l.role d u] },
       .sid (sid l.role d u))
    else
      -- `VarInt::from_u64(max).expect(..)` cannot fail here: `max ≤ u ≤ LIMIT < VARINT_MAX`
      ({ l with waiting := l.waiting.set d (l.waiting.get d + 1) }, .pending max)
  | .maxStreams d v =>
    if l.poisoned then (l, .panic) else
    match l.increase d v with
    | none => ({ l with poisoned := true }, .panic)
    | some (l', w) => (l', .done w)
  | .revise rej b u =>
    if l.poisoned then (l, .panic) else
    let l0 := if rej then { l with max := ⟨0, 0⟩, rejected := true } else l
    match l0.increase .bi b with
    | none => ({ l0 with poisoned := true }, .panic)
    | some (l1, w1) =>
      match l1.increase .uni u with
      | none => ({ l1 with poisoned := true }, .panic)
      | some (l2, w2) => (l2, .done (w1 + w2))

def Local.run (l : Local) (ops : List LOp) : Local := ops.foldl (fun l op => (l.step op).1) l

/-! ## concurrency-control strategies -/

/-- `trait ControlStreamsConcurrency` with its private state `κ`. -/
structure Strategy (κ : Type) where
  onAccept : κ → Dir → Nat → κ × Option Nat
  onEos : κ → Dir → Nat → κ × Option Nat
  onBlocked : κ → Dir → Nat → κ × Option Nat

inductive CtrlSt
  | consistent (m : Per)     -- `ConsistentConcurrency { max_streams }`
  | demand                   -- `DemandConcurrency`
  | eager (w : Nat) (cur : Per)  -- harness-defined: `on_accept_streams` raises the limit to `sid + 1 + w`
deriving Repr, DecidableEq

def std : Strategy CtrlSt where
  onAccept k d i :=
    match k with
    | .eager w cur =>
      if i + 1 + w > cur.get d then (.eager w (cur.set d (i + 1 + w)), some (i + 1 + w)) else (k, none)
    | _ => (k, none)
  onEos k d _ :=
    match k with
    | .consistent m => (.consistent (m.set d (m.get d + 1)), some (m.get d + 1))
    | _ => (k, none)
  onBlocked k _ v :=
    match k with
    | .demand => (k, some (v + 1))
    | _ => (k, none)

/-! ## RemoteStreamIds -/

structure Remote (κ : Type) where
  /-- the PEER's role -/
  role : Role
  max : Per
  /-- `unallocated[dir].id()` -/
  unalloc : Per := ⟨0, 0⟩
  ctrl : κ
  poisoned : Bool := false
  /-- ghost: the range `(dir, first index, count)` of every `NeedCreate` handed out, in order -/
  ranges : List (Dir × Nat × Nat) := []
  /-- ghost: every MAX_STREAMS frame handed to `max_tx` -/
  advertised : List (Dir × Nat) := []

/-- ghost: every id yielded by a `NeedCreate`, in order -/
def Remote.created {κ : Type} (r : Remote κ) : List Nat :=
  r.ranges.flatMap fun x => idsFrom r.role x.1 x.2.1 x.2.2

def Remote.new {κ : Type} (role : Role) (mb mu : Nat) (k : κ) : Remote κ :=
  { role := role, max := ⟨mb, mu⟩, ctrl := k }

inductive ROp
  | accept (s : Nat)             -- `try_accept_sid`
  | eos (s : Nat)                -- `on_end_of_stream`
  | blocked (d : Dir) (v : Nat)  -- `recv_streams_blocked_frame`
deriving Repr

inductive RObs
  | old
  | new (first last : Nat) (frame : Option Nat)  -- `NeedCreate{start,end}` (+ MAX_STREAMS value sent)
  | exceed (max : Nat)                           -- `ExceedLimitError(sid, max)`
  | done (frame : Option Nat)
  | panic
deriving Repr, DecidableEq

/-- What every call site does with the strategy's answer: `self.max[idx] = m; max_tx.send_frame(
MaxStreamsFrame::with(dir, VarInt::from_u64(m).expect(..)))`.  Second component: the `expect` failed. -/
def Remote.answer {κ : Type} (r : Remote κ) (d : Dir) (ka : κ × Option Nat) : Remote κ × Bool × Option Nat :=
  match ka.2 with
  | none => ({ r with ctrl := ka.1 }, false, none)
  | some m =>
    if m > VARINT_MAX then
      ({ r with ctrl := ka.1, max := r.max.set d m, poisoned := true }, true, none)
    else
      ({ r with ctrl := ka.1, max := r.max.set d m, advertised := r.advertised ++ [(d, m)] }, false, some m)

def Remote.step {κ : Type} (S : Strategy κ) (r : Remote κ) : ROp → Remote κ × RObs
  | .accept s =>
    if r.poisoned then (r, .panic) else
    if sidRole s ≠ r.role then ({ r with poisoned := true }, .panic)   -- `debug_assert_eq!`
    else
      let d := sidDir s
      let i := sidIdx s
      if i > r.max.get d then (r, .exceed (r.max.get d))
      else if i < r.unalloc.get d then (r, .old)
      else
        let start := r.unalloc.get d
        let r1 : Remote κ :=
          { r with unalloc := r.unalloc.set d (i + 1),
                   ranges := r.ranges ++ [(d, start, i + 1 - start)] }
        let a := r1.answer d (S.onAccept r.ctrl d i)
        if a.2.1 then (a.1, .panic) else (a.1, .new (sid r.role d start) (sid r.role d i) a.2.2)
  | .eos s =>
    if r.poisoned then (r, .panic) else
    if sidRole s ≠ r.role then (r, .done none)
    else
      let a := r.answer (sidDir s) (S.onEos r.ctrl (sidDir s) (sidIdx s))
      if a.2.1 then (a.1, .panic) else (a.1, .done a.2.2)
  | .blocked d v =>
    if r.poisoned then (r, .panic) else
    -- `recv_streams_blocked_frame`: the strategy's answer is capped at `MAX_STREAMS_LIMIT` and only taken
    -- if it RAISES the limit (the peer chooses `v`; the frame may be stale)
    let ka := S.onBlocked r.ctrl d v
    let a := r.answer d (ka.1, ka.2.bind fun m => if min m LIMIT > r.max.get d then some (min m LIMIT) else none)
    if a.2.1 then (a.1, .panic) else (a.1, .done a.2.2)

def Remote.run {κ : Type} (S : Strategy κ) (r : Remote κ) (ops : List ROp) : Remote κ :=
  ops.foldl (fun r op => (r.step S op).1) r

end GmQuic.Sid
