import GmQuic.Model.Cid
/-
C14 — the shared packet router (`qinterface/src/component/route.rs`) as a finite map `Signpost → connection`,
and the way `qconnection/src/builder.rs` wires a connection's `LocalCids` to it:

  registry = router.registry_on_issuing_scid(queue_k, frames_k)      -- GenUniqueCid + RetireCid for connection k
  scid     = registry.gen_unique_cid()                               -- table.entry(scid) vacant → insert queue_k
  [server] odcid_entry = router.insert(odcid, queue_k)               -- unconditional insert (overwrites)
  local    = ArcLocalCids::new(scid, registry)                       -- issues id 1

`gen_unique_cid` draws random ids until the table entry is vacant; the model draws the name `gen next` (the harness
names ids in order of generation), `retire_cid` is `table.remove`, dropping a `QuicRouterEntry` is
`remove_if(same queue)`, dropping `ArcLocalCids` is `clear()`.  A connection is identified by its index `k`
(= its `RcvdPacketQueue`).  Core-only imports.
-/
namespace GmQuic.Cid

/-- `DashMap<Signpost, Arc<RcvdPacketQueue>>`, keys unique (insert erases first). -/
abbrev Table := List (Cid × Nat)

namespace Table
def lookup (t : Table) (c : Cid) : Option Nat := (t.find? (·.1 = c)).map (·.2)
def erase (t : Table) (c : Cid) : Table := t.filter (·.1 ≠ c)
def insert (t : Table) (c : Cid) (k : Nat) : Table := (c, k) :: erase t c
/-- `remove_if(&signpost, |_, q| same queue)` -/
def removeIf (t : Table) (c : Cid) (k : Nat) : Table := t.filter (fun e => ¬ (e.1 = c ∧ e.2 = k))
def eraseAll (t : Table) (cs : List Cid) : Table := cs.foldl erase t
end Table

structure Conn where
  loc : Local
  /-- the `Mutex<LocalCids>` is poisoned (a `debug_assert!` fired while it was held) -/
  poisoned : Bool
  /-- `ArcLocalCids` has been dropped -/
  dropped : Bool
  /-- live `QuicRouterEntry` for the client-chosen original DCID (server side) -/
  odcid : Option Cid
  /-- ghost: the entry `odcid` still owns its route.  `false` once another connection has re-registered the same signpost
  (`QuicRouter::insert` overwrites): the entry object is alive, the route is not this connection's any more.  No operation
  reads it; dropping the entry runs the same `remove_if(same queue)` either way. -/
  olive : Bool
  /-- every NEW_CONNECTION_ID frame emitted, in order (ghost: what the recording `SendFrame` saw) -/
  frames : List NewCid
  deriving Repr

structure Sys where
  next : Nat
  table : Table
  conns : List Conn
  deriving Repr

inductive Op where
  | conn (odcid : Option Cid)
  | setLimit (k n : Nat)
  | retire (k seq : Nat)
  | clear (k : Nat)
  | drop (k : Nat)
  | dropOdcid (k : Nat)
  /-- the connection releases its own `Arc<RcvdPacketQueue>`.  `QuicRouterEntry::remove` compares the table's queue with
  its `Weak` by pointer (`Weak::ptr_eq`), without upgrading: whether the queue is still alive has no influence on the
  table, so this is a step without effect — in any order with `drop` / `dropOdcid`. -/
  | relQueue (k : Nat)
  | route (c : Cid)
  deriving Repr

inductive Obs where
  | created (k : Nat) (scid : Cid) (frames : List NewCid)
  | ok (frames : List NewCid) (gone : List Cid)
  | errTransportParameter
  | errUnissued
  | panic
  | routed (k : Option Nat)
  | bad
  deriving Repr

namespace Sys

def init : Sys := { next := 0, table := [], conns := [] }

def setConn (s : Sys) (k : Nat) (c : Conn) : Sys := { s with conns := s.conns.set k c }

def insertAll (t : Table) (k : Nat) (fs : List NewCid) : Table := fs.foldl (fun t f => t.insert f.cid k) t

/-- `QuicRouter::insert(od, queue_k)` by a new connection overwrites the table entry: a connection that holds the entry
object of the same signpost keeps the object, not the route (ghost flag `olive`) -/
def supersedeC (c : Cid) (cn : Conn) : Conn :=
  if cn.odcid = some c then { cn with olive := false } else cn

def supersede (s : Sys) : Option Cid → Sys
  | none => s
  | some c => { s with conns := s.conns.map (supersedeC c) }

def step (s0 : Sys) : Op → Sys × Obs
  | .conn od =>
    let s := supersede s0 od
    let k := s.conns.length
    let scid := Cid.gen s.next
    let t1 := s.table.insert scid k
    let t2 := match od with | some c => t1.insert c k | none => t1
    let c1 := Cid.gen (s.next + 1)
    let (l, f) := Local.new scid c1
    let t3 := t2.insert c1 k
    ({ next := s.next + 2, table := t3,
       conns := s.conns ++ [{ loc := l, poisoned := false, dropped := false, odcid := od, olive := true, frames := [f] }] },
     .created k scid [f])
  | .setLimit k n =>
    let s := s0
    match s.conns[k]? with
    | none => (s, .bad)
    | some c =>
      if c.dropped then (s, .bad)
      else if c.poisoned then (s, .panic)
      else match c.loc.setLimit s.next n with
        | .panic => (s.setConn k { c with poisoned := true }, .panic)
        | .errTransportParameter => (s, .errTransportParameter)
        | .ok l fs =>
          ({ next := s.next + fs.length, table := insertAll s.table k fs,
             conns := s.conns.set k { c with loc := l, frames := c.frames ++ fs } }, .ok fs [])
  | .retire k seq =>
    let s := s0
    match s.conns[k]? with
    | none => (s, .bad)
    | some c =>
      if c.dropped then (s, .bad)
      else if c.poisoned then (s, .panic)
      else match c.loc.retire seq (.gen s.next) with
        | .errUnissued => (s, .errUnissued)
        | .noop => (s, .ok [] [])
        | .retired l old f =>
          ({ next := s.next + 1, table := (s.table.insert f.cid k).erase old,
             conns := s.conns.set k { c with loc := l, frames := c.frames ++ [f] } }, .ok [f] [old])
  | .clear k =>
    let s := s0
    match s.conns[k]? with
    | none => (s, .bad)
    | some c =>
      if c.dropped then (s, .bad)
      else if c.poisoned then (s, .panic)
      else
        let (l, gone) := c.loc.clear
        ({ s with table := s.table.eraseAll gone, conns := s.conns.set k { c with loc := l } }, .ok [] gone)
  | .drop k =>
    let s := s0
    match s.conns[k]? with
    | none => (s, .bad)
    | some c =>
      if c.dropped then (s, .bad)
      else
        -- `Drop for LocalCids` runs `clear()` on the value itself (no lock): works on a poisoned mutex too
        let (l, gone) := c.loc.clear
        ({ s with table := s.table.eraseAll gone, conns := s.conns.set k { c with loc := l, dropped := true } },
         .ok [] gone)
  | .dropOdcid k =>
    let s := s0
    match s.conns[k]? with
    | none => (s, .bad)
    | some c =>
      match c.odcid with
      | none => (s, .bad)
      | some od =>
        ({ s with table := s.table.removeIf od k, conns := s.conns.set k { c with odcid := none } }, .ok [] [])
  | .relQueue k =>
    match s0.conns[k]? with
    | none => (s0, .bad)
    | some _ => (s0, .ok [] [])
  | .route c => (s0, .routed (s0.table.lookup c))

def run (ops : List Op) : Sys := ops.foldl (fun s o => (s.step o).1) init

end Sys

end GmQuic.Cid
