/-!
C16: the connection-level send flow-control credit wait: `ArcSendControler::{credit, Credit::drop → return_back,
recv_frame(MAX_DATA) → increase_limit, revise_max_data(zero_rtt_rejected, ..), on_error}` (qbase/src/flow.rs) together with
the path's `SendWaker` bit `FLOW_CONTROL`, reached through `SendWakers::wake_all_by` (the path is registered).
Modelled per critical section: the sending task takes the controller mutex in `credit()` and again when the `Credit` is
dropped, then the SendWaker mutex in `wait_for(FLOW_CONTROL)`; notifiers run between any two of these.  Every notifier
holds the controller mutex while it calls `wake_all_by`, so "change the limit + signal" is one step.  No imports.
-/
namespace GmQuic.Wake.Flow

inductive WPc where
  | w0                -- about to call credit(quota)
  | wd (a : Nat)      -- holds a `Credit` of `a` bytes (a = 0: nothing was available), about to drop it
  | w1                -- saw no credit; about to call poll_wait_for(FLOW_CONTROL)
  | asleep
  deriving DecidableEq, Repr

structure State where
  maxData : Nat
  sent : Nat
  limited : Bool      -- flow_limited (a DATA_BLOCKED frame has been sent for this limit)
  closed : Bool       -- on_error happened: the controller is `Err`
  held : Nat          -- credit currently held by OTHER paths' sending tasks
  bit : Bool
  registered : Bool
  woken : Bool
  wpc : WPc
  deriving DecidableEq, Repr

def init (maxData : Nat) : State := ⟨maxData, 0, false, false, 0, false, false, false, .w0⟩

inductive Op where
  | waiter (quota used : Nat)        -- the sending task's next critical section (`credit(quota + 1)`, `post_sent(used)`)
  | restart
  | maxData (v : Nat)                -- MAX_DATA frame
  | revise (rejected : Bool) (v : Nat)
  | otherTake (k : Nat)              -- another path's task: credit(k)
  | otherReturn (k : Nat)            -- … drops a Credit with k bytes unused
  | error                            -- on_error
  deriving DecidableEq, Repr

def avail (s : State) : Nat := s.maxData - s.sent

/-- `tx_wakers.wake_all_by(FLOW_CONTROL)` as far as this path is concerned -/
def wakeAll (s : State) : State :=
  { s with bit := true, woken := if !s.bit && s.registered then true else s.woken }

def commit (s : State) (a : Nat) : State :=
  let s1 := { s with sent := s.sent + a }
  if avail s1 = 0 ∧ s1.limited = false then { s1 with limited := true } else s1   -- DATA_BLOCKED

def increaseLimit (s : State) (v : Nat) : State :=
  if v > s.maxData then wakeAll { s with maxData := v, limited := false } else s

def returnBack (s : State) (k : Nat) : State :=
  let s1 := { s with sent := s.sent - k }
  if avail s1 > 0 then wakeAll s1 else s1

def step (s : State) : Op → State
  | .waiter quota used =>
    match s.wpc with
    | .w0 =>
      if s.closed then { s with wpc := .w1 }      -- credit() = Err: the caller reports `Signals::empty()` and parks
      else
        let a := min (avail s) (quota + 1)     -- the room left in the packet being assembled is positive
        { commit s a with wpc := .wd a }
    | .wd a =>
      let nxt : WPc := if a = 0 then .w1 else .w0
      if s.closed then { s with wpc := nxt }
      else { returnBack s (a - min used a) with wpc := nxt }
    | .w1 =>
      if s.bit then { s with bit := false, wpc := .w0 }
      else { s with registered := true, woken := false, wpc := .asleep }
    | .asleep => if s.woken then { s with wpc := .w1 } else s
  | .restart => match s.wpc with
    | .wd _ => s                                  -- a held Credit is always dropped first
    | _ => { s with wpc := .w0 }
  | .maxData v => if s.closed then s else increaseLimit s v
  | .revise rejected v =>
    if s.closed then s
    else increaseLimit (if rejected then { s with maxData := 0, limited := false } else s) v
  | .otherTake k =>
    if s.closed then s
    else
      let a := min (avail s) k
      { commit s a with held := s.held + a }
  | .otherReturn k =>
    if k ≤ s.held then
      if s.closed then { s with held := s.held - k } else { returnBack s k with held := s.held - k }
    else s
  | .error => { s with closed := true }

def run (m : Nat) (sched : List Op) : State := sched.foldl step (init m)

def asleep (s : State) : Prop := s.wpc = .asleep
def wakePending (s : State) : Prop := s.woken = true
/-- what the sender waits for: connection-level credit on a live connection -/
def cond (s : State) : Prop := s.closed = false ∧ avail s > 0

end GmQuic.Wake.Flow
