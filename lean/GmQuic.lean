-- Root of the `GmQuic` library: models, drivers, lemmas and property theorems.
import GmQuic.Drv.Core
import GmQuic.Gen.Consts
import GmQuic.Model.RecvBuf
import GmQuic.Drv.C08
import GmQuic.Props.C08
