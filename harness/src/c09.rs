//! C09 — send buffer: real `qrecovery::send::SendBuf` driven with histories of
//! write / extend / pick_up / on_data_acked / may_loss_data / resend_flighting / forget_sent_state.
//!
//! Observables per line: the public getters plus the run list of the private `BufMap`, parsed from the
//! derived `Debug` output (only the `SendBuf { offset: N` prefix and the text after the LAST
//! `state: BufMap(` are trusted, the `Bytes` in between are escaped data).
//!
//! The harness keeps its own per-byte colour oracle (independent of any model) and evaluates the
//! monitors listed at `Ex::step` / `Ex::check` on the real observations after every operation.
//!
//! Runs: `C09` random histories, `C09x` small-scope enumeration (breadth first over the distinct real
//! states, every enabled operation of the small alphabet from every state reached), `C09s` the same
//! buffer behind the real `CryptoStream` sender (`try_load_data_into` / `on_data_acked` / `may_loss_data`).
use std::{
    collections::HashSet,
    hash::{Hash, Hasher},
    pin::Pin,
    task::{Context, Poll, Waker},
};

use bytes::{BufMut, Bytes, BytesMut};
use qbase::{
    frame::{CryptoFrame, Frame},
    net::tx::ArcSendWakers,
    packet::io::RecordFrame,
    util::ContinuousData,
    varint::VarInt,
};
use qrecovery::{crypto::CryptoStream, send::SendBuf};
use tokio::io::AsyncWrite;

use crate::common::{catch, Opts, Rng, Sink};

const P: u8 = 0;
const F: u8 = 1;
const L: u8 = 2;
const R: u8 = 3;
const HUGE: u64 = 1 << 62;
const UMAX: u64 = usize::MAX as u64;
const UNLIMITED: u64 = 1 << 40;

/// Value of the byte at absolute stream position `p`.
fn byte_at(p: u64) -> u8 {
    (((p % 251) * 31 + 7) % 251) as u8
}

fn bytes_of(a: u64, b: u64) -> Vec<u8> {
    (a..b).map(byte_at).collect()
}

fn col_char(c: u8) -> char {
    match c {
        P => 'P',
        F => 'F',
        L => 'L',
        _ => 'R',
    }
}

/// The predicate handed to `pick_up`.
fn pred(cap: u64, cut: u64, off: u64) -> Option<u64> {
    if off >= cut {
        None
    } else {
        Some(if off % 2 == 1 && cap > 1 { cap - 1 } else { cap })
    }
}

// ------------------------------------------------------------------------------------------------
// Debug dump
// ------------------------------------------------------------------------------------------------

#[derive(Debug, Clone)]
struct Dump {
    off: u64,
    max: u64,
    size: u64,
    runs: Vec<(u64, u8)>,
    data_empty: bool,
}

/// `... SendBuf { offset: 0, data: [b"..."], max_data: 100, state: BufMap([[0: Flighting], [20: Pending]], 200) } ...`
fn parse_dump(d: &str) -> Option<Dump> {
    const HEAD: &str = "SendBuf { offset: ";
    const ST: &str = "state: BufMap(";
    let p = d.find(HEAD)? + HEAD.len();
    let rest = &d[p..];
    let e = rest.find(',')?;
    let off: u64 = rest[..e].parse().ok()?;
    let data_empty = rest[e..].starts_with(", data: [], max_data: ");
    let q = d.rfind(ST)?;
    let head = &d[..q];
    let m = head.rfind("max_data: ")? + "max_data: ".len();
    let mrest = &d[m..q];
    let max: u64 = mrest[..mrest.find(',')?].parse().ok()?;
    let mut t = d[q + ST.len()..].strip_prefix('[')?;
    let mut runs = vec![];
    loop {
        if let Some(r) = t.strip_prefix(']') {
            t = r;
            break;
        }
        t = t.strip_prefix(", ").unwrap_or(t);
        let r = t.strip_prefix('[')?;
        let c = r.find(": ")?;
        let o: u64 = r[..c].parse().ok()?;
        let r2 = &r[c + 2..];
        let e = r2.find(']')?;
        let col = match &r2[..e] {
            "Pending" => P,
            "Flighting" => F,
            "Lost" => L,
            "Recved" => R,
            _ => return None,
        };
        runs.push((o, col));
        t = &r2[e + 1..];
    }
    let t = t.strip_prefix(", ")?;
    let e = t.find(')')?;
    let size: u64 = t[..e].parse().ok()?;
    Some(Dump { off, max, size, runs, data_empty })
}

fn runs_str(runs: &[(u64, u8)]) -> String {
    if runs.is_empty() {
        "-".into()
    } else {
        runs.iter().map(|(o, c)| format!("{}:{}", o, col_char(*c))).collect::<Vec<_>>().join(",")
    }
}

fn state_str(written: u64, sent: u64, allrcvd: bool, max: u64, d: &Dump) -> String {
    format!(
        "written={} sent={} allrcvd={} off={} max={} size={} runs={}",
        written,
        sent,
        allrcvd as u8,
        d.off,
        max,
        d.size,
        runs_str(&d.runs)
    )
}

/// Expand a run list to per-byte colours (bytes below the first run are acknowledged and shifted away).
fn expand(d: &Dump) -> Result<Vec<u8>, String> {
    let mut v = vec![R; d.size as usize];
    let mut prev: Option<u64> = None;
    for (i, (o, c)) in d.runs.iter().enumerate() {
        if *o >= d.size || prev.is_some_and(|p| p >= *o) {
            return Err(format!("run {} at offset {} is empty / out of order (size {})", i, o, d.size));
        }
        prev = Some(*o);
        let end = d.runs.get(i + 1).map(|x| x.0).unwrap_or(d.size).min(d.size);
        for x in *o..end {
            v[x as usize] = *c;
        }
    }
    Ok(v)
}

fn cols_str(c: &[u8]) -> String {
    c.iter().map(|x| col_char(*x)).collect()
}

// ------------------------------------------------------------------------------------------------
// Operations, executor with the per-byte oracle and the monitors
// ------------------------------------------------------------------------------------------------

#[derive(Clone, Copy, Debug, PartialEq, Eq)]
pub enum Op {
    Write(u64),
    Extend(u64),
    /// cap, cut, flow
    Pick(u64, u64, u64),
    Ack(u64, u64),
    Lose(u64, u64),
    Resend,
    Forget,
}

pub struct Ex {
    buf: SendBuf,
    // ---- oracle (never reads the real buffer) ----
    written: u64,
    max: u64,
    /// colour of every byte of the coloured prefix, `len == min(written, max)`
    col: Vec<u8>,
    /// how often a byte was reported fresh since the last forget
    fresh_cnt: Vec<u32>,
    /// ranges picked since the last forget
    picked: Vec<(u64, u64)>,
    acks: Vec<(u64, u64)>,
    loses: Vec<(u64, u64)>,
    /// a forget happened while acknowledged data had already been dropped: data / completion / offset
    /// monitors are off for the rest of the case
    forget_after_ack: bool,
    // ---- last real observation ----
    off: u64,
    key: String,
    // ---- non-triviality ----
    had_lose: bool,
    lose_then_retx: bool,
    ack_span: bool,
    pub dead: bool,
}

impl Ex {
    /// `init <cap>`
    pub fn new(cap: u64, sink: &mut Sink) -> Ex {
        let mut ex = Ex {
            buf: SendBuf::with_capacity(cap),
            written: 0,
            max: cap,
            col: vec![],
            fresh_cnt: vec![],
            picked: vec![],
            acks: vec![],
            loses: vec![],
            forget_after_ack: false,
            off: 0,
            key: String::new(),
            had_lose: false,
            lose_then_retx: false,
            ack_span: false,
            dead: false,
        };
        ex.finish(sink, &format!("init {}", cap), "", vec![], true);
        ex
    }

    pub fn nontrivial(&self) -> bool {
        self.lose_then_retx && self.ack_span
    }

    fn size(&self) -> u64 {
        self.col.len() as u64
    }

    /// length of the never-Pending prefix = first Pending offset, or size
    fn nonpending(&self) -> u64 {
        self.col.iter().position(|c| *c == P).unwrap_or(self.col.len()) as u64
    }

    fn resize(&mut self) {
        let n = self.written.min(self.max) as usize;
        if n >= self.col.len() {
            self.col.resize(n, P);
        }
        if self.fresh_cnt.len() < n {
            self.fresh_cnt.resize(n, 0);
        }
    }

    /// in-domain for ack / lose: non-empty, inside the coloured prefix, no Pending byte
    fn in_domain(&self, a: u64, b: u64) -> bool {
        a < b && b <= self.size() && self.col[a as usize..b as usize].iter().all(|c| *c != P)
    }

    /// number of maximal same-colour segments of the oracle inside [a, b)
    fn segments(&self, a: u64, b: u64) -> usize {
        let s = &self.col[a as usize..b as usize];
        if s.is_empty() { 0 } else { 1 + s.windows(2).filter(|w| w[0] != w[1]).count() }
    }

    fn panic_line(&mut self, sink: &mut Sink, op: &str, name: &str, in_domain: bool, msg: &str) -> bool {
        sink.line(op, "PANIC");
        if in_domain {
            sink.monitor_fail(&format!("panic:{}", name), &format!("in-domain `{}` panicked: {}", op, msg));
        } else {
            sink.branch(&format!("ood:{}:panic", name));
        }
        self.dead = true;
        false
    }

    /// Read the real state, print the line, then evaluate the op-specific failures and the state monitors:
    ///  written                  written() == total bytes written
    ///  sent_monotone            sent() == first Pending offset of the oracle (or size)
    ///  complete_iff_all_acked   is_all_rcvd() == every written byte is Recved in the oracle (bytes >= size are not)
    ///  offset_le_unacked        offset == least non-Recved offset of the oracle (or size)
    ///  state_vs_oracle:*        max_data / size / per-byte expansion of the run list == oracle
    fn finish(&mut self, sink: &mut Sink, op: &str, prefix: &str, fails: Vec<(String, String)>, check: bool) -> bool {
        let d = format!("{:?}", self.buf);
        let Some(dump) = parse_dump(&d) else {
            sink.line(op, &format!("{}UNPARSED", prefix));
            sink.monitor_fail("dump_parse", &format!("cannot parse the Debug output: {}", d));
            self.dead = true;
            return false;
        };
        let (written, sent, all, max) = (self.buf.written(), self.buf.sent(), self.buf.is_all_rcvd(), self.buf.max_data());
        sink.line(op, &format!("{}{}", prefix, state_str(written, sent, all, max, &dump)));
        for (k, w) in fails {
            sink.monitor_fail(&k, &w);
        }
        self.off = dump.off;
        self.key = d;
        if !check {
            return !self.dead;
        }
        let size = self.size();
        if written != self.written {
            sink.monitor_fail("written", &format!("written() = {} but {} bytes were written", written, self.written));
        }
        let np = self.nonpending();
        if sent != np {
            sink.monitor_fail("sent_monotone", &format!("sent() = {} but the first never-sent byte is {} (oracle {})", sent, np, cols_str(&self.col)));
        }
        if !self.forget_after_ack {
            let want = self.written == size && self.col.iter().all(|c| *c == R);
            if all != want {
                sink.monitor_fail("complete_iff_all_acked", &format!("is_all_rcvd() = {} but all-acked = {} (written {}, oracle {})", all, want, self.written, cols_str(&self.col)));
            }
            let first_nr = self.col.iter().position(|c| *c != R).unwrap_or(self.col.len()) as u64;
            if dump.off != first_nr {
                let key = if dump.off > first_nr { "offset_le_unacked:beyond" } else { "offset_le_unacked:behind" };
                sink.monitor_fail(key, &format!("offset = {} but the least unacknowledged offset is {} (oracle {})", dump.off, first_nr, cols_str(&self.col)));
            }
        }
        if max != self.max || dump.max != max {
            sink.monitor_fail("state_vs_oracle:max", &format!("max_data() = {}, Debug {}, oracle {}", max, dump.max, self.max));
        }
        if dump.size != size {
            sink.monitor_fail("state_vs_oracle:size", &format!("BufMap size {} != min(written, max_data) = {}", dump.size, size));
        } else {
            match expand(&dump) {
                Err(e) => sink.monitor_fail("state_vs_oracle:malformed", &e),
                Ok(v) => {
                    if v != self.col {
                        sink.monitor_fail("state_vs_oracle:runs", &format!("run list expands to {} but the oracle is {}", cols_str(&v), cols_str(&self.col)));
                    }
                }
            }
        }
        !self.dead
    }

    /// Execute one operation on the real buffer; `false` = the case ends here.
    ///
    /// pick monitors: pick_data, pick_nonempty, pick_in_window, pick_colour, pick_fresh_flag,
    /// pick_lost_first, pick_len, pick_none_justified, fresh_once.
    pub fn step(&mut self, op: Op, sink: &mut Sink) -> bool {
        if self.dead {
            return false;
        }
        let mut fails: Vec<(String, String)> = vec![];
        match op {
            Op::Write(n) => {
                let ops = format!("write {}", n);
                let data = Bytes::from(bytes_of(self.written, self.written + n));
                sink.pending(&ops);
                if let Err(msg) = catch(|| self.buf.write(data)) {
                    return self.panic_line(sink, &ops, "write", true, &msg);
                }
                self.written += n;
                self.resize();
                self.finish(sink, &ops, "", fails, true)
            }
            Op::Extend(m) => {
                let ops = format!("extend {}", m);
                let ind = m >= self.max;
                sink.pending(&ops);
                if let Err(msg) = catch(|| self.buf.extend(m)) {
                    return self.panic_line(sink, &ops, "extend", ind, &msg);
                }
                if !ind {
                    sink.branch("ood:extend:nopanic");
                    self.finish(sink, &ops, "", fails, false);
                    self.dead = true;
                    return false;
                }
                self.max = m;
                self.resize();
                self.finish(sink, &ops, "", fails, true)
            }
            Op::Pick(cap, cut, flow) => {
                let ops = format!("pick k {} {} {}", cap, cut, flow);
                sink.pending(&ops);
                let r = catch(|| self.buf.pick_up(|o| pred(cap, cut, o).map(|x| x as usize), flow as usize).map_err(|s| s.bits()));
                let r = match r {
                    Ok(r) => r,
                    Err(msg) => return self.panic_line(sink, &ops, "pick", true, &msg),
                };
                let size = self.size();
                // least offset that may be sent now: Lost, or Pending when flow control allows fresh data
                let cand = (0..size).find(|&x| {
                    let c = self.col[x as usize];
                    c == L || (c == P && flow > 0)
                });
                match r {
                    Err(bits) => {
                        sink.branch(&format!("pick:none:sig={}", bits));
                        if let Some(c) = cand {
                            if pred(cap, cut, c).is_some() {
                                fails.push(("pick_none_justified".into(), format!("pick_up returned Err({}) although offset {} is sendable and the predicate allows {:?} (oracle {})", bits, c, pred(cap, cut, c), cols_str(&self.col))));
                            }
                        }
                        self.finish(sink, &ops, &format!("none sig={} ", bits), fails, true)
                    }
                    Ok((range, fresh, data)) => {
                        let (a, b) = (range.start, range.end);
                        let got: Vec<u8> = data.iter().flat_map(|d| d.iter().copied()).collect();
                        let dataok = b >= a && got == bytes_of(a, b);
                        sink.branch(if fresh { "pick:fresh" } else { "pick:retx" });
                        if !self.forget_after_ack && !dataok {
                            fails.push(("pick_data".into(), format!("pick_up({}..{}) returned {} bytes in {} chunks that are not the written bytes of the range", a, b, got.len(), data.len())));
                        }
                        if a >= b {
                            fails.push(("pick_nonempty".into(), format!("empty range {}..{}", a, b)));
                        }
                        if b > self.written.min(self.max) {
                            fails.push(("pick_in_window".into(), format!("range {}..{} ends beyond min(written {}, max_data {})", a, b, self.written, self.max)));
                        }
                        let mut colour = None;
                        if a < b && b <= size {
                            let s = &self.col[a as usize..b as usize];
                            if s.iter().all(|c| *c == s[0]) && (s[0] == P || s[0] == L) {
                                colour = Some(s[0]);
                            } else {
                                fails.push(("pick_colour".into(), format!("range {}..{} covers bytes {} (oracle {})", a, b, cols_str(s), cols_str(&self.col))));
                            }
                        }
                        if let Some(c) = colour {
                            if fresh != (c == P) {
                                fails.push(("pick_fresh_flag".into(), format!("range {}..{} was {} but fresh = {}", a, b, col_char(c), fresh)));
                            }
                        }
                        if cand != Some(a) {
                            fails.push(("pick_lost_first".into(), format!("picked {}..{} but the least sendable offset is {:?} (flow {}, oracle {})", a, b, cand, flow, cols_str(&self.col))));
                        }
                        match pred(cap, cut, a) {
                            None => fails.push(("pick_len:predicate_none".into(), format!("picked {}..{} although the predicate refuses offset {}", a, b, a))),
                            Some(k) => {
                                if b.saturating_sub(a) > k {
                                    fails.push(("pick_len:predicate".into(), format!("picked {}..{} but the predicate allows {} bytes", a, b, k)));
                                }
                            }
                        }
                        if fresh && b.saturating_sub(a) > flow {
                            fails.push(("pick_len:flow".into(), format!("picked {} fresh bytes with flow limit {}", b - a, flow)));
                        }
                        // oracle update
                        if a < b && b <= size {
                            for x in a..b {
                                if fresh {
                                    self.fresh_cnt[x as usize] += 1;
                                    if self.fresh_cnt[x as usize] == 2 {
                                        fails.push(("fresh_once".into(), format!("byte {} reported fresh a second time (range {}..{})", x, a, b)));
                                    }
                                }
                                self.col[x as usize] = F;
                            }
                            self.picked.push((a, b));
                            if self.picked.len() > 64 {
                                self.picked.remove(0);
                            }
                        }
                        if !fresh && self.had_lose {
                            self.lose_then_retx = true;
                        }
                        let obs = format!("range={}..{} fresh={} dataok={} ", a, b, fresh as u8, dataok as u8);
                        self.finish(sink, &ops, &obs, fails, true)
                    }
                }
            }
            Op::Ack(a, b) | Op::Lose(a, b) => {
                let is_ack = matches!(op, Op::Ack(..));
                let name = if is_ack { "ack" } else { "lose" };
                let ops = format!("{} {} {}", name, a, b);
                let ind = self.in_domain(a, b);
                sink.pending(&ops);
                let r = if is_ack { catch(|| self.buf.on_data_acked(&(a..b))) } else { catch(|| self.buf.may_loss_data(&(a..b))) };
                if let Err(msg) = r {
                    return self.panic_line(sink, &ops, name, ind, &msg);
                }
                if !ind {
                    sink.branch(&format!("ood:{}:nopanic", name));
                    self.finish(sink, &ops, "", fails, false);
                    self.dead = true;
                    return false;
                }
                let segs = self.segments(a, b);
                sink.branch(&format!("{}:segments={}", name, segs.min(4)));
                if is_ack {
                    if segs >= 2 {
                        self.ack_span = true;
                    }
                    for x in a..b {
                        self.col[x as usize] = R;
                    }
                    self.acks.push((a, b));
                } else {
                    self.had_lose = true;
                    for x in a..b {
                        if self.col[x as usize] == F {
                            self.col[x as usize] = L;
                        }
                    }
                    self.loses.push((a, b));
                }
                self.finish(sink, &ops, "", fails, true)
            }
            Op::Resend => {
                sink.pending("resend");
                if let Err(msg) = catch(|| self.buf.resend_flighting()) {
                    return self.panic_line(sink, "resend", "resend", true, &msg);
                }
                for c in self.col.iter_mut() {
                    if *c == F {
                        *c = L;
                    }
                }
                self.had_lose = true;
                self.finish(sink, "resend", "", fails, true)
            }
            Op::Forget => {
                sink.pending("forget");
                if self.off != 0 {
                    self.forget_after_ack = true;
                    sink.branch("forget_after_ack");
                }
                if let Err(msg) = catch(|| self.buf.forget_sent_state()) {
                    return self.panic_line(sink, "forget", "forget", true, &msg);
                }
                self.col.clear();
                self.max = 0;
                for c in self.fresh_cnt.iter_mut() {
                    *c = 0;
                }
                self.picked.clear();
                self.acks.clear();
                self.loses.clear();
                self.finish(sink, "forget", "", fails, true)
            }
        }
    }
}

/// One case = `init cap` + `ops` on a fresh real buffer.
pub fn exec(cap: u64, ops: &[Op], sink: &mut Sink) -> Ex {
    let mut ex = Ex::new(cap, sink);
    for op in ops {
        if !ex.step(*op, sink) {
            break;
        }
    }
    ex
}

// ------------------------------------------------------------------------------------------------
// C09: random histories
// ------------------------------------------------------------------------------------------------

fn gen_write(rng: &mut Rng) -> Op {
    Op::Write(match rng.below(20) {
        0 => 0,
        1 => rng.range(25, 120),
        _ => rng.range(1, 24),
    })
}

/// run boundaries of the oracle: colour change points, 0, first Pending offset, size, real offset
fn boundaries(ex: &Ex) -> Vec<u64> {
    let mut v = vec![0, ex.nonpending(), ex.size(), ex.off];
    for i in 1..ex.col.len() {
        if ex.col[i] != ex.col[i - 1] {
            v.push(i as u64);
        }
    }
    v.sort();
    v.dedup();
    v
}

fn jitter(rng: &mut Rng, x: u64) -> u64 {
    match rng.below(4) {
        0 => x.saturating_sub(1),
        1 => x + 1,
        _ => x,
    }
}

fn gen_pick(rng: &mut Rng, ex: &Ex, sink: &mut Sink) -> Op {
    let cap = match rng.below(10) {
        0 | 1 => 1,
        2 | 3 => 2,
        4 => 3,
        5..=7 => rng.range(4, 12),
        _ => rng.range(1, 30),
    };
    let cut = match rng.below(20) {
        0..=14 => {
            sink.branch("pick:cut=huge");
            HUGE
        }
        15 => {
            sink.branch("pick:cut=0");
            0
        }
        _ => {
            sink.branch("pick:cut=near");
            let bs = boundaries(ex);
            let b = *rng.pick(&bs);
            jitter(rng, b)
        }
    };
    let flow = match rng.below(10) {
        0..=6 => {
            sink.branch("pick:flow=max");
            UMAX
        }
        7 => {
            sink.branch("pick:flow=0");
            0
        }
        _ => {
            sink.branch("pick:flow=small");
            rng.range(1, 10)
        }
    };
    Op::Pick(cap, cut, flow)
}

/// An in-domain range for ack / lose, or None when nothing was sent yet.
fn gen_range(rng: &mut Rng, ex: &Ex, is_ack: bool, sink: &mut Sink) -> Option<(u64, u64)> {
    let np = ex.nonpending();
    if np == 0 {
        return None;
    }
    let sub = |rng: &mut Rng, (a, b): (u64, u64)| -> (u64, u64) {
        let x = rng.range(a, b - 1);
        let y = rng.range(x + 1, b);
        (x, y)
    };
    let (same, other) = if is_ack { (&ex.acks, &ex.loses) } else { (&ex.loses, &ex.acks) };
    let (mode, (a, b)) = match rng.below(16) {
        0..=2 if !ex.picked.is_empty() => ("picked_exact", *rng.pick(&ex.picked)),
        3 | 4 if !ex.picked.is_empty() => {
            let r = *rng.pick(&ex.picked);
            ("picked_sub", sub(rng, r))
        }
        5 if ex.picked.len() >= 2 => {
            let adj: Vec<(u64, u64)> = ex
                .picked
                .iter()
                .flat_map(|p| ex.picked.iter().filter(move |q| q.0 == p.1).map(move |q| (p.0, q.1)))
                .collect();
            if adj.is_empty() { ("picked_exact", *rng.pick(&ex.picked)) } else { ("picked_union", *rng.pick(&adj)) }
        }
        6..=9 => {
            let bs: Vec<u64> = boundaries(ex).into_iter().filter(|x| *x <= np).collect();
            let (x, y) = (*rng.pick(&bs), *rng.pick(&bs));
            let (x, y) = (jitter(rng, x), jitter(rng, y));
            ("span_runs", if x <= y { (x, y) } else { (y, x) })
        }
        10 if !same.is_empty() => ("repeat", *rng.pick(same)),
        11 | 12 if !other.is_empty() => {
            let r = *rng.pick(other);
            match rng.below(3) {
                0 => (if is_ack { "ack_of_lost" } else { "lose_of_acked" }, r),
                1 => (if is_ack { "ack_of_lost_part" } else { "lose_of_acked_part" }, sub(rng, r)),
                _ => (if is_ack { "ack_of_lost_wider" } else { "lose_of_acked_wider" }, (r.0.saturating_sub(rng.below(3)), r.1 + rng.below(3))),
            }
        }
        13 => {
            let b = if ex.off > 0 && rng.chance(1, 2) { jitter(rng, ex.off) } else { rng.range(1, np) };
            ("below_off", (0, b))
        }
        14 => ("whole", (0, np)),
        _ => ("uniform", sub(rng, (0, np))),
    };
    let b = b.min(ex.size());
    if ex.in_domain(a, b) {
        sink.branch(&format!("range:{}", mode));
        if ex.off > 0 && a < ex.off {
            sink.branch("range:starts_below_off");
        }
        return Some((a, b));
    }
    // repair: clip to the never-Pending prefix
    let b2 = b.min(np);
    if ex.in_domain(a, b2) {
        sink.branch(&format!("range:{}:clipped", mode));
        return Some((a, b2));
    }
    let r = sub(rng, (0, np));
    if ex.in_domain(r.0, r.1) {
        sink.branch("range:uniform");
        return Some(r);
    }
    None
}

fn gen_ood(rng: &mut Rng, ex: &Ex) -> Option<Op> {
    let (size, np) = (ex.size(), ex.nonpending());
    for _ in 0..8 {
        match rng.below(5) {
            0 | 1 if size > np => {
                // covers a Pending byte
                let a = rng.below(np + 1);
                let b = rng.range(np + 1, size);
                return Some(if rng.chance(1, 2) { Op::Ack(a, b) } else { Op::Lose(a, b) });
            }
            2 | 3 => {
                // ends beyond the coloured prefix
                let b = size + rng.range(1, 5);
                let a = if rng.chance(1, 4) { rng.range(0, size) } else { rng.below(np + 1) };
                return Some(if rng.chance(1, 2) { Op::Ack(a, b) } else { Op::Lose(a, b) });
            }
            4 if ex.max > 0 => {
                let m = if rng.chance(1, 2) { ex.max - 1 } else { rng.below(ex.max) };
                return Some(Op::Extend(m));
            }
            _ => {}
        }
    }
    None
}

fn gen_op(rng: &mut Rng, ex: &Ex, forget_anywhere: bool, sink: &mut Sink) -> Op {
    if ex.written == 0 && rng.chance(3, 4) {
        return gen_write(rng);
    }
    // a closed window (initial capacity 0, or after a forget) makes everything else a no-op: reopen it soon
    if ex.max == 0 && ex.written > 0 && rng.chance(1, 2) {
        return Op::Extend(rng.range(1, 40));
    }
    loop {
        match rng.below(100) {
            0..=15 => {
                if ex.written > 150 && rng.chance(3, 4) {
                    continue;
                }
                return gen_write(rng);
            }
            16..=23 => {
                let m = if rng.chance(1, 5) { ex.max } else { ex.max + rng.range(0, 40) };
                return Op::Extend(m);
            }
            24..=57 => return gen_pick(rng, ex, sink),
            58..=76 => {
                if let Some((a, b)) = gen_range(rng, ex, true, sink) {
                    return Op::Ack(a, b);
                }
            }
            77..=95 => {
                if let Some((a, b)) = gen_range(rng, ex, false, sink) {
                    return Op::Lose(a, b);
                }
            }
            96..=98 => return Op::Resend,
            _ => {
                if ex.off == 0 || forget_anywhere {
                    return Op::Forget;
                }
            }
        }
    }
}

fn one_case(rng: &mut Rng, sink: &mut Sink) {
    let cap = match rng.below(10) {
        0 => {
            sink.branch("init:cap=0");
            0
        }
        1..=5 => {
            sink.branch("init:cap=1..40");
            rng.range(1, 40)
        }
        6 => {
            sink.branch("init:cap=41..200");
            rng.range(41, 200)
        }
        _ => {
            sink.branch("init:cap=unlimited");
            UNLIMITED
        }
    };
    let nops = rng.range(5, 60);
    let ood = rng.chance(1, 50);
    let forget_anywhere = rng.chance(1, 5);
    let mut ex = Ex::new(cap, sink);
    for _ in 0..nops {
        let op = gen_op(rng, &ex, forget_anywhere, sink);
        if !ex.step(op, sink) {
            break;
        }
    }
    if ood && !ex.dead {
        if let Some(op) = gen_ood(rng, &ex) {
            sink.branch("ood:case");
            ex.step(op, sink);
        }
    }
    if ex.nontrivial() {
        sink.nontrivial();
    }
}

const RULE: &str = "non-trivial = the case contains a lose/resend followed later by a non-fresh (retransmitting) pick AND an ack whose range spans >= 2 differently coloured segments of the per-byte oracle; distinct by hash of the full transcript of the case";

pub fn run(o: &Opts) {
    let mut sink = Sink::new_with_stats(&o.out, &o.stats);
    for i in 0..o.cases {
        if let Some(k) = o.only_case {
            if k != i {
                continue;
            }
        }
        let mut rng = Rng::new(o.seed, i);
        sink.case(&format!("{}", i));
        one_case(&mut rng, &mut sink);
    }
    sink.finish(&o.stats, &format!("random histories of write/extend/pick/ack/lose/resend/forget on a real SendBuf with a per-byte colour oracle; {}", RULE));
}

// ------------------------------------------------------------------------------------------------
// C09x: small scope, breadth first over the distinct real states
// ------------------------------------------------------------------------------------------------

const X_BYTES: u64 = 8;
const X_MAX: u64 = 10;

/// Every enabled operation of the small alphabet in the state reached by `ex`.
fn successors(ex: &Ex) -> Vec<Op> {
    let mut v = vec![];
    for n in [2u64, 3] {
        if ex.written + n <= X_BYTES {
            v.push(Op::Write(n));
        }
    }
    if ex.max + 2 <= X_MAX {
        v.push(Op::Extend(ex.max + 2));
    }
    for cap in [1u64, 2, 8] {
        for flow in [UMAX, 0, 1] {
            v.push(Op::Pick(cap, HUGE, flow));
        }
    }
    let size = ex.size();
    for a in 0..size {
        for b in a + 1..=size {
            if ex.in_domain(a, b) {
                v.push(Op::Ack(a, b));
                v.push(Op::Lose(a, b));
            }
        }
    }
    v.push(Op::Resend);
    v
}

fn hash_str(s: &str) -> u64 {
    let mut h = std::collections::hash_map::DefaultHasher::new();
    s.hash(&mut h);
    h.finish()
}

/// Level d executes, for every distinct real state first reached by a sequence of d-1 operations, that
/// sequence followed by every enabled operation of the alphabet (one case each, re-executed from scratch).
/// States are identified by the complete `Debug` text of the real buffer (offset, data chunks, max_data,
/// run list, size), so every (state, operation) pair of the scope is executed exactly once until the
/// budget `--cases` is used up; the order of the states inside a level is shuffled with `--seed`.
pub fn run_exhaustive(o: &Opts) {
    let mut sink = Sink::new_with_stats(&o.out, &o.stats);
    let mut null = Sink::new("/dev/null");
    let mut seen: HashSet<u64> = HashSet::new();
    let mut frontier: Vec<(u64, Vec<Op>)> = vec![];
    for cap in [4u64, 8] {
        let ex = exec(cap, &[], &mut null);
        seen.insert(hash_str(&ex.key));
        frontier.push((cap, vec![]));
    }
    let mut id = 0u64;
    let mut depth = 0u64;
    let mut complete = true;
    let mut level_sizes: Vec<u64> = vec![];
    'outer: while !frontier.is_empty() {
        depth += 1;
        let mut rng = Rng::new(o.seed, 1_000_000 + depth);
        for i in (1..frontier.len()).rev() {
            let j = rng.below(i as u64 + 1) as usize;
            frontier.swap(i, j);
        }
        let mut next: Vec<(u64, Vec<Op>)> = vec![];
        let mut in_level = 0u64;
        for (cap, prefix) in frontier.iter() {
            let base = exec(*cap, prefix, &mut null);
            for op in successors(&base) {
                if id >= o.cases {
                    complete = false;
                    level_sizes.push(in_level);
                    break 'outer;
                }
                let this = id;
                id += 1;
                in_level += 1;
                let mut ops = prefix.clone();
                ops.push(op);
                let wanted = o.only_case.is_none_or(|k| k == this);
                let ex = if wanted {
                    sink.case(&format!("{}", this));
                    let ex = exec(*cap, &ops, &mut sink);
                    if ex.nontrivial() {
                        sink.nontrivial();
                    }
                    ex
                } else {
                    exec(*cap, &ops, &mut null)
                };
                if !ex.dead && seen.insert(hash_str(&ex.key)) {
                    next.push((*cap, ops));
                }
            }
        }
        level_sizes.push(in_level);
        frontier = next;
    }
    sink.note("exhaustive", serde_json::json!(complete));
    sink.note("depth_reached", serde_json::json!(depth));
    sink.note("cases_per_depth", serde_json::json!(level_sizes));
    sink.note("distinct_states", serde_json::json!(seen.len()));
    sink.note("scope", serde_json::json!(format!("init cap in {{4,8}}; write 2|3 while written <= {}; extend +2 while max_data <= {}; pick cap in {{1,2,8}} x flow in {{MAX,0,1}} (cut 2^62); ack/lose of every in-domain [a,b); resend; breadth first over distinct real states (Debug text), each (state, op) pair once", X_BYTES, X_MAX)));
    sink.finish(&o.stats, &format!("small-scope enumeration on a real SendBuf (<= 8 bytes): every enabled operation from every distinct state, level by level; {}", RULE));
}

// ------------------------------------------------------------------------------------------------
// C09s: the same buffer behind the real crypto stream sender
// ------------------------------------------------------------------------------------------------

const VARINT_MAX: u64 = (1 << 62) - 1;

/// Packet target with a hard capacity (`BufMut + RecordFrame`, like the connection's packet writer).
struct Pkt {
    buf: BytesMut,
    room: usize,
    recorded: usize,
}

impl Pkt {
    fn new(cap: usize) -> Self {
        Pkt { buf: BytesMut::with_capacity(cap + 64), room: cap, recorded: 0 }
    }
}

unsafe impl BufMut for Pkt {
    fn remaining_mut(&self) -> usize {
        self.room
    }
    unsafe fn advance_mut(&mut self, cnt: usize) {
        unsafe { self.buf.advance_mut(cnt) };
        self.room -= cnt;
    }
    fn chunk_mut(&mut self) -> &mut bytes::buf::UninitSlice {
        if self.buf.capacity() == self.buf.len() {
            self.buf.reserve(64);
        }
        let n = self.room;
        let c = self.buf.chunk_mut();
        let l = c.len().min(n);
        &mut c[..l]
    }
}

impl<D: ContinuousData> RecordFrame<Frame<D>, D> for Pkt {
    fn record_frame(&mut self, _frame: &Frame<D>) {
        self.recorded += 1;
    }
}

fn varint_size(x: u64) -> usize {
    if x < 1 << 6 {
        1
    } else if x < 1 << 14 {
        2
    } else if x < 1 << 30 {
        4
    } else {
        8
    }
}

fn read_varint(b: &[u8]) -> Option<(u64, usize)> {
    let first = *b.first()?;
    let n = 1usize << (first >> 6);
    if b.len() < n {
        return None;
    }
    let mut v = (first & 0x3f) as u64;
    for x in &b[1..n] {
        v = (v << 8) | *x as u64;
    }
    Some((v, n))
}

/// The CRYPTO frames (type 0x06, varint offset, varint length, data) of a packet payload, in order:
/// (offset, payload, encoded size).
fn parse_crypto(mut b: &[u8]) -> Result<Vec<(u64, Vec<u8>, usize)>, String> {
    let mut out = vec![];
    while !b.is_empty() {
        if b[0] != 0x06 {
            return Err(format!("frame type {:#x} is not CRYPTO", b[0]));
        }
        let (off, n1) = read_varint(&b[1..]).ok_or("truncated offset")?;
        let (len, n2) = read_varint(&b[1 + n1..]).ok_or("truncated length")?;
        let h = 1 + n1 + n2;
        if b.len() < h + len as usize {
            return Err(format!("frame at offset {} announces {} bytes, {} present", off, len, b.len() - h));
        }
        out.push((off, b[h..h + len as usize].to_vec(), h + len as usize));
        b = &b[h + len as usize..];
    }
    Ok(out)
}

#[derive(Clone, Copy, Debug)]
enum SOp {
    Write(u64),
    Load(u64, bool),
    Ack(u64, u64),
    Lose(u64, u64),
}

struct SEx {
    out: qrecovery::crypto::CryptoStreamOutgoing,
    w: qrecovery::crypto::CryptoStreamWriter,
    written: u64,
    col: Vec<u8>,
    frames: Vec<(u64, u64)>,
    retx_frames: u64,
    multi_load: bool,
    dead: bool,
}

impl SEx {
    fn new(sink: &mut Sink) -> SEx {
        let cs = CryptoStream::new(ArcSendWakers::default());
        let mut ex = SEx { out: cs.outgoing(), w: cs.writer(), written: 0, col: vec![], frames: vec![], retx_frames: 0, multi_load: false, dead: false };
        ex.finish(sink, &format!("init {}", VARINT_MAX), "", vec![]);
        ex
    }

    fn panic_line(&mut self, sink: &mut Sink, op: &str, name: &str, msg: &str) -> bool {
        sink.line(op, "PANIC");
        sink.monitor_fail(&format!("panic:{}", name), &format!("`{}` panicked: {}", op, msg));
        self.dead = true;
        false
    }

    /// State monitors: state_vs_oracle:* (max_data, size, run list), complete_iff_all_acked
    /// (the data queue is empty iff every written byte is acknowledged), offset_le_unacked.
    fn finish(&mut self, sink: &mut Sink, op: &str, prefix: &str, fails: Vec<(String, String)>) -> bool {
        let d = format!("{:?}", self.out);
        let Some(dump) = parse_dump(&d) else {
            sink.line(op, &format!("{}UNPARSED", prefix));
            sink.monitor_fail("dump_parse", &format!("cannot parse the Debug output: {}", d));
            self.dead = true;
            return false;
        };
        let sent = dump.runs.iter().find(|r| r.1 == P).map(|r| r.0).unwrap_or(dump.size);
        sink.line(op, &format!("{}{}", prefix, state_str(self.written, sent, dump.data_empty, dump.max, &dump)));
        for (k, w) in fails {
            sink.monitor_fail(&k, &w);
        }
        let want = self.col.iter().all(|c| *c == R);
        if dump.data_empty != want {
            sink.monitor_fail("complete_iff_all_acked", &format!("data queue empty = {} but all-acked = {} (oracle {})", dump.data_empty, want, cols_str(&self.col)));
        }
        let first_nr = self.col.iter().position(|c| *c != R).unwrap_or(self.col.len()) as u64;
        if dump.off != first_nr {
            let key = if dump.off > first_nr { "offset_le_unacked:beyond" } else { "offset_le_unacked:behind" };
            sink.monitor_fail(key, &format!("offset = {} but the least unacknowledged offset is {} (oracle {})", dump.off, first_nr, cols_str(&self.col)));
        }
        if dump.max != VARINT_MAX {
            sink.monitor_fail("state_vs_oracle:max", &format!("max_data {} of the crypto stream is not 2^62-1", dump.max));
        }
        if dump.size != self.written {
            sink.monitor_fail("state_vs_oracle:size", &format!("BufMap size {} != written {}", dump.size, self.written));
        } else {
            match expand(&dump) {
                Err(e) => sink.monitor_fail("state_vs_oracle:malformed", &e),
                Ok(v) => {
                    if v != self.col {
                        sink.monitor_fail("state_vs_oracle:runs", &format!("run list expands to {} but the oracle is {}", cols_str(&v), cols_str(&self.col)));
                    }
                }
            }
        }
        !self.dead
    }

    /// load monitors: load_parse, pick_nonempty, pick_in_window, pick_colour, pick_lost_first, pick_data,
    /// load_fits, load_stop_justified, load_ok_iff_frames, load_recorded.
    fn step(&mut self, op: SOp, sink: &mut Sink) -> bool {
        if self.dead {
            return false;
        }
        let mut fails: Vec<(String, String)> = vec![];
        match op {
            SOp::Write(n) => {
                let ops = format!("write {}", n);
                let data = bytes_of(self.written, self.written + n);
                sink.pending(&ops);
                let mut cx = Context::from_waker(Waker::noop());
                let r = catch(|| Pin::new(&mut self.w).poll_write(&mut cx, &data));
                match r {
                    Err(msg) => return self.panic_line(sink, &ops, "write", &msg),
                    Ok(Poll::Ready(Ok(k))) if k as u64 == n => {}
                    Ok(other) => fails.push(("write_accepts_all".into(), format!("poll_write of {} bytes returned {:?}", n, other))),
                }
                self.written += n;
                self.col.resize(self.written as usize, P);
                self.finish(sink, &ops, "", fails)
            }
            SOp::Load(max_size, force) => {
                let ops = format!("load {} {}", max_size, force as u8);
                sink.pending(&ops);
                let mut pkt = Pkt::new(max_size as usize);
                let r = catch(|| self.out.try_load_data_into(&mut pkt, force).map_err(|s| s.bits()));
                let r = match r {
                    Ok(r) => r,
                    Err(msg) => return self.panic_line(sink, &ops, "load", &msg),
                };
                if force {
                    for c in self.col.iter_mut() {
                        if *c == F {
                            *c = L;
                        }
                    }
                }
                let frames = match parse_crypto(&pkt.buf) {
                    Ok(f) => f,
                    Err(e) => {
                        fails.push(("load_parse".into(), e));
                        vec![]
                    }
                };
                let size = self.col.len() as u64;
                let cand_of = |col: &[u8]| col.iter().position(|c| *c == L || *c == P).map(|x| x as u64);
                let mut room = max_size as usize;
                let mut dataok = true;
                let mut list = vec![];
                for (a, payload, enc) in frames.iter() {
                    let (a, b) = (*a, *a + payload.len() as u64);
                    list.push(format!("{}..{}", a, b));
                    if *payload != bytes_of(a, b) {
                        dataok = false;
                        fails.push(("pick_data".into(), format!("CRYPTO frame {}..{} does not carry the written bytes of the range", a, b)));
                    }
                    if a >= b {
                        fails.push(("pick_nonempty".into(), format!("empty CRYPTO frame at {}", a)));
                    }
                    if b > size {
                        fails.push(("pick_in_window".into(), format!("frame {}..{} ends beyond written {}", a, b, size)));
                    }
                    let cand = cand_of(&self.col);
                    if cand != Some(a) {
                        fails.push(("pick_lost_first".into(), format!("frame {}..{} but the least sendable offset is {:?} (oracle {})", a, b, cand, cols_str(&self.col))));
                    }
                    if *enc > room {
                        fails.push(("load_fits".into(), format!("frame {}..{} needs {} bytes, {} left of {}", a, b, enc, room, max_size)));
                    }
                    room = room.saturating_sub(*enc);
                    if a < b && b <= size {
                        let s = &self.col[a as usize..b as usize];
                        if !(s.iter().all(|c| *c == s[0]) && (s[0] == P || s[0] == L)) {
                            fails.push(("pick_colour".into(), format!("frame {}..{} covers bytes {} (oracle {})", a, b, cols_str(s), cols_str(&self.col))));
                        }
                        if s[0] == L {
                            self.retx_frames += 1;
                            sink.branch("load:frame=retx");
                        } else {
                            sink.branch("load:frame=fresh");
                        }
                        for x in a..b {
                            self.col[x as usize] = F;
                        }
                        self.frames.push((a, b));
                        if self.frames.len() > 64 {
                            self.frames.remove(0);
                        }
                    }
                }
                // the loop of try_load_data_into stops only when nothing sendable is left or the next
                // frame (type + offset + 1 byte of length + >= 1 byte of data) does not fit
                if let Some(c) = cand_of(&self.col) {
                    if room >= varint_size(c) + 3 {
                        fails.push(("load_stop_justified".into(), format!("stopped with {} bytes of room although offset {} is sendable (oracle {})", room, c, cols_str(&self.col))));
                    }
                }
                if r.is_ok() != !frames.is_empty() {
                    fails.push(("load_ok_iff_frames".into(), format!("returned {:?} with {} frames written", r, frames.len())));
                }
                if pkt.recorded != frames.len() {
                    fails.push(("load_recorded".into(), format!("{} frames recorded, {} written", pkt.recorded, frames.len())));
                }
                if frames.len() >= 2 {
                    self.multi_load = true;
                }
                sink.branch(&format!("load:frames={}", frames.len().min(4)));
                let obs = format!(
                    "frames={} ok={} sig={} dataok={} ",
                    if list.is_empty() { "-".into() } else { list.join(",") },
                    r.is_ok() as u8,
                    r.err().unwrap_or(0),
                    dataok as u8
                );
                self.finish(sink, &ops, &obs, fails)
            }
            SOp::Ack(a, b) | SOp::Lose(a, b) => {
                let is_ack = matches!(op, SOp::Ack(..));
                let name = if is_ack { "ack" } else { "lose" };
                let ops = format!("{} {} {}", name, a, b);
                let frame = CryptoFrame::new(VarInt::from_u64(a).unwrap(), VarInt::from_u64(b - a).unwrap());
                sink.pending(&ops);
                let r = if is_ack { catch(|| self.out.on_data_acked(&frame)) } else { catch(|| self.out.may_loss_data(&frame)) };
                if let Err(msg) = r {
                    return self.panic_line(sink, &ops, name, &msg);
                }
                let s = &self.col[a as usize..b as usize];
                if is_ack && s.iter().any(|c| *c == L) {
                    sink.branch("ack:after_loss");
                }
                if is_ack && s.iter().any(|c| *c == R) {
                    sink.branch("ack:repeated");
                }
                if !is_ack && s.iter().any(|c| *c == R) {
                    sink.branch("lose:after_ack");
                }
                if !is_ack && s.iter().any(|c| *c == L) {
                    sink.branch("lose:repeated");
                }
                for x in a..b {
                    let c = &mut self.col[x as usize];
                    if is_ack {
                        *c = R;
                    } else if *c == F {
                        *c = L;
                    }
                }
                self.finish(sink, &ops, "", fails)
            }
        }
    }
}

fn s_case(rng: &mut Rng, sink: &mut Sink) {
    let mut ex = SEx::new(sink);
    let nops = rng.range(5, 50);
    for _ in 0..nops {
        let r = if ex.written == 0 && rng.chance(3, 4) { 0 } else { rng.below(100) };
        let op = match r {
            0..=24 => SOp::Write(match rng.below(20) {
                0 => 0,
                1 => rng.range(25, 120),
                _ => rng.range(1, 24),
            }),
            25..=64 => {
                let max_size = match rng.below(10) {
                    0 => rng.range(0, 2),
                    1..=6 => rng.range(3, 40),
                    7 | 8 => rng.range(41, 120),
                    _ => rng.range(0, 120),
                };
                SOp::Load(max_size, rng.chance(1, 10))
            }
            _ if ex.frames.is_empty() => continue,
            r => {
                let (a, b) = *rng.pick(&ex.frames);
                let (a, b) = if rng.chance(2, 3) {
                    sink.branch("range:frame");
                    (a, b)
                } else {
                    sink.branch("range:frame_sub");
                    let x = rng.range(a, b - 1);
                    (x, rng.range(x + 1, b))
                };
                if r < 83 { SOp::Ack(a, b) } else { SOp::Lose(a, b) }
            }
        };
        if !ex.step(op, sink) {
            break;
        }
    }
    if ex.retx_frames > 0 && ex.multi_load {
        sink.nontrivial();
    }
}

pub fn run_crypto(o: &Opts) {
    let mut sink = Sink::new_with_stats(&o.out, &o.stats);
    for i in 0..o.cases {
        if let Some(k) = o.only_case {
            if k != i {
                continue;
            }
        }
        let mut rng = Rng::new(o.seed, i);
        sink.case(&format!("{}", i));
        s_case(&mut rng, &mut sink);
    }
    sink.finish(&o.stats, "random histories of poll_write / try_load_data_into(packet of max_size, force) / on_data_acked / may_loss_data on a real CryptoStream sender, CRYPTO frames parsed back from the packet bytes; non-trivial = at least one retransmitted (Lost) frame was loaded and at least one load wrote >= 2 frames; distinct by hash of the full transcript of the case");
}

pub const RUNS: &[(&str, fn(&Opts))] = &[("C09", run), ("C09x", run_exhaustive), ("C09s", run_crypto)];
