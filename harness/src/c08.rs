//! C08: real `qrecovery::recv::RecvBuf` driven with overlapping / duplicated / empty fragments of
//! one source byte string, interleaved with reads.  Exact observables + segment boundaries
//! (parsed from the derived `Debug` output; source bytes are alphanumeric so no escapes occur).
use bytes::{Bytes, BytesMut, BufMut};
use qrecovery::recv::RecvBuf;

use crate::common::{catch, hex, Opts, Rng, Sink};

fn segs_of(buf: &RecvBuf) -> String {
    let d = format!("{:?}", buf);
    // RecvBuf { nread: 0, largest_offset: 4, segments: [Segment { offset: 0, data: b"hell" }] }
    let mut out = vec![];
    let mut rest = d.as_str();
    while let Some(p) = rest.find("Segment { offset: ") {
        rest = &rest[p + "Segment { offset: ".len()..];
        let e = rest.find(',').unwrap();
        let off: u64 = rest[..e].parse().unwrap();
        let q = rest.find("b\"").unwrap();
        rest = &rest[q + 2..];
        let e2 = rest.find('"').unwrap();
        out.push(format!("{}+{}", off, e2));
        rest = &rest[e2..];
    }
    if out.is_empty() { "-".into() } else { out.join(",") }
}

fn tail(buf: &RecvBuf) -> String {
    format!(
        "nread={} lg={} av={} rd={} segs={}",
        buf.nread(),
        buf.largest_offset(),
        buf.available(),
        if buf.is_readable() { 1 } else { 0 },
        segs_of(buf)
    )
}

struct Limited(BytesMut, usize);
unsafe impl BufMut for Limited {
    fn remaining_mut(&self) -> usize { self.1 }
    unsafe fn advance_mut(&mut self, cnt: usize) { unsafe { self.0.advance_mut(cnt) }; self.1 -= cnt; }
    fn chunk_mut(&mut self) -> &mut bytes::buf::UninitSlice {
        if self.0.capacity() == self.0.len() { self.0.reserve(64); }
        let n = self.1;
        let c = self.0.chunk_mut();
        let l = c.len().min(n);
        &mut c[..l]
    }
}

/// Drive a fresh real `RecvBuf` with `ops` over `src`; op = (kind, a, b): 0 = recv(off=a, len=b), 1 = read(cap=a), 2 = next.
/// Writes the transcript lines and evaluates the independent monitors (they never consult the model):
///  read_prefix            bytes handed out so far == src[..nread]
///  fresh_sums_to_largest  sum of recv returns == largest_offset
///  largest_is_max_end     largest_offset == max off+len over non-empty fragments
///  available_prefix       nread + available == length of the contiguous arrived prefix (per-byte bitmap oracle)
///  read_is_maximal        try_read returns min(cap, available before)
///  next_iff_available     try_next is Some iff available before > 0
/// Returns (number of fully-overlapping fragments, bytes read).
pub fn drive(src: &Bytes, ops: &[(u8, u64, u64)], sink: &mut Sink) -> (u64, usize) {
    let mut buf = RecvBuf::default();
    let mut out: Vec<u8> = vec![];
    let mut charged = 0u64;
    let mut overlaps = 0;
    let mut arrived = vec![false; src.len()];
    let mut max_end = 0u64;
    for &(k, a, b) in ops {
        let avail_before = buf.available();
        match k {
            0 => {
                let data = src.slice(a as usize..(a + b) as usize);
                let before_lg = buf.largest_offset();
                let op = format!("recv {} {}", a, hex(&data));
                sink.pending(&op);
                let d2 = data.clone();
                let ret = match catch(|| buf.recv(a, d2)) {
                    Ok(r) => r,
                    Err(msg) => {
                        sink.line(&op, "PANIC");
                        sink.monitor_fail("panic:recv", &format!("RecvBuf::recv panicked: {}", msg));
                        return (overlaps, out.len());
                    }
                };
                charged += ret;
                for x in a..a + b { arrived[x as usize] = true; }
                if b > 0 { max_end = max_end.max(a + b); }
                if ret == 0 && b > 0 && a < before_lg { overlaps += 1; }
                sink.line(&op, &format!("ret={} {}", ret, tail(&buf)));
            }
            1 => {
                let mut dst = Limited(BytesMut::new(), a as usize);
                let n = buf.try_read(&mut dst);
                let got = dst.0.to_vec();
                if n != got.len() { sink.monitor_fail("try_read_len", &format!("returned {} wrote {}", n, got.len())); }
                if got.len() as u64 != a.min(avail_before) {
                    sink.monitor_fail("read_is_maximal", &format!("try_read(cap {}) gave {} bytes with {} available", a, got.len(), avail_before));
                }
                out.extend_from_slice(&got);
                sink.line(&format!("read {}", a), &format!("out={} {}", hex(&got), tail(&buf)));
            }
            _ => {
                match buf.try_next() {
                    Some(d) => {
                        if avail_before == 0 || d.is_empty() { sink.monitor_fail("next_iff_available", "try_next returned a chunk with nothing available / an empty chunk"); }
                        out.extend_from_slice(&d);
                        sink.line("next", &format!("out={} {}", hex(&d), tail(&buf)));
                    }
                    None => {
                        if avail_before != 0 { sink.monitor_fail("next_iff_available", &format!("try_next returned None with {} available", avail_before)); }
                        sink.line("next", &format!("out=none {}", tail(&buf)));
                    }
                }
            }
        }
        // independent monitors (never consult the model)
        if out.len() as u64 != buf.nread() || out.len() > src.len() || out[..] != src[..out.len()] {
            sink.monitor_fail("read_prefix", "bytes read are not the prefix of the source");
        }
        if charged != buf.largest_offset() {
            sink.monitor_fail("fresh_sums_to_largest", &format!("sum of returns {} != largest {}", charged, buf.largest_offset()));
        }
        if max_end != buf.largest_offset() {
            sink.monitor_fail("largest_is_max_end", &format!("largest {} != max fragment end {}", buf.largest_offset(), max_end));
        }
        let prefix = arrived.iter().take_while(|x| **x).count() as u64;
        if buf.nread() + buf.available() != prefix {
            sink.monitor_fail("available_prefix", &format!("nread {} + available {} != contiguous arrived prefix {}", buf.nread(), buf.available(), prefix));
        }
    }
    (overlaps, out.len())
}

pub fn one_case(rng: &mut Rng, sink: &mut Sink) {
    const AL: &[u8] = b"abcdefghijklmnopqrstuvwxyz0123456789";
    let len = match rng.below(10) { 0 => rng.range(1, 4), 1..=6 => rng.range(5, 48), 7 | 8 => rng.range(49, 300), _ => rng.range(301, 3000) } as usize;
    let src: Vec<u8> = (0..len).map(|_| *rng.pick(AL)).collect();
    let src = Bytes::from(src);
    let nops = rng.range(3, 40);
    let mut ops: Vec<(u8, u64, u64)> = vec![];
    // fragment boundaries biased to a small set of cut points so that exact-adjacency,
    // same-offset and containment cases are common
    let ncuts = rng.range(2, 8);
    let mut cuts: Vec<u64> = (0..ncuts).map(|_| rng.below(len as u64 + 1)).collect();
    cuts.push(0); cuts.push(len as u64);
    for _ in 0..nops {
        match rng.below(10) {
            0..=5 => {
                let (a, b) = if rng.chance(3, 4) { (*rng.pick(&cuts), *rng.pick(&cuts)) } else { (rng.below(len as u64 + 1), rng.below(len as u64 + 1)) };
                let (a, b) = if a <= b { (a, b) } else { (b, a) };
                ops.push((0, a, b - a));
            }
            6..=8 => { let cap = if rng.chance(1, 5) { 0 } else { rng.below(len as u64 + 2) }; ops.push((1, cap, 0)); }
            _ => ops.push((2, 0, 0)),
        }
    }
    // cooperative suffix in half the cases: deliver everything, read everything
    if rng.chance(1, 2) { ops.push((0, 0, len as u64)); ops.push((1, len as u64 + 1, 0)); }
    let (overlaps, nout) = drive(&src, &ops, sink);
    if overlaps > 0 && nout > 0 { sink.nontrivial(); }
}

pub fn run(o: &Opts) {
    let mut sink = Sink::new_with_stats(&o.out, &o.stats);
    for i in 0..o.cases {
        if let Some(k) = o.only_case { if k != i { continue; } }
        let mut rng = Rng::new(o.seed, i);
        sink.case(&format!("{}", i));
        one_case(&mut rng, &mut sink);
    }
    sink.finish(&o.stats, "random histories of recv(slice of src)/read(cap)/next on a real RecvBuf; non-trivial = at least one fully-overlapping fragment arrived and at least one byte was read; distinct by hash of the full transcript of the case");
}

/// Exhaustive small scope: every source length n ≤ N, every sequence of ≤ 3 fragments (off, len) with
/// off + len ≤ n (empty fragments included), after each fragment but the last one of
/// {nothing, try_next, try_read(cap) for every cap in 1..=n}, and a final draining try_read(n + 1).
/// N = 3 in the quick tier, 5 in the thorough tier; `--cases` is only an upper bound (a safety valve):
/// if it is hit, the note `exhaustive` is false.
pub fn run_x(o: &Opts) {
    let mut sink = Sink::new_with_stats(&o.out, &o.stats);
    let nmax: u64 = if o.thorough() { 5 } else { 3 };
    let mut id = 0u64;
    let mut complete = true;
    'outer: for n in 0..=nmax {
        let src = Bytes::from((0..n).map(|i| b'a' + i as u8).collect::<Vec<u8>>());
        let mut frags: Vec<(u64, u64)> = vec![];
        for off in 0..=n { for len in 0..=(n - off) { frags.push((off, len)); } }
        // gap choices: 0 = nothing, 1 = next, 2.. = read(cap = c - 1)
        let ngap = n + 2;
        for k in 0..=3usize {
            let nseq = (frags.len() as u64).pow(k as u32);
            let ngaps = ngap.pow(k.saturating_sub(1) as u32);
            for si in 0..nseq {
                for gi in 0..ngaps {
                    if id >= o.cases { complete = false; break 'outer; }
                    let this = id; id += 1;
                    if let Some(want) = o.only_case { if want != this { continue; } }
                    let mut ops: Vec<(u8, u64, u64)> = vec![];
                    let (mut s, mut g) = (si, gi);
                    for j in 0..k {
                        let f = frags[(s % frags.len() as u64) as usize]; s /= frags.len() as u64;
                        ops.push((0, f.0, f.1));
                        if j + 1 < k {
                            let c = g % ngap; g /= ngap;
                            match c { 0 => {}, 1 => ops.push((2, 0, 0)), c => ops.push((1, c - 1, 0)) }
                        }
                    }
                    ops.push((1, n + 1, 0));
                    sink.case(&format!("{}", this));
                    let (overlaps, nout) = drive(&src, &ops, &mut sink);
                    if overlaps > 0 && nout > 0 { sink.nontrivial(); }
                }
            }
        }
    }
    sink.note("exhaustive", serde_json::json!(complete));
    sink.note("scope", serde_json::json!(format!("|src| <= {}, <= 3 fragments (all off,len incl. empty), all gap choices (nothing / next / read 1..=|src|), final drain", nmax)));
    sink.finish(&o.stats, "exhaustive small-scope enumeration of fragment sequences and reads on a real RecvBuf; non-trivial = at least one fully-overlapping fragment and at least one byte read; distinct by hash of the transcript");
}

pub const RUNS: &[(&str, fn(&Opts))] = &[("C08", run), ("C08loop", run), ("C08x", run_x)];
