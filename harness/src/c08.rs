//! C08: real `qrecovery::recv::RecvBuf` driven with overlapping / duplicated / empty fragments of
//! one source byte string, interleaved with reads.  Exact observables + segment boundaries
//! (parsed from the derived `Debug` output; source bytes are alphanumeric so no escapes occur).
use bytes::{Bytes, BytesMut, BufMut};
use qrecovery::recv::RecvBuf;

use crate::common::{hex, Opts, Rng, Sink};

fn segs_of(buf: &RecvBuf) -> String {
    let d = format!("{:?}", buf);
    // RecvBuf { nread: 0, largest_offset: 4, segments: [Segment { offset: 0, data: b"hell" }] }
    let mut out = vec![];
    let mut rest = d.as_str();
    while let Some(p) = rest.find("Segment { offset: ") {
        rest = &rest[p + "Segment { offset: ".len()..];
        let e = rest.find(',').unwrap();
        let off: u64 = rest[..e].parse().unwrap();
        let q = rest.find("b\"").unwrap();
        rest = &rest[q + 2..];
        let e2 = rest.find('"').unwrap();
        out.push(format!("{}+{}", off, e2));
        rest = &rest[e2..];
    }
    if out.is_empty() { "-".into() } else { out.join(",") }
}

fn tail(buf: &RecvBuf) -> String {
    format!(
        "nread={} lg={} av={} rd={} segs={}",
        buf.nread(),
        buf.largest_offset(),
        buf.available(),
        if buf.is_readable() { 1 } else { 0 },
        segs_of(buf)
    )
}

struct Limited(BytesMut, usize);
unsafe impl BufMut for Limited {
    fn remaining_mut(&self) -> usize { self.1 }
    unsafe fn advance_mut(&mut self, cnt: usize) { unsafe { self.0.advance_mut(cnt) }; self.1 -= cnt; }
    fn chunk_mut(&mut self) -> &mut bytes::buf::UninitSlice {
        if self.0.capacity() == self.0.len() { self.0.reserve(64); }
        let n = self.1;
        let c = self.0.chunk_mut();
        let l = c.len().min(n);
        &mut c[..l]
    }
}

pub fn one_case(rng: &mut Rng, sink: &mut Sink, exhaustive: Option<&[(u8, u64, u64)]>) {
    const AL: &[u8] = b"abcdefghijklmnopqrstuvwxyz0123456789";
    let len = match rng.below(10) { 0 => rng.range(1, 4), 1..=6 => rng.range(5, 48), 7 | 8 => rng.range(49, 300), _ => rng.range(301, 3000) } as usize;
    let src: Vec<u8> = (0..len).map(|_| *rng.pick(AL)).collect();
    let src = Bytes::from(src);
    let mut buf = RecvBuf::default();
    let mut out: Vec<u8> = vec![];
    let mut charged = 0u64;
    let mut overlaps = 0;
    let nops = rng.range(3, 40);
    let mut ops: Vec<(u8, u64, u64)> = vec![];
    if let Some(e) = exhaustive { ops.extend_from_slice(e); } else {
        // fragment boundaries biased to a small set of cut points so that exact-adjacency,
        // same-offset and containment cases are common
        let ncuts = rng.range(2, 8);
        let mut cuts: Vec<u64> = (0..ncuts).map(|_| rng.below(len as u64 + 1)).collect();
        cuts.push(0); cuts.push(len as u64);
        for _ in 0..nops {
            match rng.below(10) {
                0..=5 => {
                    let (a, b) = if rng.chance(3, 4) { (*rng.pick(&cuts), *rng.pick(&cuts)) } else { (rng.below(len as u64 + 1), rng.below(len as u64 + 1)) };
                    let (a, b) = if a <= b { (a, b) } else { (b, a) };
                    ops.push((0, a, b - a));
                }
                6..=8 => { let cap = if rng.chance(1, 5) { 0 } else { rng.below(len as u64 + 2) }; ops.push((1, cap, 0)); }
                _ => ops.push((2, 0, 0)),
            }
        }
        // cooperative suffix in half the cases: deliver everything, read everything
        if rng.chance(1, 2) { ops.push((0, 0, len as u64)); ops.push((1, len as u64 + 1, 0)); }
    }
    for (k, a, b) in ops {
        match k {
            0 => {
                let data = src.slice(a as usize..(a + b) as usize);
                let before_lg = buf.largest_offset();
                sink.pending(&format!("recv {} {}", a, hex(&data)));
                let ret = buf.recv(a, data.clone());
                charged += ret;
                if ret == 0 && b > 0 && a < before_lg { overlaps += 1; }
                sink.line(&format!("recv {} {}", a, hex(&data)), &format!("ret={} {}", ret, tail(&buf)));
            }
            1 => {
                let mut dst = Limited(BytesMut::new(), a as usize);
                let n = buf.try_read(&mut dst);
                let got = dst.0.to_vec();
                if n != got.len() { sink.monitor_fail("try_read_len", &format!("returned {} wrote {}", n, got.len())); }
                out.extend_from_slice(&got);
                sink.line(&format!("read {}", a), &format!("out={} {}", hex(&got), tail(&buf)));
            }
            _ => {
                match buf.try_next() {
                    Some(d) => { out.extend_from_slice(&d); sink.line("next", &format!("out={} {}", hex(&d), tail(&buf))); }
                    None => sink.line("next", &format!("out=none {}", tail(&buf))),
                }
            }
        }
        // independent monitors (never consult the model)
        if out.len() as u64 != buf.nread() || out[..] != src[..out.len()] {
            sink.monitor_fail("read_prefix", "bytes read are not the prefix of the source");
        }
        if charged != buf.largest_offset() {
            sink.monitor_fail("fresh_sums_to_largest", &format!("sum of returns {} != largest {}", charged, buf.largest_offset()));
        }
    }
    if overlaps > 0 && !out.is_empty() { sink.nontrivial(); }
}

pub fn run(o: &Opts) {
    let mut sink = Sink::new_with_stats(&o.out, &o.stats);
    for i in 0..o.cases {
        if let Some(k) = o.only_case { if k != i { continue; } }
        let mut rng = Rng::new(o.seed, i);
        sink.case(&format!("{}", i));
        one_case(&mut rng, &mut sink, None);
    }
    sink.finish(&o.stats, "random histories of recv(slice of src)/read(cap)/next on a real RecvBuf; non-trivial = at least one fully-overlapping fragment arrived and at least one byte was read; distinct by hash of the full transcript of the case");
}

pub const RUNS: &[(&str, fn(&Opts))] = &[("C08", run)];
